"""Terms of the line protocol and their meaning on the Python side.

A *term* is a nested Python list of strings that mirrors the s-expression sent to the Lean
drivers (see lean/Driver/Proto.lean).  `sx(term)` serialises it; the functions below turn the
same term into real tinyflux objects (queries, points, update arguments).  The vocabulary of user
functions here is implemented identically in Proto.lean.
"""
import re
from datetime import datetime, timedelta, timezone
from fractions import Fraction

UTC = timezone.utc
EPOCH = datetime(1970, 1, 1, tzinfo=UTC)
US = timedelta(microseconds=1)


# ---------------------------------------------------------------------------
# atoms
# ---------------------------------------------------------------------------


def hx(s: str) -> str:
    return "x" + s.encode("utf-8").hex()


def unhx(a: str) -> str:
    assert a[0] == "x", a
    return bytes.fromhex(a[1:]).decode("utf-8")


def us_of(dt: datetime) -> int:
    """exact integer microseconds since the epoch of an aware datetime"""
    return (dt - EPOCH) // US


def dt_of(us: int) -> datetime:
    return EPOCH + timedelta(microseconds=us)


def num_atom(v) -> str:
    if v is None:
        return "~"
    if isinstance(v, float):
        if v == float("inf"):
            return "inf"
        if v == float("-inf"):
            return "-inf"
    f = Fraction(v)
    return str(f.numerator) if f.denominator == 1 else f"{f.numerator}/{f.denominator}"


def parse_num(a: str):
    """`5` -> int 5, `3/2` -> float 1.5, `5/1` -> float 5.0, inf/-inf"""
    if a == "~":
        return None
    if a == "inf":
        return float("inf")
    if a == "-inf":
        return float("-inf")
    if "/" in a:
        n, d = a.split("/")
        return int(n) / int(d)
    return int(a)


def opt_str(a: str):
    return None if a == "~" else unhx(a)


def time_atom_strip(a: str) -> str:
    """`123@-420` / `123@naive` -> `123` (what the Lean side sees: the instant)"""
    return a.split("@")[0]


def parse_time_atom(a: str):
    """instant with an optional presentation: `123`, `123@<offset minutes>`, `123@naive`"""
    if "@" not in a:
        return dt_of(int(a))
    us, pres = a.split("@")
    dt = dt_of(int(us))
    if pres == "naive":
        # the local wall clock reading of that instant in the process's zone, with the PEP 495 `fold`
        # flag that makes it denote this instant (astimezone() without a zone yields a fixed offset and
        # loses the fold, so go through the zone database by name)
        import os

        tz = os.environ.get("TZ")
        if tz:
            try:
                from zoneinfo import ZoneInfo

                return dt.astimezone(ZoneInfo(tz)).replace(tzinfo=None)
            except Exception:
                pass
        return dt.astimezone().replace(tzinfo=None)
    return dt.astimezone(_zone(pres))


def _zone(pres):
    """`<offset minutes>` -> fixed-offset zone; `zi:<name>` -> rule-based zone from the tz database"""
    if pres.startswith("zi:"):
        from zoneinfo import ZoneInfo

        return ZoneInfo(pres[3:])
    return timezone(timedelta(minutes=int(pres)))


def parse_val(a: str):
    if a == "~":
        return None
    k, rest = a[0], a[2:]
    if k == "s":
        return unhx(rest)
    if k == "n":
        return parse_num(rest)
    if k == "t":
        return parse_time_atom(rest)
    raise ValueError(a)


def sx(term) -> str:
    """serialise for the Lean drivers: time presentations (`@...`) and the query type of a
    `noop` are stripped — the Lean side sees instants and a single `noop`."""
    if isinstance(term, str):
        if term in ("!m", "!r"):
            return "!"          # the Lean side knows one kind of offending element
        if term.startswith("now:"):
            return term[4:]
        return term.split("@")[0] if "@" in term else term
    if term and term[0] == "noop":
        return "(noop)"
    if len(term) == 4 and term[0] == "c" and term[1] == "addus":
        term = term[:3]
    return "(" + " ".join(sx(t) for t in term) + ")"


def sx_keep_noop(term) -> str:
    """like `sx`, but a `noop` keeps its query type (for the query-equality model)"""
    if isinstance(term, str):
        return term.split("@")[0] if "@" in term else term
    return "(" + " ".join(sx_keep_noop(t) for t in term) + ")"


# ---------------------------------------------------------------------------
# vocabulary of user functions
# ---------------------------------------------------------------------------


def _ascii_lower(s):
    return "".join(chr(ord(c) + 32) if "A" <= c <= "Z" else c for c in s)


def _ascii_upper(v):
    if not isinstance(v, str):
        raise TypeError("upper: not a str")
    return "".join(chr(ord(c) - 32) if "a" <= c <= "z" else c for c in v)


def _isnum(v):
    return isinstance(v, (int, float)) and not isinstance(v, bool)


def _t_isnone(v):
    return v is None


def _t_isstr(v):
    return isinstance(v, str)


def _t_true(v):
    return True


def _t_false(v):
    return False


def _t_numgt(v, a):
    return _isnum(v) and v > a


def _t_streq(v, a):
    return isinstance(v, str) and v == a


def _t_twicelen(v):
    # a test function need not return a bool: a truthy value with bit 0 clear (2, 4, ...) for a non-empty str
    return 2 * len(v) if isinstance(v, str) else 0


def _t_timege(v, a):
    return isinstance(v, datetime) and v >= a


TEST_FNS = {
    "isnone": _t_isnone,
    "isstr": _t_isstr,
    "true": _t_true,
    "false": _t_false,
    "numgt": _t_numgt,
    "streq": _t_streq,
    "timege": _t_timege,
    "twicelen": _t_twicelen,
}


def _m_id(v):
    return v


def _m_raise(v):
    return 1 // 0


def _m_strlen(v):
    if not isinstance(v, str):
        raise TypeError("strlen")
    return len(v)


def _m_neg(v):
    if not _isnum(v):
        raise TypeError("neg")
    return -v


def map_fn(name, args):
    if name == "id":
        return _m_id
    if name == "raise":
        return _m_raise
    if name == "strlen":
        return _m_strlen
    if name == "neg":
        return _m_neg
    if name == "upper":
        return _ascii_upper
    if name == "addus":
        k = args[0]

        def addus(v, k=k):
            if not isinstance(v, datetime):
                raise TypeError("addus")
            return v + timedelta(microseconds=int(k))

        return addus
    if name == "const":
        c = args[0]
        return lambda v, c=c: c
    raise ValueError(name)


# ---------------------------------------------------------------------------
# queries
# ---------------------------------------------------------------------------

_OPS = {
    "eq": lambda b, v: b == v,
    "ne": lambda b, v: b != v,
    "lt": lambda b, v: b < v,
    "le": lambda b, v: b <= v,
    "gt": lambda b, v: b > v,
    "ge": lambda b, v: b >= v,
}


def _apply_leaf(base, leaf):
    k = leaf[0]
    if k == "cmp":
        return _OPS[leaf[1]](base, parse_val(leaf[2]))
    if k == "exists":
        return base.exists()
    if k == "re":
        lit = re.escape(unhx(leaf[2]))
        flags = re.I if leaf[3] == "i" else 0
        return base.matches(lit, flags) if leaf[1] == "match" else base.search(lit, flags)
    if k == "test":
        f = TEST_FNS[leaf[1]]
        args = [parse_val(a) for a in leaf[2:]]
        if leaf[1] == "timege" and len(leaf[2]) % 2 == 0:
            # the standard library's operator as the user's test function (same meaning on datetimes)
            import operator

            f = operator.ge
        return base.test(f, *args)
    if k == "map":
        g = map_fn(leaf[1][0], [parse_val(a) for a in leaf[1][1:]])
        return _apply_leaf(base.map(g), leaf[2])
    raise ValueError(leaf)


def build_query(t, tf):
    """term -> tinyflux query object; `tf` is the imported tinyflux module"""
    k = t[0]
    if k == "and":
        return build_query(t[1], tf) & build_query(t[2], tf)
    if k == "or":
        return build_query(t[1], tf) | build_query(t[2], tf)
    if k == "not":
        return ~build_query(t[1], tf)
    if k == "time":
        return _apply_leaf(tf.TimeQuery(), t[1])
    if k == "meas":
        return _apply_leaf(tf.MeasurementQuery(), t[1])
    if k == "tag":
        return _apply_leaf(tf.TagQuery()[unhx(t[1])], t[2])
    if k == "field":
        return _apply_leaf(tf.FieldQuery()[unhx(t[1])], t[2])
    if k == "noop":
        kind = t[1] if len(t) > 1 else "time"
        cls = {
            "time": tf.TimeQuery,
            "meas": tf.MeasurementQuery,
            "tag": tf.TagQuery,
            "field": tf.FieldQuery,
        }[kind]
        return cls().noop()
    raise ValueError(t)


# ---------------------------------------------------------------------------
# points
# ---------------------------------------------------------------------------


class NotAPoint:
    """stands for a non-Point element inside insert_multiple"""


class MutatedPoint:
    """marker: a valid Point whose tag dict is mutated to an invalid state after construction"""


class RaisingIterable:
    """marker: the caller's iterable raises at this position"""


_SUBCLASS = {}


def point_subclass(tf):
    """a user subclass of Point (applications attach behaviour to their points)"""
    if tf not in _SUBCLASS:
        _SUBCLASS[tf] = type("SensorPoint", (tf.Point,), {"describe": lambda self: f"{self.measurement}@{self.time}"})
    return _SUBCLASS[tf]


def build_point(t, tf, cls=None):
    if t == "!":
        return NotAPoint()
    if t == "!m":
        p = tf.Point(time=EPOCH + timedelta(days=18000), tags={"a": "x"})
        p.tags["a"] = 5          # bypasses validation: insert must reject it
        return p
    if t == "!r":
        return RaisingIterable()
    assert t[0] == "pt"
    tags = {unhx(k): opt_str(v) for k, v in t[3][1:]}
    fields = {unhx(k): parse_num(v) for k, v in t[4][1:]}
    if t[1].startswith("now:"):
        # a point without a time (only a bare Point() has none): the database stamps it on insert
        p = (cls or tf.Point)()
        p.measurement = unhx(t[2])
        p.tags = tags
        p.fields = fields
        return p
    return (cls or tf.Point)(
        time=parse_time_atom(t[1]), measurement=unhx(t[2]), tags=tags, fields=fields
    )


# ---------------------------------------------------------------------------
# update arguments
# ---------------------------------------------------------------------------


def _pick(t, n):
    """a deterministic choice among n styles of passing the same argument, spread evenly over terms"""
    import zlib

    return zlib.crc32(repr(t).encode()) % n


def upd_time(t):
    if t == "~":
        return None
    if t[0] == "s":
        return parse_time_atom(t[1])
    name = t[1]
    if name == "addus":
        k = int(t[2])
        pres = t[3] if len(t) > 3 else None

        def f(old, k=k, pres=pres):
            r = old + timedelta(microseconds=k)
            if pres is not None:
                r = r.astimezone(_zone(pres))
            return r

        return f
    if name in ("raiseif", "valueerrorif"):
        k = int(t[2])
        exc = ZeroDivisionError if name == "raiseif" else ValueError

        def g(old, k=k, exc=exc):
            if us_of(old) == k:
                raise exc("callable raised")
            return old + US

        return g
    if name == "badtype":
        return lambda old: "not a datetime"
    raise ValueError(t)


def upd_meas(t):
    if t == "~":
        return None
    if t[0] == "s":
        return unhx(t[1])
    name = t[1]
    if name == "suffix":
        x = unhx(t[2])
        return lambda m, x=x: m + x
    if name == "raiseif":
        x = unhx(t[2])

        def g(m, x=x):
            if m == x:
                raise ZeroDivisionError("callable raised")
            return m

        return g
    if name == "badtype":
        return lambda m: 5
    raise ValueError(t)


def upd_tags(t):
    if t == "~":
        return None
    if t[0] == "s":
        return {unhx(k): opt_str(v) for k, v in t[1:]}
    name = t[1]
    if name == "const":
        d = {unhx(k): opt_str(v) for k, v in t[2:]}
        if _pick(t, 2):
            # the other common style: edit the mapping that was handed over and return it (merging it back
            # changes the same keys)
            def edit(old, d=d):
                old.update(d)
                return old

            return edit
        return lambda old, d=d: dict(d)
    if name == "copykey":
        a, b = unhx(t[2]), unhx(t[3])
        return lambda old, a=a, b=b: ({b: old[a]} if a in old else {})
    if name == "raiseifhas":
        a = unhx(t[2])

        def g(old, a=a):
            if a in old:
                raise ZeroDivisionError("callable raised")
            return {a: "set"}

        return g
    if name == "bad":
        return lambda old: {"a": 5}
    raise ValueError(t)


def upd_fields(t):
    if t == "~":
        return None
    if t[0] == "s":
        return {unhx(k): parse_num(v) for k, v in t[1:]}
    name = t[1]
    if name == "const":
        d = {unhx(k): parse_num(v) for k, v in t[2:]}
        if _pick(t, 2):
            def edit(old, d=d):
                old.update(d)
                return old

            return edit
        return lambda old, d=d: dict(d)
    if name == "inc":
        a = unhx(t[2])
        return lambda old, a=a: (
            {a: old[a] + 1} if a in old and old[a] is not None else {}
        )
    if name == "raiseifhas":
        a = unhx(t[2])

        def g(old, a=a):
            if a in old:
                raise ZeroDivisionError("callable raised")
            return {a: 1}

        return g
    if name == "bad":
        return lambda old: {"a": "str"}
    raise ValueError(t)


def unset_arg(t):
    """`(unsettags k...)` -> None | str | list; a single key is passed as a plain string
    when the term says so: `(unsettags =k)`"""
    ks = t[1:]
    if not ks:
        return None
    return [unhx(k) for k in ks]


# ---------------------------------------------------------------------------
# canonical printing (must equal Proto.lean's)
# ---------------------------------------------------------------------------


def show_opt_str(v):
    return "~" if v is None else hx(v)


def show_val(v):
    if v is None:
        return "~"
    if isinstance(v, str):
        return "s:" + hx(v)
    if isinstance(v, datetime):
        return "t:" + show_time(v)
    if isinstance(v, bool):
        return "o:bool"
    if isinstance(v, (int, float)):
        return "n:" + num_atom(v)
    return "o:" + type(v).__name__


def show_time(dt):
    """µs of the instant; a presentation that is not aware-UTC is made visible"""
    if dt is None:
        return "none"
    if dt.tzinfo is None:
        return f"{(dt.replace(tzinfo=UTC) - EPOCH) // US}@naive"
    off = dt.utcoffset()
    us = us_of(dt)
    if off != timedelta(0):
        return f"{us}@{int(off.total_seconds() // 60)}"
    if dt.tzinfo != UTC:
        # at offset zero, but not the UTC zone (Europe/London in winter, ZoneInfo("UTC"), ...)
        return f"{us}@tz:{dt.tzinfo}"
    return str(us)


def show_field_val(v):
    if v is None:
        return "~"
    if isinstance(v, bool) or not isinstance(v, (int, float)):
        return "!" + type(v).__name__
    return num_atom(v)


def show_tag_val(v):
    if v is None:
        return "~"
    if not isinstance(v, str):
        return "!" + type(v).__name__
    return hx(v)


def show_point(p):
    tg = ";".join(
        f"{hx(k) if isinstance(k, str) else '!' + type(k).__name__}={show_tag_val(v)}"
        for k, v in sorted(p.tags.items(), key=lambda kv: str(kv[0]))
    )
    fl = ";".join(
        f"{hx(k) if isinstance(k, str) else '!' + type(k).__name__}={show_field_val(v)}"
        for k, v in sorted(p.fields.items(), key=lambda kv: str(kv[0]))
    )
    m = hx(p.measurement) if isinstance(p.measurement, str) else "!" + type(p.measurement).__name__
    return f"({show_time(p.time)}|{m}|{tg}|{fl})"


def show_list(f, l):
    return "[" + ",".join(f(x) for x in l) + "]"


def err_class(e: BaseException) -> str:
    if isinstance(e, ValueError):
        return "value"
    if isinstance(e, TypeError):
        return "type"
    if isinstance(e, OSError):
        return "os"
    return "user"
