"""C05: the row codec. Real `Point._serialize_to_list` / `_deserialize_from_list` against the Lean
codec model (same cells, same decoded point) and against the specification of a round trip (identity);
plus whole-file round trips through a real CSVStorage in several dialects and encodings."""
import csv
import os
import random
import shutil
import tempfile
from fractions import Fraction

import common as C
import gen as G
import vocab as V
from engine import Finding, Result

hx = V.hx
T0 = G.T0

NUMS = [0, 1, -1, 5, 2.5, -0.0, 0.0, 5e-324, -5e-324, 2.2250738585072014e-308, 1.7976931348623157e308,
        -1.7976931348623157e308, float("inf"), float("-inf"), 2 ** 53 - 1, 2 ** 53, -(2 ** 53), 0.1, 1 / 3,
        1e22, 1e16, 123456789012345.0, -7, 10 ** 15, 15000000, 3.0]
BIG = [2 ** 53 + 1, -(2 ** 63) - 1, 10 ** 22 + 1, 2 ** 1024, -(10 ** 400)]
TIMES = [T0, T0 + 1, T0 + 999999, 0, 1, -1, -8520336000000000, 8520335999999999,  # 1700-01-01 .. 2239-12-31T23:59:59.999999
         951782400000000, 2147483648000000, 4294967296000000 - 1, 1_000_000_000_000_000 + 500000]


def rand_str(r):
    c = r.random()
    if c < 0.6:
        return r.choice(G.HARD_STRINGS)
    n = r.randint(0, 6)
    pool = "abtf_ ,;\"'\n\r\t\\é日𝄞0-9.e"
    return "".join(r.choice(pool) for _ in range(n))


def num_atom_exact(v):
    if isinstance(v, float) and v in (float("inf"), float("-inf")):
        return "inf" if v > 0 else "-inf"
    f = Fraction(v)
    return str(f.numerator) if f.denominator == 1 else f"{f.numerator}/{f.denominator}"


class Family:
    rule = ("points over adversarial text in every string slot (reserved words `_none _tag_ _field_ t_ f_ _default t f _`, "
            "empty, delimiters, quotes, CR/LF, NUL, non-BMP, leading `_`/`t`/`f`), numeric corner values (±0.0, subnormals, max, "
            "±inf, 2^53±1, 0.1, 1/3, huge ints) and timestamps at the range ends, in both prefix styles: the cells written and the "
            "point decoded by the real code are compared with the Lean codec model (given the stdlib's float/ISO texts) and with the "
            "identity; then files of such points are written and re-read through a real CSVStorage in 6 dialects x 4 encodings. "
            "Distinct = distinct (point, style); non-trivial = the point has at least one tag or field.")

    def points(self, tier, search):
        r = random.Random(C.seed() * 977 + 5)
        n = 1500 if tier == "quick" else 120000
        if search:
            n *= 2
        pts = []
        for i in range(n):
            tags, fields = {}, {}
            for _ in range(r.choice([0, 1, 1, 2, 3])):
                tags[rand_str(r)] = r.choice([None, rand_str(r), rand_str(r)])
            for _ in range(r.choice([0, 1, 1, 2])):
                v = r.choice(NUMS + [None]) if r.random() < 0.9 else r.choice(BIG)
                if r.random() < 0.15:
                    v = r.choice([r.random() * 1e6, r.randint(-10 ** 9, 10 ** 9), r.uniform(-1, 1) * 10 ** r.randint(-300, 300)])
                if v is not None and v == 0 and any(x is not None and x == 0 for x in fields.values()):
                    continue  # 0.0 and -0.0 are one key of the repr table (equal as numbers)
                fields[rand_str(r)] = v
            m = r.choice(["m", "_default", rand_str(r), rand_str(r)])
            t = r.choice(TIMES) if r.random() < 0.5 else T0 + r.randint(-10 ** 15, 10 ** 15)
            pts.append((t, m, tags, fields))
        return pts

    def term(self, pt):
        t, m, tags, fields = pt
        return ["pt", str(t), hx(m), ["tags"] + [[hx(k), "~" if v is None else hx(v)] for k, v in tags.items()],
                ["fields"] + [[hx(k), "~" if v is None else num_atom_exact(v)] for k, v in fields.items()]]

    def mkpoint(self, tf, pt):
        t, m, tags, fields = pt
        return tf.Point(time=V.dt_of(t), measurement=m, tags=dict(tags), fields=dict(fields))

    def run(self, tier, model_ok, search):
        tf = C.import_tinyflux()
        res = Result()
        pts = self.points(tier, search)
        lines, impl, meta = [], [], []
        for i, pt in enumerate(pts):
            compact = i % 2 == 1
            p = self.mkpoint(tf, pt)
            try:
                row = list(p._serialize_to_list(compact_key_prefixes=compact))
                row_s = V.show_list(hx, row)
            except Exception as e:
                row, row_s = None, "err " + type(e).__name__
            back = "err"
            if row is not None:
                try:
                    q = tf.Point()._deserialize_from_list(row)
                    back = V.show_point(q)
                except Exception as e:
                    back = "err " + type(e).__name__
            impl.append((row_s, back))
            # the stdlib conversions the model is parametric in
            reprs, parses = [], []
            seen = set()
            for k, v in pt[3].items():
                if v is None:
                    continue
                a = num_atom_exact(v)
                if a in seen:
                    continue
                seen.add(a)
                try:
                    reprs.append([a, hx(str(float(v)))])
                except OverflowError:
                    pass
            if row is not None:
                seenp = set()
                ncells = 2 + 2 * len(pt[2])
                for cell in row[ncells + 1::2]:
                    if cell in seenp:
                        continue
                    seenp.add(cell)
                    try:
                        parses.append([hx(cell), num_atom_exact(float(cell))])
                    except (ValueError, OverflowError):
                        parses.append([hx(cell), "!"])
            iso = row[0] if row is not None else "?"
            lines.append(V.sx(["codec", "1" if compact else "0", self.term(pt), ["iso", hx(iso)],
                               ["reprs"] + reprs, ["parses"] + parses]))
            meta.append((pt, compact))
        spec = C.run_driver("specdriver", lines)
        model = C.run_driver("modeldriver", lines) if model_ok else None
        nontriv = 0
        for k, (pt, compact) in enumerate(meta):
            row_s, back = impl[k]
            sback = spec[k].split("back=", 1)[1]
            if pt[2] or pt[3]:
                nontriv += 1
            if back != sback:
                if len(res.findings) < 40:
                    res.findings.append(Finding(
                        "impl-vs-spec",
                        f"point {sback} ({'compact' if compact else 'default'} prefixes) comes back as {back}",
                        dict(family="c05", point=self.term(pt), compact=compact, observed=back, expected=sback, row=row_s),
                        signature=signature(pt)))
            elif model is not None:
                mrow, mback = model[k].split(" back=", 1)
                mrow = mrow[len("row="):]
                if row_s.startswith("err"):
                    continue
                if mrow != row_s or mback != back:
                    if len(res.findings) < 40:
                        res.findings.append(Finding(
                            "correspondence", f"codec model differs on {sback}: impl row {row_s[:200]} back {back}; model row {mrow[:200]} back {mback}",
                            dict(family="c05", point=self.term(pt), compact=compact, observed=back, model=model[k][:500])))
        # file level
        ffind, fstats = self.file_level(tf, pts, tier)
        res.findings += ffind
        lfind, lnote = self.locale_scenario()
        res.findings += lfind
        res.notes.append(lnote)
        res.evaluations = len(lines) + fstats["files"]
        res.distinct = nontriv
        res.traces = len(lines) if model is not None else 0
        res.coverage = {"points": len(pts), "file_level": fstats, "exhaustive": False}
        res.samples = [dict(line=lines[i][:400], impl=list(impl[i])) for i in (0, len(lines) // 2, len(lines) - 1)]
        # known findings first in the list would hide others: keep unknown ones first
        res.findings.sort(key=lambda f: (f.signature is not None, f.kind == "correspondence"))
        return res

    def file_level(self, tf, pts, tier):
        r = random.Random(C.seed() + 55)
        encs = [None, "utf-8", "utf-16", "latin-1", "utf-8-sig"]
        dials = [{}, {"delimiter": ";"}, {"delimiter": "\t"}, {"quoting": csv.QUOTE_ALL}, {"quotechar": "'"},
                 {"lineterminator": "\n"}]
        nfiles = 96 if tier == "quick" else 2880
        findings = []
        d = tempfile.mkdtemp(prefix="vf_c05_")
        stats = {"files": 0, "points": 0, "skipped_unencodable": 0}
        try:
            for i in range(nfiles):
                enc, dial = encs[i % 5], dials[(i // 5) % 6]
                tzctx = C.ProcessTZ(C.LOCAL_ZONES[i % 4] if i % 3 == 1 else None)     # the process's local zone
                tzctx.__enter__()
                sample = [pt for pt in r.sample(pts, 6) if signature(pt) is None]
                if enc == "latin-1":
                    ok = []
                    for pt in sample:
                        try:
                            (pt[1] + "".join(pt[2]) + "".join(v or "" for v in pt[2].values()) + "".join(pt[3])).encode("latin-1")
                            ok.append(pt)
                        except UnicodeEncodeError:
                            stats["skipped_unencodable"] += 1
                    sample = ok
                if i % 24 == 5:
                    # a text longer than the csv module's default field size limit (131072 characters)
                    sample = sample[:2] + [(T0, "m", {"long": "y" * 131073}, {})]
                path = os.path.join(d, f"f{i}.csv")
                other = None
                try:
                    if i % 3 == 0:
                        # a second database, under another dialect, is open and written to at the same time
                        odial = dials[(i // 4 + 1 + i % 5) % 6]
                        other = tf.TinyFlux(os.path.join(d, f"o{i}.csv"), **odial)
                        other.insert(tf.Point(time=V.dt_of(T0), tags={"o": "a,b;c|d\te'f"}))
                    db = tf.TinyFlux(path, encoding=enc, **dial, **({"access_mode": "w+"} if i % 8 == 7 else {}))
                    if other is not None:
                        other.insert(tf.Point(time=V.dt_of(T0 + 1), tags={"o": "a,b;c|d\te'f"}))
                    for j, pt in enumerate(sample):
                        db.insert(self.mkpoint(tf, pt), compact_key_prefixes=(j % 2 == 0))
                    extra_tag = None
                    if enc == "latin-1" and sample and i % 2 == 0:
                        # a rewrite that introduces a text the file's encoding cannot hold: either it is refused (the
                        # rows stay as they were) or the text comes back as written
                        try:
                            db.update_all(tags={"cur": "5 \u20ac menu"})
                            extra_tag = ("cur", "5 \u20ac menu")
                        except (UnicodeError, ValueError):
                            pass
                    if i % 2 == 1:
                        # the rows also survive being rewritten (remove / update stream every kept row through
                        # deserialize -> serialize, twice here) in the same session
                        for tagk in ("__kill1", "__kill2"):
                            db.insert(tf.Point(time=V.dt_of(T0), tags={tagk: "1"}))
                        db.remove(tf.TagQuery()["__kill1"] == "1")
                        mid = [V.show_point(p) for p in db.all(sorted=False)][:-1]
                        db.remove(tf.TagQuery()["__kill2"] == "1")
                        if mid != [V.show_point(self.mkpoint(tf, pt)) for pt in sample]:
                            raise AssertionError("after a rewrite in the same session: " + str(mid)[:300])
                    if other is not None:
                        other.insert(tf.Point(time=V.dt_of(T0 + 2), tags={"o": "a,b;c|d\te'f"}))
                        got_o = [p.tags.get("o") for p in other.all(sorted=False)]
                        other.close()
                        other = None
                        if got_o != ["a,b;c|d\te'f"] * 3:
                            raise AssertionError(f"a second database open at the same time (dialect {odial}) read back {got_o}")
                    db.close()
                    db2 = tf.TinyFlux(path, encoding=enc, access_mode="r", **dial)
                    got = [V.show_point(p) for p in db2.all(sorted=False)]
                    db2.close()
                except Exception as e:
                    got = ["exc " + type(e).__name__ + ": " + str(e)[:80]]
                    if other is not None:
                        try:
                            other.close()
                        except Exception:
                            pass
                tzctx.__exit__()
                exp = [V.show_point(self.mkpoint(tf, pt)) for pt in sample]
                if locals().get("extra_tag"):
                    def with_tag(pt):
                        q = self.mkpoint(tf, pt)
                        q.tags[extra_tag[0]] = extra_tag[1]
                        return q
                    exp = [V.show_point(with_tag(pt)) for pt in sample]
                stats["files"] += 1
                stats["points"] += len(sample)
                if got != exp and len(findings) < 5:
                    sig = None
                    texts = "".join(pt[1] + "".join(pt[2]) + "".join(v or "" for v in pt[2].values()) + "".join(pt[3])
                                    for pt in sample)
                    if "lineterminator" in dial and "\r" not in dial["lineterminator"] and "\r" in texts:
                        sig = "cr-in-text-with-lf-lineterminator"
                    elif any(len(x) > 131072 for pt in sample for x in [pt[1], *pt[2], *(v or "" for v in pt[2].values()), *pt[3]]):
                        sig = "text-longer-than-csv-field-limit"
                        got, exp = [g[:200] for g in got], [e[:200] for e in exp]
                    findings.append(Finding(
                        "impl-vs-spec", f"file round trip (encoding={enc}, dialect={dial}): wrote {exp} read {got}"[:900],
                        dict(family="c05-file", encoding=enc, dialect={k: v for k, v in dial.items()},
                             points=[self.term(pt) for pt in sample], observed=got, expected=exp), signature=sig))
        finally:
            shutil.rmtree(d, ignore_errors=True)
        return findings, stats

    def locale_scenario(self):
        """a database opened with the default encoding in a process whose locale encoding is not UTF-8 (LC_ALL=C, UTF-8
        mode off): every point an insert accepted — before and after a rewrite in the same session — comes back from a fresh
        database object over the same file"""
        import subprocess
        import sys as _sys

        script = r'''
import os, sys, tempfile
sys.path.insert(0, os.environ["VERIF_REPO_PATH"])
import tinyflux as tf
from datetime import datetime, timezone, timedelta
d = tempfile.mkdtemp()
path = os.path.join(d, "db.csv")
db = tf.TinyFlux(path)
t0 = datetime(2020, 1, 1, tzinfo=timezone.utc)
accepted = []
def put(i, text):
    p = tf.Point(time=t0 + timedelta(seconds=i), measurement="m", tags={"name": text})
    try:
        db.insert(p); accepted.append(text)
    except UnicodeError:
        pass
put(0, "plain"); put(1, "caf\u00e9"); put(2, "other")
db.remove(tf.TagQuery().name == "other")
put(3, "na\u00efve"); put(4, "plain2")
db.update_all(tags={"seen": "1"})
put(5, "\u00fcber")
db.close()
accepted = [a for a in accepted if a != "other"]
try:
    got = [p.tags["name"] for p in tf.TinyFlux(path).all(sorted=False)]
except Exception as e:
    got = "reopen raised " + type(e).__name__
print(repr((accepted, got)))
sys.exit(0 if got == accepted else 1)
'''
        env = dict(os.environ, LC_ALL="C", LANG="C", PYTHONUTF8="0", PYTHONCOERCECLOCALE="0", VERIF_REPO_PATH=C.REPO)
        try:
            pr = subprocess.run([_sys.executable, "-c", script], env=env, capture_output=True, text=True, timeout=120)
        except Exception as e:
            return [], f"locale scenario not run: {type(e).__name__}"
        if pr.returncode == 0:
            return [], "locale scenario: ok " + pr.stdout.strip()[:120]
        return [Finding("impl-vs-spec", "default encoding under a non-UTF-8 locale (LC_ALL=C, UTF-8 mode off): accepted points vs "
                        "what a fresh database reads back: " + (pr.stdout.strip() or pr.stderr.strip()[-300:])[:400],
                        dict(family="c05-locale", observed=pr.stdout.strip()[:300], expected="accepted == read back"))], "locale scenario: FAILED"

    def replay_known(self, k):
        tf = C.import_tinyflux()
        w = k.get("witness")
        if not w:
            return False
        if w.get("file"):
            d = tempfile.mkdtemp(prefix="vf_c05k_")
            try:
                path = os.path.join(d, "k.csv")
                pts = [V.build_point(t, tf) for t in w["points"]]
                if w.get("long_text"):
                    pts.append(tf.Point(time=V.dt_of(T0), tags={"long": "y" * int(w["long_text"])}))
                exp = [V.show_point(p) for p in pts]
                try:
                    db = tf.TinyFlux(path, encoding=w.get("encoding"), **w.get("dialect", {}))
                    for p in pts:
                        db.insert(p)
                    db.close()
                    db2 = tf.TinyFlux(path, encoding=w.get("encoding"), access_mode="r", **w.get("dialect", {}))
                    got = [V.show_point(p) for p in db2.all(sorted=False)]
                    db2.close()
                except Exception:
                    return True
                return got != exp
            finally:
                shutil.rmtree(d, ignore_errors=True)
        p = V.build_point(w["point"], tf)
        row = list(p._serialize_to_list(compact_key_prefixes=w.get("compact", False)))
        q = tf.Point()._deserialize_from_list(row)
        return V.show_point(q) != V.show_point(p)


def signature(pt):
    t, m, tags, fields = pt
    if any(v == "_none" for v in tags.values()):
        return "sentinel-text-as-tag-value"
    for v in fields.values():
        if v is None or isinstance(v, float):
            continue
        try:
            if float(v) != v:
                return "integer-not-representable-as-float"
        except OverflowError:
            return "integer-not-representable-as-float"
    return None


def replay(payload):
    tf = C.import_tinyflux()
    if payload.get("family") == "c05-locale":
        f, note = Family().locale_scenario()
        print(f[0].summary if f else note)
        return bool(f)
    if payload.get("family") == "c05-file":
        print("file-level round trip; see payload for the configuration and points")
        return True
    p = V.build_point(payload["point"], tf)
    try:
        row = list(p._serialize_to_list(compact_key_prefixes=payload.get("compact", False)))
        q = tf.Point()._deserialize_from_list(row)
        got = V.show_point(q)
    except Exception as e:
        row, got = None, "err " + type(e).__name__
    print(f"row: {row}\nwritten: {V.show_point(p)}\nread:    {got}")
    return got != V.show_point(p)
