"""C14: the battery of wrongly-typed (and well-typed) values x slots x API entry points on the real
code, against the generated acceptance predicates (Model) and `wellTyped` (Spec); after every
accepted store the types of everything `all()` returns are inspected, in both storages."""
import os
import shutil
import tempfile
from datetime import datetime, timezone

import common as C
import vocab as V
from engine import Finding, Result

T = datetime(2020, 1, 1, tzinfo=timezone.utc)
VALUES = {
    "none": [None], "bool": [True, False], "int": [5, 0, -3], "float": [2.5, 0.0, float("inf")],
    "str": ["s", "", "_none"], "bytes": [b"x"], "list": [[1], []], "dict": [{"a": 1}, {}],
    "datetime": [T], "other": [object(), {1, 2}, (1, 2), 3 + 4j],
}
SLOTS = ["time", "measurement", "tag_key", "tag_value", "field_key", "field_value", "tags", "fields"]
ENTRIES = ["constructor", "setter", "insert", "update_static", "update_callable", "update_callable_indexed",
           "update_callable_same_key", "update_callable_later_point", "update_static_pairs", "update_static_both",
           "insert_same_object_twice", "update_static_falsy"]


def hashable(v):
    try:
        hash(v)
        return True
    except TypeError:
        return False


def kw_for(slot, v):
    """point-data keyword carrying value v in the given slot"""
    if slot == "time":
        return {"time": v}
    if slot == "measurement":
        return {"measurement": v}
    if slot == "tag_key":
        return {"tags": {v: "x"}}
    if slot == "tag_value":
        return {"tags": {"k": v}}
    if slot == "field_key":
        return {"fields": {v: 1}}
    if slot == "field_value":
        return {"fields": {"k": v}}
    # the set itself: a dict stands for "a mapping" — give it valid contents for the slot
    if slot == "tags":
        return {"tags": ({"a": "x"} if isinstance(v, dict) and v else v)}
    return {"fields": ({"a": 1} if isinstance(v, dict) and v else v)}


def stored_types_ok(db):
    """every value `all()` returns is well-typed"""
    for p in db.all(sorted=False):
        s = V.show_point(p)
        if "!" in s or "@naive" in s:
            return False, s
        if not isinstance(p.time, datetime):
            return False, s
    return True, None


class Family:
    rule = ("every API entry point that accepts point data (Point constructor, the four attribute setters, insert of a point "
            "whose dicts were mutated after construction, static update/update_all arguments, update callables) x every slot "
            "(time, measurement, tag key, tag value, field key, field value, the tag/field set itself) x values of ten Python "
            "types (None, bool, int, float, str, bytes, list, dict, datetime, others: object, set, tuple, complex), several "
            "values per type incl. falsy ones, in both storages; outcome (raised ValueError/TypeError or stored) compared with "
            "the generated acceptance predicate and with Spec.wellTyped; after every stored value the types of everything "
            "all() returns are checked. Distinct = distinct (entry, slot, value); non-trivial = the value is ill-typed.")

    def trial(self, tf, storage, entry, slot, v, workdir):
        """returns 'accept' | 'reject:<cls>' | 'skip', and a problem string if stored data is ill-typed"""
        from tinyflux.storages import MemoryStorage

        if slot in ("tag_key", "field_key") and not hashable(v):
            return "skip", None
        path = os.path.join(workdir, "d.csv")
        if os.path.exists(path):
            os.remove(path)
        db = tf.TinyFlux(storage=MemoryStorage) if storage == "mem" else tf.TinyFlux(path)
        try:
            base = tf.Point(time=T, measurement="m", tags={"a": "x"}, fields={"f": 1})
            try:
                if entry == "constructor":
                    p = tf.Point(**dict({"time": T}, **kw_for(slot, v)))
                    db.insert(p)
                elif entry == "setter":
                    p = base
                    kw = kw_for(slot, v)
                    for k, val in kw.items():
                        setattr(p, k, val)
                    db.insert(p)
                elif entry == "insert":
                    p = base
                    if slot == "tag_key":
                        p.tags[v] = "x"
                    elif slot == "tag_value":
                        p.tags["k"] = v
                    elif slot == "field_key":
                        p.fields[v] = 1
                    elif slot == "field_value":
                        p.fields["k"] = v
                    else:
                        return "skip", None
                    db.insert(p)
                elif entry == "update_static":
                    db.insert(base)
                    kw = kw_for(slot, v)
                    if not any(bool(x) for x in kw.values()):
                        return "skip", None       # a falsy static argument means "not given"
                    db.update_all(**kw)
                elif entry == "update_callable":
                    db.insert(base)
                    kw = kw_for(slot, v)
                    db.update_all(**{k: (lambda old, val=val: val) for k, val in kw.items()})
                elif entry == "update_callable_indexed":
                    # update (not update_all) of a strict subset through a valid index
                    db.insert(base)
                    db.insert(tf.Point(time=T, measurement="m", tags={"a": "other"}, fields={"f": 2}))
                    kw = kw_for(slot, v)
                    db.update(tf.TagQuery().a == "x", **{k: (lambda old, val=val: val) for k, val in kw.items()})
                elif entry == "update_callable_same_key":
                    # the callable overwrites an existing key: `True == 1`, `False == 0` must not slip through
                    if slot not in ("tag_value", "field_value"):
                        return "skip", None
                    db.insert(tf.Point(time=T, measurement="m", tags={"k": "x"}, fields={"k": 1, "z": 0}))
                    if slot == "tag_value":
                        db.update_all(tags=lambda old, val=v: {"k": val})
                    else:
                        db.update_all(fields=lambda old, val=v: {"k": val, "z": (val if isinstance(val, bool) and not val else 0)})
                elif entry == "update_callable_later_point":
                    # the callable answers a valid value for the first point and the value under test for a later
                    # one — for True/False the valid value is the equal number 1/0 (same hash), so a validation
                    # remembered per distinct result must not let the bool through
                    if slot not in ("tag_value", "field_value"):
                        return "skip", None
                    # (the two points carry the same sets; the callable tells them apart by counting its calls)
                    db.insert(tf.Point(time=T, measurement="m", tags={"k": "x"}, fields={"k": 1}))
                    db.insert(tf.Point(time=T, measurement="m", tags={"k": "x"}, fields={"k": 1}))
                    calls = []
                    if slot == "tag_value":
                        db.update_all(tags=lambda old, val=v: (calls.append(1), {"k": ("s" if len(calls) == 1 else val)})[1])
                    else:
                        good = (1 if v is True else 0 if v is False else 5)
                        db.update_all(fields=lambda old, val=v, good=good: (
                            calls.append(1), {"k": (good if len(calls) == 1 else val), "level": 1})[1])
                elif entry == "update_static_both":
                    # a valid static value for the *other* set in the same call must not switch the check off
                    if slot not in ("tag_key", "tag_value", "field_key", "field_value"):
                        return "skip", None
                    db.insert(base)
                    kw = kw_for(slot, v)
                    if not any(bool(x) for x in kw.values()):
                        return "skip", None
                    other = {"fields": {"ok": 1}} if "tags" in kw else {"tags": {"ok": "yes"}}
                    db.update_all(**kw, **other)
                elif entry == "update_static_falsy":
                    # a falsy value of the wrong type (0, "", [], False, 0.0) next to a valid argument: `None` means
                    # "not given", nothing else does
                    if slot not in ("time", "measurement", "tags", "fields") or v is None or bool(v):
                        return "skip", None
                    db.insert(base)
                    other = {"fields": {"ok": 1}} if slot != "fields" else {"tags": {"ok": "yes"}}
                    db.update_all(**{slot: v}, **other)
                elif entry == "insert_same_object_twice":
                    # a generator hands over the same Point object twice, editing it in between (a reused row buffer)
                    # (CSV only: MemoryStorage holds the caller's object, which the caller then edits)
                    if slot not in ("tag_value", "field_value") or storage == "mem":
                        return "skip", None
                    p = tf.Point(time=T, measurement="m", tags={"k": "x"}, fields={"k": 1})

                    def rows(p=p, val=v):
                        yield p
                        if slot == "tag_value":
                            p.tags["k"] = val
                        else:
                            p.fields["k"] = val
                        yield p

                    db.insert_multiple(rows())
                elif entry == "update_static_pairs":
                    # a static argument must be a mapping: an iterable of pairs is not one (and is not validated
                    # like one), whatever it carries
                    if slot in ("time", "measurement", "tags", "fields"):
                        return "skip", None
                    db.insert(base)
                    pairs = {"tag_key": [(v, "x")], "tag_value": [("k", v)], "field_key": [(v, 1)], "field_value": [("k", v)]}[slot]
                    forms = [pairs, tuple(pairs), iter(pairs)]
                    form = forms[len(repr(v)) % 3]
                    if slot.startswith("tag"):
                        db.update_all(tags=form)
                    else:
                        db.update_all(fields=form)
                outcome = "accept"
            except (ValueError, TypeError) as e:
                outcome = "reject:" + type(e).__name__
            except Exception as e:
                outcome = "error:" + type(e).__name__
            try:
                ok, bad = stored_types_ok(db)
            except Exception as e:
                ok, bad = False, "all() raised " + type(e).__name__
            return outcome, (None if ok else bad)
        finally:
            try:
                db.close()
            except Exception:
                pass

    def run(self, tier, model_ok, search):
        tf = C.import_tinyflux()
        res = Result()
        work = tempfile.mkdtemp(prefix="vf_c14_")
        trials = []
        try:
            for storage in ("mem", "csv"):
                for entry in ENTRIES:
                    for slot in SLOTS:
                        for ty, vals in VALUES.items():
                            for v in vals:
                                out, bad = self.trial(tf, storage, entry, slot, v, work)
                                if out != "skip":
                                    trials.append((storage, entry, slot, ty, repr(v)[:40], out, bad))
        finally:
            shutil.rmtree(work, ignore_errors=True)
        lines = [f"(validate {slot} {ty})" for (_, _, slot, ty, _, _, _) in trials]
        spec = C.run_driver("specdriver", [l if l.split()[1] not in ("tags", "fields") else "(validate tag_key str)" for l in lines])
        model = C.run_driver("modeldriver", lines) if model_ok else None
        nontriv = 0
        for k, (storage, entry, slot, ty, rv, out, bad) in enumerate(trials):
            if slot in ("tags", "fields"):
                well = ty == "dict"
            else:
                well = spec[k] == "welltyped"
            if entry == "update_static_pairs":
                well = False          # not a mapping
            if not well:
                nontriv += 1
            where = f"{entry} / {slot} := {rv} ({ty}) [{storage}]"
            if bad is not None:
                res.findings.append(Finding("impl-vs-spec", f"{where}: an ill-typed value is stored and returned: {bad[:200]}",
                                            dict(family="c14", storage=storage, entry=entry, slot=slot, type=ty, value=rv, what="stored")))
            elif out == "accept" and not well and slot in ("tags", "fields") and entry.startswith("update_callable"):
                # an empty non-mapping ('' / [] / ()) returned by a callable merges nothing: nothing ill-typed can be
                # stored through it (that is what `bad` above checks); the property's slots are the six value slots
                continue
            elif out == "accept" and not well:
                res.findings.append(Finding("impl-vs-spec", f"{where}: accepted although the value is not valid for the slot",
                                            dict(family="c14", storage=storage, entry=entry, slot=slot, type=ty, value=rv, what="accepted")))
            elif out.startswith("error:"):
                res.findings.append(Finding("impl-vs-spec", f"{where}: raised {out[6:]} instead of ValueError/TypeError",
                                            dict(family="c14", storage=storage, entry=entry, slot=slot, type=ty, value=rv, what=out)))
            elif model is not None:
                macc = model[k] == "accept"
                if macc != (out == "accept") and entry not in ("update_static", "update_static_pairs"):
                    res.findings.append(Finding("correspondence", f"{where}: implementation {out}, generated predicate says {model[k]}",
                                                dict(family="c14", storage=storage, entry=entry, slot=slot, type=ty, value=rv, what="model")))
        res.findings = res.findings[:12]
        res.evaluations = len(trials)
        res.distinct = nontriv
        res.traces = len(trials) if model is not None else 0
        res.coverage = {"entries": ENTRIES, "slots": SLOTS, "types": list(VALUES), "exhaustive": True,
                        "accepted": sum(1 for t in trials if t[5] == "accept"),
                        "rejected": sum(1 for t in trials if t[5].startswith("reject"))}
        res.samples = [dict(zip(("storage", "entry", "slot", "type", "value", "outcome"), t[:6])) for t in (trials[0], trials[len(trials) // 2], trials[-1])]
        return res

    def replay_known(self, k):
        return False


def replay(payload):
    print(payload)
    return True
