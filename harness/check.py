"""entry point:  check.py <ID> --tier quick|thorough     |     check.py replay <file>"""
import json
import os
import sys

sys.path.insert(0, os.path.dirname(os.path.abspath(__file__)))

import common as C  # noqa: E402
import engine  # noqa: E402


def registry():
    import fam_c18

    reg = {
        "C18": dict(family=fam_c18.Family(), lean=["TinyFlux.Props.C18"], gen=("Utils",), ref="5/C18",
                    replay=fam_c18.replay),
    }
    try:
        import registry_more

        reg.update(registry_more.more())
    except ImportError:
        pass
    for pid, ent in reg.items():
        # "the state the code keeps is the state the Model has": Props/<ID>State.lean over Generated/Footprint.lean
        ent["lean"] = list(ent["lean"]) + [f"TinyFlux.Props.{pid}State"]
        if os.path.exists(os.path.join(C.VERIF, "lean", "TinyFlux", "Props", f"{pid}Witness.lean")):
            # non-vacuity: the hypotheses of the property's theorems hold of concrete, non-trivial states
            ent["lean"].append(f"TinyFlux.Props.{pid}Witness")
        if os.path.exists(os.path.join(C.VERIF, "lean", "TinyFlux", "Props", f"{pid}Mirror.lean")):
            # theorems over Generated/IndexImpl.lean: index.py translated method by method (class mode of the translator)
            ent["lean"].append(f"TinyFlux.Props.{pid}Mirror")
            ent["gen"] = tuple(ent.get("gen", ())) + ("IndexImpl",) + (("DatabaseImpl",) if pid in ("C01", "C02", "C06", "C07") else ())
        ent["gen"] = tuple(ent.get("gen", ())) + ("Footprint", "CallGraph")
    return reg


def main(argv):
    if len(argv) >= 2 and argv[0] == "replay":
        with open(argv[1] if os.path.isabs(argv[1]) else os.path.join(C.VERIF, argv[1])) as f:
            payload = json.load(f)
        reg = registry()
        ent = reg[payload["property"]]
        still = ent["replay"](payload)
        print("REPRODUCED" if still else "not reproduced")
        return 1 if still else 0
    prop = argv[0]
    tier = os.environ.get("VERIF_TIER", "quick")
    if "--tier" in argv:
        tier = argv[argv.index("--tier") + 1]
    reg = registry()
    if prop not in reg:
        print(f"unknown property {prop}")
        return 2
    ent = reg[prop]
    return engine.run_check(prop, tier, ent["family"], ent["lean"], ent.get("ref", ""), ent.get("gen", ()))


if __name__ == "__main__":
    sys.exit(main(sys.argv[1:]))
