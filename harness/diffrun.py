"""Differential runs: the same histories through the real tinyflux, the Lean Model and the Lean
Spec; comparison, attribution of a disagreement to a property, shrinking."""
import collections

import common as C
import vocab as V
from impl import ImplRunner

READ_OPS = {"search", "count", "contains", "get", "select"}
GETTER_OPS = {"measurements", "tagkeys", "tagvalues", "fieldkeys", "fieldvalues", "timestamps",
              "len", "iter", "all", "mlen", "miter", "mall"}
REMOVE_OPS = {"remove", "drop", "removeall"}


def inner(op):
    return op[1] if op[0] == "H" else op


def op_name(op):
    return inner(op)[0]


def expand(case, probes=None):
    """protocol items for a case: list of (term, role, op_index). role: cfg | op | state | idx"""
    items = [(case["cfg"], "cfg", -1)]
    for i, op in enumerate(case["ops"]):
        items.append((op, "op", i))
        items.append((["state"], "state", i))
        if probes:
            for p in probes:
                items.append((["idx"] + p, "idx", i))
    return items


def lean_lines(items):
    return [V.sx(inner(t) if t[0] == "H" else t) for t, _, _ in items]


def impl_lines(items, with_rebuild=False, csv_kwargs=None):
    """run on the real implementation; returns (lines, rebuilt) where rebuilt[i] is the answer of a
    freshly built index for idx lines (when the live index is valid), else None"""
    r = ImplRunner()
    if csv_kwargs:
        r.csv_kwargs = dict(csv_kwargs)
    out, reb = [], []
    try:
        for t, role, _ in items:
            out.append(r.line(t))
            if role == "idx" and with_rebuild and r.db.index.valid:
                try:
                    reb.append(r.idx_rebuilt_line(t[1:]))
                except Exception as e:  # pragma: no cover
                    reb.append("exc " + type(e).__name__)
            else:
                reb.append(None)
    finally:
        r.close()
    return out, reb


def attribute(case, role, i, after_error):
    """which property does a disagreement at this line speak about?"""
    op = case["ops"][i]
    n = op_name(op)
    via = op[0] == "H"
    if role == "idx":
        return ["C06"]
    if role == "state":
        # contents after the operation
        props = []
        if n in REMOVE_OPS:
            props = ["C02"]
        elif n == "update":
            props = ["C03"]
        elif n == "ins":
            # what an insert stored: through a handle / with a measurement argument it is C10's
            # "stores the point under that measurement name"; after a raised insert it is C11's
            props = ["C10"] if inner(op)[1] != "~" else ["C01"]
        else:
            props = ["C15", "C06"]
        if after_error:
            props = ["C11"] + props
        if via and "C10" not in props:
            props.append("C10")
        return props
    # the operation's own answer
    if n in READ_OPS:
        props = ["C01"]
    elif n in GETTER_OPS:
        props = ["C07"]
    elif n in REMOVE_OPS:
        props = ["C02"]
    elif n == "update":
        props = ["C03"]
    elif n == "ins":
        props = ["C11", "C14"]
    else:
        props = ["C06"]
    if via:
        props.append("C10")
    return props


def split_state(line):
    """'valid=1 contents=[..]' -> ('1', '[..]')"""
    if line.startswith("valid="):
        v, c = line.split(" ", 1)
        return v[6:], c[len("contents="):]
    if line.startswith("contents="):
        return None, line[len("contents="):]
    return None, line


def compare_case(case, impl, model, spec, items, rebuilt=None):
    """first disagreement of a case, or None.
    Returns dict(kind, props, index, role, impl, model, spec). kind:
      'impl-vs-spec'        the implementation differs from the specification (a failing input)
      'correspondence'      implementation and model differ but the specification is met
      'index-drift'         live index differs from a rebuilt one while valid (C06 on the impl)"""
    prev_err = False
    err_seen = False

    def after_err(d):
        if err_seen and d is not None and "C11" not in d["props"]:
            d["props"] = d["props"] + ["C11"]
        return d

    for k, (t, role, i) in enumerate(items):
        a = impl[k]
        m = model[k] if model is not None else None
        s = spec[k] if spec is not None else None
        if role == "cfg":
            continue
        if role == "op":
            if s is not None and a != s:
                return after_err(dict(kind="impl-vs-spec", props=attribute(case, role, i, False), index=i,
                            role=role, impl=a, model=m, spec=s))
            if m is not None and a != m:
                return after_err(dict(kind="correspondence", props=attribute(case, role, i, False), index=i,
                            role=role, impl=a, model=m, spec=s))
            prev_err = a.startswith("err")
            err_seen = err_seen or prev_err
        elif role == "state":
            av, ac = split_state(a)
            if s is not None:
                _, sc = split_state(s)
                if ac != sc:
                    return after_err(dict(kind="impl-vs-spec", props=attribute(case, role, i, prev_err),
                                index=i, role=role, impl=a, model=m, spec=s))
            if m is not None:
                mv, mc = split_state(m)
                if ac != mc:
                    return after_err(dict(kind="correspondence", props=attribute(case, role, i, prev_err),
                                index=i, role=role, impl=a, model=m, spec=s))
                if av != mv:
                    return after_err(dict(kind="correspondence", props=["C06"], index=i, role="valid",
                                impl=a, model=m, spec=s))
        elif role == "idx":
            if rebuilt is not None and rebuilt[k] is not None and rebuilt[k] != a:
                return after_err(dict(kind="index-drift", props=["C06"], index=i, role=role, impl=a,
                            model=m, spec="rebuilt: " + rebuilt[k], probe=V.sx(t)))
            if m is not None and a != m:
                return after_err(dict(kind="correspondence", props=["C06"], index=i, role=role, impl=a,
                            model=m, spec=None, probe=V.sx(t)))
    return None


class Batch:
    """run many cases with one subprocess call per driver"""

    def __init__(self, use_model=True, use_spec=True, probes=None, with_rebuild=False):
        self.use_model, self.use_spec = use_model, use_spec
        self.probes, self.with_rebuild = probes, with_rebuild
        self.stats = collections.Counter()

    def run(self, cases):
        all_items, all_impl, all_reb, spans = [], [], [], []
        for case in cases:
            items = expand(case, self.probes)
            kw = dict(case.get("csvkw") or {})
            if case.get("enc"):
                kw["encoding"] = case["enc"]
            with C.ProcessTZ(case.get("tz")):
                impl, reb = impl_lines(items, self.with_rebuild, kw or None)
            spans.append((len(all_items), len(items)))
            all_items += items
            all_impl += impl
            all_reb += reb
        ll = lean_lines(all_items)
        model = C.run_driver("modeldriver", ll) if self.use_model else None
        spec = C.run_driver("specdriver", ll) if self.use_spec else None
        if model is not None and len(model) != len(ll):
            raise RuntimeError(f"modeldriver returned {len(model)} lines for {len(ll)}")
        if spec is not None and len(spec) != len(ll):
            raise RuntimeError(f"specdriver returned {len(spec)} lines for {len(ll)}")
        results = []
        for case, (a, n) in zip(cases, spans):
            items = all_items[a:a + n]
            d = compare_case(
                case, all_impl[a:a + n],
                model[a:a + n] if model is not None else None,
                spec[a:a + n] if spec is not None else None,
                items, all_reb[a:a + n] if self.with_rebuild else None,
            )
            bad = [x for x in (model[a:a + n] if model else []) if x in ("bad-op", "bad-line")]
            if bad:
                raise RuntimeError(f"driver rejected a line of case {case}")
            for t, role, _ in items:
                if role == "op":
                    self.stats["op:" + op_name(t)] += 1
            for line, (t, role, _) in zip(all_impl[a:a + n], items):
                if role == "op" and line.startswith("err"):
                    self.stats["err:" + line[4:]] += 1
            results.append(d)
        return results


def shrink(case, pred, max_trials=400):
    """delta-debug the op list: smallest prefix-closed sublist on which `pred(case)` still holds"""
    ops = list(case["ops"])
    trials = 0
    changed = True
    while changed and trials < max_trials:
        changed = False
        for i in range(len(ops) - 1, -1, -1):
            cand = ops[:i] + ops[i + 1:]
            trials += 1
            if pred(dict(case, ops=cand)):
                ops = cand
                changed = True
            if trials >= max_trials:
                break
    return dict(case, ops=ops)
