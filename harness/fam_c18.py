"""C18: the real `utils.find_*` against the generated Lean definitions (translator fidelity) and
against the executable characterisation in the Spec (the documented positions)."""
import itertools
import random

import common as C
from engine import Finding, Result

FNS = ["find_eq", "find_lt", "find_le", "find_gt", "find_ge"]


def sorted_lists(domain, maxlen):
    for n in range(maxlen + 1):
        for c in itertools.combinations_with_replacement(domain, n):
            yield list(c)


def rank_map(values):
    """order-isomorphic image in the integers"""
    vs = sorted(set(values))
    return {v: 2 * i for i, v in enumerate(vs)}


class Family:
    rule = ("exhaustive: every non-decreasing list of length 0-7 over a 5-value domain x 13 probes "
            "(inside, between, outside) x 5 helpers; plus random float lists with duplicates, long lists (30-90) with runs of "
            "duplicates, and epoch-sized values with probes fractions of a second away, all mapped "
            "order-isomorphically to integers. A case is non-trivial when the list is non-empty; "
            "distinct = distinct (helper, list, probe) triples.")

    def cases(self, tier, search):
        dom = [0, 2, 4, 6, 8]
        maxlen = 7
        if tier == "thorough" or search:
            maxlen = 8
        out = []
        for l in sorted_lists(dom, maxlen):
            for x in range(-2, 11):
                out.append((l, x, l, x))
        rnd = random.Random(C.seed() * 7919 + 18)
        n = 2000 if tier == "quick" else 100000
        for _ in range(n):
            k = rnd.randint(0, 12)
            pool = [rnd.choice([rnd.random() * 10, float(rnd.randint(0, 6)), rnd.random()]) for _ in range(max(1, k // 2))]
            l = sorted(rnd.choice(pool) for _ in range(k))
            x = rnd.choice(pool + [rnd.random() * 10, -1.0, 11.0])
            rm = rank_map(l + [x])
            out.append((l, x, [rm[v] for v in l], rm[x]))
        # long lists (the index holds one entry per stored point) with runs of duplicates at every offset
        for _ in range(n // 2):
            k = rnd.randint(30, 90)
            dom = rnd.randint(3, 12)
            l = sorted(float(rnd.randint(0, dom)) for _ in range(k))
            x = float(rnd.randint(-1, dom + 1)) + rnd.choice([0.0, 0.0, 0.5])
            rm = rank_map(l + [x])
            out.append((l, x, [rm[v] for v in l], rm[x]))
        # epoch-sized values (what the index stores) with probes a fraction of a second away
        for _ in range(n // 2):
            k = rnd.randint(1, 9)
            base = 1.7e9 + rnd.randint(0, 10 ** 6)
            l = sorted(base + rnd.randint(0, 8) * 0.25 for _ in range(k))
            x = rnd.choice(l) + rnd.choice([0.0, -0.25, 0.25, -0.5, 1e-3, -1e-3, 1e-6, -1e-6])
            rm = rank_map(l + [x])
            out.append((l, x, [rm[v] for v in l], rm[x]))
        # values where float arithmetic on the probe would go wrong: integers beyond 2**53 (nanosecond stamps),
        # infinities, the largest finite float
        big = [2 ** 53 - 1, 2 ** 53, 2 ** 53 + 1, 2 ** 53 + 2, 2 ** 60 + 1, 2 ** 63 - 1, 2 ** 63]
        for l in sorted_lists(big, 3):
            for x in big + [0, 2 ** 64]:
                rm = rank_map(l + [x])
                out.append((l, x, [rm[v] for v in l], rm[x]))
        inf = float("inf")
        fl = [-inf, -1.7976931348623157e308, 0.0, 5e-324, 1.7976931348623157e308, inf]
        for l in sorted_lists(fl, 3):
            for x in fl:
                rm = rank_map(l + [x])
                out.append((l, x, [rm[v] for v in l], rm[x]))
        # very long, roughly evenly spaced lists with bursts of equal values (thousands of points, several per
        # timestamp): probes at, just below and just above values sitting at many offsets
        for j in range(3 if tier == "quick" and not search else 12):
            k = rnd.randint(2050, 3300)
            burst = rnd.choice([1, 17, 18, 33, 40])
            l = []
            v = 1000.0
            while len(l) < k:
                l += [v] * rnd.choice([1, 1, burst])
                v += 1.0
            l = l[:k]
            probes = [l[rnd.randrange(k)] + d for d in (0.0, 0.0, 0.0, -0.5, 0.5) for _ in range(5)] + [l[0], l[-1], l[0] - 1, l[-1] + 1]
            rm = rank_map(l + probes)
            li = [rm[v] for v in l]
            for x in probes:
                out.append((l, x, li, rm[x]))
        return out

    def run(self, tier, model_ok, search):
        C.import_tinyflux()
        from tinyflux import utils

        res = Result()
        cases = self.cases(tier, search)
        lines, impl = [], []
        for l, x, li, xi in cases:
            for fn in FNS:
                try:
                    r = getattr(utils, fn)(l, x)
                    impl.append(str(r))
                except Exception as e:
                    impl.append(type(e).__name__)
                lines.append(f"(c18 {fn} {xi} {' '.join(map(str, li))})")
        spec = C.run_driver("specdriver", lines)
        gen = C.run_driver("modeldriver", lines) if model_ok else None
        k = 0
        nontrivial = 0
        for l, x, li, xi in cases:
            for fn in FNS:
                a = impl[k]
                s = spec[k].split("=", 1)[1]
                if l:
                    nontrivial += 1
                if a != s:
                    res.findings.append(Finding(
                        "impl-vs-spec", f"{fn}({l if len(l) < 40 else str(l[:6])[:-1] + f', ... {len(l)} values]'}, {x}) = {a}, documented {s}",
                        dict(fn=fn, sorted_list=l, probe=x, observed=a, expected=s)))
                elif gen is not None and gen[k].split("=", 1)[1] != a:
                    res.findings.append(Finding(
                        "correspondence", f"generated {fn}({li}, {xi}) = {gen[k]} but implementation {a}",
                        dict(fn=fn, sorted_list=l, probe=x, observed=a, model=gen[k])))
                k += 1
        res.evaluations = len(lines)
        res.distinct = nontrivial
        res.traces = len(lines) if gen is not None else 0
        res.samples = [dict(line=lines[i], impl=impl[i], spec=spec[i], model=(gen[i] if gen else None))
                       for i in (0, len(lines) // 3, len(lines) // 2, len(lines) - 1)]
        res.coverage = {"exhaustive": True, "lists": len(cases), "helpers": len(FNS)}
        res.findings = res.findings[:20]
        return res

    def replay_known(self, k):
        return False


def replay(payload):
    C.import_tinyflux()
    from tinyflux import utils

    r = getattr(utils, payload["fn"])(payload["sorted_list"], payload["probe"])
    print(f"{payload['fn']}({payload['sorted_list']}, {payload['probe']}) = {r}; documented: {payload.get('expected')}")
    return str(r) != str(payload.get("expected"))
