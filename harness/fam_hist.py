"""History-level correspondence (C01 C02 C03 C06 C07 C10 C11): the same operation sequences through
the real tinyflux, the Lean Model and the Lean Spec in the four configurations
{CSV, memory} x {auto_index on, off}; observation after every operation; attribution of a
disagreement to a property by observable; shrinking to a minimal history."""
import glob
import json
import multiprocessing
import os

import common as C
import diffrun as D
import gen as G
import vocab as V
from engine import Finding, Result

CFGS = [("csv", "auto"), ("csv", "noauto"), ("mem", "auto"), ("mem", "noauto")]
# csv.QUOTE_ALL = 1, QUOTE_NONNUMERIC = 2 (JSON-friendly)
DIALECTS = [{"delimiter": ";"}, {"delimiter": "\t"}, {"quotechar": "'"}, {"quoting": 1},
            {"delimiter": "|", "quotechar": "'"}, {"doublequote": False, "escapechar": "\\"},
            {"flush_on_insert": False}, {"flush_on_insert": False, "delimiter": ";"},
            {"access_mode": "w+"}, {"newline": "\r\n"}, {"newline": "\n"}]


def probes():
    hx = V.hx
    T0 = G.T0
    ps = [["valid"], ["len"], ["measurements"], ["tagkeys", "~"], ["fieldkeys", "~"], ["timestamps", "~"],
          ["tagvalues", ["keys"], "~"], ["tagvalues", ["keys", hx("a"), hx("zz")], hx("m1")],
          ["fieldvalues", hx("f"), "~"], ["fieldvalues", hx("f"), hx("m1")], ["fieldvalues", hx("g"), hx("m2")],
          ["tagkeys", hx("m1")], ["fieldkeys", hx("m2")], ["timestamps", hx("m1")], ["timestamps", hx("_default")],
          ["tagvalues", ["keys"], hx("m2")]]
    for c in G.CMPS:
        for k in (1, 3):
            ps.append(["search", ["time", ["cmp", c, f"t:{T0 + k}"]]])
    ps += [["search", ["meas", ["cmp", "eq", "s:" + hx("m1")]]],
           ["search", ["tag", hx("a"), ["cmp", "eq", "s:" + hx("x")]]],
           ["search", ["tag", hx("a"), ["exists"]]],
           ["search", ["tag", hx("b"), ["cmp", "ne", "~"]]],
           ["search", ["field", hx("f"), ["cmp", "gt", "n:0"]]],
           ["search", ["field", hx("g"), ["exists"]]],
           ["search", ["not", ["tag", hx("a"), ["exists"]]]],
           ["search", ["and", ["meas", ["cmp", "eq", "s:" + hx("m2")]], ["time", ["cmp", "le", f"t:{T0 + 2}"]]]],
           ["search", ["noop", "time"]],
           ["search", ["time", ["test", "timege", f"t:{T0 + 2}"]]]]
    return ps


PROFILES = {
    # property -> weights of op classes in generated histories
    "C01": dict(ins=30, read=40, get=4, rm=8, upd=8, drop=2, rmall=2, reidx=3, reopen=3),
    "C02": dict(ins=30, read=18, get=6, rm=26, upd=4, drop=7, rmall=4, reidx=2, reopen=3),
    "C03": dict(ins=30, read=16, get=6, rm=5, upd=32, drop=2, rmall=2, reidx=3, reopen=4),
    "C06": dict(ins=34, read=10, get=6, rm=16, upd=14, drop=5, rmall=5, reidx=6, reopen=4),
    "C07": dict(ins=32, read=6, get=36, rm=9, upd=8, drop=3, rmall=2, reidx=2, reopen=2),
    "C10": dict(ins=30, read=20, get=18, rm=10, upd=12, drop=5, rmall=1, reidx=2, reopen=2),
    "C11": dict(ins=32, read=14, get=8, rm=6, upd=30, drop=2, rmall=2, reidx=3, reopen=3),
}


def bulk_insert(g, n):
    """one insert_multiple of n points: mostly in time order (the index stays valid), a fifth shuffled"""
    r = g.r
    pts = [g.point(time=str(G.T0 + (i if r.random() < 0.8 else r.choice(G.TIME_OFFS)))) for i in range(n)]
    if r.random() < 0.2:
        r.shuffle(pts)
    return ["ins", "~"] + pts


def gen_history(g, n, csv, w, malformed, bulk=0):
    r = g.r
    keys = list(w)
    tot = sum(w.values())
    ops = []
    if bulk:
        ops.append(bulk_insert(g, bulk))
        if g.tbase == 0 and r.random() < 0.7:
            g.tbase = bulk         # later points are mostly newer than the bulk: the index stays valid
        # per-measurement getters over the many positions, through the database and through a handle
        m = V.hx(r.choice(g.meas))
        ops.append(r.choice([["timestamps", m], ["H", ["timestamps", m]]]))
        ops.append(r.choice([["H", ["fieldvalues", V.hx("f"), m]], ["H", ["tagvalues", ["keys"], m]], ["mall", m, "0"]]))
    reads = []
    for _ in range(n):
        if reads and r.random() < 0.06:
            # an earlier read again, verbatim (answers must follow the writes in between), or with an operand
            # whose hash() collides with the original one (answers must not be shared)
            old = r.choice(reads)
            ops.append(old)
            tw = g.twin(old)
            if tw is not None:
                ops.append(tw)
            continue
        x = r.random() * tot
        for k in keys:
            x -= w[k]
            if x < 0:
                break
        if k == "ins":
            ops.append(g.insert_op(bad=r.random() < malformed))
        elif k == "read":
            ops.append(g.read_op())
            reads.append(ops[-1])
            tw = g.twin(ops[-1])
            if tw is not None and r.random() < 0.5:
                ops.append(tw)
        elif k == "get":
            ops.append(g.getter_op())
        elif k == "rm":
            ops.append(g.remove_op())
        elif k == "upd":
            ops.append(g.update_op())
        elif k == "drop":
            name = V.hx(r.choice(g.meas + g.filter_extra + ["zz"]))
            ops.append(["H", ["drop", name]] if r.random() < 0.4 else ["drop", name])
        elif k == "rmall":
            ops.append(["removeall"])
        elif k == "reidx":
            ops.append(["reindex"])
        elif k == "reopen" and csv:
            ops.append(["reopen"])
        else:
            ops.append(g.read_op())
    return ops


def unwrap_at(case, i):
    ops = list(case["ops"])
    if ops[i][0] == "H":
        ops[i] = ops[i][1]
    return dict(case, ops=ops)


def run_one(case, use_model, with_probes):
    b = D.Batch(use_model=use_model, use_spec=True, probes=probes() if with_probes else None,
                with_rebuild=with_probes)
    return b.run([case])[0]


def refine(case, d, use_model, with_probes):
    """C10 or the underlying property? re-run with the failing op invoked directly on the database"""
    if "C10" not in d["props"]:
        # something is wrong after a *write through a handle* earlier in the history: that operation touched what
        # it must not (C10: "operations through it never touch other measurements' points")
        i = d["index"]
        if any(case["ops"][k][0] == "H" and D.op_name(case["ops"][k]) in D.REMOVE_OPS | {"ins", "update"} for k in range(i)):
            d = dict(d, props=d["props"] + ["C10"])
        return d
    i = d["index"]
    if case["ops"][i][0] != "H":
        return d
    d2 = run_one(unwrap_at(case, i), use_model, with_probes)
    if d2 is not None and d2["index"] == i and d2["kind"] == d["kind"]:
        # the database operation with the measurement filter misbehaves in the same way: the operation's own
        # property first, and C10 too (the handle's answer is not that of the database *restricted to the
        # measurement* as specified — e.g. it shows or touches another measurement's points)
        d = dict(d, props=[p for p in d["props"] if p != "C10"] + ["C10"])
    else:
        # only the handle misbehaves: C10 — and the operation's own property as experienced through the handle
        d = dict(d, props=["C10"] + [p for p in d["props"] if p != "C10"])
    return d


def safe_idx(runner, idx, probe):
    try:
        return runner._idx_answer(idx, probe)
    except Exception as e:
        return "exc " + type(e).__name__


def _worker(args):
    cases, use_model, with_probes = args
    b = D.Batch(use_model=use_model, use_spec=True, probes=probes() if with_probes else None,
                with_rebuild=with_probes)
    rs = b.run(cases)
    return rs, dict(b.stats)


def had_error_before(case, impl_errs, i):
    return any(impl_errs[:i])


class Family:
    def __init__(self, prop):
        self.prop = prop
        self.rule = (
            "operation histories (insert / insert_multiple incl. non-Points, the five query reads, getters, "
            "len/iter/all, Measurement-handle twins, remove / drop_measurement / remove_all, update / update_all "
            "with static and callable arguments incl. raising ones, reindex, reopen) generated from one seeded PRNG "
            "with a profile weighted towards this property, run in the four configurations {csv,mem}x{auto,noauto} "
            "through the real tinyflux, the Lean Model and the Lean Spec; every answer, the stored contents and "
            "index.valid compared after every operation (for C06 also ~40 direct index probes against a rebuilt "
            "index). Distinct = distinct (configuration, history) pairs; non-trivial = the history contains at least "
            "one insert and one operation of the property's own class.")

    # -- cases -------------------------------------------------------------

    def corpus(self):
        out = []
        for f in sorted(glob.glob(os.path.join(C.CORPUS, "hist", "*.json"))):
            with open(f) as fh:
                out.append(json.load(fh))
        return out

    def random_cases(self, n, seed_base, maxlen):
        w = PROFILES[self.prop]
        cases = []
        for i in range(n):
            g = G.Gen(seed_base * 1000003 + i)
            st, au = CFGS[i % 4]
            if g.r.random() < 0.08:
                g.filter_extra = [""]         # the empty measurement name as filter / handle, rarely
            if self.prop == "C07" and i % 5 == 0:
                g.hard = True                 # line breaks, delimiters, quotes, non-ASCII in keys and values
            ln = g.r.randint(2, maxlen)
            enc = None
            if st == "csv" and self.prop in ("C01", "C02", "C03") and i % 6 == 0:
                # awkward strings (CR/LF, quotes, delimiters, non-ASCII), half of them in a non-default encoding
                enc = "utf-16" if i % 12 == 0 else None
                g.hard = True
            csvkw = None
            if st == "csv" and (i // 4) % 3 == 1:
                # a csv dialect other than the default one (the database is opened with these keyword arguments)
                csvkw = DIALECTS[(i // 12) % len(DIALECTS)]
                if "newline" in csvkw:
                    g.hard = False            # line breaks in the data are only defined for newline=""
                elif g.r.random() < 0.6:
                    g.hard = True             # quotes, delimiters, line breaks under that dialect
            if (i // 4) % 7 == 3:
                g.wide = True                 # numbers with colliding hashes as values and operands
            if (i // 4) % 23 == 9:
                g.tbase = -G.T0 - 3           # instants around the epoch: -3 … +5 µs (a zero timestamp is falsy)
            bulk = 0
            if (i // 4) % 16 == 5:
                bulk = g.r.randint(9, 48)     # beyond the sizes at which small-set / small-dict behaviour ends
            elif (i // 4) % 500 == 77:
                bulk = g.r.randint(520, 1100)  # beyond batch / bulk-path thresholds
            ops = gen_history(g, ln, st == "csv", w, 0.08 if self.prop == "C11" else 0.03, bulk)
            tz = C.LOCAL_ZONES[(i // 36) % len(C.LOCAL_ZONES)] if (i // 4) % 9 == 4 else None   # the process's local zone
            if csvkw and csvkw.get("access_mode") == "w+":
                # opening in "w+" truncates by the user's choice: close-and-reopen is not a no-op there
                ops = [o for o in ops if D.op_name(o) != "reopen"]
            cases.append({"cfg": ["cfg", st, au], **({"enc": enc} if enc else {}),
                          **({"csvkw": csvkw} if csvkw else {}), **({"tz": tz} if tz else {}), "ops": ops})
        return cases

    def huge_cases(self, tier):
        """a few histories over 8 300 - 9 000 points (beyond any power-of-two threshold up to 8192): one in-order
        insert_multiple, reads and getters, a removal that leaves a handful of points, reads again"""
        hx = V.hx
        T0 = G.T0
        cfgs = [("csv", "auto"), ("mem", "auto")] if tier == "quick" else CFGS
        out = []
        for j, (st, au) in enumerate(cfgs):
            r = G.Gen(C.seed() * 7 + j).r
            n = r.randint(8300, 9000)
            tiny = sorted(r.sample(range(n), 3))
            pts = [["pt", str(T0 + i), hx("tiny" if i in tiny else "big"), ["tags", [hx("k"), hx(str(i % 7))]],
                    ["fields", [hx("f"), str(i % 5)]]] for i in range(n)]
            cut = tiny[1]
            ops = [["ins", "~"] + pts, ["len"], ["count", ["time", ["cmp", "ge", f"t:{T0 + n - 10}"]], "~"],
                   ["H", ["timestamps", hx("tiny")]], ["fieldvalues", hx("f"), hx("tiny")],
                   ["search", ["tag", hx("k"), ["cmp", "eq", "s:" + hx("3")]], hx("tiny"), "1"]]
            if j % 2 == 0:
                ops += [["drop", hx("big")]]                                           # scan / measurement path
            else:
                ops += [["remove", ["time", ["cmp", "gt", f"t:{T0 + 1}"]], "~"]]       # index-exact query, 2 survivors
            ops += [["len"], ["all", "1"], ["timestamps", "~"], ["ins", "~", ["pt", str(T0 + n + 5), hx("tiny"), ["tags"], ["fields"]]],
                    ["count", ["noop", "time"], "~"]]
            out.append({"cfg": ["cfg", st, au], "ops": ops})
        return out

    def enumerated(self, depth):
        """every operation sequence of the given depth over a small alphabet, from three start states, in the
        four configurations (the quantifier of C06; used by the other history properties in the thorough tier)"""
        hx = V.hx
        T0 = G.T0

        def pt(t, m, tags=(), fields=()):
            return ["pt", str(T0 + t), hx(m), ["tags"] + [[hx(k), (hx(v) if v is not None else "~")] for k, v in tags],
                    ["fields"] + [[hx(k), v] for k, v in fields]]

        qa = ["not", ["field", hx("f"), ["cmp", "eq", "n:1"]]]          # inexact
        qt = ["time", ["cmp", "le", f"t:{T0 + 2}"]]
        qg = ["tag", hx("a"), ["cmp", "eq", "s:" + hx("x")]]
        noargs = [["time", "~"], ["meas", "~"], ["tags", "~"], ["fields", "~"], ["unsettags"], ["unsetfields"]]

        def upd(q, m, **kw):
            a = [list(x) for x in noargs]
            for k, v in kw.items():
                a[{"time": 0, "meas": 1, "tags": 2, "fields": 3}[k]][1] = v
            return ["update", "0", q, m] + a

        alphabet = [
            ["ins", "~", pt(3, "m1", [("a", "x")], [("f", "1")])],
            ["ins", "~", pt(1, "m2", [("a", None)], [("f", "0")])],                 # out of order after the first
            ["ins", "~", pt(3, "m1", [("b", "y")])],                                # tie
            ["ins", hx("m2"), pt(5, "m1", [], [("g", "5/2")]), "!", pt(6, "m1")],   # aborted insert_multiple
            ["count", qa, "~"], ["search", qt, hx("m1"), "1"], ["H", ["get", qg, hx("m2")]],
            ["timestamps", "~"], ["fieldvalues", hx("f"), hx("m1")], ["len"],
            ["remove", qt, "~"], ["remove", qa, "~"], ["H", ["remove", qg, hx("m1")]],
            ["drop", hx("m2")], ["removeall"],
            upd(qg, "~", tags=["s", [hx("a"), hx("z")]]),
            upd(["noop", "time"], "~", time=["c", "addus", "-2"]),
            upd(["noop", "time"], "~", fields=["c", "raiseifhas", hx("g")]),
            ["reindex"],
        ]
        starts = [[], [alphabet[0], alphabet[2]], [alphabet[0], alphabet[1], ["reindex"]]]
        import itertools

        cases = []
        for st, au in CFGS:
            for s0 in starts:
                for seq in itertools.product(alphabet, repeat=depth):
                    ops = list(s0) + list(seq)
                    if st == "csv":
                        pass
                    cases.append({"cfg": ["cfg", st, au], "ops": ops})
        return cases

    def nontrivial(self, case):
        names = {D.op_name(o) for o in case["ops"]}
        own = {"C01": D.READ_OPS, "C02": D.REMOVE_OPS, "C03": {"update"}, "C06": D.REMOVE_OPS | {"ins", "update"},
               "C07": D.GETTER_OPS, "C10": None, "C11": None}[self.prop]
        if "ins" not in names:
            return False
        if own is None:
            if self.prop == "C10":
                return any(o[0] == "H" for o in case["ops"])
            return True
        return bool(names & own)

    # -- run ---------------------------------------------------------------

    def run(self, tier, model_ok, search):
        res = Result()
        with_probes = self.prop == "C06"
        n = {"quick": 8000, "thorough": 100000}[tier]
        if with_probes:
            n //= 3
        if search:
            n *= 3
        maxlen = 10 if tier == "quick" else 24
        huge = self.huge_cases(tier)
        cases = huge + self.corpus() + self.random_cases(n, C.seed() * 31 + int(self.prop[1:]), maxlen)
        enum_depth = 0
        if self.prop == "C06":
            enum_depth = 2 if tier == "quick" else 3
        elif tier == "thorough":
            enum_depth = 2
        enum_cases = self.enumerated(enum_depth) if enum_depth else []
        cases += enum_cases
        nproc = min(16, os.cpu_count() or 4)
        chunk = max(8, (len(cases) + nproc * 2 - 1) // (nproc * 2))
        # each huge history is a job of its own (they take seconds), the rest goes in chunks; order is preserved
        jobs = [([c], model_ok, with_probes) for c in huge]
        jobs += [(cases[i:i + chunk], model_ok, with_probes) for i in range(len(huge), len(cases), chunk)]
        stats = {}
        results = []
        with multiprocessing.Pool(nproc) as pool:
            for rs, st in pool.imap(_worker, jobs):
                results += rs
                for k, v in st.items():
                    stats[k] = stats.get(k, 0) + v
        seen = set()
        for case in cases:
            key = json.dumps(case, sort_keys=True)
            if key not in seen and self.nontrivial(case):
                seen.add(key)
        res.evaluations = len(cases)
        res.distinct = len(seen)
        res.traces = len(cases) if model_ok else 0
        res.coverage = {"operation_histogram": {k: v for k, v in sorted(stats.items())},
                        "configurations": ["csv/auto", "csv/noauto", "mem/auto", "mem/noauto"],
                        "exhaustive": False, "enumerated_histories": len(enum_cases),
                        "enumeration": (f"every sequence of {enum_depth} operations over a 19-operation alphabet from 3 start "
                                        f"states in 4 configurations" if enum_depth else "none in this tier")}
        res.samples = [{"cfg": c["cfg"], "ops": [V.sx(o) for o in c["ops"]][:6]} for c in cases[-3:]]
        # findings for this property
        foreign = 0
        for case, d in zip(cases, results):
            if d is None:
                continue
            d = refine(case, d, model_ok, with_probes)
            if self.prop == "C11" and d["kind"] != "correspondence":
                pass
            if self.prop not in d["props"]:
                foreign += 1
                continue
            f = self.make_finding(case, d, model_ok, with_probes)
            # findings that match a known-finding signature must not crowd out new ones
            if f.signature is not None:
                if sum(1 for x in res.findings if x.signature == f.signature) >= 2:
                    continue
            res.findings.append(f)
            if sum(1 for x in res.findings if x.signature is None) >= 4:
                break
        if self.prop == "C11":
            res.findings += self.aliased_rollback()
            res.findings += self.error_scenarios()
        if self.prop == "C06":
            res.findings += self.failed_rebuild()
        if self.prop in ("C06", "C01"):
            res.findings += self.reentrant_insert()
        if self.prop == "C11":
            res.findings += self.reentrant_insert(raising=True)
        if self.prop == "C03":
            res.findings += self.shared_result_object()
            res.findings += self.one_shot_unset()
        if self.prop == "C07":
            res.findings += self.read_during_iteration()
        if self.prop in ("C01", "C10"):
            res.findings += self.container_test_args()
        if self.prop in ("C01", "C02", "C10"):
            res.findings += self.noninjective_transforms()
        res.findings.sort(key=lambda f: (f.signature is not None, f.kind == "correspondence"))
        res.notes.append(f"disagreements attributed to other properties (reported by their own checks): {foreign}")
        return res

    def aliased_rollback(self):
        """MemoryStorage holds the caller's objects: the *same* Point inserted twice must also be what it was
        after a failed update (the protocol builds a fresh object per point, so this is a direct scenario)"""
        tf = C.import_tinyflux()
        from tinyflux.storages import MemoryStorage

        out = []
        for n_alias in (2, 3):
            for fail_on in (0, 5):
                db = tf.TinyFlux(storage=MemoryStorage, auto_index=bool(n_alias % 2))
                p = tf.Point(time=V.dt_of(G.T0), tags={"a": "x"}, fields={"f": 1})
                for _ in range(n_alias):
                    db.insert(p)
                db.insert(tf.Point(time=V.dt_of(G.T0 + 1), tags={"a": "y"}, fields={"f": fail_on}))
                before = [V.show_point(q) for q in db.all(sorted=False)]

                def fn(old, fail_on=fail_on):
                    if old["f"] == fail_on:
                        raise ZeroDivisionError("callable raised")
                    return {"f": old["f"] + 10}

                try:
                    db.update_all(fields=fn)
                    raised = False
                except ZeroDivisionError:
                    raised = True
                after = [V.show_point(q) for q in db.all(sorted=False)]
                if raised and after != before:
                    out.append(Finding(
                        "impl-vs-spec",
                        f"memory storage, the same Point object inserted {n_alias} times: after update_all raised, contents are {after}, before the call {before}",
                        dict(family="hist-alias", aliases=n_alias, fail_on=fail_on, observed=after, expected=before)))
        # a stored point whose tag set the program damaged through the reference it holds (MemoryStorage keeps the caller's
        # object; nothing validates `p.tags["floor"] = 3`): calls that raise afterwards leave every attribute of every
        # stored point as it was, and the caller sees its own exception
        def raw(db):
            return [(q.time, q.measurement, dict(q.tags), dict(q.fields)) for q in db._storage]

        for au in (True, False):
            # (a) the damaged point is handed to insert again, under another measurement: rejected, nothing renamed
            db = tf.TinyFlux(storage=MemoryStorage, auto_index=au)
            p = tf.Point(time=V.dt_of(G.T0), measurement="rooms", tags={"a": "x"}, fields={"f": 1})
            db.insert(p)
            db.insert(tf.Point(time=V.dt_of(G.T0 + 1), measurement="rooms", tags={"a": "y"}))
            p.tags["floor"] = 3
            before = raw(db)
            for label, call in (("db.insert(p, measurement='archive')", lambda: db.insert(p, measurement="archive")),
                                ("db.measurement('archive').insert(p)", lambda: db.measurement("archive").insert(p)),
                                ("db.insert_multiple([p], measurement='archive')", lambda: db.insert_multiple([p], measurement="archive"))):
                try:
                    call()
                    err = None
                except Exception as e:
                    err = type(e).__name__
                if err is not None and raw(db) != before:
                    out.append(Finding(
                        "impl-vs-spec", f"memory/{'auto' if au else 'noauto'}: a stored point whose tags were edited to {{'floor': 3}} through the "
                        f"caller's reference: {label} raised {err}, and the stored points changed: {raw(db)} (before: {before})"[:700],
                        dict(family="hist-alias", scenario="damaged-reinsert", auto_index=au, observed=str(raw(db))[:300], expected=str(before)[:300])))
                    break
            # (b) a time-only update whose callable raises on a later point: the undo must not trip over the damaged set
            db = tf.TinyFlux(storage=MemoryStorage, auto_index=au)
            pts = [tf.Point(time=V.dt_of(G.T0 + i), measurement="m", tags={"a": "xyz"[i % 3]}, fields={"f": i}) for i in range(4)]
            db.insert_multiple(pts)
            pts[1].tags["rack"] = 7

            class Offline(Exception):
                pass

            def shift(t, last=pts[3].time):
                if t == last:
                    raise Offline("the caller's own exception")
                return t + (pts[1].time - pts[0].time)

            before = raw(db)
            for label, call in (("db.update_all(time=callable)", lambda: db.update_all(time=shift)),
                                ("db.update(a.exists(), time=callable)", lambda: db.update(tf.TagQuery().a.exists(), time=shift))):
                try:
                    call()
                    err = None
                except Exception as e:
                    err = type(e).__name__
                if err is not None and (raw(db) != before or err != "Offline"):
                    out.append(Finding(
                        "impl-vs-spec", f"memory/{'auto' if au else 'noauto'}: one stored point's tags were edited to hold 7 through the caller's "
                        f"reference; {label} whose callable raises on the last point raised {err} (the callable raised Offline) and left "
                        f"{raw(db)} (before: {before})"[:700],
                        dict(family="hist-alias", scenario="damaged-undo", auto_index=au, observed=str(raw(db))[:300], expected=str(before)[:300])))
                    break
        return out[:1]

    def error_scenarios(self, only=None):
        """calls that raise for reasons the line protocol has no term for — a static update value that passes
        validation and overflows when normalised, a user `test` function that raises on a later point of a scan,
        a row the text layer refuses (lone surrogate, unencodable character, QUOTE_NONE without escapechar): the
        contents must be what they were (insert_multiple: plus the accepted prefix), a valid index must equal a
        rebuilt one, and the database must stay usable"""
        import csv
        import shutil
        import tempfile
        from datetime import datetime, timedelta, timezone

        tf = C.import_tinyflux()
        from tinyflux.index import Index
        from tinyflux.storages import MemoryStorage
        from impl import ImplRunner

        T = V.dt_of(G.T0)
        sec = timedelta(seconds=1)

        def boom(v):
            if v == "y":
                raise RuntimeError("the user's test function raised")
            return True

        def late(tags):
            return tf.Point(time=T + 9 * sec, tags=tags)

        far = datetime.max.replace(tzinfo=timezone(timedelta(hours=-1)))
        near = datetime.min.replace(tzinfo=timezone(timedelta(hours=1)))
        scen = [
            ("update_all(time=datetime.max at UTC-1)", {}, lambda db: db.update_all(time=far), 0),
            ("update(a == 'x', time=datetime.min at UTC+1)", {}, lambda db: db.update(tf.TagQuery().a == "x", time=near), 0),
            ("update(a.test(raises on the 3rd point), tags={'z': '1'})", {},
             lambda db: db.update(tf.TagQuery().a.test(boom), tags={"z": "1"}), 0),
            ("update(a.test(raises on the 3rd point), fields=callable)", {},
             lambda db: db.update(tf.TagQuery().a.test(boom), fields=lambda f: {"f": f["f"] + 100}), 0),
            ("update(a.test(raises), unset_fields='f')", {},
             lambda db: db.update(tf.TagQuery().a.test(boom), unset_fields="f"), 0),
            ("remove(a.test(raises on the 3rd point))", {}, lambda db: db.remove(tf.TagQuery().a.test(boom)), 0),
            ("insert(tag value with a lone surrogate)", {}, lambda db: db.insert(late({"a": "\ud800"})), 0),
            ("insert_multiple([ok, lone surrogate, ok])", {},
             lambda db: db.insert_multiple([late({"a": "ok"}), late({"a": "\udfff"}), late({"a": "ok2"})]), 1),
            ("measurement('m').insert(key with a lone surrogate)", {},
             lambda db: db.measurement("m").insert(late({"k\ud800": "v"})), 0),
            ("insert(an int field beyond the float range)", {},
             lambda db: db.insert(tf.Point(time=T + 9 * sec, tags={"a": "big"}, fields={"big": 10 ** 400})), 0),
            ("insert_multiple([ok, int field beyond the float range, ok])", {},
             lambda db: db.insert_multiple([late({"a": "ok"}), tf.Point(time=T + 9 * sec, tags={"a": "big"}, fields={"big": -10 ** 400}),
                                            late({"a": "ok2"})]), 1),
            ("insert(non-ASCII text) into an ascii file", {"encoding": "ascii"}, lambda db: db.insert(late({"a": "é"})), 0),
            ("insert(text with the delimiter) under QUOTE_NONE", {"quoting": csv.QUOTE_NONE},
             lambda db: db.insert(late({"a": "x,y"})), 0),
        ]
        out = []
        root = tempfile.mkdtemp(prefix="vf_err_")
        R = ImplRunner.__new__(ImplRunner)
        R.tf = tf
        n = 0
        try:
            for st in ("mem", "csv"):
                for au in (True, False):
                    for name, kw, call, prefix in scen:
                        if only is not None and name != only:
                            continue
                        n += 1
                        if st == "mem":
                            db = tf.TinyFlux(storage=MemoryStorage, auto_index=au)
                        else:
                            db = tf.TinyFlux(os.path.join(root, f"e{n}.csv"), auto_index=au, **kw)

                        def contents(db=db):
                            return [V.show_point(db._storage._deserialize_storage_item(i)) for i in db._storage]

                        for i, a in enumerate(["x", "x", "y", "x"]):
                            db.insert(tf.Point(time=T + i * sec, tags={"a": a}, fields={"f": i}))
                        before = contents()
                        try:
                            call(db)
                            raised = None
                        except Exception as e:
                            raised = type(e).__name__
                        problems = []
                        try:
                            after = contents()
                        except Exception as e:
                            after = ["UNREADABLE " + type(e).__name__]
                        if raised is not None:
                            if after[:len(before)] != before or len(after) != len(before) + (prefix if st == "csv" or True else 0):
                                # memory storage accepts every text: nothing raises there for the text scenarios
                                problems.append(f"contents after the call raised {raised}: {after} (before: {before}, accepted prefix: {prefix})")
                            if db.index.valid:
                                fresh = Index()
                                try:
                                    fresh.build([db._storage._deserialize_storage_item(i) for i in db._storage])
                                except Exception as e:
                                    problems.append(f"an index cannot be built over the contents any more: {type(e).__name__}")
                                for pr in probes():
                                    a1, a2 = safe_idx(R, db.index, pr), safe_idx(R, fresh, pr)
                                    if a1 != a2:
                                        problems.append(f"the index claims to be valid but {V.sx(pr)} answers {a1}, a rebuilt index {a2}")
                                        break
                            try:
                                k0 = len(after)
                                db.insert(tf.Point(time=T + 20 * sec, tags={"a": "after"}))
                                c = db.count(tf.TagQuery().a == "after")
                                ln = len(db)
                                if c != 1 or ln != k0 + 1:
                                    problems.append(f"after the failed call: insert then count(a == 'after') = {c}, len = {ln} (expected 1, {k0 + 1})")
                            except Exception as e:
                                problems.append(f"the database is not usable after the failed call: {type(e).__name__}: {e}")
                        try:
                            db.close()
                        except Exception:
                            pass
                        if problems:
                            out.append(Finding(
                                "impl-vs-spec", f"{st}/{'auto' if au else 'noauto'}: {name}: " + "; ".join(problems)[:700],
                                dict(family="hist-error-scenario", scenario=name, storage=st, auto_index=au,
                                     observed=problems[:3], expected="contents unchanged, valid index == rebuilt, usable")))
        finally:
            shutil.rmtree(root, ignore_errors=True)
        return out[:2]

    def container_test_args(self):
        """`.test(func, *args)` with a list / dict / set among the arguments (the line protocol has no term for it):
        the query must work wherever a query is taken — alone, with a measurement filter, through a handle, negated —
        on the index path and on the scan path, and select exactly the points the function accepts"""
        tf = C.import_tinyflux()
        from tinyflux.storages import MemoryStorage

        def member(v, coll):
            return v in coll

        out = []
        for au in (True, False):
            db = tf.TinyFlux(storage=MemoryStorage, auto_index=au)
            for i in range(6):
                db.insert(tf.Point(time=V.dt_of(G.T0 + i), measurement=("m1" if i % 2 else "m2"),
                                   tags={"a": "xyz"[i % 3]}, fields={"f": i}))
            for label, build, want_all, want_m1 in [
                ("f.test(member, [1, 2, 5])", lambda: tf.FieldQuery().f.test(member, [1, 2, 5]), 3, 2),
                ("a.test(member, {'x', 'y'})", lambda: tf.TagQuery().a.test(member, {"x", "y"}), 4, 2),
                ("~f.test(member, [1, 2, 5])", lambda: ~tf.FieldQuery().f.test(member, [1, 2, 5]), 3, 1),
                ("f.test(member, {1: 'a'}) | (a == 'z')", lambda: tf.FieldQuery().f.test(member, {1: "a"}) | (tf.TagQuery().a == "z"), 3, 2),
            ]:
                try:
                    q = build()
                except Exception as e:
                    out.append(Finding(
                        "impl-vs-spec", f"building the query {label} raised {type(e).__name__}: {str(e)[:80]}",
                        dict(family="hist-container-args", query=label, auto_index=au, observed="raised " + type(e).__name__, property=self.prop)))
                    continue
                got = {}
                for name, call in [("db.count(q)", lambda: db.count(q)), ("db.count(q, 'm1')", lambda: db.count(q, "m1")),
                                   ("db.measurement('m1').count(q)", lambda: db.measurement("m1").count(q)),
                                   ("len(db.search(q, 'm1'))", lambda: len(db.search(q, "m1"))),
                                   ("len(db.measurement('m1').select('fields.f', q))", lambda: len(db.measurement("m1").select("fields.f", q))),
                                   ("db.measurement('m1').contains(q)", lambda: db.measurement("m1").contains(q))]:
                    try:
                        got[name] = call()
                    except Exception as e:
                        got[name] = "raised " + type(e).__name__ + ": " + str(e)[:60]
                want = {"db.count(q)": want_all, "db.count(q, 'm1')": want_m1, "db.measurement('m1').count(q)": want_m1,
                        "len(db.search(q, 'm1'))": want_m1, "len(db.measurement('m1').select('fields.f', q))": want_m1,
                        "db.measurement('m1').contains(q)": want_m1 > 0}
                bad = {k: v for k, v in got.items() if v != want[k]}
                if bad:
                    out.append(Finding(
                        "impl-vs-spec", f"mem/{'auto' if au else 'noauto'}: q = {label}: " + "; ".join(f"{k} = {v} (expected {want[k]})" for k, v in bad.items())[:600],
                        dict(family="hist-container-args", query=label, auto_index=au, observed={k: str(v) for k, v in bad.items()},
                             property=self.prop)))
        return out[:1]

    def one_shot_unset(self):
        """`unset_tags` / `unset_fields` are `Union[str, Iterable[str]]`: a generator or an iterator is an iterable of strings,
        and the keys it yields are removed like those of a list"""
        tf = C.import_tinyflux()
        from tinyflux.storages import MemoryStorage

        out = []
        forms = [("a list", lambda ks: list(ks)), ("a tuple", lambda ks: tuple(ks)), ("a generator", lambda ks: (k for k in ks)),
                 ("an iterator", lambda ks: iter(list(ks))), ("a set", lambda ks: set(ks)), ("dict keys", lambda ks: {k: 1 for k in ks}.keys())]
        for au in (True, False):
            for slot in ("unset_tags", "unset_fields"):
                for fname, mk in forms:
                    db = tf.TinyFlux(storage=MemoryStorage, auto_index=au)
                    for i in range(3):
                        db.insert(tf.Point(time=V.dt_of(G.T0 + i), measurement="m", tags={"a": "x", "b": "y", "c": str(i)},
                                           fields={"a": 1, "b": 2, "c": i}))
                    try:
                        n = db.update(tf.TagQuery().c != "1", **{slot: mk(["a", "b"])})
                    except Exception as e:
                        n = "raised " + type(e).__name__
                    attr = "tags" if slot == "unset_tags" else "fields"
                    got = [sorted(getattr(p, attr)) for p in db.all(sorted=False)]
                    want = [["c"], ["a", "b", "c"], ["c"]]
                    if (n, got) != (2, want):
                        out.append(Finding(
                            "impl-vs-spec", f"mem/{'auto' if au else 'noauto'}: update(c != '1', {slot}=<{fname} yielding 'a', 'b'>) answered {n} and "
                            f"left the {attr} keys {got} (expected 2 and {want})",
                            dict(family="hist-one-shot-unset", slot=slot, form=fname, auto_index=au, observed=str(got), expected=str(want),
                                 property=self.prop)))
        return out[:1]

    def shared_result_object(self):
        """an update callable that answers the *same* dict object for several points (`lambda t: t or DEFAULTS`): each point
        gets the values, not the object — a later update of one of them changes exactly the selected point"""
        tf = C.import_tinyflux()
        from tinyflux.storages import MemoryStorage

        out = []
        for au in (True, False):
            for slot in ("tags", "fields"):
                db = tf.TinyFlux(storage=MemoryStorage, auto_index=au)
                for i in range(4):
                    db.insert(tf.Point(time=V.dt_of(G.T0 + i), measurement="m",
                                       tags=({"id": str(i)} if slot == "fields" else {}),
                                       fields=({"n": i} if slot == "tags" else {})))
                default = {"zone": "none"} if slot == "tags" else {"level": 0}
                n1 = db.update_all(**{slot: (lambda old, d=default: old if old else d)})
                sel = (tf.FieldQuery().n == 2) if slot == "tags" else (tf.TagQuery().id == "2")
                n2 = db.update(sel, **{slot: ({"zone": "b"} if slot == "tags" else {"level": 7})})
                got = [dict(getattr(p, slot)) for p in db.all(sorted=False)]
                want = [({"zone": "none"} if slot == "tags" else {"level": 0}) for _ in range(4)]   # not read from `default`
                want[2] = {"zone": "b"} if slot == "tags" else {"level": 7}
                if (n1, n2, got) != (4, 1, want):
                    out.append(Finding(
                        "impl-vs-spec", f"mem/{'auto' if au else 'noauto'}: update_all({slot}=lambda old: old or DEFAULTS) over four points with an "
                        f"empty {slot[:-1]} set answered {n1}; then update(one point, {slot}=…) answered {n2} and left {got} (expected 4, 1, {want})",
                        dict(family="hist-shared-result", slot=slot, auto_index=au, observed=str(got), expected=str(want), property=self.prop)))
        return out[:1]

    def read_during_iteration(self):
        """`for p in db:` / `for p in db.measurement(m):` with another read of the same database inside the loop body:
        the iteration must still deliver every stored point. A shortfall whose only cause is a read that goes to CSV storage
        (one shared file handle) carries the signature of the recorded finding; anything else is reported"""
        import shutil
        import tempfile

        tf = C.import_tinyflux()
        from tinyflux.storages import MemoryStorage

        out = []
        root = tempfile.mkdtemp(prefix="vf_iter_")
        n = 0
        try:
            for st in ("mem", "csv"):
                for au in (True, False):
                    inner = [("len(db)", lambda db: len(db)), ("db.count(a == '1')", lambda db: db.count(tf.TagQuery().a == "1")),
                             ("db.get_tag_keys()", lambda db: db.get_tag_keys()), ("db.all()", lambda db: db.all()),
                             ("db.get_timestamps('m')", lambda db: db.get_timestamps("m"))]
                    for label, read in inner:
                        n += 1
                        db = (tf.TinyFlux(storage=MemoryStorage, auto_index=au) if st == "mem"
                              else tf.TinyFlux(os.path.join(root, f"i{n}.csv"), auto_index=au))
                        db.insert_multiple(tf.Point(time=V.dt_of(G.T0 + i), measurement="m", tags={"a": str(i)}) for i in range(5))
                        seen = {"for p in db": 0, "for p in db.measurement('m')": 0}
                        try:
                            for _ in db:
                                seen["for p in db"] += 1
                                read(db)
                            for _ in db.measurement("m"):
                                seen["for p in db.measurement('m')"] += 1
                                read(db)
                        except Exception as e:
                            seen["raised"] = type(e).__name__
                        db.close()
                        if seen != {"for p in db": 5, "for p in db.measurement('m')": 5}:
                            # the recorded finding: CSV storage, and the inner read is one that goes to storage
                            to_storage = st == "csv" and (not au or label == "db.all()")
                            out.append(Finding(
                                "impl-vs-spec", f"{st}/{'auto' if au else 'noauto'}: 5 points stored; with `{label}` inside the loop body, "
                                f"iteration delivered {seen}",
                                dict(family="hist-read-during-iteration", storage=st, auto_index=au, inner=label, observed=seen,
                                     expected="5 and 5", property=self.prop),
                                signature=("storage-read-during-iteration" if to_storage and "raised" not in seen else None)))
        finally:
            shutil.rmtree(root, ignore_errors=True)
        out.sort(key=lambda f: f.signature is not None)
        return out[:1] if out and out[0].signature is None else out[:1]

    def noninjective_transforms(self):
        """queries whose path transform maps several stored names / values to one (`map(str.lower) == ...`), or whose
        user function tells apart values that compare equal (0.0 / -0.0, 1 / 1.0): on both paths, through the database and
        through handles, search / count / select / remove / update select exactly the points on which the query is true"""
        import math
        import shutil
        import tempfile

        tf = C.import_tinyflux()
        from tinyflux.storages import MemoryStorage

        def is_int(v):
            return isinstance(v, int)

        def neg_signed(v):
            return math.copysign(1.0, v) < 0

        names = ["rooms", "Rooms", "other", "ROOMS"]
        cities = ["paris", "Paris", "rome", "PARIS", None]
        vals = [0.0, -0.0, 1, 1.0, 2]
        queries = [
            ("MeasurementQuery().map(str.lower) == 'rooms'", lambda: tf.MeasurementQuery().map(str.lower) == "rooms"),
            ("TagQuery().city.map(str.lower) == 'paris'", lambda: tf.TagQuery().city.map(str.lower) == "paris"),
            ("TagQuery().city.map(str.upper) != 'PARIS'", lambda: tf.TagQuery().city.map(str.upper) != "PARIS"),
            ("FieldQuery().v.test(negative sign)", lambda: tf.FieldQuery().v.test(neg_signed)),
            ("FieldQuery().v.map(sign) == -1.0", lambda: tf.FieldQuery().v.map(lambda x: math.copysign(1.0, x)) == -1.0),
            ("FieldQuery().v.test(is an int)", lambda: tf.FieldQuery().v.test(is_int)),
            ("(TagQuery().city.map(str.lower) == 'paris') & (MeasurementQuery().map(str.lower) == 'rooms')",
             lambda: (tf.TagQuery().city.map(str.lower) == "paris") & (tf.MeasurementQuery().map(str.lower) == "rooms")),
        ]
        out = []
        root = tempfile.mkdtemp(prefix="vf_noninj_")
        n = 0
        try:
            for st in ("mem", "csv"):
                for au in (True, False):
                    for label, build in queries:
                        n += 1
                        if st == "csv" and "is an int" in label:
                            # the file holds every number as a float text: 1 comes back as 1.0, an equal value of another
                            # type (C05 promises an equal point) — a function of the type is not a function of the value
                            continue

                        def fresh_db():
                            nonlocal n
                            n += 1
                            db = (tf.TinyFlux(storage=MemoryStorage, auto_index=au) if st == "mem"
                                  else tf.TinyFlux(os.path.join(root, f"n{n}.csv"), auto_index=au))
                            for i in range(20):
                                tags = {"id": str(i)}
                                if cities[i % 5] is not None:
                                    tags["city"] = cities[i % 5]
                                db.insert(tf.Point(time=V.dt_of(G.T0 + i), measurement=names[i % 4], tags=tags,
                                                   fields={"v": vals[(i // 2) % 5]}))
                            return db

                        db = fresh_db()
                        q = build()
                        stored = db.all(sorted=False)
                        want_ids = [p.tags["id"] for p in stored if q(p)]
                        want_h = [p.tags["id"] for p in stored if p.measurement == "ROOMS" and q(p)]
                        got = {}
                        try:
                            got["db.search(q)"] = [p.tags["id"] for p in db.search(q, sorted=False)]
                            got["db.count(q)"] = db.count(q)
                            got["db.select('tags.id', q)"] = list(db.select("tags.id", q))
                            got["db.measurement('ROOMS').search(q)"] = [p.tags["id"] for p in db.measurement("ROOMS").search(q, sorted=False)]
                            got["db.measurement('ROOMS').count(q)"] = db.measurement("ROOMS").count(q)
                            got["db.count(q, 'ROOMS')"] = db.count(q, "ROOMS")
                            got["db.measurement('ROOMS').update(q, tags={'seen': '1'})"] = db.measurement("ROOMS").update(q, tags={"seen": "1"})
                            got["db.remove(q)"] = db.remove(q)
                            got["ids left after db.remove(q)"] = [p.tags["id"] for p in db.all(sorted=False)]
                        except Exception as e:
                            got["raised"] = type(e).__name__ + ": " + str(e)[:80]
                        want = {"db.search(q)": want_ids, "db.count(q)": len(want_ids), "db.select('tags.id', q)": want_ids,
                                "db.measurement('ROOMS').search(q)": want_h, "db.measurement('ROOMS').count(q)": len(want_h),
                                "db.count(q, 'ROOMS')": len(want_h),
                                "db.measurement('ROOMS').update(q, tags={'seen': '1'})": len(want_h), "db.remove(q)": len(want_ids),
                                "ids left after db.remove(q)": [str(i) for i in range(20) if str(i) not in want_ids]}
                        bad = {k: v for k, v in got.items() if k == "raised" or v != want[k]}
                        db.close()
                        if bad:
                            out.append(Finding(
                                "impl-vs-spec", f"{st}/{'auto' if au else 'noauto'}: q = {label} over 20 points whose names / values the "
                                f"transform maps together: " + "; ".join(f"{k} = {v} (expected {want.get(k)})" for k, v in bad.items())[:600],
                                dict(family="hist-noninjective", query=label, storage=st, auto_index=au, property=self.prop,
                                     observed={k: str(v) for k, v in bad.items()})))
        finally:
            shutil.rmtree(root, ignore_errors=True)
        return out[:1]

    def reentrant_insert(self, raising=False):
        """`insert_multiple` consuming a generator that reads the same database between yields ("insert if absent"):
        every read may rebuild the index in the middle of the call; afterwards a valid index must equal a rebuilt one"""
        import shutil
        import tempfile

        tf = C.import_tinyflux()
        from tinyflux.index import Index
        from tinyflux.storages import MemoryStorage
        from impl import ImplRunner

        R = ImplRunner.__new__(ImplRunner)
        R.tf = tf
        out = []
        root = tempfile.mkdtemp(prefix="vf_reent_")
        orders = [[3, 1, 2, 4], [1, 2, 3, 4], [4, 3, 2, 1], [2, 2, 1, 5, 0], [5, 6, 1, 7, 8, 2],
                  [-95, 3, 4], [-95, -96, 2], [3, -95, 4]]        # also points older than what is stored already
        try:
            n = 0
            for st in ("mem", "csv"):
                for start_invalid in (False, True):
                    for order in orders:
                        n += 1
                        db = (tf.TinyFlux(storage=MemoryStorage, auto_index=True) if st == "mem"
                              else tf.TinyFlux(os.path.join(root, f"r{n}.csv"), auto_index=True))
                        db.insert(tf.Point(time=V.dt_of(G.T0 + 10), tags={"a": "base"}, fields={"f": 0}))
                        if start_invalid:
                            db.insert(tf.Point(time=V.dt_of(G.T0 - 10), tags={"a": "early"}))    # out of order: invalid
                        batch = [tf.Point(time=V.dt_of(G.T0 + 100 + k), measurement=("m1" if k % 2 else "m2"),
                                          tags={"a": "x", "id": str(j)}, fields={"f": k}) for j, k in enumerate(order)]

                        nested = (n % 3 == 0)

                        def absent(db=db, batch=batch, nested=nested):
                            for j, p in enumerate(batch):
                                if nested and j == 1:
                                    # ... or a write: a later point goes in through a nested call
                                    db.insert(tf.Point(time=V.dt_of(G.T0 + 150), tags={"a": "x", "id": "nested"}))
                                if not db.contains(tf.TimeQuery() == p.time):     # a read in the middle of the insert
                                    yield p
                            if raising:
                                yield "not a point"          # the call raises after everything before was stored (C11)

                        try:
                            db.insert_multiple(absent())
                            if raising:
                                out.append(Finding("impl-vs-spec", f"{st}: insert_multiple accepted a non-Point at the end of a generator",
                                                   dict(family="hist-reentrant", storage=st, order=order, raising=True)))
                                continue
                        except TypeError as e:
                            if not raising:
                                out.append(Finding("impl-vs-spec", f"{st}: insert_multiple(generator reading the database) raised {type(e).__name__}: {e}",
                                                   dict(family="hist-reentrant", storage=st, order=order)))
                                continue
                        except Exception as e:
                            out.append(Finding("impl-vs-spec", f"{st}: insert_multiple(generator reading the database) raised {type(e).__name__}: {e}",
                                               dict(family="hist-reentrant", storage=st, order=order)))
                            continue
                        contents = [db._storage._deserialize_storage_item(i) for i in db._storage]
                        problems = []
                        if db.index.valid:
                            fresh = Index()
                            fresh.build(contents)
                            for pr in probes():
                                a1, a2 = safe_idx(R, db.index, pr), safe_idx(R, fresh, pr)
                                if a1 != a2:
                                    problems.append(f"{V.sx(pr)} answers {a1}, a rebuilt index {a2}")
                                    break
                        for k in sorted(set(order)) + [149, 150]:
                            for nm, q, f in (("time > ", tf.TimeQuery() > V.dt_of(G.T0 + 100 + k), lambda t, k=k: t > G.T0 + 100 + k),
                                             ("time <= ", tf.TimeQuery() <= V.dt_of(G.T0 + 100 + k), lambda t, k=k: t <= G.T0 + 100 + k)):
                                got = db.count(q)
                                exp = sum(1 for p in contents if f(V.us_of(p.time)))
                                if got != exp:
                                    problems.append(f"count({nm}T0+{100 + k}µs) = {got}, by inspection of the stored points {exp}")
                                    break
                            if problems:
                                break
                        c = db.count(tf.TagQuery().a == "x")
                        want = len({k for k in order}) + (1 if nested else 0)
                        if c != want or len(db) != len(contents):
                            problems.append(f"count(a == 'x') = {c} (distinct times inserted: {want}), len(db) = {len(db)}, stored {len(contents)}")
                        db.close()
                        if problems:
                            out.append(Finding(
                                "impl-vs-spec",
                                f"{st}/auto, index {'invalid' if start_invalid else 'valid'} at the start: insert_multiple of a generator that calls "
                                f"db.contains() before each yield, times +{order}: " + "; ".join(problems)[:500],
                                dict(family="hist-reentrant", storage=st, order=order, start_invalid=start_invalid, observed=problems,
                                     raising=raising)))
        finally:
            shutil.rmtree(root, ignore_errors=True)
        return out[:1]

    def failed_rebuild(self):
        """a rebuild of the index that fails part-way (a transient read error after k rows of the scan) must
        leave nothing behind: the next successful rebuild answers like a fresh index over the same storage"""
        import shutil
        import tempfile

        tf = C.import_tinyflux()
        from tinyflux.index import Index
        from tinyflux.storages import CSVStorage

        class Flaky(CSVStorage):
            fail_after = None

            def __iter__(self):
                n = 0
                for row in super().__iter__():
                    if self.fail_after is not None and n == self.fail_after:
                        self.fail_after = None
                        raise OSError(5, "transient read error")
                    n += 1
                    yield row

        out = []
        d = tempfile.mkdtemp(prefix="vf_rebuild_")
        try:
            for k in range(0, 7):
                path = os.path.join(d, f"r{k}.csv")
                db = tf.TinyFlux(path, storage=Flaky, auto_index=True)
                pts = [tf.Point(time=V.dt_of(G.T0 + i), measurement=("m1" if i % 2 else "m2"),
                                tags={"a": "x" if i % 3 else "y"}, fields={"f": i}) for i in range(6)]
                db.insert_multiple(pts)
                db.insert(tf.Point(time=V.dt_of(G.T0 - 5), measurement="m1", tags={"b": "z"}))   # out of order
                db._storage.fail_after = k
                raised = False
                try:
                    db.count(tf.TagQuery().a == "x")
                except OSError:
                    raised = True
                runner_probe = []
                fresh = Index()
                live_ok = True
                try:
                    n_live = db.count(tf.TagQuery().a == "x")
                    contents = [db._storage._deserialize_storage_item(i) for i in db._storage]
                    fresh.build(contents)
                    from impl import ImplRunner
                    R = ImplRunner.__new__(ImplRunner)
                    R.tf = tf
                    for pr in probes():
                        a1, a2 = safe_idx(R, db.index, pr), safe_idx(R, fresh, pr)
                        if a1 != a2:
                            runner_probe.append((V.sx(pr), a1, a2))
                    if len(db) != len(contents):
                        runner_probe.append(("len(db)", str(len(db)), str(len(contents))))
                except Exception as e:
                    live_ok = False
                    runner_probe.append(("read after the failed rebuild", "raised " + type(e).__name__, "an answer"))
                db.close()
                if (runner_probe and db.index.valid) or not live_ok:
                    out.append(Finding(
                        "impl-vs-spec",
                        f"csv/auto: 6 in-order points, one out-of-order insert, a read whose index rebuild fails with a transient "
                        f"OSError after {k} rows (raised={raised}), then reads: the valid index differs from a rebuilt one: {runner_probe[:3]}",
                        dict(family="hist-failed-rebuild", fail_after=k, observed=[list(x) for x in runner_probe[:6]],
                             expected="live index == index rebuilt from storage")))
        finally:
            shutil.rmtree(d, ignore_errors=True)
        return out[:1]

    def make_finding(self, case, d, model_ok, with_probes):
        prop = self.prop

        def pred(c):
            if not c["ops"]:
                return False
            try:
                d2 = run_one(c, model_ok and d["kind"] == "correspondence", with_probes)
            except Exception:
                return False
            if d2 is None or d2["kind"] != d["kind"]:
                return False
            d2 = refine(c, d2, model_ok, with_probes)
            return prop in d2["props"]

        small = D.shrink(case, pred, max_trials=120)
        d2 = run_one(small, model_ok, with_probes)
        if d2 is None:
            small, d2 = case, d
        else:
            d2 = refine(small, d2, model_ok, with_probes)
        sig = signature(small, d2)
        return Finding(
            d2["kind"],
            f"{small['cfg'][1]}/{small['cfg'][2]}: after {len(small['ops'])} ops, {d2['role']} of "
            f"`{V.sx(small['ops'][d2['index']])[:160]}`: implementation {d2['impl'][:200]} | model {str(d2['model'])[:200]} | spec {str(d2['spec'])[:200]}",
            dict(family="hist", cfg=small["cfg"], ops=small["ops"], ops_sx=[V.sx(o) for o in small["ops"]],
                 index=d2["index"], role=d2["role"], observed=d2["impl"], model=d2["model"], expected=d2["spec"],
                 probe=d2.get("probe"), props=d2["props"]),
            signature=sig)

    def replay_known(self, k):
        case = k.get("witness")
        if not case:
            return False
        if case.get("scenario") == "read-during-iteration":
            return any(f.signature == k["signature"] for f in self.read_during_iteration())
        d = run_one(case, False, False)
        return d is not None and d["kind"] == "impl-vs-spec"


def signature(case, d):
    """name of the known-finding predicate a minimal failing history matches, if any"""
    op = D.inner(case["ops"][d["index"]])
    flat = V.sx(op)
    # the empty measurement name used as a filter / handle name
    toks = flat.replace("(", " ").replace(")", " ").split()
    if "x" not in toks:
        return None
    # the known finding is precisely: the name "" is read as `no measurement given`. The implementation must then
    # answer this history as it answers the one with the filter left out; anything else is another violation.
    pos = {"search": 2, "count": 2, "contains": 2, "get": 2, "remove": 2, "select": 3, "tagkeys": 1, "fieldkeys": 1,
           "timestamps": 1, "tagvalues": 2, "fieldvalues": 2, "ins": 1, "update": 3}
    name = op[0]
    if name not in pos or op[pos[name]] != "x":
        return "empty-measurement-name"          # drop / mlen / miter / mall of "", or "" elsewhere in the term
    try:
        op2 = list(op)
        op2[pos[name]] = "~"
        ops2 = list(case["ops"])
        ops2[d["index"]] = op2
        d2 = run_one(dict(case, ops=ops2), False, False)
    except Exception:
        return "empty-measurement-name"
    if d2 is None or d2["index"] > d["index"]:
        return "empty-measurement-name"
    return None


def replay(payload):
    if payload.get("family") == "hist-container-args":
        r = Family(payload.get("property", "C01")).container_test_args()
        print(r[0].summary if r else "container-argument scenario passes")
        return bool(r)
    if payload.get("family") == "hist-one-shot-unset":
        r = Family(payload.get("property", "C03")).one_shot_unset()
        print(r[0].summary if r else "one-shot unset scenario passes")
        return bool(r)
    if payload.get("family") == "hist-shared-result":
        r = Family(payload.get("property", "C03")).shared_result_object()
        print(r[0].summary if r else "shared-result-object scenario passes")
        return bool(r)
    if payload.get("family") == "hist-read-during-iteration":
        r = Family(payload.get("property", "C07")).read_during_iteration()
        print(r[0].summary if r else "read-during-iteration scenario passes")
        return bool(r)
    if payload.get("family") == "hist-noninjective":
        r = Family(payload.get("property", "C01")).noninjective_transforms()
        print(r[0].summary if r else "non-injective transform scenario passes")
        return bool(r)
    if payload.get("family") == "hist-reentrant":
        r = Family(payload.get("property", "C06")).reentrant_insert(raising=bool(payload.get("raising")))
        print(r[0].summary if r else "re-entrant insert scenario passes")
        return bool(r)
    if payload.get("family") == "hist-error-scenario":
        r = Family("C11").error_scenarios(only=payload.get("scenario"))
        for f in r:
            print(f.summary)
        if not r:
            print("the scenario passes")
        return bool(r)
    if payload.get("family") == "hist-failed-rebuild":
        r = Family("C06").failed_rebuild()
        print(r[0].summary if r else "failed-rebuild scenario passes")
        return bool(r)
    if payload.get("family") == "hist-alias":
        r = Family("C11").aliased_rollback()
        print(r[0].summary if r else "aliased rollback scenario passes")
        return bool(r)
    case = {"cfg": payload["cfg"], "ops": payload["ops"]}
    d = run_one(case, False, payload.get("role") == "idx")
    for i, o in enumerate(payload.get("ops_sx", [])):
        print(f"  {i}: {o}")
    if d is None:
        print("implementation agrees with the specification on this history")
        return False
    print(f"  at op {d['index']} ({d['role']}): implementation {d['impl']}\n  specification {d['spec']}")
    return True
