"""registry of the checks beyond C18"""


def more():
    import fam_expr
    import fam_c05

    reg = {
        "C09": dict(family=fam_expr.FamilyC09(), lean=["TinyFlux.Props.C09"], gen=(), ref="5/C09",
                    replay=fam_expr.replay_c09),
        "C17": dict(family=fam_expr.FamilyC17(), lean=["TinyFlux.Props.C17"], gen=("Hash",), ref="5/C17",
                    replay=fam_expr.replay_c17),
    }
    import fam_hist

    for pid in ("C01", "C02", "C03", "C06", "C07", "C10", "C11"):
        reg[pid] = dict(family=fam_hist.Family(pid), lean=[f"TinyFlux.Props.{pid}"], gen=("Utils", "Forward") if pid == "C10" else (("Utils", "IndexTables") if pid in ("C01", "C06") else ("Utils",)), ref=f"5/{pid}",
                        replay=fam_hist.replay)
    import fam_io

    for pid, gen in (("C04", ()), ("C12", ()), ("C13", ()), ("C15", ("Modes", "Decorators")), ("C16", ())):
        reg[pid] = dict(family=fam_io.Family(pid), lean=[f"TinyFlux.Props.{pid}", f"TinyFlux.Props.{pid}EndToEnd"], gen=gen, ref=f"5/{pid}",
                        replay=fam_io.replay)
    import fam_c14

    reg["C14"] = dict(family=fam_c14.Family(), lean=["TinyFlux.Props.C14"], gen=("Validators",), ref="5/C14",
                      replay=fam_c14.replay)
    import fam_c08

    reg["C08"] = dict(family=fam_c08.Family(), lean=["TinyFlux.Props.C08"], gen=("Utils", "Codec"), ref="5/C08",
                      replay=fam_c08.replay)
    reg["C05"] = dict(family=fam_c05.Family(), lean=["TinyFlux.Props.C05"], gen=("Codec",), ref="5/C05",
                      replay=fam_c05.replay)
    return reg
