"""registry of the checks beyond C18"""


def more():
    import fam_expr
    import fam_c05

    reg = {
        "C09": dict(family=fam_expr.FamilyC09(), lean=["TinyFlux.Props.C09"], gen=(), ref="5/C09",
                    replay=fam_expr.replay_c09),
        "C17": dict(family=fam_expr.FamilyC17(), lean=["TinyFlux.Props.C17"], gen=("Hash",), ref="5/C17",
                    replay=fam_expr.replay_c17),
    }
    reg["C05"] = dict(family=fam_c05.Family(), lean=["TinyFlux.Props.C05"], gen=("Codec",), ref="5/C05",
                      replay=fam_c05.replay)
    return reg
