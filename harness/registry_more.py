"""registry of the checks beyond C18"""


def more():
    import fam_expr

    reg = {
        "C09": dict(family=fam_expr.FamilyC09(), lean=["TinyFlux.Props.C09"], gen=(), ref="5/C09",
                    replay=fam_expr.replay_c09),
        "C17": dict(family=fam_expr.FamilyC17(), lean=["TinyFlux.Props.C17"], gen=("Hash",), ref="5/C17",
                    replay=fam_expr.replay_c17),
    }
    return reg
