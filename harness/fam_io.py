"""File-level families (C04 C12 C13 C15 C16): histories on a real CSV database with the run-time I/O
proxies installed.

* every operation's recorded I/O calls are compared with the Model's prediction (`opSteps`, the step
  lists the Lean theorems are about);
* after every operation the file is decoded by an independent reader and compared with the Spec's
  contents (C04), reads / no-op writes must leave the bytes and the directories untouched (C15),
  inserts must only append and make a constant number of calls without reading (C16);
* for every I/O boundary of sampled operations a forked child re-runs the history and dies at that
  boundary (`os._exit`: genuine loss of user-space buffers) and the file it leaves is decoded (C12);
* for every I/O call index of sampled operations an `OSError` is injected before (and, for
  flush/fsync/close, after) the call takes effect, then the live object and the file are examined (C13).
"""
import csv
import json
import multiprocessing
import os
import random
import shutil
import tempfile

import common as C
import diffrun as D
import gen as G
import ioproxy as IO
import vocab as V
from engine import Finding, Result

hx = V.hx
ENCS = [None, "utf-8", "utf-16", "latin-1", "utf-8-sig"]
DIALS = [{}, {"delimiter": ";"}, {"delimiter": "\t"}, {"quoting": csv.QUOTE_ALL}, {"quotechar": "'"}]
MUTATING = {"ins", "remove", "drop", "removeall", "update"}


def latin1_ok(term):
    try:
        for a in _atoms(term):
            if a.startswith("x"):
                V.unhx(a).encode("latin-1")
    except Exception:
        return False
    return True


def _atoms(t):
    if isinstance(t, str):
        yield t
    else:
        for x in t:
            yield from _atoms(x)


def _no_field_noop(t):
    """The Lean `noop` carries no query type, but the code's `index_is_exact` sends `~FieldQuery().noop()` down the
    scan path (same answers, other I/O calls): keep the predicted traces comparable by not generating that shape."""
    if isinstance(t, str):
        return t
    if t and t[0] == "noop" and len(t) > 1 and t[1] == "field":
        return ["noop", "tag"]
    return [_no_field_noop(x) for x in t]


SENTINEL = hx("_none")


def _has_sentinel_tag_value(t):
    if isinstance(t, str):
        return False
    if t and t[0] in ("tags", "s", "const") or (len(t) > 1 and t[0] == "c" and t[1] == "const"):
        for kv in t[1:]:
            if isinstance(kv, list) and len(kv) == 2 and kv[1] == SENTINEL:
                return True
    return any(_has_sentinel_tag_value(x) for x in t if isinstance(x, list))


class IORunner:
    """one database in its own directory, proxies installed"""

    def __init__(self, case, root):
        self.tf = C.import_tinyflux()
        import tinyflux.storages as S

        self.S = S
        self.case = case
        self.dir = tempfile.mkdtemp(prefix="db_", dir=root)
        self.tmpdir = os.path.join(self.dir, "tmp")
        os.mkdir(self.tmpdir)
        self.dbdir = os.path.join(self.dir, "d")
        os.mkdir(self.dbdir)
        self.path = os.path.join(self.dbdir, "db.csv")
        if case.get("symlink"):
            # the path handed to TinyFlux is a symbolic link to a file in another directory
            real_dir = os.path.join(self.dir, "real")
            os.mkdir(real_dir)
            real = os.path.join(real_dir, "real.csv")
            open(real, "w").close()
            os.symlink(real, self.path)
        elif case.get("hardlink"):
            # the database file has a second name (a `cp -l` snapshot) in another directory
            link_dir = os.path.join(self.dir, "snap")
            os.mkdir(link_dir)
            open(self.path, "w").close()
            os.link(self.path, os.path.join(link_dir, "snapshot.csv"))
        self.undo = IO.install(S, self.path)
        self.tzctx = C.ProcessTZ(case.get("tz"))
        self.tzctx.__enter__()
        self.saved_tmp = tempfile.tempdir
        tempfile.tempdir = self.tmpdir
        from impl import ImplRunner

        self.r = ImplRunner(workdir=self.dbdir)
        self.r.path = self.path
        cfg = case["cfg"]
        self.kw = dict(case.get("csv", {}))
        self.enc = case.get("enc")
        self.flush = case.get("flush", True)
        self.mode = case.get("mode", "r+")
        self.r.cfg = ("csv", cfg[2] == "auto")
        kw = dict(self.kw)
        if self.enc:
            kw["encoding"] = self.enc
        if not self.flush:
            kw["flush_on_insert"] = False
        if self.mode != "r+":
            kw["access_mode"] = self.mode
        self.r.csv_kwargs = kw
        if case.get("ctx"):
            # the database is used as a context manager: `with TinyFlux(...) as db:`
            plain_open = self.r._open

            def entered_open():
                plain_open()
                self.r.db.__enter__()

            self.r._open = entered_open
        IO.CTL.reset()
        self.r._open()

    def close(self):
        try:
            if self.r.db is not None:
                self.r.db.close()
        except Exception:
            pass
        self.r.db = None
        self.undo()
        self.tzctx.__exit__()
        tempfile.tempdir = self.saved_tmp

    def cleanup(self):
        shutil.rmtree(self.dir, ignore_errors=True)

    # -- observations -----------------------------------------------------

    def file_bytes(self):
        with open(self.path, "rb") as f:
            return f.read()

    def listing(self):
        return (sorted(os.listdir(self.tmpdir)), sorted(os.listdir(self.dbdir)))

    def decode_file(self):
        """independent reader: plain csv.reader with the same dialect/encoding"""
        return decode_path(self.tf, self.path, self.enc, self.kw)

    def op(self, t):
        IO.CTL.reset()
        out = self.r.line(t)
        return out, IO.canon(IO.CTL.log)

    def contents(self):
        """the database's current logical contents as the live object reports them (not recorded)"""
        log, n = IO.CTL.log, IO.CTL.n
        try:
            return [V.show_point(p) for p in self.r.contents()]
        except Exception as e:
            return ["UNREADABLE " + type(e).__name__ + ": " + str(e)[:60]]
        finally:
            IO.CTL.log, IO.CTL.n = log, n


def decode_path(tf, path, enc, kw):
    try:
        with open(path, encoding=enc, newline="") as f:
            rows = list(csv.reader(f, **kw))
        return [V.show_point(tf.Point()._deserialize_from_list(r)) for r in rows]
    except Exception as e:
        return ["UNDECODABLE " + type(e).__name__ + ": " + str(e)[:60]]


def gen_case(seed, prop, idx):
    g = G.Gen(seed)
    r = g.r
    auto = r.random() < 0.6
    case = {"cfg": ["cfg", "csv", "auto" if auto else "noauto"]}
    if prop == "C04":
        case["enc"] = ENCS[idx % 5]
        case["csv"] = DIALS[(idx // 4) % len(DIALS)]
        case["flush"] = (idx // 20) % 2 == 0 or r.random() < 0.5
        g.hard = True
    elif prop == "C15":
        case["mode"] = ["r+", "r+", "r", "a", "w+"][idx % 5]
    if (prop in ("C13", "C15", "C16") and idx % 3 == 1) or (prop == "C12" and idx % 4 == 1):
        case["flush"] = False         # rows may sit in the handle's buffer: a rewrite must still flush what it swaps in
    if prop in ("C12", "C13", "C04") and idx % 5 == 3:
        case["symlink"] = True
    elif prop in ("C12", "C13", "C04", "C16") and idx % 5 == 1:
        case["hardlink"] = True
    if idx % 4 == 2:
        case["ctx"] = True
    if idx % 7 == 3:
        case["tz"] = C.LOCAL_ZONES[(idx // 7) % len(C.LOCAL_ZONES)]     # the process's local zone
    if prop in ("C04", "C12", "C13") and idx % 9 == 4:
        case["mode"] = "w+"           # read-write, truncating when opened: rewrites must not truncate again
    import fam_hist

    w = {"C04": dict(ins=34, read=14, get=6, rm=16, upd=16, drop=3, rmall=3, reidx=3, reopen=5),
         "C12": dict(ins=36, read=6, get=2, rm=22, upd=22, drop=4, rmall=4, reidx=2, reopen=2),
         "C13": dict(ins=36, read=8, get=3, rm=20, upd=20, drop=4, rmall=4, reidx=3, reopen=2),
         "C15": dict(ins=30, read=20, get=14, rm=14, upd=14, drop=3, rmall=1, reidx=3, reopen=1),
         "C16": dict(ins=50, read=20, get=8, rm=8, upd=8, drop=1, rmall=1, reidx=3, reopen=1)}[prop]
    n = r.randint(3, 9)
    ops = fam_hist.gen_history(g, n, True, w, 0.03)
    if prop in ("C04", "C12", "C13", "C16") and idx % 40 == 7 and idx < 500:
        # one insert_multiple beyond any batch / chunk threshold, somewhere in the history
        ops.insert(r.randrange(len(ops) + 1), fam_hist.bulk_insert(g, r.randint(1001, 1100)))
    ops = [_no_field_noop(o) for o in ops]
    ops = [o for o in ops if not _has_sentinel_tag_value(o)]     # C05's known finding, not C04's subject
    if case.get("enc") == "latin-1":
        ops = [o for o in ops if latin1_ok(o)]
    if case.get("mode") == "w+":
        # opening in "w+" truncates, by the user's choice: closing and reopening in that mode is not a no-op
        ops = [o for o in ops if D.op_name(o) != "reopen"]
    if prop == "C15" and case.get("mode") in ("r", "a", "w+"):
        # pre-populate through a normal handle, then reopen in the mode under test
        case["prefill"] = [g.insert_op() for _ in range(2)]
    case["ops"] = ops
    return case


def huge_case(seed, variant):
    """one history over ~8 300 points: an in-order insert_multiple, then a removal that keeps two or three points
    (index-exact query / measurement scan) — crash and fault trials go to the removal"""
    r = random.Random(seed)
    n = r.randint(8250, 8400)
    T0 = G.T0
    tiny = sorted(r.sample(range(n), 2))
    pts = [["pt", str(T0 + i), hx("tiny" if i in tiny else "big"), ["tags", [hx("k"), hx(str(i % 3))]], ["fields"]] for i in range(n)]
    rm = (["remove", ["time", ["cmp", "gt", f"t:{T0 + 1}"]], "~"] if variant % 2 == 0 else ["drop", hx("big")])
    return {"cfg": ["cfg", "csv", "auto" if variant % 2 == 0 else "noauto"], "huge": True,
            "ops": [["ins", "~"] + pts, rm, ["all", "0"]]}


def giant_case(seed, variant):
    """one history over 17 000 - 21 000 points under flush_on_insert=False (no sync per row): a removal that keeps more than
    16 384 rows, then an update that changes one point — rewrites of more rows than any batch size a rewrite might use"""
    r = random.Random(seed)
    n = r.randint(17000, 21000)
    T0 = G.T0
    pts = [["pt", str(T0 + i), hx("m1" if i % 2 else "m2"), ["tags", [hx("k"), hx(str(i % 3))]], ["fields"]] for i in range(n)]
    rm = ["remove", ["time", ["cmp", "lt", f"t:{T0 + 3}"]], "~"]
    up = ["update", "0", ["time", ["cmp", "eq", f"t:{T0 + 100 + variant}"]], "~", ["time", "~"], ["meas", "~"],
          ["tags", ["s", [hx("z"), hx("1")]]], ["fields", "~"], ["unsettags"], ["unsetfields"]]
    return {"cfg": ["cfg", "csv", "auto" if variant % 2 == 0 else "noauto"], "huge": True, "giant": True, "flush": False,
            "ops": [["ins", "~"] + pts, rm, ["count", ["noop", "time"], "~"], up, ["count", ["noop", "time"], "~"]]}


def lean_io_lines(case):
    """protocol lines for the model: cfg, then for each op: (io f op), op, (state)"""
    f = "1" if case.get("flush", True) else "0"
    lines = [V.sx(case["cfg"])]
    for op in case["ops"]:
        o = D.inner(op)
        lines.append("(io " + f + " " + V.sx(o) + ")")
        lines.append(V.sx(o))
        lines.append("(state)")
    return lines


def run_case(case, root, prop):
    """normal run: returns per-op records and disagreements"""
    R = IORunner(case, root)
    recs = []
    try:
        for op in case["ops"]:
            name = D.op_name(op)
            before_bytes = R.file_bytes()
            before_ls = R.listing()
            out, trace = R.op(op)
            after_bytes = R.file_bytes()
            after_ls = R.listing()
            rec = dict(op=op, name=name, out=out, trace=trace, contents=R.contents(),
                       valid=1 if (R.r.db is not None and R.r.db.index.valid) else 0,
                       bytes_same=(before_bytes == after_bytes), prefix=after_bytes.startswith(before_bytes),
                       ls_same=(before_ls == after_ls), ls=after_ls,
                       decoded=R.decode_file() if case.get("flush", True) else None)
            recs.append(rec)
        R.r.db.close()
        R.r.db = None
        final = R.decode_file()
        try:
            kw = dict(R.r.csv_kwargs)
            kw.pop("access_mode", None)
            kw.pop("flush_on_insert", None)
            db2 = R.tf.TinyFlux(R.path, access_mode="r", **kw)
            reopened = [V.show_point(p) for p in db2.all(sorted=False)]
            db2.close()
        except Exception as e:
            reopened = ["EXC " + type(e).__name__]
        return recs, final, reopened, R.listing()
    finally:
        R.close()
        R.cleanup()


def compare(case, recs, final, reopened, final_ls, model, spec, prop):
    """returns list of (kind, props, index, text)"""
    out = []
    k = 1
    for i, rec in enumerate(recs):
        pred = model[k][len("io="):] if model else None
        m_out, m_state = (model[k + 1], model[k + 2]) if model else (None, None)
        s_out, s_state = spec[k + 1], spec[k + 2]
        k += 3
        name = rec["name"]
        s_contents = D.split_state(s_state)[1]
        got_contents = V.show_list(str, rec["contents"])
        # the file alone must hold the Spec's contents (C04) — checked before anything else
        if rec["decoded"] is not None and V.show_list(str, rec["decoded"]) != s_contents and rec["out"] == s_out:
            out.append(("impl-vs-spec", ["C04"], i,
                        f"after `{V.sx(rec['op'])[:120]}` the file decodes to {V.show_list(str, rec['decoded'])[:300]} but the database holds {s_contents[:300]}"))
            break
        # ... and what the live database reports must be what its file holds
        if rec["decoded"] is not None and V.show_list(str, rec["decoded"]) != got_contents and rec["out"] == s_out:
            out.append(("impl-vs-spec", ["C04"], i,
                        f"after `{V.sx(rec['op'])[:120]}` the file decodes to {V.show_list(str, rec['decoded'])[:300]} but the live database reports {got_contents[:300]}"))
            break
        # results and contents vs the Spec (list-level properties own these; here they only stop the case)
        if rec["out"] != s_out or got_contents != s_contents:
            if case.get("giant"):
                # no list-level family reaches this size: the disagreement is reported here (the file holds what the live
                # database holds — and that is not what the operations mean)
                out.append(("impl-vs-spec", ["C04"], i,
                            f"after `{V.sx(rec['op'])[:120]}` over {len(rec['contents'])} rows: answer {rec['out'][:60]} (the operation's "
                            f"meaning gives {s_out[:60]}); the database and its file hold {len(rec['contents'])} rows, expected "
                            f"{s_contents.count('(')} "))
            else:
                out.append(("foreign", [], i, f"list-level disagreement at op {i}: {rec['out'][:80]} vs {s_out[:80]}"))
            break
        failed = rec["out"].startswith("err")
        if name not in MUTATING or (failed and name != "ins") or (name in ("remove", "drop", "update") and rec["out"] == "ok 0"):
            if not rec["bytes_same"] and name != "reopen":
                out.append(("impl-vs-spec", ["C15"], i, f"`{V.sx(rec['op'])[:120]}` ({rec['out'][:30]}) changed the database file"))
                break
        if not rec["ls_same"]:
            out.append(("impl-vs-spec", ["C15"], i, f"`{V.sx(rec['op'])[:120]}` left files behind: {rec['ls']}"))
            break
        if name == "ins":
            npts = len([p for p in D.inner(rec["op"])[2:]])
            stored = int(rec["out"][3:]) if rec["out"].startswith("ok ") else None
            if not rec["prefix"]:
                out.append(("impl-vs-spec", ["C16"], i, "insert did not only append: the previous file content is not a prefix of the new one"))
                break
            if any(s.endswith(".read") or s == "P.seek0" for s in rec["trace"]):
                out.append(("impl-vs-spec", ["C16"], i, f"insert read existing data: {rec['trace']}"))
                break
            per = 5 if case.get("flush", True) else 2
            if stored is not None and len(rec["trace"]) != per * stored:
                out.append(("impl-vs-spec", ["C16"], i, f"insert of {stored} points made {len(rec['trace'])} I/O calls, expected {per} per point: {rec['trace']}"))
                break
        if model is not None and V.show_list(str, rec["trace"]) != pred:
            out.append(("correspondence", ["C04", "C12", "C13", "C15", "C16"], i,
                        f"I/O calls of `{V.sx(rec['op'])[:120]}`: recorded {rec['trace']} predicted {pred}"))
            break
    else:
        s_final = D.split_state(spec[-1])[1] if recs else "[]"
        if V.show_list(str, final) != s_final:
            out.append(("impl-vs-spec", ["C04"], len(recs) - 1,
                        f"after close the file decodes to {V.show_list(str, final)[:300]} but the database held {s_final[:300]}"))
        elif V.show_list(str, reopened) != s_final:
            out.append(("impl-vs-spec", ["C04"], len(recs) - 1,
                        f"a fresh read-only TinyFlux sees {V.show_list(str, reopened)[:300]} but the database held {s_final[:300]}"))
        elif final_ls != ([], ["db.csv"]):
            out.append(("impl-vs-spec", ["C15"], len(recs) - 1, f"files left behind after close: {final_ls}"))
    return out


# -- crash / fault trials ------------------------------------------------------


def crash_trial(case, i, k, root):
    """fork a child that re-runs ops[:i] and dies at boundary k of ops[i]; returns decoded file"""
    d = tempfile.mkdtemp(prefix="crash_", dir=root)
    pid = os.fork()
    if pid == 0:
        code = 0
        try:
            R = IORunner(case, d)
            for op in case["ops"][:i]:
                R.op(op)
            IO.CTL.reset()
            IO.CTL.crash_at = k
            R.r.line(case["ops"][i])
        except BaseException:
            code = 3
        finally:
            os._exit(code)
    _, status = os.waitpid(pid, 0)
    code = os.WEXITSTATUS(status) if os.WIFEXITED(status) else -1
    tf = C.import_tinyflux()
    sub = [x for x in os.listdir(d) if x.startswith("db_")]
    path = os.path.join(d, sub[0], "d", "db.csv") if sub else None
    dec = decode_path(tf, path, case.get("enc"), case.get("csv", {})) if path and os.path.exists(path) else ["NOFILE"]
    shutil.rmtree(d, ignore_errors=True)
    return code, dec


def fault_trial(case, i, k, after, root, persistent=False):
    """in-process: OSError injected at call k of ops[i] (persistent: the device is full from call k on); returns observations"""
    R = IORunner(case, root)
    obs = {}
    try:
        for op in case["ops"][:i]:
            R.op(op)
        old = R.contents()
        IO.CTL.reset()
        if persistent:
            IO.CTL.fail_from = k
        else:
            IO.CTL.fail_at = k
            IO.CTL.fail_after = after
        out = R.r.line(case["ops"][i])
        injected = IO.CTL.failed is not None
        IO.CTL.fail_at = None
        IO.CTL.fail_from = None
        obs.update(out=out, injected=injected, step=IO.CTL.failed)
        # the live object afterwards: consistent with its own storage, or failing
        tf = R.tf
        live = {}

        def attempt(name, fn):
            # each read on its own: one that raises does not excuse another that answers
            try:
                live[name] = fn()
            except Exception as e:
                live.setdefault("errors", {})[name] = type(e).__name__

        attempt("all", lambda: [V.show_point(p) for p in R.r.db.all(sorted=False)])
        attempt("count", lambda: R.r.db.count(tf.TimeQuery().noop()))
        attempt("len", lambda: len(R.r.db))
        # answers the index alone can give: each must be the truth about the file the operation left, or an error
        IDX_READS = dict(measurements=lambda db: sorted(db.get_measurements()), tag_keys=lambda db: sorted(db.get_tag_keys()),
                         field_keys=lambda db: sorted(db.get_field_keys()), timestamps=lambda db: [str(t) for t in db.get_timestamps()],
                         tag_values=lambda db: sorted((k, sorted(map(repr, v))) for k, v in db.get_tag_values().items()))

        def idx_reads(db):
            return {k: f(db) for k, f in IDX_READS.items()}

        for name, f in IDX_READS.items():
            attempt(name, lambda f=f: f(R.r.db))
        if not live.get("errors"):
            try:
                if R.r.db.index.valid:
                    import fam_hist
                    from tinyflux.index import Index

                    fresh = Index()
                    fresh.build([R.r.db._storage._deserialize_storage_item(x) for x in R.r.db._storage])
                    for pr in fam_hist.probes():
                        a1, a2 = fam_hist.safe_idx(R.r, R.r.db.index, pr), fam_hist.safe_idx(R.r, fresh, pr)
                        if a1 != a2:
                            live["index_drift"] = f"{V.sx(pr)}: the valid index answers {a1}, one rebuilt from storage {a2}"
                            break
            except Exception as e:
                live.setdefault("errors", {})["probe"] = type(e).__name__
        obs["live"] = live
        obs["old"] = old
        try:
            R.r.db.close()
        except Exception as e:
            obs["close_error"] = type(e).__name__
        R.r.db = None
        obs["file"] = R.decode_file()
        obs["ls"] = R.listing()
        # what a fresh database object over the file the operation left answers (the reference for the live reads)
        try:
            undo, R.undo = R.undo, (lambda: None)
            undo()
            if not any(k in live for k in IDX_READS):
                raise LookupError("no index-only read answered: nothing to compare")
            ref_db = tf.TinyFlux(R.path, access_mode="r", encoding=R.enc, **R.kw)
            try:
                obs["ref"] = idx_reads(ref_db)
            finally:
                ref_db.close()
        except Exception as e:
            obs["ref_error"] = type(e).__name__
    finally:
        R.close()
        R.cleanup()
    return obs


def prefixes_ok(dec, old, new, is_insert):
    if dec == old or dec == new:
        return True
    if is_insert and len(old) <= len(dec) <= len(new) and new[:len(dec)] == dec and dec[:len(old)] == old:
        return True
    return False


def _case_worker(args):
    case, prop, tier, root = args
    return analyse_case(case, prop, tier, root)


def analyse_case(case, prop, tier, root):
    """everything for one case except the Lean comparison (done in the parent in one batch)"""
    recs, final, reopened, final_ls = run_case(case, root, prop)
    extra = []
    stats = dict(crash_trials=0, fault_trials=0)
    if prop in ("C12", "C13"):
        rnd = random.Random(hash(json.dumps(case, sort_keys=True)) & 0xFFFFFFF)
        cand = [i for i, r in enumerate(recs) if r["name"] in MUTATING and r["trace"]]
        rnd.shuffle(cand)
        cand.sort(key=lambda i: len(recs[i]["trace"]) <= 1000)       # an operation with thousands of calls first
        if case.get("huge"):
            cand = [i for i in cand if recs[i]["name"] != "ins"]     # the trials go to the removal over the huge file
        if prop == "C12" and not case.get("flush", True):
            cand = [i for i in cand if "replace" in recs[i]["trace"]]    # under buffered inserts only rewrites are atomic

        def boundaries(n):
            """every boundary of an ordinary operation; a spread of them for one with thousands of calls"""
            if case.get("huge"):
                return sorted(set(list(range(0, 6)) + list(range(6, n, max(1, n // 8))) + list(range(n - 6, n + 3))))
            if n <= 300:
                return list(range(0, n + 3))
            step = max(1, n // 24)
            return sorted(set(list(range(0, 14)) + list(range(14, n, step)) + list(range(n - 6, n + 3))))
        for i in cand[: (2 if tier == "quick" else 5)]:
            rec = recs[i]
            old = recs[i - 1]["contents"] if i > 0 else []
            new = rec["contents"]
            is_ins = rec["name"] == "ins"
            n = len(rec["trace"])
            # raw (uncanonicalised) boundaries: every recorded call, reads included
            if prop == "C12":
                if not case.get("flush", True):
                    # rows appended under flush_on_insert=False may still sit in a user-space buffer, so a death may lose a
                    # tail of the *old* contents — but a rewrite is atomic all the same: the temporary file is flushed and
                    # synced before it replaces the database file. Death before the replace: a prefix of the old rows;
                    # death after it: exactly the new contents.
                    if "replace" not in rec["trace"]:
                        continue
                    R0 = IORunner(case, root)
                    try:
                        for op in case["ops"][:i]:
                            R0.op(op)
                        IO.CTL.reset()
                        R0.r.line(case["ops"][i])
                        raw = list(IO.CTL.log)
                    finally:
                        R0.close()
                        R0.cleanup()
                    at = next((j for j, ev in enumerate(raw) if ev[0] == "replace"), None)
                    if at is None:
                        continue
                    for k in range(max(0, at - 3), len(raw) + 2):
                        code, dec = crash_trial(case, i, k, root)
                        stats["crash_trials"] += 1
                        if dec and isinstance(dec[0], str) and dec[0].startswith(("UNREADABLE", "NOFILE")):
                            ok = False
                        elif k <= at:
                            ok = dec == old[:len(dec)] or dec == new
                        else:
                            ok = dec == new
                        if not ok:
                            extra.append(("impl-vs-spec", ["C12"], i,
                                          f"flush_on_insert=False: process death at I/O boundary {k} of `{V.sx(rec['op'])[:120]}` (the file is "
                                          f"replaced at call {at}) leaves a file that decodes to {dec} — old contents {old}, new {new}",
                                          dict(boundary=k, replace_at=at)))
                            break
                        if code == 0:
                            break
                    continue
                for k in boundaries(n):
                    code, dec = crash_trial(case, i, k, root)
                    stats["crash_trials"] += 1
                    if code == 0 and k > n + 40:
                        break
                    if not prefixes_ok(dec, old, new, is_ins):
                        extra.append(("impl-vs-spec", ["C12"], i,
                                      f"process death at I/O boundary {k} of `{V.sx(rec['op'])[:120]}` leaves a file that decodes to {dec} — neither the old contents {old} nor the new {new}",
                                      dict(boundary=k)))
                        break
                    if code == 0:
                        # the operation had returned before the process died (no boundary left): with
                        # flush_on_insert=True its effect must be in the file, not in a user-space buffer
                        if dec != new:
                            extra.append(("impl-vs-spec", ["C12"], i,
                                          f"`{V.sx(rec['op'])[:120]}` returned, then the process died: the file decodes to {dec}, not to the contents the operation left {new}",
                                          dict(boundary="after-return")))
                        break
            else:
                for after in ((False,) if case.get("huge") else (False, True)):
                    ks = boundaries(n) if n > 300 else range(0, 400)
                    for k in ks:
                        obs = fault_trial(case, i, k, after, root)
                        if not obs.get("injected"):
                            break
                        stats["fault_trials"] += 1
                        bad = check_fault(obs, old, new, is_ins, rec, k, after)
                        if bad:
                            extra.append(("impl-vs-spec", ["C13"], i, bad, dict(call=k, after=after)))
                            break
                    if extra:
                        break
            if extra:
                break
    if prop == "C15" and case.get("mode", "r+") == "r+":
        # an operation that raises because the swap fails must not leave its temp file behind either
        h = hash(json.dumps(case, sort_keys=True)) & 0xFFFFFFF
        cand = [i for i, r in enumerate(recs) if "replace" in r["trace"]]
        if cand and h % 6 == 0:
            i = cand[h % len(cand)]
            k = 0
            while k < 400:
                obs = fault_trial(case, i, k, False, root)
                if not obs.get("injected"):
                    break
                stats["fault_trials"] += 1
                step = obs.get("step") or ("", "", None)
                in_swap = (step[0], step[1]) in (("flush", "temp"), ("fsync", "temp"), ("close", "primary"),
                                                 ("replace", "primary"), ("open", "primary"))
                if in_swap and obs["out"].startswith("err") and obs["ls"] != ([], ["db.csv"]):
                    extra.append(("impl-vs-spec", ["C15"], i,
                                  f"`{V.sx(recs[i]['op'])[:120]}` raised because I/O call {k} {step} failed, and left files behind: {obs['ls']}",
                                  dict(call=k)))
                    break
                k += 1
            # the device fills up at call k and stays full: whatever the operation does about it, the caller hears of it,
            # the database file holds the old or the new contents and no temporary file stays behind
            n = len(recs[i]["trace"])
            old = recs[i - 1]["contents"] if i > 0 else []
            for k in (range(n) if n <= 60 else sorted(set(list(range(20)) + list(range(20, n, max(1, n // 30)))))):
                if extra:
                    break
                obs = fault_trial(case, i, k, False, root, persistent=True)
                if not obs.get("injected"):
                    continue
                stats["fault_trials"] += 1
                what = f"`{V.sx(recs[i]['op'])[:120]}` with the device full from I/O call {k} on ({obs.get('step')})"
                if not obs["out"].startswith("err"):
                    extra.append(("impl-vs-spec", ["C13", "C15"], i, f"{what}: returned {obs['out'][:60]} — the error did not reach the caller",
                                  dict(call=k, persistent=True)))
                elif obs["ls"] != ([], ["db.csv"]):
                    extra.append(("impl-vs-spec", ["C15"], i, f"{what}: raised, and left files behind: {obs['ls']}",
                                  dict(call=k, persistent=True)))
                elif not prefixes_ok(obs["file"], old, recs[i]["contents"], recs[i]["name"] == "ins"):
                    extra.append(("impl-vs-spec", ["C13", "C15"], i, f"{what}: afterwards the file decodes to {obs['file']}",
                                  dict(call=k, persistent=True)))
    return recs, final, reopened, final_ls, extra, stats


def check_fault(obs, old, new, is_ins, rec, k, after):
    op = V.sx(rec["op"])[:120]
    where = f"OSError injected at I/O call {k} ({obs.get('step')}, {'after' if after else 'before'} it took effect) of `{op}`"
    if not obs["out"].startswith("err os") and obs["out"] != rec["out"]:
        # the operation completed differently without reporting the failure
        return f"{where}: the call returned {obs['out'][:80]} — the error did not reach the caller"
    if obs["out"] == rec["out"] and not obs["out"].startswith("err"):
        return f"{where}: the call returned normally ({obs['out'][:60]}) — the error was swallowed"
    if not prefixes_ok(obs["file"], old, new, is_ins):
        return f"{where}: afterwards the file decodes to {obs['file']} — neither old {old} nor new {new}"
    # (a fault inside the cleanup itself — close / unlink of the temp file — may leave that file behind;
    #  C13 speaks about the database file and the live object, C15 about completed or raising operations
    #  without I/O faults)
    live = obs["live"]
    rows = obs["file"]
    answered = {k: live[k] for k in ("all", "count", "len") if k in live}
    sizes = {k: (len(v) if k == "all" else v) for k, v in answered.items()}
    if len(set(sizes.values())) > 1:
        return f"{where}: the live database silently answers inconsistently: {sizes}"
    # an answer given without an error must be the truth about the database's own storage (the file it left)
    if isinstance(rows, list):
        for k, v in sizes.items():
            if v != len(rows):
                return (f"{where}: afterwards the live database answers {k} = {v} without an error, but its file holds "
                        f"{len(rows)} rows ({'others raise: ' + str(live.get('errors')) if live.get('errors') else 'no read raises'})")
    for k, want in (obs.get("ref") or {}).items():
        if k in live and live[k] != want:
            return (f"{where}: afterwards the live database answers {k} = {str(live[k])[:120]} without an error, but a fresh "
                    f"database over its file answers {str(want)[:120]}")
    if "all" in answered:
        if not prefixes_ok(answered["all"], old, new, is_ins):
            return f"{where}: the live database holds {answered['all']} — neither old {old} nor new {new}"
        if answered["all"] != rows:
            return f"{where}: the live database answers {answered['all']} but its file holds {rows}"
    if live.get("index_drift"):
        return f"{where}: afterwards the index claims to be valid but disagrees with storage — {live['index_drift']}"
    return None


class Family:
    def __init__(self, prop):
        self.prop = prop
        self.rule = (
            "operation histories on a real CSV database with run-time I/O proxies, generated from one seeded PRNG with a "
            "profile for this property; per operation: recorded I/O calls vs the Model's predicted step list, file decoded "
            "by an independent csv.reader vs the Spec's contents, file bytes and directory listings before/after, insert trace "
            "shape; C04: encodings x dialects x flush_on_insert grid with adversarial strings, close + read-only reopen; "
            "C15: access modes r / r+ / a / w+; C12: a forked child dies (os._exit) at every I/O boundary of sampled mutating "
            "operations and the file it leaves is decoded; C13: OSError injected at every I/O call index (before effect, and "
            "after effect for flush/fsync/close), then live reads, close, file decode. Distinct = distinct (configuration, "
            "history); non-trivial = the history contains a mutating operation.")

    def run(self, tier, model_ok, search):
        res = Result()
        prop = self.prop
        n = {"C04": 1200, "C12": 160, "C13": 120, "C15": 1000, "C16": 1200}[prop]
        if tier == "thorough":
            n *= 40 if prop in ("C04", "C15", "C16") else 25
        if search:
            n *= 2
        base = C.seed() * 7907 + int(prop[1:]) * 101
        cases = [gen_case(base * 100003 + i, prop, i) for i in range(n)]
        if prop == "C04":
            cases = [giant_case(base + 7 + v, v) for v in range(1 if tier == "quick" else 2)] + cases
        if prop in ("C12", "C04") or (prop == "C13" and tier == "thorough"):
            cases = [huge_case(base + v, v) for v in range(2 if prop == "C12" or (tier == "thorough" and prop != "C13") else 1)] + cases
        if prop == "C15":
            cases = [c for c in cases if c.get("mode", "r+") == "r+"]   # other modes: dedicated check below
        root = tempfile.mkdtemp(prefix="vf_io_")
        findings = []
        stats = dict(crash_trials=0, fault_trials=0, ops=0)
        try:
            nproc = min(16, os.cpu_count() or 4)
            with multiprocessing.Pool(nproc) as pool:
                results = pool.map(_case_worker, [(c, prop, tier, root) for c in cases], chunksize=4)
            lines, spans = [], []
            for c in cases:
                ll = lean_io_lines(c)
                spans.append((len(lines), len(ll)))
                lines += ll
            spec = C.run_driver("specdriver", [l if not l.startswith("(io ") else "(state)" for l in lines])
            model = C.run_driver("modeldriver", lines) if model_ok else None
            foreign = 0
            for c, (a, ln), (recs, final, reopened, final_ls, extra, st) in zip(cases, spans, results):
                for key in ("crash_trials", "fault_trials"):
                    stats[key] += st[key]
                stats["ops"] += len(recs)
                dis = compare(c, recs, final, reopened, final_ls, model[a:a + ln] if model else None, spec[a:a + ln], prop)
                dis += [(x[0], x[1], x[2], x[3]) for x in extra]
                for kind, props, i, text in dis:
                    if kind == "foreign":
                        foreign += 1
                        continue
                    if prop not in props:
                        foreign += 1
                        continue
                    if len(findings) < 60:
                        findings.append(Finding(kind, text, dict(
                            family="io", prop=prop, case=c, ops_sx=[V.sx(o) for o in c["ops"]], index=i, what=text,
                            extra=[x[4] for x in extra if len(x) > 4])))
            res.notes.append(f"disagreements owned by other properties: {foreign}")
            if prop == "C15":
                mf, ms = mode_checks(root, tier)
                findings += mf
                stats.update(ms)
                nf, ns = noop_update_checks(root)
                findings += nf
                stats.update(ns)
                jf, js = interrupted_checks(root)
                findings += jf
                stats.update(js)
            if prop in ("C16", "C04"):
                sf, ss = size_independence(root, tier)
                findings += sf
                stats.update(ss)
                nf2, ns2 = insert_during_rewrite(root)
                findings += nf2
                stats.update(ns2)
        finally:
            shutil.rmtree(root, ignore_errors=True)
        findings.sort(key=lambda f: f.kind == "correspondence")   # concrete failing inputs first
        res.findings = findings[:8]
        res.evaluations = len(cases) + stats["crash_trials"] + stats["fault_trials"]
        res.distinct = len({json.dumps(c, sort_keys=True) for c in cases if any(D.op_name(o) in MUTATING for o in c["ops"])})
        res.traces = stats["ops"] if model_ok else 0
        res.coverage = dict(stats, histories=len(cases), exhaustive=False)
        res.samples = [dict(cfg=c["cfg"], enc=c.get("enc"), csv=c.get("csv"), flush=c.get("flush", True),
                            ops=[V.sx(o)[:160] for o in c["ops"]][:4],
                            trace=results[j][0][0]["trace"] if results[j][0] else None)
                       for j, c in list(enumerate(cases))[:3]]
        return res

    def replay_known(self, k):
        return False


def noop_update_checks(root):
    """C15: an update whose every matched point ends up equal to what it was — the same number as the zero of
    the other sign or as int/float twin, the same instant presented in another zone, the same text — is a no-op:
    it answers 0 and the file's bytes and the directories are untouched"""
    from datetime import timedelta, timezone

    tf = C.import_tinyflux()
    findings, n = [], 0
    T = V.dt_of(G.T0)
    east = timezone(timedelta(hours=5, minutes=45))
    cases = [
        ("fields={'v': -0.0} where v == 0.0", lambda db: db.update_all(fields={"v": -0.0})),
        ("fields=callable negating the zero", lambda db: db.update(tf.FieldQuery().v == 0.0, fields=lambda f: {"v": -f["v"]})),
        ("measurement('m').update_all(fields={'v': -0.0})", lambda db: db.measurement("m").update_all(fields={"v": -0.0})),
        ("fields={'w': 1.0} where w == 1", lambda db: db.update_all(fields={"w": 1.0})),
        ("time=the same instant at +05:45", lambda db: db.update_all(time=T.astimezone(east))),
        ("time=callable returning the same instant in another zone", lambda db: db.update_all(time=lambda t: t.astimezone(east))),
        ("tags={'a': 'x'} where a == 'x'", lambda db: db.update(tf.TagQuery().a == "x", tags={"a": "x"})),
        ("measurement='m' where it is 'm'", lambda db: db.update_all(measurement="m")),
        ("unset_tags of a key no point has", lambda db: db.update_all(unset_tags=["zz"])),
        ("tags={'a': 'x'} on points that hold a NaN field", lambda db: db.update(tf.FieldQuery().w == 1, tags={"a": "x"})),
        ("fields=callable returning {} on points that hold a NaN field", lambda db: db.update_all(fields=lambda f: {})),
    ]
    for au in (True, False):
        for name, call in cases:
            d = tempfile.mkdtemp(prefix="noop_", dir=root)
            tmpd = os.path.join(d, "tmp")
            os.mkdir(tmpd)
            path = os.path.join(d, "db.csv")
            saved = tempfile.tempdir
            tempfile.tempdir = tmpd
            try:
                db = tf.TinyFlux(path, auto_index=au)
                extra = {"n": float("nan")} if "NaN" in name else {}
                db.insert_multiple([tf.Point(time=T, measurement="m", tags={"a": "x"}, fields=dict({"v": 0.0, "w": 1}, **extra)),
                                    tf.Point(time=T, measurement="m", tags={"a": "x"}, fields=dict({"v": 0.0, "w": 1}, **extra))],
                                   compact_key_prefixes=(len(name) % 2 == 0))
                before = open(path, "rb").read()
                try:
                    r = call(db)
                except Exception as e:
                    r = "raised " + type(e).__name__
                n += 1
                after = open(path, "rb").read()
                ls = (sorted(os.listdir(tmpd)), sorted(x for x in os.listdir(d) if x != "tmp"))
                db.close()
                if r != 0 or after != before or ls != ([], ["db.csv"]):
                    findings.append(Finding(
                        "impl-vs-spec",
                        f"auto_index={au}: update {name} changes no point, yet it answered {r!r}; file bytes "
                        f"{'changed: ' + repr(after[:120]) if after != before else 'unchanged'}; directories {ls}",
                        dict(family="io-noop-update", scenario=name, auto_index=au)))
            finally:
                tempfile.tempdir = saved
                shutil.rmtree(d, ignore_errors=True)
    return findings[:2], {"noop_update_trials": n}


def interrupted_checks(root):
    """C15: an operation left through KeyboardInterrupt / SystemExit (raised inside a user callable) has changed
    nothing and leaves no temporary file behind, like one that raises an ordinary exception"""
    tf = C.import_tinyflux()
    findings, n = [], 0
    T = V.dt_of(G.T0)

    def interrupt(exc):
        def f(x):
            raise exc("the user pressed Ctrl-C / the interpreter is exiting")
        return f

    for exc in (KeyboardInterrupt, SystemExit, GeneratorExit):
        for au in (True, False):
            for name, call in [
                ("update_all(fields=callable)", lambda db, exc=exc: db.update_all(fields=interrupt(exc))),
                ("update(q, tags=callable)", lambda db, exc=exc: db.update(tf.TagQuery().a == "x", tags=interrupt(exc))),
                ("remove(q.test(f))", lambda db, exc=exc: db.remove(tf.TagQuery().a.test(interrupt(exc)))),
                ("measurement('m').update_all(time=callable)", lambda db, exc=exc: db.measurement("m").update_all(time=interrupt(exc))),
            ]:
                d = tempfile.mkdtemp(prefix="intr_", dir=root)
                tmpd = os.path.join(d, "tmp")
                os.mkdir(tmpd)
                path = os.path.join(d, "db.csv")
                saved = tempfile.tempdir
                tempfile.tempdir = tmpd
                try:
                    db = tf.TinyFlux(path, auto_index=au)
                    db.insert_multiple([tf.Point(time=T, measurement="m", tags={"a": "x"}, fields={"v": i}) for i in range(3)])
                    if not au and "remove" in name:
                        pass
                    before = open(path, "rb").read()
                    got = None
                    try:
                        call(db)
                    except BaseException as e:
                        got = type(e)
                    n += 1
                    after = open(path, "rb").read()
                    ls = (sorted(os.listdir(tmpd)), sorted(x for x in os.listdir(d) if x != "tmp"))
                    try:
                        db.close()
                    except Exception:
                        pass
                    if got is exc and (after != before or ls != ([], ["db.csv"])):
                        findings.append(Finding(
                            "impl-vs-spec",
                            f"auto_index={au}: {name} left through {exc.__name__}: file bytes "
                            f"{'changed' if after != before else 'unchanged'}, directories afterwards {ls}",
                            dict(family="io-interrupted", scenario=name, exc=exc.__name__, auto_index=au)))
                finally:
                    tempfile.tempdir = saved
                    shutil.rmtree(d, ignore_errors=True)
    return findings[:2], {"interrupted_trials": n}


def mode_checks(root, tier):
    """C15: access modes. In mode 'r' every mutating call must raise and leave bytes and directories alone."""
    tf = C.import_tinyflux()
    findings, n = [], 0
    # opening a database that does not exist read-only creates nothing, whatever create_dirs says
    for cd in (False, True):
        d0 = tempfile.mkdtemp(prefix="mode0_", dir=root)
        missing = os.path.join(d0, "sub", "dir", "db.csv")
        try:
            db = tf.TinyFlux(missing, access_mode="r", create_dirs=cd)
            opened = True
            db.close()
        except Exception:
            opened = False
        n += 1
        left = sorted(os.listdir(d0))
        if left or opened:
            findings.append(Finding("impl-vs-spec", f"TinyFlux(<missing path>, access_mode='r', create_dirs={cd}): "
                                    f"{'opened' if opened else 'raised'}, and left {left} behind in an empty directory",
                                    dict(family="io-mode", op=f"open missing, create_dirs={cd}")))
        shutil.rmtree(d0, ignore_errors=True)
    g = G.Gen(C.seed() + 4242)
    for trial in range(20 if tier == "quick" else 200):
        d = tempfile.mkdtemp(prefix="mode_", dir=root)
        tmpd = os.path.join(d, "tmp")
        os.mkdir(tmpd)
        path = os.path.join(d, "db.csv")
        saved = tempfile.tempdir
        tempfile.tempdir = tmpd
        try:
            db = tf.TinyFlux(path)
            pts = [V.build_point(g.point(), tf) for _ in range(3)]
            db.insert_multiple(pts)
            db.close()
            before = open(path, "rb").read()
            db = tf.TinyFlux(path, access_mode="r")
            from impl import ImplRunner

            r = ImplRunner(workdir=d)
            r.db, r.cfg, r.path = db, ("csv", True), path
            ops = [g.insert_op(), g.remove_op(), g.update_op(allow_raise=False), ["removeall"], ["drop", hx("m1")]]
            for op in ops:
                out = r.line(op)
                n += 1
                after = open(path, "rb").read()
                ls = (sorted(os.listdir(tmpd)), sorted(x for x in os.listdir(d) if x != "tmp"))
                if not out.startswith("err"):
                    findings.append(Finding("impl-vs-spec", f"read-only database: `{V.sx(op)[:100]}` did not raise ({out[:40]})",
                                            dict(family="io-mode", op=V.sx(op))))
                elif after != before:
                    findings.append(Finding("impl-vs-spec", f"read-only database: `{V.sx(op)[:100]}` changed the file",
                                            dict(family="io-mode", op=V.sx(op))))
                elif ls != ([], ["db.csv"]):
                    findings.append(Finding("impl-vs-spec", f"read-only database: `{V.sx(op)[:100]}` left files behind {ls}",
                                            dict(family="io-mode", op=V.sx(op))))
                if findings:
                    break
            # reads work in mode r and change nothing
            for op in [g.read_op(), g.getter_op(), ["all", "1"]]:
                out = r.line(op)
                n += 1
                if open(path, "rb").read() != before:
                    findings.append(Finding("impl-vs-spec", f"read-only database: read `{V.sx(op)[:100]}` changed the file",
                                            dict(family="io-mode", op=V.sx(op))))
            db.close()
            # w+ : opening truncates; afterwards a partial remove must keep the other rows
            db = tf.TinyFlux(path, access_mode="w+")
            T0 = G.T0
            ps = [tf.Point(time=V.dt_of(T0 + i), tags={"k": str(i)}) for i in range(3)]
            db.insert_multiple(ps)
            nrm = db.remove(tf.TagQuery().k == "1")
            left = [p.tags["k"] for p in db.all(sorted=False)]
            db.close()
            n += 1
            if nrm != 1 or left != ["0", "2"]:
                findings.append(Finding("impl-vs-spec", f"access_mode='w+': removing one of three points returned {nrm} and left {left}",
                                        dict(family="io-mode", op="w+ remove")))
        finally:
            tempfile.tempdir = saved
            shutil.rmtree(d, ignore_errors=True)
        if findings:
            break
    return findings[:3], dict(mode_checks=n)


def insert_during_rewrite(root):
    """C16 / C04: an insert issued while an update or removal is under way (a user callable that writes an audit point and
    changes nothing itself) only appends to the database file: the bytes before are a prefix of the bytes after, the file
    grows by exactly the audit row, and the row is still there once the outer operation has returned"""
    tf = C.import_tinyflux()
    from datetime import datetime, timedelta, timezone

    findings = []
    d = tempfile.mkdtemp(prefix="nested_", dir=root)
    t0 = datetime(2021, 1, 1, tzinfo=timezone.utc)
    try:
        for au in (True, False):
            for kind in ("update(tags=callable)", "update(query.test(callable), …)", "remove(query.test(callable))"):
                path = os.path.join(d, f"n{au}{kind[:9].replace('(', '_')}.csv")
                db = tf.TinyFlux(path, auto_index=au)
                db.insert_multiple(tf.Point(time=t0 + timedelta(seconds=i), measurement="m", tags={"a": str(i)}) for i in range(4))
                seen = {}

                def audit(*_args, db=db, seen=seen, path=path):
                    if "before" not in seen:
                        seen["before"] = open(path, "rb").read()
                        seen["ret"] = db.insert(tf.Point(time=t0 + timedelta(days=1), measurement="audit", tags={"who": "cb"}))
                        seen["after"] = open(path, "rb").read()
                    return {} if kind.startswith("update(tags") else False

                try:
                    if kind.startswith("update(tags"):
                        db.update(tf.TagQuery().a == "0", tags=audit)
                    elif kind.startswith("update(query"):
                        db.update(tf.TagQuery().a.test(audit), tags={"z": "1"})
                    else:
                        db.remove(tf.TagQuery().a.test(audit))
                    err = None
                except Exception as e:
                    err = type(e).__name__ + ": " + str(e)[:60]
                db.close()
                final = open(path, "rb").read()
                problems = []
                if "after" in seen:
                    b, a = seen["before"], seen["after"]
                    if not a.startswith(b) or len(a) <= len(b):
                        problems.append(f"the insert returned {seen.get('ret')} but the file went from {len(b)} to {len(a)} bytes "
                                        f"(prefix kept: {a.startswith(b)})")
                    elif b"audit" not in a[len(b):]:
                        problems.append(f"the appended bytes do not hold the inserted row: {a[len(b):][:80]!r}")
                    if err is None and b"audit" not in final:
                        problems.append("after the outer operation returned the inserted row is not in the file")
                if problems:
                    findings.append(Finding(
                        "impl-vs-spec", f"csv/{'auto' if au else 'noauto'}: db.insert(...) from inside {kind}: " + "; ".join(problems),
                        dict(family="io-insert-during-rewrite", auto_index=au, kind=kind, observed=problems, outer_error=err)))
    finally:
        shutil.rmtree(d, ignore_errors=True)
    return findings[:1], {"insert_during_rewrite": 6}


def size_independence(root, tier):
    """C16: the recorded calls of one insert at database sizes 0 … N are identical"""
    tf = C.import_tinyflux()
    import tinyflux.storages as S

    findings = []
    sizes = [0, 1, 10, 100, 1000] + ([5000] if tier == "thorough" else [])
    d = tempfile.mkdtemp(prefix="size_", dir=root)
    path = os.path.join(d, "db.csv")
    undo = IO.install(S, path)
    seen = {}
    try:
      for flush, newline in ((True, ""), (False, ""), (True, "\n"), (True, "\r\n")):
        for auto in (True, False):
            if os.path.exists(path):
                os.remove(path)
            db = tf.TinyFlux(path, auto_index=auto, flush_on_insert=flush, newline=newline)
            cur = 0
            total = singles = 0
            for sz in sizes:
                batch = [tf.Point(time=V.dt_of(G.T0 + i), tags={"k": str(i)}) for i in range(cur, sz)]
                db.insert_multiple(batch)
                total += len(batch)
                cur = sz
                for where in ("end", "start", "middle"):
                    if where == "start":
                        db.get(tf.TagQuery().k == "0")
                    elif where == "middle" and sz > 2:
                        db.contains(tf.TagQuery().k == str(sz // 2))
                    before = open(path, "rb").read()
                    IO.CTL.reset()
                    # alternately in order and out of order
                    t = G.T0 + (10 ** 9 if where != "middle" else -5)
                    db.insert(tf.Point(time=V.dt_of(t), tags={"k": "new"}))
                    tr = IO.canon(IO.CTL.log)
                    after = open(path, "rb").read()
                    cur += 1
                    total += 1
                    singles += 1
                    seen.setdefault((flush,) + tuple(tr), []).append((auto, sz, where))
                    if not after.startswith(before):
                        findings.append(Finding("impl-vs-spec", f"insert at size {sz} rewrote existing bytes", dict(family="io-size", size=sz)))
            db.close()
            # everything inserted is in the file, once, whatever the reads in between left the handle at
            try:
                db2 = tf.TinyFlux(path, access_mode="r", newline=newline)
                ks = [p.tags.get("k") for p in db2.all(sorted=False)]
                db2.close()
                want = total
                nnew = sum(1 for k in ks if k == "new")
                if len(ks) != want or nnew != singles or len({k for k in ks if k != "new"}) != want - singles:
                    findings.append(Finding("impl-vs-spec", f"flush_on_insert={flush}, newline={newline!r}, auto_index={auto}: {want} points were inserted (reads in between stopped at the start / "
                                            f"in the middle of the file); the file holds {len(ks)} rows, {nnew} of the single inserts", dict(family="io-size", flush=flush)))
            except Exception as e:
                findings.append(Finding("impl-vs-spec", f"flush_on_insert={flush}, auto_index={auto}: after inserts interleaved with early-stopping reads the file "
                                        f"no longer decodes: {type(e).__name__}: {str(e)[:80]}", dict(family="io-size", flush=flush)))
      if len(seen) != 2:
          findings.append(Finding("impl-vs-spec", f"the I/O calls of an insert depend on the database: {dict((k, v[:3]) for k, v in seen.items())}",
                                  dict(family="io-size", traces=[list(k) for k in seen])))
    finally:
        undo()
        shutil.rmtree(d, ignore_errors=True)
    return findings[:2], dict(size_points=sum(len(v) for v in seen.values()), sizes=sizes)


def replay(payload):
    if payload.get("family") == "io-noop-update":
        root = tempfile.mkdtemp(prefix="vf_io_replay_")
        try:
            fs, _ = noop_update_checks(root)
            for f in fs:
                print(f.summary)
            return bool(fs)
        finally:
            shutil.rmtree(root, ignore_errors=True)
    if payload.get("family") == "io-interrupted":
        root = tempfile.mkdtemp(prefix="vf_io_replay_")
        try:
            fs, _ = interrupted_checks(root)
            for f in fs:
                print(f.summary)
            return bool(fs)
        finally:
            shutil.rmtree(root, ignore_errors=True)
    if payload.get("family") == "io-mode":
        root = tempfile.mkdtemp(prefix="vf_io_replay_")
        try:
            fs, _ = mode_checks(root, "quick")
            for f in fs:
                print(f.summary)
            return bool(fs)
        finally:
            shutil.rmtree(root, ignore_errors=True)
    if payload.get("family") != "io":
        print(json.dumps(payload, indent=1)[:2000])
        return True
    prop = payload["prop"]
    case = payload["case"]
    root = tempfile.mkdtemp(prefix="vf_io_replay_")
    try:
        recs, final, reopened, final_ls, extra, st = analyse_case(case, prop, "quick", root)
        lines = lean_io_lines(case)
        spec = C.run_driver("specdriver", [l if not l.startswith("(io ") else "(state)" for l in lines])
        try:
            model = C.run_driver("modeldriver", lines)
        except Exception:
            model = None
        dis = compare(case, recs, final, reopened, final_ls, model, spec, prop) + [(x[0], x[1], x[2], x[3]) for x in extra]
        for i, o in enumerate(payload.get("ops_sx", [])):
            print(f"  {i}: {o[:200]}")
        own = [x for x in dis if prop in x[1] and x[0] == "impl-vs-spec"]
        for x in dis:
            print(" ", x[0], x[1], x[3][:400])
        return bool(own)
    finally:
        shutil.rmtree(root, ignore_errors=True)
