"""The flow every check follows (DESIGN.md 3.6):

 1. regenerate Generated/ from the working tree of $VERIF_REPO;
 2. lake build the property's theorems and the two drivers;
 3. audit: forbidden constructs in the sources, axioms of every theorem of Props.<ID>;
 4. correspondence runs of the property's families (corpus first);
 5. replay of known-finding witnesses;
 6. evidence.

A broken obligation (extraction error, theorem no longer builds, audit fails) or a broken
correspondence (implementation and Model disagree) is not by itself a violation: the failing-input
search compares the implementation with the Spec oracle on an enlarged budget and reports a
concrete failing input when it finds one, `no-failing-input-found` otherwise.
"""
import json
import os
import sys
import traceback

import common as C


class Finding:
    """something a family observed: a disagreement with enough context to replay it"""

    def __init__(self, kind, summary, replay, signature=None):
        self.kind = kind  # 'impl-vs-spec' | 'correspondence' | 'index-drift'
        self.summary = summary
        self.replay = replay  # JSON-serialisable
        self.signature = signature  # name of the known-finding predicate it matches, if any


class Result:
    def __init__(self):
        self.findings = []  # list[Finding]
        self.coverage = {}  # merged into evidence coverage
        self.samples = []
        self.evaluations = 0
        self.distinct = 0
        self.traces = 0
        self.notes = []


def run_check(prop_id, tier, family, lean_targets, design_ref="", gen_modules=()):
    """family: object with .run(tier, model_ok, search) -> Result, .rule, .known_signatures"""
    T = C.Timer()
    lines = []  # stdout lines to print at the end (VIOLATION / KNOWN-FINDING)
    broken = []  # names of obligations / correspondences that no longer check

    # 1-2: regenerate + build
    with C.LakeLock():
        regen = [r for r in C.regenerate() if r.get("module") in gen_modules or r.get("module") == "*"]
        for r in regen:
            if r.get("status") != "ok":
                broken.append(f"extraction:{r.get('module')}: {r.get('error', '')[:200]}")
        ok_spec, log_spec = C.lake_build(["specdriver"])
        ok_thm, log_thm = C.lake_build(lean_targets + ["TinyFlux.Audit.Tool"])
        ok_model, log_model = C.lake_build(["modeldriver"])
    if not ok_spec:
        sys.stderr.write(log_spec[-3000:])
        print(f"INFRA-ERROR property={prop_id} the Spec oracle does not build")
        return 2
    if not ok_thm:
        mods, errs = C.failed_targets(log_thm)
        broken.append("theorems-do-not-build:" + ",".join(mods) + " " + "; ".join(f"{a}: {b[:120]}" for a, b in errs))
    if not ok_model:
        mods, errs = C.failed_targets(log_model)
        broken.append("model-driver-does-not-build:" + ",".join(mods))

    # 3: audit
    theorems, bad_axioms, grep_hits = [], [], []
    if ok_thm:
        theorems, bad_axioms = C.audit(prop_id)
        if bad_axioms:
            broken.append("audit:" + "; ".join(f"{t['theorem']} uses {t['axioms']}" for t in bad_axioms))
        if not theorems:
            broken.append(f"audit: no theorem found under TinyFlux.Props.{prop_id}")
    # thorough tier: independent re-check of the compiled theorems by leanchecker
    leanchecker = None
    if ok_thm and tier == "thorough":
        import subprocess

        try:
            pr = subprocess.run(["lake", "env", "leanchecker"] + lean_targets, cwd=C.LEAN, capture_output=True,
                                text=True, timeout=3000)
            leanchecker = "ok" if pr.returncode == 0 else ("failed: " + (pr.stdout + pr.stderr)[-300:])
            if pr.returncode != 0:
                broken.append("leanchecker:" + leanchecker)
        except Exception as e:  # the tool is optional: absence is not a violation
            leanchecker = "not run: " + type(e).__name__
    grep_hits = C.source_grep()
    if grep_hits:
        broken.append("forbidden-constructs:" + "; ".join(grep_hits[:5]))

    # 4: correspondence / search
    search = bool(broken)
    try:
        res = family.run(tier=tier, model_ok=ok_model, search=search)
    except Exception:
        traceback.print_exc()
        print(f"INFRA-ERROR property={prop_id} harness failure")
        return 2

    # correspondence-kind findings are themselves broken correspondences -> enlarge the search once
    corr = [f for f in res.findings if f.kind == "correspondence"]
    hard = [f for f in res.findings if f.kind != "correspondence"]
    if corr and not hard and not search:
        broken.append("correspondence:" + corr[0].summary[:300])
        try:
            res2 = family.run(tier=tier, model_ok=False, search=True)
            hard = [f for f in res2.findings if f.kind != "correspondence"]
            res.evaluations += res2.evaluations
            res.distinct += res2.distinct
            res.traces += res2.traces
        except Exception:
            traceback.print_exc()
    elif corr:
        broken.append("correspondence:" + corr[0].summary[:300])

    # 5: classify against the known findings
    known = [k for k in C.load_known_findings() if k.get("property") == prop_id and k.get("status") == "known"]
    known_sigs = {k["signature"] for k in known}
    violations = 0
    reported_known = set()
    for f in hard:
        if f.signature and f.signature in known_sigs:
            reported_known.add(f.signature)
            continue
        rel = C.write_replay(prop_id, dict(f.replay, property=prop_id, kind=f.kind, tier=tier,
                                             seed=C.seed(), found_failing_input=True,
                                             broken=broken))
        lines.append(f"VIOLATION property={prop_id} replay={rel}")
        violations += 1
        break  # one replay per run is enough; the evidence counts the rest
    # known findings: replay their recorded witnesses on the implementation
    for k in known:
        try:
            still = family.replay_known(k)
        except Exception:
            traceback.print_exc()
            still = False
        if still or k["signature"] in reported_known:
            lines.append(f"KNOWN-FINDING: property={prop_id} {k['what_fails']}")
    if broken and violations == 0:
        # a failing input that only matches known findings does not explain a broken obligation
        rel = C.write_replay(prop_id, dict(property=prop_id, kind="obligation-or-correspondence-broken",
                                             tier=tier, seed=C.seed(), found_failing_input=False,
                                             theorem_or_correspondence=broken,
                                             first_disagreement=(corr[0].replay if corr else None)))
        lines.append(f"VIOLATION property={prop_id} replay={rel} no-failing-input-found")
        violations += 1

    # 6: evidence
    n_obl = len(theorems) + len([r for r in regen])
    n_dis = len([t for t in theorems if t not in bad_axioms]) + len([r for r in regen if r.get("status") == "ok"])
    if not ok_thm:
        n_obl = max(n_obl, 1)
        n_dis = 0
    coverage = {
        "obligations": n_obl,
        "discharged": n_dis if not grep_hits else 0,
        "checker_cmd": "cd lean && lake build " + " ".join(lean_targets) + f" && lake env lean TinyFlux/Audit/{prop_id}.lean",
        "trusted_base": C.TRUSTED_BASE,
        "theorems": [t["theorem"] for t in theorems],
        "axioms_used": sorted({a for t in theorems for a in t["axioms"]}),
        "generated_modules": [{k: r.get(k) for k in ("module", "status")} for r in regen],
        "broken": broken,
        "leanchecker": leanchecker,
        "evaluations": res.evaluations,
        "distinct_nontrivial": res.distinct,
        "rule": family.rule,
        "samples": res.samples[:6] or ["(none)"],
        "traces_validated_against_impl": res.traces,
        "explanation": f"Lean 4 theorems over a model tied to the source by translation and by correspondence runs; see DESIGN.md {design_ref}",
        "notes": res.notes,
    }
    coverage.update(res.coverage)
    C.write_evidence(prop_id, tier, "proof", coverage, T(), violations)
    for ln in lines:
        print(ln)
    sys.stdout.flush()
    return 1 if violations else 0
