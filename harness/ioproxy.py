"""Run-time I/O proxies: the names `open`, `NamedTemporaryFile`, `shutil` and `os` inside
`tinyflux.storages` are rebound to recording wrappers (no source hook). Every I/O call becomes a
step `(name, role, detail)`; a controller can make the process die at a step boundary (`os._exit`
in a forked child: a genuine process death with genuine loss of user-space buffers) or make a step
fail with `OSError` before or after it took effect."""
import builtins
import os
import shutil as _shutil
import tempfile as _tempfile


# the errno of an injected failure varies with the call index: "disk full", I/O error, "device busy",
# "cross-device link", quota, permission — code that special-cases one of them is exercised too
_ERRNOS = (28, 5, 16, 18, 122, 13, 27)


def _errno_for(k):
    return _ERRNOS[k % len(_ERRNOS)]


class Ctl:
    def __init__(self):
        self.reset()
        self.roles = {}

    def reset(self):
        self.log = []
        self.n = 0
        self.crash_at = None      # die before step k
        self.fail_at = None       # raise OSError at step k
        self.fail_after = False   # ... after the call took effect (flush/fsync/close)
        self.failed = None
        self.fail_from = None     # a device that is full from step k on: every write / flush / fsync / truncate fails,
        self.dirty = set()        # and closing a file whose data could not be written fails after the descriptor is closed

    def before(self, ev):
        """called before the real call; returns True if the call must fail *after* taking effect"""
        k = self.n
        if self.crash_at is not None and k == self.crash_at:
            os._exit(77)
        self.n += 1
        self.log.append(ev)
        if self.fail_from is not None and k >= self.fail_from:
            if ev[0] in ("write", "writelines", "flush", "fsync", "truncate"):
                self.failed = self.failed or ev
                self.dirty.add(ev[1])
                raise OSError(28, f"injected: no space left on device (step {k} {ev})")
            if ev[0] == "close" and ev[1] in self.dirty:
                self.failed = self.failed or ev
                return True
        if self.fail_at is not None and k == self.fail_at:
            self.failed = ev
            if self.fail_after and ev[0] in ("flush", "fsync", "close"):
                return True
            raise OSError(_errno_for(k), f"injected OSError at step {k} {ev}")
        return False


CTL = Ctl()
MUT = ("write", "flush", "truncate", "close", "seek", "writelines")


def role_of(path):
    try:
        p = os.path.abspath(os.fspath(path))
    except TypeError:
        return "fd"
    return CTL.roles.get(p, "other")


class FProxy:
    """wraps a text file object; records the calls tinyflux makes on it"""

    def __init__(self, f, role):
        object.__setattr__(self, "_f", f)
        object.__setattr__(self, "_role", role)

    def __getattr__(self, n):
        a = getattr(self._f, n)
        if n == "fileno":
            role = self._role

            def fn():
                fd = a()
                CTL.roles[("fd", fd)] = role
                return fd

            return fn
        if n in MUT:
            role = self._role

            def w(*x, **k):
                if n == "seek":
                    ev = ("seek", role, tuple(x))
                elif n == "write":
                    ev = ("write", role, None)
                else:
                    ev = (n, role, None)
                after = CTL.before(ev)
                r = a(*x, **k)
                if after:
                    raise OSError(_errno_for(CTL.n), f"injected OSError after {ev}")
                return r

            return w
        return a

    def __iter__(self):
        return self

    def __next__(self):
        CTL.before(("readline", self._role, None))
        return next(self._f)

    def __bool__(self):
        return True

    def __enter__(self):
        return self

    def __exit__(self, *a):
        after = CTL.before(("close", self._role, None))
        r = self._f.__exit__(*a)
        if after:
            raise OSError(_errno_for(CTL.n), "injected after close")
        return r


def p_open(path, mode="r", *a, **k):
    role = role_of(path)
    CTL.before(("open", role, (mode, k.get("encoding"), k.get("newline"))))
    return FProxy(builtins.open(path, mode, *a, **k), role)


def p_ntf(*a, **k):
    CTL.before(("mktemp", "temp", (a[0] if a else k.get("mode"), k.get("encoding"), k.get("newline"),
                                   "dbdir" if k.get("dir") is not None else "tmpdir", k.get("delete"))))
    f = _tempfile.NamedTemporaryFile(*a, **k)
    CTL.roles[os.path.abspath(f.name)] = "temp"
    return FProxy(f, "temp")


class ShutilP:
    def copy(self, src, dst, *a, **k):
        # three steps: destination opened-and-truncated, half written, complete
        CTL.before(("copy-open-trunc", role_of(dst), role_of(src)))
        data = builtins.open(src, "rb").read()
        with builtins.open(dst, "wb") as g:
            g.flush()
            CTL.before(("copy-mid", role_of(dst), None))
            g.write(data[: len(data) // 2])
            g.flush()
            CTL.before(("copy-rest", role_of(dst), None))
            g.write(data[len(data) // 2:])
        return dst

    copyfile = copy
    copy2 = copy

    def move(self, src, dst, *a, **k):
        CTL.before(("replace", role_of(dst), role_of(src)))
        return _shutil.move(src, dst, *a, **k)

    def __getattr__(self, n):
        return getattr(_shutil, n)


class OsPathP:
    def __getattr__(self, n):
        return getattr(os.path, n)


class OsP:
    path = OsPathP()

    def __getattr__(self, n):
        a = getattr(os, n)
        if n in ("fsync", "replace", "rename", "remove", "unlink", "truncate", "ftruncate"):
            def w(*x, **k):
                if n == "fsync":
                    # role of the descriptor: find the proxy that owns it
                    ev = ("fsync", CTL.roles.get(("fd", x[0]), "fd"), None)
                elif n in ("replace", "rename"):
                    ev = ("replace", role_of(x[1]), role_of(x[0]))
                else:
                    ev = ("unlink" if n in ("remove", "unlink") else n, role_of(x[0]), None)
                after = CTL.before(ev)
                r = a(*x, **k)
                if after:
                    raise OSError(_errno_for(CTL.n), f"injected OSError after {ev}")
                return r

            return w
        return a


def install(storages_module, primary_path):
    """rebind the names inside tinyflux.storages; returns a function that undoes it"""
    S = storages_module
    saved = {k: S.__dict__.get(k) for k in ("open", "NamedTemporaryFile", "shutil", "os")}
    had_open = "open" in S.__dict__
    CTL.roles = {os.path.abspath(primary_path): "primary"}
    S.open = p_open
    S.NamedTemporaryFile = p_ntf
    S.shutil = ShutilP()
    S.os = OsP()

    def undo():
        for k, v in saved.items():
            if k == "open" and not had_open:
                if "open" in S.__dict__:
                    del S.__dict__["open"]
            elif v is not None:
                setattr(S, k, v)

    return undo


def note_fd(proxy):
    """remember which role a file descriptor belongs to (for fsync events)"""
    try:
        CTL.roles[("fd", proxy._f.fileno())] = proxy._role
    except Exception:
        pass


def canon(log):
    """canonical step names: P/T prefix, consecutive reads collapsed"""
    out = []
    for name, role, det in log:
        r = {"primary": "P", "temp": "T"}.get(role, "?")
        if name == "readline":
            s = f"{r}.read"
            if out and out[-1] == s:
                continue
        elif name == "seek":
            if det in ((0,), (0, 0)):
                s = f"{r}.seek0"
            elif det == (0, 2):
                s = f"{r}.seekEnd"
            else:
                s = f"{r}.seek{det}"
        elif name == "open":
            s = f"{r}.open({det[0]})"
        elif name == "mktemp":
            s = "T.create"
        elif name == "replace":
            s = "replace"
        elif name.startswith("copy-"):
            s = name
        else:
            s = f"{r}.{name}"
        out.append(s)
    return out
