"""Run protocol terms against the real tinyflux (imported from $VERIF_REPO) and print the same
canonical answers the Lean drivers print."""
import os
import shutil
import tempfile

from common import import_tinyflux
import vocab as V


class ImplRunner:
    def __init__(self, workdir=None):
        self.tf = import_tinyflux()
        from tinyflux.storages import MemoryStorage  # noqa

        self.MemoryStorage = MemoryStorage
        self.db = None
        self.path = None
        self.own_dir = workdir is None
        self.dir = workdir or tempfile.mkdtemp(prefix="vf_")
        self.n = 0
        self.cfg = None
        self.csv_kwargs = {}

    # -- lifecycle -------------------------------------------------------

    def close(self):
        if self.db is not None:
            try:
                self.db.close()
            except Exception:
                pass
            self.db = None
        if self.own_dir:
            shutil.rmtree(self.dir, ignore_errors=True)

    def _open(self):
        storage, auto = self.cfg
        if storage == "mem":
            self.db = self.tf.TinyFlux(storage=self.MemoryStorage, auto_index=auto)
        else:
            self.db = self.tf.TinyFlux(self.path, auto_index=auto, **self.csv_kwargs)

    def do_cfg(self, t):
        if self.db is not None:
            try:
                self.db.close()
            except Exception:
                pass
        storage, auto = t[1], t[2] == "auto"
        self.cfg = (storage, auto)
        self.n += 1
        self.path = os.path.join(self.dir, f"db{self.n}.csv")
        if os.path.exists(self.path):
            os.remove(self.path)
        self._open()
        return "ok cfg"

    # -- helpers ---------------------------------------------------------

    def _meas(self, a):
        return V.opt_str(a)

    def contents(self):
        st = self.db._storage
        return [st._deserialize_storage_item(i) for i in st]

    def show_points(self, pts):
        return V.show_list(V.show_point, pts)

    # -- one line --------------------------------------------------------

    def line(self, t):
        """returns the canonical answer for protocol term `t`"""
        via = False
        if t[0] == "H":
            via, t = True, t[1]
        k = t[0]
        if k == "cfg":
            return self.do_cfg(t)
        if k == "state":
            try:
                c = self.show_points(self.contents())
            except Exception as e:
                c = "[UNREADABLE " + type(e).__name__ + "]"
            return f"valid={1 if self.db.index.valid else 0} contents=" + c
        if k == "idx":
            try:
                return self.idx_line(t[1:])
            except Exception as e:
                return "exc " + type(e).__name__
        try:
            return self.op(t, via)
        except Exception as e:  # the API call raised
            return "err " + V.err_class(e)

    def op(self, t, via):
        tf, db = self.tf, self.db
        k = t[0]
        Q = lambda q: V.build_query(q, tf)  # noqa
        if k == "reopen":
            if self.cfg[0] == "csv":
                db.close()
                self._open()
            return "ok unit"
        if k == "ins":
            m = self._meas(t[1])
            # MemoryStorage keeps the caller's objects: sometimes they are instances of a subclass of Point
            cls = V.point_subclass(tf) if (self.cfg[0] == "mem" and len(repr(t)) % 7 == 3) else None
            pts = [V.build_point(p, tf, cls) for p in t[2:]]
            now = [p[1] for p in t[2:] if not isinstance(p, str) and p[1].startswith("now:")]
            bad = [x for x in t[2:] if isinstance(x, str) and x.startswith("!")]

            def do_insert():
                if bad and bad[0] in ("!m", "!r"):
                    return self._insert_malformed(t, pts, m, via, bad[0])
                single = len(pts) == 1 and t[2] != "!" and not now and self._single_insert(t)
                if via:
                    h = db.measurement(m)
                    n = h.insert(pts[0]) if single else h.insert_multiple(pts)
                else:
                    # both key-prefix styles, mixed within one file (deterministic in the term)
                    compact = (len(repr(t)) % 3) == 0
                    arg = pts
                    if not single and not bad and len(pts) >= 2:
                        # the documented argument is an iterable: also a tuple, a lazy generator, and (CSV
                        # only: MemoryStorage keeps the caller's objects) a generator that recycles ONE Point
                        # object, re-assigning its attributes before each yield — what is stored is the point
                        # as it was when it was handed over
                        form = len(repr(t)) % 5
                        if form == 1:
                            arg = tuple(pts)
                        elif form == 2:
                            arg = (p for p in pts)
                        elif form == 3 and self.cfg[0] == "csv" and not now:
                            arg = self._recycled(pts)
                    n = (db.insert(pts[0], m, compact_key_prefixes=compact) if single
                         else db.insert_multiple(arg, m, compact_key_prefixes=compact))
                return f"ok {n}"

            if now:
                return self._with_now(now[0], do_insert)
            return do_insert()
        if k in ("search", "count", "contains", "get", "remove"):
            q, m = Q(t[1]), self._meas(t[2])
            tgt = db.measurement(m) if via else db
            args = (q,) if via else (q, m)
            if k == "search":
                srt = t[3] == "1"
                r = tgt.search(q, sorted=srt) if via else db.search(q, m, sorted=srt)
                return "ok " + self.show_points(r)
            if k == "count":
                return f"ok {tgt.count(*args)}"
            if k == "contains":
                return "ok true" if tgt.contains(*args) else "ok false"
            if k == "get":
                p = tgt.get(*args)
                return "ok " + ("~" if p is None else V.show_point(p))
            if k == "remove":
                return f"ok {tgt.remove(*args)}"
        if k == "select":
            keys = []
            for a in t[1][1:]:
                if a in ("time", "measurement"):
                    keys.append(a)
                elif a.startswith("t:"):
                    keys.append("tags." + V.unhx(a[2:]))
                else:
                    keys.append("fields." + V.unhx(a[2:]))
            q, m = Q(t[2]), self._meas(t[3])
            ksarg = keys[0] if len(keys) == 1 and self._single_insert(t) else tuple(keys)
            r = db.measurement(m).select(ksarg, q) if via else db.select(ksarg, q, m)
            rows = [[x] if len(keys) == 1 else list(x) for x in r]
            return "ok " + V.show_list(lambda row: V.show_list(V.show_val, row), rows)
        if k == "measurements":
            return "ok " + V.show_list(V.hx, db.get_measurements())
        if k in ("tagkeys", "fieldkeys", "timestamps"):
            m = self._meas(t[1])
            name = {"tagkeys": "get_tag_keys", "fieldkeys": "get_field_keys", "timestamps": "get_timestamps"}[k]
            r = getattr(db.measurement(m), name)() if via else getattr(db, name)(m)
            if k == "timestamps":
                return "ok " + V.show_list(V.show_time, r)
            return "ok " + V.show_list(V.hx, r)
        if k == "tagvalues":
            keys = [V.unhx(a) for a in t[1][1:]]
            m = self._meas(t[2])
            # the selection is any iterable of keys: a list, a tuple, or a one-shot iterator
            sel = [keys, tuple(keys), iter(keys), (k for k in keys)][len(repr(t)) % 4]
            r = db.measurement(m).get_tag_values(sel) if via else db.get_tag_values(sel, m)
            items = sorted(r.items(), key=lambda kv: kv[0])
            return "ok " + V.show_list(
                lambda kv: V.hx(kv[0]) + ":" + V.show_list(V.show_opt_str, kv[1]), items
            )
        if k == "fieldvalues":
            key, m = V.unhx(t[1]), self._meas(t[2])
            r = db.measurement(m).get_field_values(key) if via else db.get_field_values(key, m)
            return "ok " + V.show_list(V.show_field_val, r)
        if k == "len":
            return f"ok {len(db)}"
        if k == "iter":
            return "ok " + self.show_points(list(iter(db)))
        if k == "all":
            return "ok " + self.show_points(db.all(sorted=t[1] == "1"))
        if k == "mlen":
            return f"ok {len(db.measurement(V.unhx(t[1])))}"
        if k == "miter":
            return "ok " + self.show_points(list(iter(db.measurement(V.unhx(t[1])))))
        if k == "mall":
            return "ok " + self.show_points(db.measurement(V.unhx(t[1])).all(sorted=t[2] == "1"))
        if k == "drop":
            name = V.unhx(t[1])
            n = db.measurement(name).remove_all() if via else db.drop_measurement(name)
            return f"ok {n}"
        if k == "removeall":
            db.remove_all()
            return "ok unit"
        if k == "update":
            all_ = t[1] == "1"
            q, m = t[2], self._meas(t[3])
            kw = {}
            tm = V.upd_time(t[4][1])
            if tm is not None:
                kw["time"] = tm
            me = V.upd_meas(t[5][1])
            if me is not None:
                kw["measurement"] = me
            tg = V.upd_tags(t[6][1])
            if tg is not None:
                kw["tags"] = tg
            fl = V.upd_fields(t[7][1])
            if fl is not None:
                kw["fields"] = fl
            ut = V.unset_arg(t[8])
            if ut is not None:
                kw["unset_tags"] = ut[0] if len(ut) == 1 and self._single_insert(t) else ut
            uf = V.unset_arg(t[9])
            if uf is not None:
                kw["unset_fields"] = uf[0] if len(uf) == 1 and self._single_insert(t) else uf
            positional = len(repr(t)) % 3 == 1
            order = ("time", "measurement", "tags", "fields", "unset_fields", "unset_tags")   # the documented order
            pos = tuple(kw.get(k) for k in order)
            if via:
                h = db.measurement(m)
                if q == ["noop", "meas"]:
                    n = h.update_all(*pos) if positional else h.update_all(**kw)
                else:
                    n = h.update(Q(q), *pos) if positional else h.update(Q(q), **kw)
            elif all_:
                n = db.update_all(*pos) if positional else db.update_all(**kw)
            else:
                if m is not None:
                    n = db.update(Q(q), *pos, m) if positional else db.update(Q(q), _measurement=m, **kw)
                else:
                    n = db.update(Q(q), *pos) if positional else db.update(Q(q), **kw)
            return f"ok {n}"
        if k == "reindex":
            import contextlib
            import io

            with contextlib.redirect_stdout(io.StringIO()):  # "Index already valid."
                db.reindex()
            return "ok unit"
        raise ValueError(f"unknown op {t!r}")

    def _recycled(self, pts):
        one = self.tf.Point()
        for p in pts:
            one.time, one.measurement, one.tags, one.fields = p.time, p.measurement, p.tags, p.fields
            yield one

    def _insert_malformed(self, t, pts, m, via, kind):
        """an insert_multiple that aborts for another reason than a non-Point element: a Point whose dict was
        mutated to an invalid state (ValueError), or the caller's iterable raising. The expected state is the
        same as for a non-Point (the points before it are stored); the error class is checked here and
        reported in the Model's terms."""
        def it():
            for p in pts:
                if isinstance(p, V.RaisingIterable):
                    raise ZeroDivisionError("the iterable raised")
                yield p

        expected = ValueError if kind == "!m" else ZeroDivisionError
        try:
            if via:
                n = self.db.measurement(m).insert_multiple(it())
            else:
                n = self.db.insert_multiple(it(), m)
            return f"ok {n}"
        except expected:
            return "err type"        # the Model's name for "the offending element was rejected"
        except Exception as e:
            return "err " + V.err_class(e)

    def _with_now(self, now_atom, action):
        """points without a time are stamped with the insertion time: pin `datetime.now` inside
        tinyflux.database for the duration of the call"""
        import tinyflux.database as DBM
        from datetime import datetime as _dt

        fixed = V.dt_of(int(now_atom[4:]))

        class _Now(_dt):
            @classmethod
            def now(cls, tz=None):
                return fixed if tz is not None else fixed.replace(tzinfo=None)

        saved = DBM.datetime
        DBM.datetime = _Now
        try:
            return action()
        finally:
            DBM.datetime = saved

    @staticmethod
    def _single_insert(t):
        """deterministic choice between the single-item and the list form of an API call"""
        return (len(repr(t)) % 2) == 0

    # -- direct index probes ---------------------------------------------

    def _idx_answer(self, idx, rest):
        tf = self.tf
        k = rest[0]
        if k == "valid":
            return "1" if idx.valid else "0"
        if k == "len":
            return str(len(idx))
        if k == "search":
            try:
                r = idx.search(V.build_query(rest[1], tf))
            except Exception:
                return "err"
            return V.show_list(str, sorted(r.items))
        if k == "measurements":
            return V.show_list(V.hx, sorted(idx.get_measurements()))
        m = None
        if k in ("tagkeys", "fieldkeys", "timestamps"):
            m = V.opt_str(rest[1])
        if k == "tagkeys":
            return V.show_list(V.hx, sorted(idx.get_tag_keys(m)))
        if k == "fieldkeys":
            return V.show_list(V.hx, sorted(idx.get_field_keys(m)))
        if k == "timestamps":
            from datetime import datetime

            return V.show_list(
                lambda x: V.show_time(datetime.fromtimestamp(x, V.UTC)),
                idx.get_timestamps(m),
            )
        if k == "tagvalues":
            keys = [V.unhx(a) for a in rest[1][1:]]
            m = V.opt_str(rest[2])
            r = idx.get_tag_values(keys, m)
            return V.show_list(
                lambda kv: V.hx(kv[0])
                + ":"
                + V.show_list(V.show_opt_str, sorted(kv[1], key=lambda x: (x is None, x))),
                sorted(r.items()),
            )
        if k == "fieldvalues":
            key, m = V.unhx(rest[1]), V.opt_str(rest[2])
            return V.show_list(V.show_field_val, idx.get_field_values(key, m))
        raise ValueError(rest)

    def idx_line(self, rest):
        return self._idx_answer(self.db.index, rest)

    def idx_rebuilt_line(self, rest):
        """the same probe on a freshly built index over the current storage"""
        from tinyflux.index import Index

        idx = Index()
        idx.build(self.contents())
        return self._idx_answer(idx, rest)
