"""C08: time handling, in four process time zones (one subprocess per TZ).

Histories whose datetimes sit at the ends of the supported range, around the epoch, 2038 and 2106, at the
DST transitions of the zone, in adjacent-microsecond pairs and ties, *presented* in many UTC offsets or as
naive local wall-clock values, through insert, update(time=...) static and callable, reopen, time queries
with right-hand sides in other zones, get_timestamps on both paths and direct index probes. The Lean
side sees only instants (integer microseconds): any dependence on the presentation or on the process
zone is a disagreement. Plus direct checks of naive values in DST gaps / folds against an independent
conversion through zoneinfo."""
import json
import os
import subprocess
import sys
import time as _time

HERE = os.path.dirname(os.path.abspath(__file__))
sys.path.insert(0, HERE)

import common as C  # noqa: E402
import diffrun as D  # noqa: E402
import gen as G  # noqa: E402
import vocab as V  # noqa: E402
from engine import Finding, Result  # noqa: E402

ZONES = ["UTC", "America/Los_Angeles", "Australia/Lord_Howe", "Asia/Kathmandu"]
OFFSETS = [0, 0, -720, -420, 345, 630, 840, "zi:Europe/London", "zi:UTC", "zi:Africa/Abidjan", "zi:America/New_York"]
hx = V.hx

# instants (µs) of interest
BASE = [
    -8520336000000000,          # 1700-01-01T00:00:00Z
    -2717640000000000,          # 1883-11-18T19:00Z (US standard time)
    -1, 0, 1,
    2147483648000000,           # 2038-01-19T03:14:08Z
    4294967296000000,           # 2106-02-07T06:28:16Z
    8520335999999998, 8520335999999999,   # 2239-12-31T23:59:59.99999[89]Z
    1615716000000000,           # 2021-03-14T10:00Z: US DST start (02:00 PST -> 03:00 PDT)
    1636275600000000,           # 2021-11-07T09:00Z: US DST end (fold)
    1636264800000000 + 1800000000,   # 2021-11-07T06:30Z = 01:30 EST, the second reading (fold=1) of 01:30 in New York
    1617463800000000,           # 2021-04-03T15:30Z: Lord Howe DST end (02:00 LHDT -> 01:30 LHST)
    1633188600000000,           # 2021-10-02T15:30Z: Lord Howe DST start
    504900000000000,            # 1986-01-01: Kathmandu moved from +5:30 to +5:45
    G.T0,
]


def time_pool(r):
    pool = []
    for b in BASE:
        for d in (-1, 0, 1, 1799999999, -1800000001):
            t = b + d
            if -8520336000000000 <= t <= 8520335999999999:
                pool.append(t)
    return pool


class TGen(G.Gen):
    def __init__(self, seed):
        super().__init__(seed)
        self.pool = time_pool(self.r)
        # a small working set per history, so that ties and adjacent microseconds meet
        self.work = self.r.sample(self.pool, 5)
        self.work += [self.work[0] + 1, self.work[0], self.work[1] - 1]

    def pres(self):
        c = self.r.random()
        if c < 0.45:
            return ""
        if c < 0.85:
            return "@" + str(self.r.choice(OFFSETS))
        return "@naive"

    def time(self):
        return str(self.r.choice(self.work)) + self.pres()

    def time_leaf(self):
        r = self.r
        t = "t:" + str(r.choice(self.work) + r.choice([0, 0, 1, -1])) + (("@" + str(r.choice(OFFSETS))) if r.random() < 0.6 else "")
        c = r.random()
        if c < 0.8:
            return ["cmp", r.choice(G.CMPS), t]
        if c < 0.9:
            return ["test", "timege", t]
        return ["map", ["addus", "n:1"], ["cmp", r.choice(G.CMPS), t]]

    def upd_time_only(self):
        r = self.r
        c = r.random()
        if c < 0.5:
            t = ["s", str(r.choice(self.work)) + "@" + str(r.choice(OFFSETS))]
        else:
            t = ["c", "addus", str(r.choice([1, -1, 2])), str(r.choice(OFFSETS))]
        return [["time", t], ["meas", "~"], ["tags", "~"], ["fields", "~"], ["unsettags"], ["unsetfields"]]


def gen_case(seed, idx):
    g = TGen(seed)
    r = g.r
    st, au = [("csv", "auto"), ("csv", "noauto"), ("mem", "auto"), ("mem", "noauto")][idx % 4]
    ops = []
    for _ in range(r.randint(3, 9)):
        c = r.random()
        if c < 0.35:
            ops.append(["ins", "~"] + [g.point() for _ in range(r.choice([1, 1, 2, 3]))])
        elif c < 0.6:
            q = ["time", g.time_leaf()]
            if r.random() < 0.3:
                q = [r.choice(["and", "or"]), q, ["time", g.time_leaf()]]
            k = r.choice(["search", "count", "get"])
            ops.append(["search", q, "~", r.choice(["0", "1"])] if k == "search" else [k, q, "~"])
        elif c < 0.72:
            ops.append(["timestamps", r.choice(["~", hx("m1")])])
        elif c < 0.8:
            ops.append(["all", "1"])
        elif c < 0.9:
            q = ["time", g.time_leaf()] if r.random() < 0.6 else ["noop", "time"]
            ops.append(["update", "0", q, "~"] + g.upd_time_only())
        elif c < 0.94:
            ops.append(["remove", ["time", g.time_leaf()], "~"])
        elif c < 0.97:
            ops.append(["reindex"])
        elif st == "csv":
            ops.append(["reopen"])
    return {"cfg": ["cfg", st, au], "ops": ops}


def fold_cases():
    """comparison values that are the first / second reading of a repeated wall-clock hour in a rule-based zone
    (PEP 495), against points at exactly those instants and one microsecond around them, on both paths"""
    out = []
    folds = [(1636264800000000 + 1800000000, "America/New_York"),      # 2021-11-07 01:30 EST (fold=1)
             (1636264800000000 - 1800000000, "America/New_York"),      # 2021-11-07 01:30 EDT (fold=0)
             (1635641999000000 + 1000000 + 1800000000, "Europe/London"),  # 2021-10-31 01:30 GMT (fold=1)
             (1617463800000000 + 900000000, "Australia/Lord_Howe")]   # inside the half-hour fold of Lord Howe
    for inst, zone in folds:
        for st, au in (("mem", "auto"), ("mem", "noauto"), ("csv", "auto"), ("csv", "noauto")):
            pts = [["pt", str(inst + d), hx("m1"), ["tags", [hx("k"), hx(str(d))]], ["fields"]] for d in (-1, 0, 1)]
            ops = [["ins", "~"] + pts]
            for c in G.CMPS:
                q = ["time", ["cmp", c, f"t:{inst}@zi:{zone}"]]
                ops.append(["count", q, "~"])
                ops.append(["search", ["not", q], "~", "1"])
                # the same comparison behind a transform of the time (a query without a hash)
                ops.append(["count", ["time", ["map", ["addus", "n:0"], ["cmp", c, f"t:{inst}@zi:{zone}"]]], "~"])
            ops.append(["update", "0", ["time", ["cmp", "eq", f"t:{inst}@zi:{zone}"]], "~", ["time", ["s", f"{inst + 5}@zi:{zone}"]],
                        ["meas", "~"], ["tags", "~"], ["fields", "~"], ["unsettags"], ["unsetfields"]])
            ops.append(["remove", ["time", ["cmp", "eq", f"t:{inst + 5}@zi:{zone}"]], "~"])
            ops.append(["all", "1"])
            out.append({"cfg": ["cfg", st, au], "ops": ops})
    return out


def naive_checks(tf, tzname):
    """naive wall-clock values in DST gaps / folds: stored instant = independent zoneinfo conversion"""
    from datetime import datetime, timedelta, timezone
    from zoneinfo import ZoneInfo
    from tinyflux.storages import MemoryStorage

    out = []
    zi = ZoneInfo(tzname)
    walls = [datetime(2021, 3, 14, 2, 30), datetime(2021, 11, 7, 1, 30), datetime(2021, 11, 7, 1, 30, fold=1),
             datetime(2021, 4, 4, 1, 45), datetime(2021, 4, 4, 1, 45, fold=1), datetime(2021, 10, 3, 2, 15),
             datetime(1985, 12, 31, 23, 59, 59, 999999), datetime(1986, 1, 1, 0, 10), datetime(1700, 1, 2, 0, 0),
             datetime(2239, 12, 30, 12, 0, 0, 1), datetime(1970, 1, 1, 0, 0, 0, 1), datetime(2038, 1, 19, 3, 14, 8)]
    n = 0
    for w in walls:
        for d in (timedelta(0), timedelta(microseconds=1), timedelta(microseconds=-1)):
            wall = w + d
            wall = wall.replace(fold=w.fold)
            exp = wall.replace(tzinfo=zi).astimezone(timezone.utc)
            db = tf.TinyFlux(storage=MemoryStorage)
            db.insert(tf.Point(time=wall, tags={"k": "v"}))
            got = db.all()[0].time
            ts = db.get_timestamps()[0]
            n += 1
            if V.show_time(got) != str(V.us_of(exp)) or V.show_time(ts) != str(V.us_of(exp)):
                out.append(f"naive local time {wall!r} (fold={wall.fold}) in {tzname}: stored {got!r}, get_timestamps {ts!r}, "
                           f"independent conversion {exp!r}")
            # a point without a time receives the insertion time
        db = tf.TinyFlux(storage=MemoryStorage)
        t0 = datetime.now(timezone.utc)
        db.insert(tf.Point(tags={"k": "v"}))
        t1 = datetime.now(timezone.utc)
        got = db.all()[0].time
        n += 1
        if not (got.tzinfo is not None and got.utcoffset() == timedelta(0) and t0 - timedelta(seconds=1) <= got <= t1):
            out.append(f"a point without time was stamped {got!r}, expected an aware UTC time in [{t0!r}, {t1!r}]")
        # ... also when an earlier insert of the same object was rejected: the time of the failed attempt must not stick
        for storage_kw in ({"storage": MemoryStorage},):
            p = tf.Point()
            p.tags = {"k": "v"}
            p.tags["k"] = 5                      # invalid after construction: the insert is rejected
            db = tf.TinyFlux(**storage_kw)
            try:
                db.insert(p)
                rejected = False
            except ValueError:
                rejected = True
            p.tags["k"] = "v"
            _time.sleep(0.05)
            t0 = datetime.now(timezone.utc)
            db.insert(p, measurement="later")
            t1 = datetime.now(timezone.utc)
            got = db.all()[0].time
            n += 1
            if rejected and not (t0 <= got <= t1):
                out.append(f"a time-less point whose first insert was rejected was stored, on its second insert, with the time {got!r} "
                           f"of the failed attempt; the insertion happened in [{t0!r}, {t1!r}]")
    return out, n


def worker(seed, tier, model_ok):
    _time.tzset()
    tf = C.import_tinyflux()
    n = 700 if tier == "quick" else 40000
    cases = fold_cases() + [gen_case(seed * 1000003 + i, i) for i in range(n)]
    probes = [["timestamps", "~"], ["valid"]]
    b = D.Batch(use_model=model_ok, use_spec=True, probes=probes, with_rebuild=True)
    results = []
    for i in range(0, len(cases), 100):
        results += b.run(cases[i:i + 100])
    findings = []
    for case, d in zip(cases, results):
        if d is None:
            continue
        findings.append(dict(kind=d["kind"], cfg=case["cfg"], ops=case["ops"], index=d["index"], role=d["role"],
                             impl=d["impl"][:600], model=str(d["model"])[:600], spec=str(d["spec"])[:600], probe=d.get("probe")))
        if len(findings) >= 6:
            break
    nv, nn = naive_checks(tf, os.environ.get("TZ", "UTC"))
    print(json.dumps(dict(tz=os.environ.get("TZ"), cases=len(cases), findings=findings, naive=nv, naive_n=nn,
                          stats=dict(b.stats), sample=[V.sx(o)[:200] for o in cases[0]["ops"][:4]])))


class Family:
    rule = ("histories of inserts / time queries / get_timestamps / update(time=static|callable) / remove / reindex / reopen over "
            "instants at the ends of 1700-2240, epoch±1µs, 2038, 2106, DST transitions, adjacent microseconds and ties, each "
            "presented in UTC offsets {0, -12h, -7h, +5:45, +10:30, +14h} or as naive local time, run in a subprocess per process "
            "TZ in {UTC, America/Los_Angeles, Australia/Lord_Howe, Asia/Kathmandu}, four configurations; the Lean Model / Spec see "
            "instants only; plus naive wall times in DST gaps and folds against zoneinfo. Distinct = distinct (zone, configuration, "
            "history); non-trivial = the history inserts a point whose presentation is not UTC.")

    def run(self, tier, model_ok, search):
        res = Result()
        procs = []
        for z in ZONES:
            env = dict(os.environ, TZ=z, VERIF_REPO=C.REPO)
            procs.append((z, subprocess.Popen(
                [sys.executable, os.path.abspath(__file__), "--worker", str(C.seed()), tier, "1" if model_ok else "0"],
                stdout=subprocess.PIPE, stderr=subprocess.PIPE, text=True, env=env)))
        total, nontriv = 0, 0
        for z, p in procs:
            out, err = p.communicate(timeout=3000)
            if p.returncode != 0:
                raise RuntimeError(f"C08 worker for TZ={z} failed: {err[-1500:]}")
            data = json.loads(out.strip().splitlines()[-1])
            total += data["cases"] + data["naive_n"]
            nontriv += data["cases"]
            res.coverage.setdefault("zones", {})[z] = dict(cases=data["cases"], naive_checks=data["naive_n"],
                                                            ops=sum(v for k, v in data["stats"].items() if k.startswith("op:")))
            if not res.samples:
                res.samples = [dict(tz=z, ops=data["sample"])]
            for f in data["findings"]:
                case = {"cfg": f["cfg"], "ops": f["ops"]}
                kind = f["kind"] if f["kind"] != "index-drift" else "impl-vs-spec"
                res.findings.append(Finding(
                    kind, f"TZ={z} {f['cfg'][1]}/{f['cfg'][2]}: {f['role']} of `{V.sx(case['ops'][f['index']])[:160]}`: "
                          f"implementation {f['impl'][:200]} | spec {f['spec'][:200]} | model {f['model'][:120]}",
                    dict(family="c08", tz=z, cfg=f["cfg"], ops=f["ops"], ops_sx=[V.sx(o) for o in f["ops"]], index=f["index"],
                         observed=f["impl"], expected=f["spec"], probe=f.get("probe"))))
            for t in data["naive"]:
                res.findings.append(Finding("impl-vs-spec", f"TZ={z}: {t}", dict(family="c08-naive", tz=z, what=t)))
        res.findings.sort(key=lambda f: f.kind == "correspondence")
        res.findings = res.findings[:8]
        res.evaluations = total
        res.distinct = nontriv
        res.traces = nontriv if model_ok else 0
        res.coverage["exhaustive"] = False
        return res

    def replay_known(self, k):
        return False


def replay(payload):
    if payload.get("family") != "c08":
        print(payload.get("what"))
        return True
    env = dict(os.environ, TZ=payload["tz"], VERIF_REPO=C.REPO)
    code = ("import sys, json, time; sys.path.insert(0, %r); time.tzset(); import diffrun as D, vocab as V\n"
            "case = json.loads(sys.argv[1]); b = D.Batch(use_model=False, use_spec=True, probes=[['timestamps','~']], with_rebuild=True)\n"
            "d = b.run([case])[0]\n"
            "[print(' ', i, V.sx(o)[:200]) for i, o in enumerate(case['ops'])]\n"
            "print('agrees' if d is None else ('at op %%d (%%s): impl %%s | spec %%s' %% (d['index'], d['role'], d['impl'][:300], str(d['spec'])[:300])))\n"
            "sys.exit(0 if d is None else 1)\n") % HERE
    p = subprocess.run([sys.executable, "-c", code, json.dumps({"cfg": payload["cfg"], "ops": payload["ops"]})], env=env,
                       capture_output=True, text=True)
    print(p.stdout, p.stderr[-500:])
    return p.returncode == 1


if __name__ == "__main__":
    if len(sys.argv) >= 5 and sys.argv[1] == "--worker":
        worker(int(sys.argv[2]), sys.argv[3], sys.argv[4] == "1")
