"""Expression-level families.

C09: every expression of the vocabulary (to a depth bound, exhaustively; deeper ones at random) on
every point of a finite universe that contains every combination of missing key / None / "" / zero /
negative / equal-to-bound: `query(point)` on the real code vs `Model.eval` vs `Spec.sem`.
C17: all pairs of a set of expressions: `==`, `hash`, evaluation on the universe; commutativity;
map / noop never equal; and the same `==` computed by the Lean model of the hash tuples.
"""
import itertools
import random

import common as C
import gen as G
import vocab as V
from engine import Finding, Result

hx = V.hx
T0 = G.T0


def universe():
    pts = []
    for m in ("m", "n"):
        for a in ("-", None, "", "x", "y"):
            for b in ("-", "x"):
                for f in ("-", "~", "0", "-1", "1", "5/2"):
                    for t in (T0 - 1, T0, T0 + 1):
                        tags = []
                        if a != "-":
                            tags.append([hx("a"), "~" if a is None else hx(a)])
                        if b != "-":
                            tags.append([hx("b"), hx(b)])
                        fields = [] if f == "-" else [[hx("f"), f]]
                        pts.append(["pt", str(t), hx(m), ["tags"] + tags, ["fields"] + fields])
    return pts


# keys spelt like attributes of the query builder: the item syntax `TagQuery()["test"]` exists so that such keys
# can be addressed; and a few keys that are not identifiers
ODD_KEYS = ["test", "map", "search", "matches", "exists", "noop", "is_hashable", "_path", "_hash", "_test",
            "__class__", "__call__", "a b", "é", "0", "tags", "fields", "time", "measurement"]


def odd_universe():
    pts = []
    for k in ODD_KEYS:
        pts.append(["pt", str(T0), hx("m"), ["tags", [hx(k), hx("x")]], ["fields", [hx(k), "1"]]])
        pts.append(["pt", str(T0), hx("m"), ["tags", [hx(k), "~"]], ["fields", [hx(k), "~"]]])
    pts.append(["pt", str(T0), hx("m"), ["tags"], ["fields"]])
    return pts


def odd_exprs():
    xs = []
    for k in ODD_KEYS:
        xs += [["tag", hx(k), ["cmp", "eq", "s:" + hx("x")]], ["tag", hx(k), ["cmp", "ne", "s:" + hx("x")]],
               ["tag", hx(k), ["exists"]], ["tag", hx(k), ["re", "match", hx("x"), "-"]],
               ["tag", hx(k), ["test", "isstr"]], ["tag", hx(k), ["map", ["upper"], ["cmp", "eq", "s:" + hx("X")]]],
               ["field", hx(k), ["cmp", "gt", "n:0"]], ["field", hx(k), ["exists"]],
               ["field", hx(k), ["test", "numgt", "n:0"]],
               ["not", ["field", hx(k), ["cmp", "le", "n:1"]]],
               ["and", ["tag", hx(k), ["exists"]], ["field", hx(k), ["cmp", "eq", "n:1"]]]]
    return xs


def leaves():
    L = []
    for c in G.CMPS:
        L.append(["time", ["cmp", c, f"t:{T0}"]])
        L.append(["meas", ["cmp", c, "s:" + hx("m")]])
        for rhs in ("s:" + hx("x"), "s:" + hx(""), "~"):
            L.append(["tag", hx("a"), ["cmp", c, rhs]])
        for rhs in ("n:0", "n:1", "~"):
            L.append(["field", hx("f"), ["cmp", c, rhs]])
    L += [["time", ["cmp", "eq", f"t:{T0 + 1}"]], ["time", ["cmp", "lt", f"t:{T0}@-420"]],
          ["meas", ["cmp", "eq", "s:" + hx("zz")]],
          ["tag", hx("a"), ["exists"]], ["tag", hx("b"), ["exists"]], ["tag", hx("c"), ["exists"]],
          ["field", hx("f"), ["exists"]], ["field", hx("g"), ["exists"]]]
    for kind in ("match", "search"):
        for lit in ("x", "X", ""):
            for fl in ("-", "i"):
                L.append(["tag", hx("a"), ["re", kind, hx(lit), fl]])
    L += [["meas", ["re", "match", hx("M"), "i"]], ["meas", ["re", "match", hx("M"), "-"]],
          ["tag", hx("a"), ["test", "isnone"]], ["tag", hx("a"), ["test", "isstr"]], ["tag", hx("a"), ["test", "twicelen"]],
          ["meas", ["test", "twicelen"]],
          ["tag", hx("a"), ["test", "streq", "s:" + hx("x")]], ["tag", hx("a"), ["test", "streq", "s:" + hx("y")]],
          ["field", hx("f"), ["test", "numgt", "n:0"]], ["field", hx("f"), ["test", "numgt", "n:1"]],
          ["field", hx("f"), ["test", "isnone"]],
          ["time", ["test", "timege", f"t:{T0}"]],
          ["tag", hx("a"), ["map", ["upper"], ["cmp", "eq", "s:" + hx("X")]]],
          ["tag", hx("a"), ["map", ["raise"], ["exists"]]],
          ["tag", hx("a"), ["map", ["strlen"], ["test", "numgt", "n:0"]]],
          ["field", hx("f"), ["map", ["neg"], ["cmp", "lt", "n:0"]]],
          ["field", hx("f"), ["map", ["raise"], ["exists"]]],
          ["time", ["map", ["addus", "n:1"], ["cmp", "eq", f"t:{T0 + 1}"]]],
          ["time", ["map", ["raise"], ["cmp", "eq", f"t:{T0}"]]],
          ["meas", ["map", ["upper"], ["cmp", "eq", "s:" + hx("M")]]],
          ["noop", "time"], ["noop", "meas"], ["noop", "tag"], ["noop", "field"]]
    return L


CORE = None


def core_leaves():
    """a 12-leaf core for deeper exhaustive enumeration"""
    return [["time", ["cmp", "le", f"t:{T0}"]], ["meas", ["cmp", "eq", "s:" + hx("m")]],
            ["tag", hx("a"), ["cmp", "eq", "s:" + hx("x")]], ["tag", hx("a"), ["cmp", "ne", "~"]],
            ["tag", hx("a"), ["cmp", "lt", "s:" + hx("y")]], ["tag", hx("a"), ["exists"]],
            ["tag", hx("a"), ["re", "match", hx("x"), "-"]], ["field", hx("f"), ["cmp", "gt", "n:0"]],
            ["field", hx("f"), ["cmp", "eq", "~"]], ["field", hx("f"), ["exists"]],
            ["tag", hx("a"), ["map", ["raise"], ["exists"]]], ["noop", "tag"]]


def depth_le(ls, d):
    """all expressions of depth ≤ d over leaves ls (depth 0 = leaf)"""
    cur = list(ls)
    allx = list(ls)
    for _ in range(d):
        new = [["not", x] for x in cur]
        for a in cur:
            for b in ls:
                new.append(["and", a, b])
                new.append(["or", b, a])
        cur = new
        allx += new
    return allx


def rand_expr(r, ls, depth):
    if depth == 0 or r.random() < 0.25:
        return r.choice(ls)
    k = r.choice(["not", "and", "or"])
    if k == "not":
        return ["not", rand_expr(r, ls, depth - 1)]
    return [k, rand_expr(r, ls, depth - 1), rand_expr(r, ls, depth - 1)]


def impl_eval(tf, qobj, pobj):
    try:
        r = qobj(pobj)
        if r is True:
            return "ok true"
        if r is False:
            return "ok false"
        return "ok nonbool:" + type(r).__name__
    except Exception as e:
        return "err " + type(e).__name__


class FamilyC09:
    rule = ("expression x point: every leaf of a ~100-leaf vocabulary (all six comparisons on time / measurement / "
            "tag / field with rhs equal-to-bound, other, None; exists; matches/search x flags; test; map incl. a raising "
            "function; noop of each type) and every compound of depth ≤1 over it (quick) / ≤2 over a 12-leaf core and "
            "random expressions to depth 6, evaluated on all 360 points of the universe {2 measurements} x {tag a: "
            "missing, None, '', x, y} x {tag b: missing, x} x {field f: missing, None, 0, -1, 1, 2.5} x {t0-1µs, t0, t0+1µs}; "
            "distinct = distinct (expression, point) pairs; non-trivial = the expression addresses an attribute the point has.")

    def exprs(self, tier, search):
        ls = leaves()
        r = random.Random(C.seed() * 131 + 9)
        xs = depth_le(ls, 0)
        xs += [["not", x] for x in ls]
        xs += depth_le(core_leaves(), 1 if tier == "quick" and not search else 2)[len(core_leaves()):]
        n = 300 if tier == "quick" else 3000
        xs += [rand_expr(r, ls, 6) for _ in range(n)]
        if tier == "thorough" or search:
            for a in r.sample(ls, 40):
                for b in r.sample(ls, 40):
                    xs.append(["and", a, b])
                    xs.append(["or", a, ["not", b]])
        # filters composed programmatically (functools.reduce over a few hundred terms): left-deep chains of 400
        la, lb = ["tag", hx("a"), ["cmp", "eq", "s:" + hx("x")]], ["field", hx("f"), ["cmp", "gt", "n:0"]]
        for op, first in (("or", la), ("and", lb), ("or", ["not", lb])):
            x = first
            for k in range(399):
                x = [op, x, la if k % 2 else lb]
            xs.append(x)
        xs.append(["not", xs[-3]])
        return xs

    def run(self, tier, model_ok, search):
        tf = C.import_tinyflux()
        res = Result()
        U = universe()
        pobjs = [V.build_point(p, tf) for p in U]
        xs = self.exprs(tier, search)
        lines, impl, meta = [], [], []
        build_err = 0
        U2 = odd_universe()
        pobjs2 = [V.build_point(p, tf) for p in U2]
        for x, (UU, PP) in [(x, (U, pobjs)) for x in xs] + [(x, (U2, pobjs2)) for x in odd_exprs()]:
            try:
                q = V.build_query(x, tf)
                if not callable(q):
                    raise TypeError(f"the expression built a {type(q).__name__}, not a query")
            except Exception as e:
                # every expression of the vocabulary is well-formed (operand types respect the constructors' rules):
                # one whose construction raises can never be evaluated
                build_err += 1
                if len(res.findings) < 20:
                    res.findings.append(Finding(
                        "impl-vs-spec", f"building the well-formed query {V.sx(x)[:200]} raised {type(e).__name__}: {str(e)[:120]}",
                        dict(family="c09", query=x, point=UU[0], observed="err " + type(e).__name__, expected="a query")))
                continue
            qs = V.sx(x)
            for p, po in zip(UU, PP):
                impl.append(impl_eval(tf, q, po))
                lines.append(f"(eval {qs} {V.sx(p)})")
                meta.append((x, p))
        # comparison values at the ends of the datetime range, in a zone that pushes their UTC reading out of it
        # (an open-ended range written as datetime.max in local time): well-formed, must build and evaluate
        from datetime import datetime as _dt, timedelta as _td, timezone as _tz
        import operator as _op

        hi = _dt.max.replace(tzinfo=_tz(_td(hours=-1)))
        lo = _dt.min.replace(tzinfo=_tz(_td(hours=1)))
        mid = tf.Point(time=V.dt_of(T0))
        for nm, op, rhs, want in (("<", _op.lt, hi, True), ("<=", _op.le, hi, True), (">", _op.gt, hi, False), ("==", _op.eq, hi, False),
                                  ("!=", _op.ne, hi, True), (">", _op.gt, lo, True), (">=", _op.ge, lo, True), ("<", _op.lt, lo, False)):
            try:
                got = op(tf.TimeQuery(), rhs)(mid)
            except Exception as e:
                got = "raised " + type(e).__name__
            if got is not want and len(res.findings) < 20:
                res.findings.append(Finding(
                    "impl-vs-spec", f"TimeQuery() {nm} {rhs!r} on a point in 2020: {got}, expected {want}",
                    dict(family="c09-range-end", op=nm, rhs=repr(rhs), observed=str(got), expected=str(want))))
        # a repeated wall-clock hour as comparison value, with and without a transform in the path: comparisons are by instant
        from zoneinfo import ZoneInfo as _ZI

        wall = _dt(2021, 11, 7, 1, 30, tzinfo=_ZI("America/New_York"))
        inst = {0: wall.replace(fold=0).astimezone(_tz.utc), 1: wall.replace(fold=1).astimezone(_tz.utc)}
        fold_points = [tf.Point(time=inst[0]), tf.Point(time=inst[1]), tf.Point(time=inst[0] - _td(microseconds=1)),
                       tf.Point(time=inst[1] + _td(microseconds=1))]

        def same(t):
            return t

        for nm, op in (("==", _op.eq), ("!=", _op.ne), ("<", _op.lt), ("<=", _op.le), (">", _op.gt), (">=", _op.ge)):
            for fold in (0, 1):
                for bname, builder in (("TimeQuery()", lambda: tf.TimeQuery()), ("TimeQuery().map(identity)", lambda: tf.TimeQuery().map(same)),
                                       ("~~TimeQuery().map(identity)", None)):
                    try:
                        q = op(builder(), wall.replace(fold=fold)) if builder else ~~op(tf.TimeQuery().map(same), wall.replace(fold=fold))
                        got = [bool(q(pt)) for pt in fold_points]
                    except Exception as e:
                        got = "raised " + type(e).__name__
                    want = [op(pt.time, inst[fold]) for pt in fold_points]
                    if got != want and len(res.findings) < 20:
                        res.findings.append(Finding(
                            "impl-vs-spec", f"{bname} {nm} 2021-11-07 01:30 New York fold={fold} on points at both readings of that hour "
                            f"and a microsecond outside: {got}, by instants {want}",
                            dict(family="c09-fold-map", op=nm, fold=fold, builder=bname, observed=str(got), expected=str(want))))
        # regular expressions that carry their own flags (inline `(?a)`, `(?i)`, `(?s)`): the query means what `re` means
        import re as _re

        for pat in (r"(?a)\w+$", r"(?i)X", r"(?s)x.*", r"(?a)[\w ]*", r"(?x) x  # the letter"):
            for kind in ("matches", "search"):
                for bname, mk in (("TagQuery().a", lambda: tf.TagQuery().a), ("MeasurementQuery()", lambda: tf.MeasurementQuery())):
                    want = []
                    for po in pobjs[:60]:
                        v = po.tags.get("a") if bname.startswith("Tag") else po.measurement
                        if bname.startswith("Tag") and "a" not in po.tags:
                            want.append(False)
                        elif not isinstance(v, str):
                            want.append(False)
                        else:
                            want.append((_re.match if kind == "matches" else _re.search)(pat, v) is not None)
                    try:
                        q = getattr(mk(), kind)(pat)
                        got = [bool(q(po)) for po in pobjs[:60]]
                    except Exception as e:
                        got = "raised " + type(e).__name__ + ": " + str(e)[:60]
                    if got != want and len(res.findings) < 20:
                        res.findings.append(Finding(
                            "impl-vs-spec", f"{bname}.{kind}({pat!r}) on 60 points of the universe: {str(got)[:160]}, by `re.{'match' if kind == 'matches' else 'search'}` {str(want)[:120]}",
                            dict(family="c09-inline-flags", pattern=pat, kind=kind, builder=bname, observed=str(got)[:200], expected=str(want)[:200])))
        # a query keeps its meaning when the builder it was made from is used again (another key, another transform,
        # another test): query objects do not share state
        def plus1(v):
            return v + 1

        def times2(v):
            return v * 2

        def upper(v):
            return v.upper()

        builders = [("FieldQuery().f.map(plus1)", lambda: tf.FieldQuery().f.map(plus1), lambda b: b == 2, [lambda b: b.map(times2), lambda b: b == 5, lambda b: b.exists()]),
                    ("TagQuery().a.map(upper)", lambda: tf.TagQuery().a.map(upper), lambda b: b == "X", [lambda b: b.map(len), lambda b: b != "Y", lambda b: b.matches("x")]),
                    ("TagQuery().a", lambda: tf.TagQuery().a, lambda b: b == "x", [lambda b: b.map(upper), lambda b: b.b, lambda b: b == "y"]),
                    ("FieldQuery().f", lambda: tf.FieldQuery().f, lambda b: b > 0, [lambda b: b.map(times2), lambda b: b["g"], lambda b: b <= 0]),
                    ("TimeQuery().map(identity)", lambda: tf.TimeQuery().map(same), lambda b: b >= V.dt_of(T0), [lambda b: b.map(same), lambda b: b < V.dt_of(T0)]),
                    ("MeasurementQuery().map(upper)", lambda: tf.MeasurementQuery().map(upper), lambda b: b == "M1", [lambda b: b.map(len), lambda b: b != "M1"])]
        for bname, mk, first, later in builders:
            try:
                b = mk()
                q1 = first(b)
                before = [impl_eval(tf, q1, po) for po in pobjs]
                for f in later:
                    try:
                        f(b)
                    except Exception:
                        pass
                after = [impl_eval(tf, q1, po) for po in pobjs]
            except Exception as e:
                before, after = "built", "raised " + type(e).__name__
            if before != after and len(res.findings) < 20:
                k = next((i for i in range(len(pobjs)) if before[i] != after[i]), 0) if isinstance(after, list) else 0
                res.findings.append(Finding(
                    "impl-vs-spec", f"a query made from the builder {bname} changed its answers after the builder was used again "
                    f"(another key / transform / test): on {V.sx(U[k])} {before[k] if isinstance(before, list) else before} became "
                    f"{after[k] if isinstance(after, list) else after}",
                    dict(family="c09-shared-builder", builder=bname, observed=str(after)[:200], expected=str(before)[:200])))
        spec = C.run_driver("specdriver", lines)
        model = C.run_driver("modeldriver", lines) if model_ok else None
        nontriv = 0
        for k, (x, p) in enumerate(meta):
            a, s = impl[k], spec[k]
            if a != s:
                if len(res.findings) < 20:
                    res.findings.append(Finding(
                        "impl-vs-spec", f"{V.sx(x)[:200]} on {V.sx(p)}: implementation {a}, documented {s}",
                        dict(family="c09", query=x, point=p, observed=a, expected=s)))
            elif model is not None and model[k] != a:
                if len(res.findings) < 20:
                    res.findings.append(Finding(
                        "correspondence", f"{V.sx(x)[:200]} on {V.sx(p)}: implementation {a}, model {model[k]}",
                        dict(family="c09", query=x, point=p, observed=a, model=model[k])))
            if s == "ok true" or "not" in V.sx(x):
                nontriv += 1
        res.evaluations = len(lines)
        res.distinct = len({l for l in lines})
        res.traces = len(lines) if model is not None else 0
        res.coverage = {"expressions": len(xs), "points": len(U), "exhaustive": True,
                        "true_results": sum(1 for s in spec if s == "ok true"),
                        "false_results": sum(1 for s in spec if s == "ok false"),
                        "construction_errors": build_err}
        res.samples = [dict(line=lines[i], impl=impl[i], spec=spec[i]) for i in (0, len(lines) // 2, len(lines) - 1)]
        return res

    def replay_known(self, k):
        return False


def replay_c09(payload):
    tf = C.import_tinyflux()
    if payload.get("family") in ("c09-range-end", "c09-fold-map", "c09-shared-builder", "c09-inline-flags"):
        print(payload)
        return True
    q = V.build_query(payload["query"], tf)
    p = V.build_point(payload["point"], tf)
    r = impl_eval(tf, q, p)
    print(f"{V.sx(payload['query'])} on {V.sx(payload['point'])}: {r}; documented {payload.get('expected')}")
    return r != payload.get("expected")


class FamilyC17:
    rule = ("all ordered pairs of a set of expressions (every leaf of the vocabulary, its negation, and all and/or "
            "combinations over a 14-leaf subset incl. compound operands; ~300 expressions quick, ~700 thorough): "
            "q1 == q2 on the real objects, hash(q1) == hash(q2), evaluation of both on the 360-point universe, "
            "a&b == b&a and a|b == b|a for simple and compound operands, queries with map / bare noop never equal; "
            "and the model's `qeq` on the same pair. Distinct = distinct pairs; non-trivial = the two expressions are "
            "not the same term.")

    def exprs(self, tier, search):
        ls = leaves()
        r = random.Random(C.seed() * 17 + 17)
        sub = [["tag", hx("a"), ["cmp", "eq", "s:" + hx("x")]], ["tag", hx("a"), ["cmp", "eq", "s:" + hx("y")]],
               ["field", hx("f"), ["cmp", "gt", "n:0"]], ["field", hx("f"), ["cmp", "gt", "n:1"]],
               ["tag", hx("a"), ["re", "match", hx("x"), "-"]], ["tag", hx("a"), ["re", "match", hx("x"), "i"]],
               ["tag", hx("a"), ["re", "search", hx("x"), "-"]], ["tag", hx("a"), ["re", "search", hx("x"), "i"]],
               ["time", ["cmp", "le", f"t:{T0}"]], ["time", ["cmp", "le", f"t:{T0}@-420"]],
               ["meas", ["cmp", "eq", "s:" + hx("m")]], ["noop", "tag"],
               ["tag", hx("a"), ["map", ["upper"], ["cmp", "eq", "s:" + hx("X")]]],
               ["tag", hx("a"), ["test", "streq", "s:" + hx("x")]],
               # right-hand sides whose Python hashes collide: hash(-1) == hash(-2), hash(0) == hash(2**61 - 1)
               ["field", hx("f"), ["cmp", "eq", "n:-1"]], ["field", hx("f"), ["cmp", "eq", "n:-2"]],
               ["field", hx("f"), ["cmp", "lt", "n:0"]], ["field", hx("f"), ["cmp", "lt", "n:2305843009213693951"]]]
        xs = list(ls) + [["not", x] for x in ls]
        comp = []
        for a in sub:
            for b in sub:
                comp.append(["and", a, b])
                comp.append(["or", a, b])
        xs += comp if (tier == "thorough" or search) else r.sample(comp, 120)
        # compound operands (commutativity across SimpleQuery / CompoundQuery)
        c1 = ["and", sub[0], sub[2]]
        c2 = ["or", sub[1], sub[3]]
        for a in (c1, c2, ["not", sub[0]], ["not", c1]):
            for b in (sub[0], sub[4], c2, ["not", sub[2]]):
                xs += [["and", a, b], ["and", b, a], ["or", a, b], ["or", b, a]]
        seen, out = set(), []
        for x in xs:
            k = V.sx(x) + repr(x)
            if k not in seen:
                seen.add(k)
                out.append(x)
        return out

    def run(self, tier, model_ok, search):
        tf = C.import_tinyflux()
        res = Result()
        U = universe()
        pobjs = [V.build_point(p, tf) for p in U]
        xs = self.exprs(tier, search)
        objs, evals = [], []
        for x in xs:
            q = V.build_query(x, tf)
            objs.append(q)
            evals.append(tuple(impl_eval(tf, q, po) for po in pobjs))
        has_map = ["(map" in V.sx(x) for x in xs]
        is_noop = [x[0] == "noop" for x in xs]
        lines, pairs, impl_eq = [], [], []
        findings = []

        def add(kind, summary, payload):
            if len(findings) < 20:
                findings.append(Finding(kind, summary, dict(payload, family="c17")))

        n = len(xs)
        for i in range(n):
            for j in range(n):
                try:
                    e = bool(objs[i] == objs[j])
                except Exception as ex:
                    e = "exc:" + type(ex).__name__
                if e is True:
                    if evals[i] != evals[j]:
                        k = next(t for t in range(len(U)) if evals[i][t] != evals[j][t])
                        add("impl-vs-spec", f"{V.sx(xs[i])[:150]} == {V.sx(xs[j])[:150]} but they evaluate differently on {V.sx(U[k])}",
                            dict(q1=xs[i], q2=xs[j], point=U[k], what="equal-but-different"))
                    try:
                        if hash(objs[i]) != hash(objs[j]):
                            add("impl-vs-spec", f"{V.sx(xs[i])[:150]} == {V.sx(xs[j])[:150]} but hashes differ",
                                dict(q1=xs[i], q2=xs[j], what="equal-but-hash-differs"))
                    except TypeError:
                        pass
                    if has_map[i] or has_map[j]:
                        add("impl-vs-spec", f"query with a map function compares equal: {V.sx(xs[i])[:150]}",
                            dict(q1=xs[i], q2=xs[j], what="map-equal"))
                impl_eq.append(e)
                pairs.append((i, j))
                lines.append(f"(qeq {V.sx_keep_noop(xs[i])} {V.sx_keep_noop(xs[j])})")
        # commutativity
        comm = 0
        for i in range(n):
            for j in range(n):
                if has_map[i] or has_map[j]:
                    continue
                if (i * 7 + j * 13) % (5 if tier == "quick" else 2):
                    continue
                for op in ("and", "or"):
                    a = objs[i] & objs[j] if op == "and" else objs[i] | objs[j]
                    b = objs[j] & objs[i] if op == "and" else objs[j] | objs[i]
                    comm += 1
                    if not (a == b):
                        add("impl-vs-spec", f"a {op} b != b {op} a for a={V.sx(xs[i])[:120]} b={V.sx(xs[j])[:120]}",
                            dict(q1=[op, xs[i], xs[j]], q2=[op, xs[j], xs[i]], what="not-commutative"))
        # shapes outside the Lean vocabulary, checked on the real objects only: a map function anywhere in the path
        # (also followed by further keys) makes the query unhashable and unequal to everything, itself included
        def rekey(d):
            return {"z": "v"}

        def ident(v):
            return v

        special = [tf.TagQuery().map(rekey).z == "v", tf.TagQuery().a.map(ident) == "x",
                   tf.FieldQuery().map(rekey).z.exists(), tf.TimeQuery().map(ident) == V.dt_of(T0),
                   tf.MeasurementQuery().map(ident) == "m"]
        special += [special[0] & objs[0], ~special[0], special[1] | special[0], objs[0] & special[2]]
        for q in special:
            for r2 in special + objs[:40]:
                comm += 1
                if (q == r2) or (r2 == q) or q.is_hashable():
                    add("impl-vs-spec", f"a query with a map function in its path compares equal / is hashable: {q!r} vs {r2!r}",
                        dict(q1=["special"], q2=["special"], what="map-equal-special"))
        # further shapes outside the Lean vocabulary, on the real objects only: equal queries must evaluate alike
        ex = py_extras(tf)
        ex_names = sorted(ex)
        from datetime import datetime as _dt, timezone as _tz

        U = U + [["pt", str(V.us_of(_dt(2021, 11, 7, 6, 0, tzinfo=_tz.utc))), hx("m"), ["tags"], ["fields"]],
                 ["pt", str(V.us_of(_dt(9999, 11, 7, 5, 45, tzinfo=_tz.utc))), hx("m"), ["tags"], ["fields"]]]
        pobjs = pobjs + [V.build_point(U[-2], tf), V.build_point(U[-1], tf)]
        ex_evals = {k: tuple(impl_eval(tf, ex[k], po) for po in pobjs) for k in ex_names}
        for a in ex_names:
            for b in ex_names:
                comm += 1
                try:
                    e = bool(ex[a] == ex[b])
                except Exception:
                    e = False
                if e and ex_evals[a] != ex_evals[b]:
                    k = next(t for t in range(len(U)) if ex_evals[a][t] != ex_evals[b][t])
                    add("impl-vs-spec", f"{a} == {b} but they evaluate differently on {V.sx(U[k])}: {ex_evals[a][k]} vs {ex_evals[b][k]}",
                        dict(q1=["py", a], q2=["py", b], point=U[k], what="equal-but-different-py"))
                elif e:
                    try:
                        if hash(ex[a]) != hash(ex[b]):
                            add("impl-vs-spec", f"{a} == {b} but hashes differ", dict(q1=["py", a], q2=["py", b], what="equal-but-hash-differs-py"))
                    except TypeError:
                        pass
        if model_ok:
            model = C.run_driver("modeldriver", lines)
            for k, (i, j) in enumerate(pairs):
                m = model[k]
                if not m.startswith("eq="):
                    raise RuntimeError(f"driver: {m} for {lines[k]}")
                me = m.split()[0] == "eq=true"
                if impl_eq[k] is not me and not any(f.kind == "impl-vs-spec" for f in findings):
                    add("correspondence", f"== of {V.sx(xs[i])[:120]} and {V.sx(xs[j])[:120]}: implementation {impl_eq[k]}, model {me}",
                        dict(q1=xs[i], q2=xs[j], observed=str(impl_eq[k]), model=m, what="model-differs"))
        res.findings = findings
        res.evaluations = len(pairs) + comm
        res.distinct = sum(1 for (i, j) in pairs if i != j)
        res.traces = len(pairs) if model_ok else 0
        res.coverage = {"expressions": n, "pairs": len(pairs), "commutativity_checks": comm,
                        "equal_pairs": sum(1 for e in impl_eq if e is True), "points": len(U), "exhaustive": True}
        res.samples = [dict(line=lines[k], impl=str(impl_eq[k])) for k in (1, len(lines) // 2, len(lines) - 2)]
        return res

    def replay_known(self, k):
        return False


def _has_prefix(v, prefixes):
    # str.startswith accepts a tuple of prefixes and rejects a list
    try:
        return isinstance(v, str) and v.startswith(prefixes)
    except TypeError:
        return False


def _positive(v):
    return v > 0          # TypeError for None


def _member(v, coll):
    return isinstance(coll, (list, tuple, set, frozenset)) and type(coll).__name__ in ("list", "set") and v in coll


def py_extras(tf):
    """queries the line protocol has no term for: naive comparison values, container arguments of `test`,
    booleans vs numbers, str subclasses of the same text"""
    naive = V.dt_of(T0).replace(tzinfo=None)
    aware = V.dt_of(T0)
    import operator as O

    E = {}
    for nm, op in (("eq", O.eq), ("ne", O.ne), ("lt", O.lt), ("le", O.le), ("gt", O.gt), ("ge", O.ge)):
        E[f"TimeQuery() {nm} naive"] = op(tf.TimeQuery(), naive)
        E[f"TimeQuery() {nm} aware"] = op(tf.TimeQuery(), aware)
        E[f"~(TimeQuery() {nm} naive)"] = ~op(tf.TimeQuery(), naive)
        E[f"FieldQuery().f {nm} 1"] = op(tf.FieldQuery().f, 1)
        E[f"FieldQuery().f {nm} True"] = op(tf.FieldQuery().f, True)
        E[f"FieldQuery().f {nm} 1.0"] = op(tf.FieldQuery().f, 1.0)
    # PEP 495: the two readings of a repeated wall-clock hour are one value to `==`/`hash` within a zone, and two instants
    from zoneinfo import ZoneInfo

    wall = V.dt_of(T0).astimezone(ZoneInfo("America/New_York")).replace(year=2021, month=11, day=7, hour=1, minute=30, second=0, microsecond=0)
    for nm, op in (("lt", O.lt), ("le", O.le), ("gt", O.gt), ("ge", O.ge), ("eq", O.eq), ("ne", O.ne)):
        E[f"TimeQuery() {nm} 01:30 New York fold=0"] = op(tf.TimeQuery(), wall.replace(fold=0))
        E[f"TimeQuery() {nm} 01:30 New York fold=1"] = op(tf.TimeQuery(), wall.replace(fold=1))
    # ... also in the last representable year (zoneinfo extrapolates the rule)
    far = wall.replace(year=9999, month=11, day=7)
    for nm, op in (("lt", O.lt), ("ge", O.ge)):
        E[f"TimeQuery() {nm} 9999-11-07 01:30 New York fold=0"] = op(tf.TimeQuery(), far.replace(fold=0))
        E[f"TimeQuery() {nm} 9999-11-07 01:30 New York fold=1"] = op(tf.TimeQuery(), far.replace(fold=1))
    E["a.test(prefix, ('x','y'))"] = tf.TagQuery().a.test(_has_prefix, ("x", "y"))
    E["a.test(prefix, ['x','y'])"] = tf.TagQuery().a.test(_has_prefix, ["x", "y"])
    E["~a.test(prefix, ('x','y'))"] = ~tf.TagQuery().a.test(_has_prefix, ("x", "y"))
    E["~a.test(prefix, ['x','y'])"] = ~tf.TagQuery().a.test(_has_prefix, ["x", "y"])
    E["a.test(member, ['x'])"] = tf.TagQuery().a.test(_member, ["x"])
    # the same function with other unhashable arguments: different queries (whatever the hash does about the arguments)
    E["a.test(member, ['y'])"] = tf.TagQuery().a.test(_member, ["y"])
    E["a.test(member, {'y': 1})"] = tf.TagQuery().a.test(_member, {"y": 1})
    E["~a.test(member, ['y'])"] = ~tf.TagQuery().a.test(_member, ["y"])
    E["a.test(member, ['y']) & b.exists()"] = tf.TagQuery().a.test(_member, ["y"]) & tf.TagQuery().b.exists()
    E["a.test(member, ['x']) & b.exists()"] = tf.TagQuery().a.test(_member, ["x"]) & tf.TagQuery().b.exists()
    E["a.test(member, ('x',))"] = tf.TagQuery().a.test(_member, ("x",))
    # a partial test function (raises TypeError on a None field): `a & b` and `b & a` are equal queries, so they must
    # evaluate alike — both raise, or neither
    pos = tf.FieldQuery().f.test(_positive)
    ax = tf.TagQuery().a == "x"
    nb = tf.TagQuery().b.exists()
    E["f.test(positive) & (a == 'x')"] = pos & ax
    E["(a == 'x') & f.test(positive)"] = ax & pos
    E["f.test(positive) | b.exists()"] = pos | nb
    E["b.exists() | f.test(positive)"] = nb | pos
    E["(f.test(positive) | b.exists()) & (a == 'x')"] = (pos | nb) & ax
    E["(b.exists() | f.test(positive)) & (a == 'x')"] = (nb | pos) & ax
    E["a.test(prefix, 'x')"] = tf.TagQuery().a.test(_has_prefix, "x")
    E["a.test(prefix, ('x',))"] = tf.TagQuery().a.test(_has_prefix, ("x",))
    return E


def replay_c17(payload):
    tf = C.import_tinyflux()
    if payload.get("what", "").endswith("-py"):
        ex = py_extras(tf)
        q1, q2 = ex[payload["q1"][1]], ex[payload["q2"][1]]
        print(f"{payload['q1'][1]}  ==  {payload['q2'][1]} : {q1 == q2}")
        if payload.get("point"):
            p = V.build_point(payload["point"], tf)
            a, b = impl_eval(tf, q1, p), impl_eval(tf, q2, p)
            print(f"on {V.sx(payload['point'])}: {a} vs {b}")
            return bool(q1 == q2) and a != b
        return bool(q1 == q2)
    if payload.get("what") == "map-equal-special":
        q = tf.TagQuery().map(lambda d: {"z": "v"}).z == "v"
        print("TagQuery().map(f).z == 'v': hashable", q.is_hashable(), "equal to itself", q == q)
        return q.is_hashable() or (q == q)
    q1, q2 = V.build_query(payload["q1"], tf), V.build_query(payload["q2"], tf)
    print(f"q1 = {V.sx(payload['q1'])}\nq2 = {V.sx(payload['q2'])}\nq1 == q2: {q1 == q2}")
    w = payload.get("what")
    if w == "equal-but-different":
        p = V.build_point(payload["point"], tf)
        a, b = impl_eval(tf, q1, p), impl_eval(tf, q2, p)
        print(f"on {V.sx(payload['point'])}: q1 -> {a}, q2 -> {b}")
        return bool(q1 == q2) and a != b
    if w == "not-commutative":
        return not (q1 == q2)
    if w == "equal-but-hash-differs":
        return bool(q1 == q2) and hash(q1) != hash(q2)
    if w == "map-equal":
        return bool(q1 == q2)
    return False
