"""Generators of protocol terms: points, queries, update arguments, histories.

Every random choice derives from one `random.Random(seed)`, so a disagreement replays exactly.
Alphabets are small on purpose (collisions, ties, duplicates matter), with a separate pool of
adversarial strings for the codec / file-level properties.
"""
import random

from vocab import hx

T0 = 1_600_000_000_000_000  # 2020-09-13T12:26:40Z in µs

MEAS = ["m1", "m2", "_default"]
TAG_KEYS = ["a", "b"]
TAG_VALS = [None, "", "x", "y", "X"]
FIELD_KEYS = ["f", "g"]
FIELD_VALS = ["~", "0", "1", "-1", "5/2", "1/1", "inf"]
TIME_OFFS = [0, 1, 1, 2, 3, 5, 8]
CMPS = ["eq", "ne", "lt", "le", "gt", "ge"]

HARD_STRINGS = [
    "", "x", "a,b", 'q"uote', "line\nbreak", "cr\rlf\r\n", "é", "日本", "_none", "_none ", "t_",
    "_tag_k", ";", "\t", "'", "_field_", "f_", "t", "f", "_", "_t", "_f", "tt", "\x00", "𝄞", " lead",
    "trail ", "_default",
    # characters str.splitlines() breaks at but the csv module does not; text that Unicode normalisation
    # (NFC/NFKC) or case folding would rewrite; a backslash and a pipe for the escapechar / delimiter dialects
    "v\x0bt", "f\x0cf", "fs\x1c", "rs\x1e.", "nel\x85x", "ls\u2028x", "ps\u2029", "e\u0301", "\u212b",
    "\u1100\u1161", "ﬁ", "ß", "back\\slash", "pi|pe", "\ufeffbom",
]

# numbers whose Python hashes collide pairwise (hash(-1) == hash(-2), hash(inf) == hash(314159),
# hash(0) == hash(2**61 - 1), hash(0.5) == hash(2**60)): a cache keyed by hash() confuses them
HASH_TWINS = {"-1": "-2", "-2": "-1", "inf": "314159", "314159": "inf", "0": "2305843009213693951",
              "2305843009213693951": "0", "1/2": "1152921504606846976", "1152921504606846976": "1/2"}
# presentations (UTC offset in minutes) of the instants used as query operands and point times
PRES = ["", "", "", "@0", "@120", "@-300", "@345", "@-720", "@zi:Europe/London", "@zi:UTC"]


def opt_hx(v):
    return "~" if v is None else hx(v)


class Gen:
    def __init__(self, seed, meas=None, hard=False):
        self.r = random.Random(seed)
        self.meas = meas or MEAS
        self.filter_extra = []     # extra names used only as filters / handle names
        self.hard = hard
        self.wide = False          # numbers with colliding hashes as field values and operands
        self.tbase = 0             # offset (µs) of the times used after a bulk start, so that inserts stay in order

    # -- points ----------------------------------------------------------

    def time(self):
        if self.tbase < 0:
            # around the epoch: a timestamp of exactly 0.0 is falsy
            return str(self.r.choice([-2, -1, 0, 0, 0, 1, 2])) + self.r.choice(PRES)
        return str(T0 + self.tbase + self.r.choice(TIME_OFFS)) + self.r.choice(PRES)

    def tag_val(self):
        if self.hard and self.r.random() < 0.5:
            # the sentinel text as a tag *value* is C05's known finding, not a subject of the history families
            return self.r.choice([x for x in HARD_STRINGS if x != "_none"] + [None])
        return self.r.choice(TAG_VALS)

    def key(self, pool):
        if self.hard and self.r.random() < 0.4:
            return self.r.choice(HARD_STRINGS)
        return self.r.choice(pool)

    def point(self, time=None, meas=None):
        r = self.r
        tags, seen = [], set()
        for _ in range(r.choice([0, 1, 1, 2, 2])):
            k = self.key(TAG_KEYS)
            if k in seen:
                continue
            seen.add(k)
            tags.append([hx(k), opt_hx(self.tag_val())])
        fields, seen = [], set()
        for _ in range(r.choice([0, 1, 1, 2])):
            k = self.key(FIELD_KEYS)
            if k in seen:
                continue
            seen.add(k)
            fields.append([hx(k), r.choice(FIELD_VALS + ["-2", "314159", "1/2"] if self.wide else FIELD_VALS)])
        if r.random() < 0.08:
            tags.append([hx("a.b"), opt_hx(self.tag_val())])       # a key containing the separator of select keys
        if r.random() < 0.06:
            fields.append([hx("f.g"), r.choice(FIELD_VALS)])
        m = meas if meas is not None else r.choice(self.meas)
        return ["pt", time or self.time(), hx(m), ["tags"] + tags, ["fields"] + fields]

    # -- queries ---------------------------------------------------------

    def time_leaf(self):
        r = self.r
        base = self.tbase if (self.tbase <= 0 or r.random() < 0.7) else r.randrange(self.tbase + 1)
        t = f"t:{T0 + r.choice([0, 1, 2, 3, 4, 8]) + base}" + r.choice(PRES)
        if self.tbase < 0:
            t = f"t:{r.choice([-2, -1, 0, 0, 1, 2])}" + r.choice(PRES)
        c = r.random()
        if c < 0.03:
            return ["cmp", r.choice(CMPS), "~"]      # a time compared with None: ==/!= are defined, the order is not
        if c < 0.7:
            return ["cmp", r.choice(CMPS), t]
        if c < 0.8:
            return ["test", "timege", t]
        if c < 0.9:
            return ["map", ["addus", "n:1"], ["cmp", r.choice(CMPS), t]]
        return ["map", ["raise"], ["cmp", r.choice(CMPS), t]]

    def meas_leaf(self):
        r = self.r
        m = r.choice(self.meas + ["zz"])
        c = r.random()
        if c < 0.6:
            return ["cmp", r.choice(CMPS), "s:" + hx(m)]
        if c < 0.7:
            return ["re", r.choice(["match", "search"]), hx(r.choice(["m", "M", "1", "_d"])), r.choice(["-", "i"])]
        if c < 0.8:
            return ["map", ["upper"], ["cmp", "eq", "s:" + hx(m.upper())]]
        if c < 0.9:
            # the constructor type-checks a truthy rhs against the query type even behind a map
            return ["map", ["strlen"], ["test", "numgt", "n:1"]]
        if c < 0.95:
            return ["test", "streq", "s:" + hx(m)]
        return ["map", ["raise"], ["cmp", "eq", "s:" + hx(m)]]

    def tag_leaf(self):
        r = self.r
        c = r.random()
        rhs = r.choice(["s:" + hx("x"), "s:" + hx("y"), "s:" + hx(""), "~", "s:" + hx("X")])
        if c < 0.5:
            return ["cmp", r.choice(CMPS), rhs]
        if c < 0.62:
            return ["exists"]
        if c < 0.74:
            return ["re", r.choice(["match", "search"]), hx(r.choice(["x", "X", "", "y"])), r.choice(["-", "i"])]
        if c < 0.8:
            return ["test", r.choice(["isnone", "isstr", "true", "false", "twicelen", "twicelen"])]
        if c < 0.86:
            return ["test", "streq", "s:" + hx("x")]
        if c < 0.92:
            return ["map", ["upper"], ["cmp", r.choice(["eq", "ne"]), "s:" + hx("X")]]
        if c < 0.96:
            return ["map", ["strlen"], r.choice([["test", "numgt", "n:0"], ["cmp", r.choice(CMPS), "n:0"]])]
        return ["map", ["raise"], ["exists"]]

    def field_leaf(self):
        r = self.r
        c = r.random()
        rhs = r.choice(["n:0", "n:1", "n:5/2", "~", "n:-1", "n:inf"])
        if self.wide and r.random() < 0.7:
            rhs = "n:" + r.choice(sorted(HASH_TWINS))
        if c < 0.55:
            return ["cmp", r.choice(CMPS), rhs]
        if c < 0.7:
            return ["exists"]
        if c < 0.8:
            return ["test", "numgt", "n:0"]
        if c < 0.86:
            return ["test", r.choice(["isnone", "true"])]
        if c < 0.94:
            return ["map", ["neg"], ["cmp", r.choice(CMPS), "n:0"]]
        return ["map", ["raise"], ["exists"]]

    def simple(self):
        r = self.r
        k = r.choice(["time", "meas", "tag", "tag", "field", "field", "noop"])
        if k == "time":
            return ["time", self.time_leaf()]
        if k == "meas":
            return ["meas", self.meas_leaf()]
        if k == "tag":
            return ["tag", hx(r.choice(TAG_KEYS + ["c"])), self.tag_leaf()]
        if k == "field":
            return ["field", hx(r.choice(FIELD_KEYS + ["h"])), self.field_leaf()]
        return ["noop", r.choice(["time", "meas", "tag", "field"])]

    def query(self, depth=3):
        r = self.r
        if depth > 0 and r.random() < 0.4:
            k = r.choice(["and", "or", "not", "not"])
            if k == "not":
                return ["not", self.query(depth - 1)]
            return [k, self.query(depth - 1), self.query(depth - 1)]
        return self.simple()

    def mfilter(self):
        return self.r.choice(["~", "~", "~"] + [hx(m) for m in self.meas + self.filter_extra] + [hx("zz")])

    # -- updates ---------------------------------------------------------

    def upd_args(self, allow_raise=True):
        r = self.r
        t = m = tg = fl = "~"
        if r.random() < 0.3:
            c = r.random()
            if c < 0.45:
                t = ["s", f"{T0 + r.choice([1, 4, 7])}@{r.choice([0, 0, -420, 345])}"]
            elif c < 0.85:
                t = ["c", "addus", str(r.choice([1, 2, -1])), str(r.choice([0, -420, 345]))]
            elif allow_raise:
                t = ["c", r.choice(["raiseif", "valueerrorif"]), str(T0 + r.choice([1, 2, 3]))] if c < 0.95 else ["c", "badtype"]
        if r.random() < 0.25:
            c = r.random()
            if c < 0.5:
                m = ["s", hx(r.choice(self.meas))]
            elif c < 0.85:
                m = ["c", "suffix", hx("x")]
            elif allow_raise:
                m = ["c", "raiseif", hx(r.choice(self.meas))] if c < 0.95 else ["c", "badtype"]
        if r.random() < 0.5:
            c = r.random()
            d = r.choice([[[hx("a"), hx("x")]], [[hx("b"), "~"], [hx("c"), hx("q")]], [[hx("a"), hx("")]], []])
            if c < 0.4:
                tg = ["s"] + d
            elif c < 0.7:
                tg = ["c", "const"] + d
            elif c < 0.85:
                tg = ["c", "copykey", hx("a"), hx("b")]
            elif allow_raise:
                tg = ["c", "raiseifhas", hx("b")] if c < 0.95 else ["c", "bad"]
        if r.random() < 0.5:
            c = r.random()
            d = r.choice([[[hx("f"), "1"]], [[hx("g"), "~"], [hx("h"), "3"]], [[hx("f"), "0"]], []])
            if c < 0.4:
                fl = ["s"] + d
            elif c < 0.7:
                fl = ["c", "const"] + d
            elif c < 0.85:
                fl = ["c", "inc", hx("f")]
            elif allow_raise:
                fl = ["c", "raiseifhas", hx("g")] if c < 0.95 else ["c", "bad"]
        ut = ["unsettags"] + ([hx(k) for k in r.choice([["a"], ["a", "c"], ["b"]])] if r.random() < 0.3 else [])
        uf = ["unsetfields"] + ([hx(k) for k in r.choice([["f"], ["g", "h"]])] if r.random() < 0.3 else [])
        return [["time", t], ["meas", m], ["tags", tg], ["fields", fl], ut, uf]

    # -- histories -------------------------------------------------------

    READS = ["search", "count", "contains", "get", "select"]

    def read_op(self, kind=None):
        r = self.r
        k = kind or r.choice(self.READS)
        q, m = self.query(), self.mfilter()
        if k == "search":
            op = ["search", q, m, r.choice(["0", "1"])]
        elif k == "select":
            keys = r.sample(["time", "measurement", "t:" + hx("a"), "f:" + hx("f"), "t:" + hx("zz"), "t:" + hx("a.b"),
                             "f:" + hx("f.g")], r.randint(1, 3))
            op = ["select", ["keys"] + keys, q, m]
        else:
            op = [k, q, m]
        return self.maybe_via(op, m)

    def twin(self, op):
        """the same operation with the first numeric comparison operand replaced by a number whose hash() is
        the same (None when the operation has no such operand)"""
        done = [False]

        def go(t, in_field=False):
            # only under a field query: a tag / measurement / time query type-checks a truthy operand
            if isinstance(t, str):
                return t
            if (in_field and not done[0] and len(t) == 3 and t[0] == "cmp" and isinstance(t[2], str)
                    and t[2].startswith("n:") and t[2][2:] in HASH_TWINS):
                done[0] = True
                return [t[0], t[1], "n:" + HASH_TWINS[t[2][2:]]]
            return [go(x, in_field or (bool(t) and t[0] == "field")) for x in t]

        out = go(op)
        return out if done[0] else None

    def maybe_via(self, op, m):
        if m != "~" and self.r.random() < 0.4:
            return ["H", op]
        return op

    def getter_op(self):
        r = self.r
        k = r.choice(["measurements", "tagkeys", "tagvalues", "fieldkeys", "fieldvalues", "timestamps",
                      "len", "iter", "all", "mlen", "miter", "mall"])
        m = self.mfilter()
        if k == "measurements":
            return ["measurements"]
        if k in ("tagkeys", "fieldkeys", "timestamps"):
            return self.maybe_via([k, m], m)
        if k == "tagvalues":
            keys = r.choice([[], [], ["a"], ["a", "zz"], ["b", "a"]])
            return self.maybe_via(["tagvalues", ["keys"] + [hx(x) for x in keys], m], m)
        if k == "fieldvalues":
            return self.maybe_via(["fieldvalues", hx(r.choice(FIELD_KEYS + ["h"])), m], m)
        if k in ("len", "iter"):
            return [k]
        if k == "all":
            return ["all", r.choice(["0", "1"])]
        name = hx(r.choice(self.meas + ["zz"]))
        if k == "mall":
            return ["mall", name, r.choice(["0", "1"])]
        return [k, name]

    def insert_op(self, bad=False):
        r = self.r
        n = r.choice([1, 1, 1, 2, 3, 0])
        pts = [self.point() for _ in range(n)]
        if pts and r.random() < 0.12:
            # some points carry no time: the database stamps them with the (pinned) insertion time
            now = "now:" + str(T0 + self.tbase + r.choice([0, 2, 4, 9]))
            for p in pts:
                if r.random() < 0.6:
                    p[1] = now
        if bad and pts:
            pts.insert(r.randrange(len(pts) + 1), r.choice(["!", "!", "!m", "!r"]))
        m = r.choice(["~", "~", hx(r.choice(self.meas + self.filter_extra))])
        op = ["ins", m] + pts
        return self.maybe_via(op, m)

    def remove_op(self):
        m = self.mfilter()
        return self.maybe_via(["remove", self.query(2), m], m)

    def update_op(self, allow_raise=True):
        r = self.r
        all_ = r.random() < 0.25
        m = "~" if all_ and r.random() < 0.6 else self.mfilter()
        q = ["noop", "tag"] if all_ else self.query(2)
        args = self.upd_args(allow_raise)
        if all_ and m != "~":
            # Measurement.update_all: forwarded as update(MeasurementQuery().noop(), ..., name)
            return ["H", ["update", "0", ["noop", "meas"], m] + args]
        op = ["update", "1" if all_ else "0", q, m] + args
        if m != "~" and r.random() < 0.4:
            return ["H", op]
        return op

    def history(self, n, csv, malformed=0.05):
        r = self.r
        ops = []
        for _ in range(n):
            c = r.random()
            if c < 0.30:
                ops.append(self.insert_op(bad=r.random() < malformed))
            elif c < 0.50:
                ops.append(self.read_op())
            elif c < 0.62:
                ops.append(self.getter_op())
            elif c < 0.72:
                ops.append(self.remove_op())
            elif c < 0.84:
                ops.append(self.update_op())
            elif c < 0.87:
                ops.append(["drop", hx(r.choice(self.meas + ["zz"]))] if r.random() < 0.7
                           else ["H", ["drop", hx(r.choice(self.meas))]])
            elif c < 0.89:
                ops.append(["removeall"])
            elif c < 0.94:
                ops.append(["reindex"])
            elif csv:
                ops.append(["reopen"])
            else:
                ops.append(self.read_op())
        return ops
