"""Shared infrastructure of the checks: locations, regeneration, lake, audit, drivers, evidence."""
import fcntl
import json
import os
import re
import subprocess
import sys
import time

HARNESS = os.path.dirname(os.path.abspath(__file__))
VERIF = os.path.dirname(HARNESS)
LEAN = os.path.join(VERIF, "lean")
REPO = os.path.abspath(os.environ.get("VERIF_REPO", "/repo"))
EVIDENCE = os.path.join(VERIF, "evidence")
if os.environ.get("VERIF_EVIDENCE_DIR"):  # development runs against a changed tree keep their evidence apart
    EVIDENCE = os.environ["VERIF_EVIDENCE_DIR"]
REPLAYS = os.path.join(VERIF, "replays")
CORPUS = os.path.join(VERIF, "corpus")
ALLOWED_AXIOMS = {"propext", "Classical.choice", "Quot.sound"}
FORBIDDEN = re.compile(
    r"\bsorry\b|\badmit\b|^\s*axiom\s|native_decide|bv_decide|implemented_by|\bunsafe\s|maxHeartbeats\s+0"
)

TRUSTED_BASE = [
    "Lean 4.33.0 kernel; axioms allowed in property theorems: propext, Classical.choice, Quot.sound",
    "lean/TinyFlux/Spec (the formal reading of the properties)",
    "tools/py2lean (translator / table extractors) and lean/TinyFlux/Py (restated CPython behaviour)",
    "the correspondence harness (harness/*.py) and the assumption it samples: the hand-written Model behaves like the code on inputs it did not run",
    "modelled, not verified: float<->repr, datetime isoformat/timestamp/tz database, csv module, text codecs, re, user callables, the OS below Python's I/O calls",
]


def seed() -> int:
    try:
        return int(os.environ.get("VERIF_SEED", "0"))
    except ValueError:
        return 0


def import_tinyflux():
    """import tinyflux from $VERIF_REPO's working tree (not from an installed copy, editable or
    otherwise) and assert that is what we got"""
    import importlib.util

    mod = sys.modules.get("tinyflux")
    if mod is not None:
        f = os.path.abspath(getattr(mod, "__file__", "") or "")
        if f.startswith(REPO + os.sep):
            return mod
        for k in [k for k in sys.modules if k == "tinyflux" or k.startswith("tinyflux.")]:
            del sys.modules[k]
    pkg = os.path.join(REPO, "tinyflux")
    spec = importlib.util.spec_from_file_location(
        "tinyflux", os.path.join(pkg, "__init__.py"), submodule_search_locations=[pkg]
    )
    mod = importlib.util.module_from_spec(spec)
    sys.modules["tinyflux"] = mod
    spec.loader.exec_module(mod)
    f = os.path.abspath(mod.__file__)
    assert f.startswith(REPO + os.sep), f"tinyflux imported from {f}, expected under {REPO}"
    import tinyflux.storages as st  # noqa

    assert os.path.abspath(st.__file__).startswith(REPO + os.sep)
    return mod


class LakeLock:
    """serialise lake / regeneration between checks running in parallel"""

    def __enter__(self):
        os.makedirs(os.path.join(LEAN, ".lake"), exist_ok=True)
        self.f = open(os.path.join(LEAN, ".lake", "verif.lock"), "w")
        fcntl.flock(self.f, fcntl.LOCK_EX)
        return self

    def __exit__(self, *a):
        fcntl.flock(self.f, fcntl.LOCK_UN)
        self.f.close()


def regenerate():
    """run the translator; returns list of per-module status dicts"""
    p = subprocess.run(
        [sys.executable, os.path.join(VERIF, "tools", "py2lean")],
        capture_output=True,
        text=True,
        env=dict(os.environ, VERIF_REPO=REPO),
    )
    out = []
    for line in p.stdout.splitlines():
        try:
            out.append(json.loads(line))
        except ValueError:
            pass
    if p.returncode != 0 and not out:
        out.append({"module": "*", "status": "error", "error": p.stderr[-500:]})
    return out


def lake_build(targets, timeout=1500):
    """returns (ok, log)"""
    p = subprocess.run(
        ["lake", "build"] + list(targets),
        cwd=LEAN,
        capture_output=True,
        text=True,
        timeout=timeout,
    )
    return p.returncode == 0, (p.stdout + p.stderr)


def failed_targets(log):
    """module names lake reports as failed + first error lines"""
    mods = re.findall(r"^- (\S+)", log, re.M)
    errs = re.findall(r"^error: (\S+?\.lean:\d+:\d+): (.*)$", log, re.M)
    return mods, errs[:8]


def audit(prop_id):
    """`#print axioms` of every theorem under TinyFlux.Props.<id>: returns (theorems, bad)
    theorems: list of {theorem, axioms}; bad: those using anything outside ALLOWED_AXIOMS"""
    f = os.path.join("TinyFlux", "Audit", f"{prop_id}.lean")
    p = subprocess.run(
        ["lake", "env", "lean", f], cwd=LEAN, capture_output=True, text=True, timeout=900
    )
    thms = []
    for line in (p.stdout + p.stderr).splitlines():
        m = re.search(r"AUDIT (\{.*\})", line)
        if m:
            thms.append(json.loads(m.group(1)))
    bad = [t for t in thms if not set(t["axioms"]) <= ALLOWED_AXIOMS]
    if p.returncode != 0:
        bad.append({"theorem": f"<audit of {prop_id} failed to elaborate>", "axioms": []})
    return thms, bad


def strip_lean_comments(src: str) -> str:
    # block comments (nested) and line comments
    out = []
    i, depth, n = 0, 0, len(src)
    while i < n:
        if src.startswith("/-", i):
            depth += 1
            i += 2
        elif depth and src.startswith("-/", i):
            depth -= 1
            i += 2
        elif depth:
            if src[i] == "\n":
                out.append("\n")
            i += 1
        elif src.startswith("--", i):
            while i < n and src[i] != "\n":
                i += 1
        else:
            out.append(src[i])
            i += 1
    return "".join(out)


def source_grep():
    """forbidden constructs outside comments anywhere under lean/ (hand-written and generated)"""
    hits = []
    for root, dirs, files in os.walk(LEAN):
        if ".lake" in root.split(os.sep):
            continue
        for fn in files:
            if fn.endswith(".lean"):
                path = os.path.join(root, fn)
                with open(path, encoding="utf-8") as f:
                    src = strip_lean_comments(f.read())
                for ln, line in enumerate(src.splitlines(), 1):
                    if FORBIDDEN.search(line):
                        hits.append(f"{os.path.relpath(path, VERIF)}:{ln}: {line.strip()[:120]}")
    return hits


def driver(name):
    return os.path.join(LEAN, ".lake", "build", "bin", name)


def run_driver(name, lines, timeout=600):
    """pipe protocol lines through a compiled driver; returns list of output lines"""
    exe = driver(name)
    if not os.path.exists(exe):
        raise FileNotFoundError(exe)
    p = subprocess.run(
        [exe],
        input="\n".join(lines) + "\n",
        capture_output=True,
        text=True,
        timeout=timeout,
    )
    if p.returncode != 0:
        raise RuntimeError(f"{name} exited {p.returncode}: {p.stderr[-400:]}")
    out = p.stdout.split("\n")
    if out and out[-1] == "":
        out.pop()
    return out


def write_evidence(prop_id, tier, level, coverage, wall_s, violations, assumptions=None):
    os.makedirs(EVIDENCE, exist_ok=True)
    ev = {
        "property_id": prop_id,
        "tier": tier,
        "seed": seed(),
        "level": level,
        "coverage": coverage,
        "assumptions": assumptions or TRUSTED_BASE,
        "wall_s": round(wall_s, 2),
        "violations": violations,
    }
    path = os.path.join(EVIDENCE, f"{prop_id}.json")
    tmp = path + ".tmp"
    with open(tmp, "w", encoding="utf-8") as f:
        json.dump(ev, f, indent=1, sort_keys=True, ensure_ascii=True)
        f.write("\n")
    os.replace(tmp, path)
    return path


def write_replay(prop_id, payload):
    os.makedirs(REPLAYS, exist_ok=True)
    import hashlib

    blob = json.dumps(payload, sort_keys=True, ensure_ascii=True)
    h = hashlib.sha1(blob.encode()).hexdigest()[:10]
    rel = os.path.join("replays", f"{prop_id}-{h}.json")
    with open(os.path.join(VERIF, rel), "w", encoding="utf-8") as f:
        json.dump(payload, f, indent=1, sort_keys=True, ensure_ascii=True)
        f.write("\n")
    return rel


def load_known_findings():
    p = os.path.join(VERIF, "known_findings.json")
    if not os.path.exists(p):
        return []
    with open(p, encoding="utf-8") as f:
        return json.load(f)


class Timer:
    def __init__(self):
        self.t0 = time.time()

    def __call__(self):
        return time.time() - self.t0


class ProcessTZ:
    """run a block with the process's local time zone set to `tz` (None: leave it alone)"""

    def __init__(self, tz):
        self.tz = tz

    def __enter__(self):
        import time

        if self.tz:
            self.saved = os.environ.get("TZ")
            os.environ["TZ"] = self.tz
            time.tzset()
        return self

    def __exit__(self, *a):
        import time

        if self.tz:
            if self.saved is None:
                os.environ.pop("TZ", None)
            else:
                os.environ["TZ"] = self.saved
            time.tzset()
        return False


LOCAL_ZONES = ["Asia/Tokyo", "America/St_Johns", "Asia/Kathmandu", "America/New_York"]
