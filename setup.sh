#!/bin/sh
# MANIFEST.setup_cmd: regenerate Generated/ from $VERIF_REPO (default /repo) and build everything
# (theorems, audit tool, both drivers) from files on disk only. Offline.
cd "$(dirname "$0")" || exit 2
python3 tools/py2lean || exit 2
cd lean || exit 2
lake build TinyFlux specdriver modeldriver 2>&1 | tail -5
# the property theorems and their audits, so that the first check does not pay for the build
lake build $(for i in 01 02 03 04 05 06 07 08 09 10 11 12 13 14 15 16 17 18; do printf "TinyFlux.Audit.C%s " $i; done) 2>&1 | grep -v "AUDIT" | tail -5
# a theorem that does not build on a changed tree is reported by the checks, not here
exit 0
