#!/bin/sh
# MANIFEST.setup_cmd: regenerate Generated/ from $VERIF_REPO (default /repo) and build everything
# (theorems, audit tool, both drivers) from files on disk only. Offline.
cd "$(dirname "$0")" || exit 2
python3 tools/py2lean || exit 2
cd lean || exit 2
lake build TinyFlux Driver specdriver modeldriver 2>&1 | tail -5
# a theorem that does not build on a changed tree is reported by the checks, not here
exit 0
