import TinyFlux.Spec.Ops
/-!
# Line protocol shared by the two drivers: parsing and canonical printing

One s-expression per line. Strings travel hex-encoded (UTF-8 bytes), numbers as exact rationals,
instants as integer microseconds. User functions, regular expressions and update callables are
members of a finite vocabulary implemented identically here and in `harness/vocab.py`.
Depends on the Spec only.
-/
namespace TinyFlux.Proto
open TinyFlux.Spec

inductive Sexp | atom (s : String) | list (l : List Sexp)
deriving Repr, Inhabited

/-- tokenise: parentheses are tokens, everything else is split at spaces -/
def tokens (cs : List Char) : List String :=
  let rec go (cs : List Char) (cur : List Char) (acc : List String) : List String :=
    let flush := if cur.isEmpty then acc else (String.ofList cur.reverse) :: acc
    match cs with
    | [] => flush.reverse
    | c :: t =>
      if c == '(' then go t [] ("(" :: flush)
      else if c == ')' then go t [] (")" :: flush)
      else if c == ' ' || c == '\n' || c == '\r' || c == '\t' then go t [] flush
      else go t (c :: cur) acc
  go cs [] []

/-- parse a token list into s-expressions (stack machine, total) -/
def parseToks (ts : List String) : Option (List Sexp) :=
  let rec go (ts : List String) (stack : List (List Sexp)) : Option (List Sexp) :=
    match ts, stack with
    | [], [top] => some top.reverse
    | [], _ => none
    | "(" :: t, st => go t ([] :: st)
    | ")" :: t, top :: below :: rest => go t ((Sexp.list top.reverse :: below) :: rest)
    | ")" :: _, _ => none
    | a :: t, top :: rest => go t ((Sexp.atom a :: top) :: rest)
    | _ :: _, [] => none
  go ts [[]]

def parseLine (line : String) : Option Sexp :=
  match parseToks (tokens line.toList) with
  | some [s] => some s
  | _ => none

def hexVal (c : Char) : Option Nat :=
  if '0' ≤ c && c ≤ '9' then some (c.toNat - '0'.toNat)
  else if 'a' ≤ c && c ≤ 'f' then some (c.toNat - 'a'.toNat + 10)
  else none

def hexBytes : List Char → Option (List UInt8)
  | [] => some []
  | [_] => none
  | a :: b :: t => do
    let x ← hexVal a; let y ← hexVal b; let r ← hexBytes t
    pure (UInt8.ofNat (x * 16 + y) :: r)

/-- `x<hex>` → string -/
def unhex (s : String) : Option String :=
  match s.toList with
  | 'x' :: t => do
    let bs ← hexBytes t
    String.fromUTF8? (ByteArray.mk bs.toArray)
  | _ => none

def hexDigit (n : Nat) : Char := if n < 10 then Char.ofNat (48 + n) else Char.ofNat (87 + n)
def hex (s : String) : String :=
  String.ofList ('x' :: s.toUTF8.toList.flatMap (fun b => [hexDigit (b.toNat / 16), hexDigit (b.toNat % 16)]))

def parseInt (s : String) : Option Int := s.toInt?

def parseRat (s : String) : Option Rat :=
  match s.splitOn "/" with
  | [n] => (parseInt n).map (fun i => (i : Rat))
  | [n, d] => do
    let n ← parseInt n; let d ← d.toNat?
    if d == 0 then none else pure (mkRat n d)
  | _ => none

def parseNum (s : String) : Option Num :=
  if s == "inf" then some .pinf else if s == "-inf" then some .ninf else (parseRat s).map .fin

def optStr (s : String) : Option (Option String) :=
  if s == "~" then some none else (unhex s).map some
def optNum (s : String) : Option (Option Num) :=
  if s == "~" then some none else (parseNum s).map some

/-- `~`, `s:<hex>`, `n:<rat>`, `t:<int>` -/
def parseVal (s : String) : Option PyV :=
  if s == "~" then some .none else
  match s.toList with
  | 's' :: ':' :: t => (unhex (String.ofList t)).map .str
  | 'n' :: ':' :: t => (parseNum (String.ofList t)).map .num
  | 't' :: ':' :: t => (parseInt (String.ofList t)).map .time
  | _ => none

def parseCmp : String → Option Cmp
  | "eq" => some .eq | "ne" => some .ne | "lt" => some .lt
  | "le" => some .le | "gt" => some .gt | "ge" => some .ge | _ => none

/-! ## vocabulary of user functions (mirrored in harness/vocab.py) -/

def lowerAscii (s : String) : String := String.ofList (s.toList.map Char.toLower)

def isInfix (a b : List Char) : Bool :=
  match b with
  | [] => a.isEmpty
  | _ :: t => a.isPrefixOf b || isInfix a t

/-- `re.match(re.escape(lit), v, flags)` / `re.search(...)` -/
def regexFn (kind : String) (lit : String) (icase : Bool) : String → Bool := fun v =>
  let l := if icase then lowerAscii lit else lit
  let v := if icase then lowerAscii v else v
  if kind == "match" then l.toList.isPrefixOf v.toList else isInfix l.toList v.toList

/-- predicates for `.test(f, *args)`; all total on every value -/
def testFn (name : String) (args : List PyV) : Option (PyV → Bool) :=
  match name, args with
  | "isnone", [] => some fun v => v == .none
  | "isstr", [] => some fun v => match v with | .str _ => true | _ => false
  | "true", [] => some fun _ => true
  | "false", [] => some fun _ => false
  | "numgt", [.num a] => some fun v => match v with | .num x => a.lt x | _ => false
  | "streq", [.str a] => some fun v => v == .str a
  | "timege", [.time a] => some fun v => match v with | .time x => decide (a ≤ x) | _ => false
  -- returns `2 * len(v)` (an int, truthy with bit 0 clear) for a str, 0 otherwise: its truth value
  | "twicelen", [] => some fun v => match v with | .str s => s.length != 0 | _ => false
  | _, _ => none

/-- functions for `.map(g)`; `none` = raises -/
def mapFn (name : String) (args : List PyV) : Option (PyV → Option PyV) :=
  match name, args with
  | "id", [] => some fun v => some v
  | "raise", [] => some fun _ => none
  | "strlen", [] => some fun v => match v with
      | .str s => some (.num (.fin (s.length : Nat))) | _ => none
  | "neg", [] => some fun v => match v with
      | .num (.fin q) => some (.num (.fin (-q))) | .num .pinf => some (.num .ninf)
      | .num .ninf => some (.num .pinf) | _ => none
  | "upper", [] => some fun v => match v with
      | .str s => some (.str (String.ofList (s.toList.map Char.toUpper))) | _ => none
  | "addus", [.num (.fin k)] => some fun v => match v with
      | .time t => if k.den == 1 then some (.time (t + k.num)) else none | _ => none
  | "const", [c] => some fun _ => some c
  | _, _ => none

partial def parseLeaf : Sexp → Option Leaf
  | .list [.atom "cmp", .atom c, .atom v] => do pure (.cmp (← parseCmp c) (← parseVal v))
  | .list [.atom "exists"] => some .exists
  | .list [.atom "re", .atom kind, .atom lit, .atom flag] => do
      if kind != "match" && kind != "search" then none
      let l ← unhex lit
      pure (.regex (regexFn kind l (flag == "i")))
  | .list (.atom "test" :: .atom name :: args) => do
      let as ← args.mapM (fun a => match a with | .atom s => parseVal s | _ => none)
      pure (.test (← testFn name as))
  | .list [.atom "map", .list (.atom name :: args), l] => do
      let as ← args.mapM (fun a => match a with | .atom s => parseVal s | _ => none)
      pure (.map (← mapFn name as) (← parseLeaf l))
  | _ => none

partial def parseQuery : Sexp → Option Query
  | .list [.atom "and", a, b] => do pure (.and (← parseQuery a) (← parseQuery b))
  | .list [.atom "or", a, b] => do pure (.or (← parseQuery a) (← parseQuery b))
  | .list [.atom "not", a] => do pure (.not (← parseQuery a))
  | .list [.atom "time", l] => do pure (.time (← parseLeaf l))
  | .list [.atom "meas", l] => do pure (.meas (← parseLeaf l))
  | .list [.atom "tag", .atom k, l] => do pure (.tag (← unhex k) (← parseLeaf l))
  | .list [.atom "field", .atom k, l] => do pure (.field (← unhex k) (← parseLeaf l))
  | .list [.atom "noop"] => some .noop
  | _ => none

def parseTagPairs (l : List Sexp) : Option (List (String × Option String)) :=
  l.mapM fun
    | .list [.atom k, .atom v] => do pure (← unhex k, ← optStr v)
    | _ => none
def parseFieldPairs (l : List Sexp) : Option (List (String × Option Num)) :=
  l.mapM fun
    | .list [.atom k, .atom v] => do pure (← unhex k, ← optNum v)
    | _ => none

/-- `(pt <µs> <meas> (tags (k v)...) (fields (k n)...))`, or `!` for a non-Point -/
def parsePoint : Sexp → Option (Option Point)
  | .atom "!" => some none
  | .list [.atom "pt", .atom t, .atom m, .list (.atom "tags" :: tg), .list (.atom "fields" :: fl)] => do
      pure (some { time := ← parseInt t, meas := ← unhex m, tags := ← parseTagPairs tg,
                   fields := ← parseFieldPairs fl })
  | _ => none

def parseMeas : Sexp → Option (Option String)
  | .atom s => optStr s
  | _ => none

def parseBool : Sexp → Option Bool
  | .atom "1" => some true | .atom "0" => some false | _ => none

def parseSelKey : Sexp → Option SelKey
  | .atom "time" => some .time
  | .atom "measurement" => some .meas
  | .atom s => match s.toList with
    | 't' :: ':' :: r => (unhex (String.ofList r)).map .tag
    | 'f' :: ':' :: r => (unhex (String.ofList r)).map .field
    | _ => none
  | _ => none

def parseStrs (l : List Sexp) : Option (List String) :=
  l.mapM fun | .atom s => unhex s | _ => none

/-! ## update arguments: `~` | `(s <static>)` | `(c <callable id> args...)` -/

def updTime : Sexp → Option (Option (Time → Except Err Time))
  | .atom "~" => some none
  | .list [.atom "s", .atom v] => do let t ← parseInt v; pure (some fun _ => pure t)
  | .list [.atom "c", .atom "addus", .atom k] => do let k ← parseInt k; pure (some fun t => pure (t + k))
  | .list [.atom "c", .atom "raiseif", .atom k] => do
      let k ← parseInt k; pure (some fun t => if t == k then throw .user else pure (t + 1))
  | .list [.atom "c", .atom "valueerrorif", .atom k] => do
      let k ← parseInt k; pure (some fun t => if t == k then throw .value else pure (t + 1))
  | .list [.atom "c", .atom "badtype"] => some (some fun _ => throw .value)
  | _ => none

def updMeas : Sexp → Option (Option (String → Except Err String))
  | .atom "~" => some none
  | .list [.atom "s", .atom v] => do
      let m ← unhex v; pure (if m.isEmpty then none else some fun _ => pure m)   -- `if measurement:`
  | .list [.atom "c", .atom "suffix", .atom v] => do let x ← unhex v; pure (some fun m => pure (m ++ x))
  | .list [.atom "c", .atom "raiseif", .atom v] => do
      let x ← unhex v; pure (some fun m => if m == x then throw .user else pure m)
  | .list [.atom "c", .atom "badtype"] => some (some fun _ => throw .value)
  | _ => none

abbrev TagSet := List (String × Option String)
abbrev FieldSet := List (String × Option Num)

def updTags : Sexp → Option (Option (TagSet → Except Err TagSet))
  | .atom "~" => some none
  | .list (.atom "s" :: kv) => do
      let d ← parseTagPairs kv; pure (if d.isEmpty then none else some fun _ => pure d)  -- `if tags:`
  | .list (.atom "c" :: .atom "const" :: kv) => do let d ← parseTagPairs kv; pure (some fun _ => pure d)
  | .list [.atom "c", .atom "copykey", .atom a, .atom b] => do
      let a ← unhex a; let b ← unhex b
      pure (some fun old => match old.lookup a with | some v => pure [(b, v)] | none => pure [])
  | .list [.atom "c", .atom "raiseifhas", .atom a] => do
      let a ← unhex a
      pure (some fun old => if (old.lookup a).isSome then throw .user else pure [(a, some "set")])
  | .list [.atom "c", .atom "bad"] => some (some fun _ => throw .value)
  | _ => none

def numAdd1 : Num → Num | .fin q => .fin (q + 1) | x => x

def updFields : Sexp → Option (Option (FieldSet → Except Err FieldSet))
  | .atom "~" => some none
  | .list (.atom "s" :: kv) => do
      let d ← parseFieldPairs kv; pure (if d.isEmpty then none else some fun _ => pure d)
  | .list (.atom "c" :: .atom "const" :: kv) => do let d ← parseFieldPairs kv; pure (some fun _ => pure d)
  | .list [.atom "c", .atom "inc", .atom a] => do
      let a ← unhex a
      pure (some fun old => match old.lookup a with
        | some (some v) => pure [(a, some (numAdd1 v))] | _ => pure [])
  | .list [.atom "c", .atom "raiseifhas", .atom a] => do
      let a ← unhex a
      pure (some fun old => if (old.lookup a).isSome then throw .user else pure [(a, some (.fin 1))])
  | .list [.atom "c", .atom "bad"] => some (some fun _ => throw .value)
  | _ => none

def parseUpd (t m tg fl : Sexp) (ut uf : List Sexp) : Option Upd := do
  pure { time := ← updTime t, meas := ← updMeas m, tags := ← updTags tg, fields := ← updFields fl,
         unsetTags := ← parseStrs ut, unsetFields := ← parseStrs uf }

def parseOp : Sexp → Option Op
  | .list (.atom "ins" :: m :: pts) => do pure (.insert (← pts.mapM parsePoint) (← parseMeas m))
  | .list [.atom "search", q, m, s] => do pure (.search (← parseQuery q) (← parseMeas m) (← parseBool s))
  | .list [.atom "count", q, m] => do pure (.count (← parseQuery q) (← parseMeas m))
  | .list [.atom "contains", q, m] => do pure (.contains (← parseQuery q) (← parseMeas m))
  | .list [.atom "get", q, m] => do pure (.get (← parseQuery q) (← parseMeas m))
  | .list [.atom "select", .list (.atom "keys" :: ks), q, m] => do
      pure (.select (← ks.mapM parseSelKey) (← parseQuery q) (← parseMeas m))
  | .list [.atom "measurements"] => some .getMeasurements
  | .list [.atom "tagkeys", m] => do pure (.getTagKeys (← parseMeas m))
  | .list [.atom "tagvalues", .list (.atom "keys" :: ks), m] => do
      pure (.getTagValues (← parseStrs ks) (← parseMeas m))
  | .list [.atom "fieldkeys", m] => do pure (.getFieldKeys (← parseMeas m))
  | .list [.atom "fieldvalues", .atom k, m] => do pure (.getFieldValues (← unhex k) (← parseMeas m))
  | .list [.atom "timestamps", m] => do pure (.getTimestamps (← parseMeas m))
  | .list [.atom "len"] => some .len
  | .list [.atom "iter"] => some .iter
  | .list [.atom "all", s] => do pure (.all (← parseBool s))
  | .list [.atom "mlen", .atom n] => do pure (.mlen (← unhex n))
  | .list [.atom "miter", .atom n] => do pure (.miter (← unhex n))
  | .list [.atom "mall", .atom n, s] => do pure (.mall (← unhex n) (← parseBool s))
  | .list [.atom "remove", q, m] => do pure (.remove (← parseQuery q) (← parseMeas m))
  | .list [.atom "drop", .atom n] => do pure (.drop (← unhex n))
  | .list [.atom "removeall"] => some .removeAll
  | .list [.atom "update", a, q, m, .list [.atom "time", t], .list [.atom "meas", me],
           .list [.atom "tags", tg], .list [.atom "fields", fl],
           .list (.atom "unsettags" :: ut), .list (.atom "unsetfields" :: uf)] => do
      pure (.update (← parseBool a) (← parseQuery q) (← parseUpd t me tg fl ut uf) (← parseMeas m))
  | .list [.atom "reindex"] => some .reindex
  | _ => none

/-! ## canonical printing -/

def showRat (q : Rat) : String := if q.den == 1 then toString q.num else s!"{q.num}/{q.den}"
def showNum : Num → String | .pinf => "inf" | .ninf => "-inf" | .fin q => showRat q
def showOptStr : Option String → String | none => "~" | some s => hex s
def showOptNum : Option Num → String | none => "~" | some n => showNum n
def showVal : PyV → String
  | .none => "~" | .str s => "s:" ++ hex s | .num n => "n:" ++ showNum n
  | .time t => "t:" ++ toString t | .other k => s!"o:{k}"

def sortPairs {V} (l : List (String × V)) : List (String × V) :=
  l.mergeSort (fun a b => decide (a.1 ≤ b.1))

/-- `(µs|meas|k=v;...|k=n;...)`, dict items sorted by key (Point equality ignores dict order) -/
def showPoint (p : Point) : String :=
  let tg := ";".intercalate ((sortPairs p.tags).map fun kv => hex kv.1 ++ "=" ++ showOptStr kv.2)
  let fl := ";".intercalate ((sortPairs p.fields).map fun kv => hex kv.1 ++ "=" ++ showOptNum kv.2)
  s!"({p.time}|{hex p.meas}|{tg}|{fl})"

def showList {α} (f : α → String) (l : List α) : String := "[" ++ ",".intercalate (l.map f) ++ "]"

def showErr : Err → String
  | .value => "value" | .type => "type" | .os => "os" | .user => "user"

def showOut : Out → String
  | .unit => "ok unit"
  | .nat n => s!"ok {n}"
  | .bool b => if b then "ok true" else "ok false"
  | .point none => "ok ~"
  | .point (some p) => "ok " ++ showPoint p
  | .points l => "ok " ++ showList showPoint l
  | .rows l => "ok " ++ showList (showList showVal) l
  | .strs l => "ok " ++ showList hex l
  | .tagVals l => "ok " ++ showList (fun kv => hex kv.1 ++ ":" ++ showList showOptStr kv.2) (sortPairs l)
  | .nums l => "ok " ++ showList showOptNum l
  | .times l => "ok " ++ showList toString l
  | .err e => "err " ++ showErr e

/-! ## C18 lines: `(c18 <fn> <x> l0 l1 ...)` -/

def parseC18 : Sexp → Option (String × Int × List Int)
  | .list (.atom "c18" :: .atom fn :: .atom x :: l) => do
      let x ← parseInt x
      let l ← l.mapM (fun a => match a with | .atom s => parseInt s | _ => none)
      pure (fn, x, l)
  | _ => none

def showOptNat : Option Nat → String | none => "None" | some n => toString n

def specFind (fn : String) (l : List Int) (x : Int) : String :=
  match fn with
  | "find_eq" => showOptNat (findEq l x)
  | "find_lt" => showOptNat (findLt l x)
  | "find_le" => showOptNat (findLe l x)
  | "find_gt" => showOptNat (findGt l x)
  | "find_ge" => showOptNat (findGe l x)
  | _ => "bad-op"

end TinyFlux.Proto
