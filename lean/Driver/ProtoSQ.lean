import Driver.Proto
import TinyFlux.Model.QHash
/-! Protocol terms → syntactic queries (`SQ`) for the query-equality model (C17). User functions are
    identified by an injective encoding of (name, arguments). -/
namespace TinyFlux.Proto
open TinyFlux.Spec TinyFlux.Model.QHash

def strCode (s : String) : Nat := s.toList.foldl (fun n c => n * 1114113 + c.toNat + 1) 0

def atomsOf : List Sexp → Option (List String)
  | [] => some []
  | .atom s :: t => (atomsOf t).map (s :: ·)
  | _ => none

/-- leaf with the map steps that precede it -/
partial def parseSLeaf : Sexp → Option (List Step × SLeaf)
  | .list [.atom "cmp", .atom c, .atom v] => do pure ([], .cmp (← parseCmp c) (← parseVal v))
  | .list [.atom "exists"] => some ([], .exists)
  | .list [.atom "re", .atom kind, .atom lit, .atom flag] => do
      let l ← unhex lit
      let f := if flag == "i" then 2 else 0
      if kind == "match" then pure ([], .matches l f) else pure ([], .search l f)
  | .list (.atom "test" :: .atom name :: args) => do
      let as ← atomsOf args
      let vs ← as.mapM parseVal
      pure ([], .test (strCode name) vs)
  | .list [.atom "map", .list (.atom name :: args), l] => do
      let as ← atomsOf args
      let (steps, leaf) ← parseSLeaf l
      pure (.map (strCode (" ".intercalate (name :: as))) :: steps, leaf)
  | _ => none

partial def parseSQ : Sexp → Option SQ
  | .list [.atom "and", a, b] => do pure (.and (← parseSQ a) (← parseSQ b))
  | .list [.atom "or", a, b] => do pure (.or (← parseSQ a) (← parseSQ b))
  | .list [.atom "not", a] => do pure (.not (← parseSQ a))
  | .list [.atom "time", l] => do let (s, lf) ← parseSLeaf l; pure (.simple .time s lf)
  | .list [.atom "meas", l] => do let (s, lf) ← parseSLeaf l; pure (.simple .meas s lf)
  | .list [.atom "tag", .atom k, l] => do
      let (s, lf) ← parseSLeaf l; pure (.simple .tags (.key (← unhex k) :: s) lf)
  | .list [.atom "field", .atom k, l] => do
      let (s, lf) ← parseSLeaf l; pure (.simple .fields (.key (← unhex k) :: s) lf)
  | .list [.atom "noop", .atom a] =>
      match a with
      | "time" => some (.noop .time) | "meas" => some (.noop .meas)
      | "tag" => some (.noop .tags) | "field" => some (.noop .fields) | _ => none
  | .list [.atom "noop"] => some (.noop .time)
  | _ => none

end TinyFlux.Proto
