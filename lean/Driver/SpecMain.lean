import Driver.Proto
import TinyFlux.Spec.Types
/-! The oracle: line protocol → Spec only. Builds even when Generated/ or Props/ do not. -/
open TinyFlux TinyFlux.Spec TinyFlux.Proto

def specLine (db : DB) (line : String) : DB × String :=
  match parseLine line with
  | none => (db, "bad-line")
  | some sx =>
    match sx with
    | .list (.atom "cfg" :: _) => ([], "ok cfg")
    | .list [.atom "state"] => (db, "contents=" ++ showList showPoint db)
    | .list [.atom "reopen"] => (db, "ok unit")
    | .list (.atom "idx" :: _) => (db, "n/a")
    | .list (.atom "codec" :: _ :: pt :: _) =>
      match parsePoint pt with
      | some (some p) => (db, "back=" ++ showPoint p)     -- the specification of a round trip: identity
      | _ => (db, "bad-op")
    | .list [.atom "validate", .atom sl, .atom ty] =>
      match Slot.ofName sl, VType.ofName ty with
      | some s, some t => (db, if wellTyped s t then "welltyped" else "illtyped")
      | _, _ => (db, "bad-op")
    | .list [.atom "eval", q, pt] =>
      match parseQuery q, parsePoint pt with
      | some q, some (some p) => (db, if sem q p then "ok true" else "ok false")
      | _, _ => (db, "bad-op")
    | .list [.atom "qeq", _, _] => (db, "n/a")
    | .list (.atom "c18" :: _) =>
      match parseC18 sx with
      | some (fn, x, l) => (db, "spec=" ++ specFind fn l x)
      | none => (db, "bad-op")
    | _ =>
      match parseOp sx with
      | none => (db, "bad-op")
      | some op => let (db', out) := step db op; (db', showOut out)

partial def loop (h : IO.FS.Stream) (out : IO.FS.Stream) (db : DB) : IO Unit := do
  let line ← h.getLine
  if line.isEmpty then return ()
  let (db', o) := specLine db line
  out.putStrLn o
  loop h out db'

def main : IO Unit := do
  let out ← IO.getStdout
  loop (← IO.getStdin) out []
  out.flush
