import Driver.Proto
import Driver.ProtoSQ
import TinyFlux.Model.Codec
import TinyFlux.Model.IOSteps
import TinyFlux.Spec.Types
import TinyFlux.Generated.Validators
import TinyFlux.Model.DB
/-! Line protocol → the executable model of the implementation (incl. the generated definitions). -/
open TinyFlux TinyFlux.Spec TinyFlux.Proto TinyFlux.Model

def showV : Py.V → String
  | .none => "None" | .int n => toString n | .bool b => toString b | .list _ => "list"

def genFind (fn : String) (l : List Int) (x : Int) : String :=
  let r := match fn with
    | "find_eq" => Generated.find_eq (.list l) (.int x)
    | "find_lt" => Generated.find_lt (.list l) (.int x)
    | "find_le" => Generated.find_le (.list l) (.int x)
    | "find_gt" => Generated.find_gt (.list l) (.int x)
    | "find_ge" => Generated.find_ge (.list l) (.int x)
    | _ => .error .typeError
  match r with
  | .ok v => showV v
  | .error .typeError => "TypeError"
  | .error .indexError => "IndexError"

def sortNat (l : List Nat) : List Nat := l.mergeSort (fun a b => decide (a ≤ b))

/-- direct calls on the live index (C06 probes); canonical (sorted) output -/
def idxLine (s : State) : List Sexp → String
  | [.atom "valid"] => if s.index.valid then "1" else "0"
  | [.atom "len"] => toString s.index.numItems
  | [.atom "search", q] =>
    match parseQuery q with
    | none => "bad-op"
    | some q => match s.index.search q with
      | .ok l => showList toString (sortNat l)
      | .error _ => "err"
  | [.atom "measurements"] => showList hex (sortStr s.index.getMeasurements)
  | [.atom "tagkeys", m] =>
    match parseMeas m with
    | some m => showList hex (sortStr (s.index.getTagKeys (effMeas m)))
    | none => "bad-op"
  | [.atom "tagvalues", .list (.atom "keys" :: ks), m] =>
    match parseStrs ks, parseMeas m with
    | some ks, some m =>
      showList (fun kv => hex kv.1 ++ ":" ++ showList showOptStr (kv.2.mergeSort optStrLe))
        (sortPairs (s.index.getTagValues ks (effMeas m)))
    | _, _ => "bad-op"
  | [.atom "fieldkeys", m] =>
    match parseMeas m with
    | some m => showList hex (sortStr (s.index.getFieldKeys (effMeas m)))
    | none => "bad-op"
  | [.atom "fieldvalues", .atom k, m] =>
    match unhex k, parseMeas m with
    | some k, some m => showList showOptNum (s.index.getFieldValues k (effMeas m))
    | _, _ => "bad-op"
  | [.atom "timestamps", m] =>
    match parseMeas m with
    | some m => showList toString (s.index.getTimestamps (effMeas m))
    | none => "bad-op"
  | _ => "bad-op"

/-- `(codec <c> <pt> (iso <hex>) (reprs (<num> <hex>)...) (parses (<hex> <num|!>)...))`:
    serialise with the stdlib conversions supplied as tables, decode the row again -/
def codecLine (sx : Sexp) : String :=
  match sx with
  | .list [.atom "codec", c, pt, .list [.atom "iso", .atom iso], .list (.atom "reprs" :: rs),
           .list (.atom "parses" :: ps)] =>
    let r : Option String := do
      let compact ← parseBool c
      let p ← (← parsePoint pt)
      let isoS ← unhex iso
      let reprs ← rs.mapM (fun e => match e with
        | .list [.atom n, .atom t] => do pure (← parseNum n, (← unhex t).toList)
        | _ => none)
      let parses ← ps.mapM (fun e => match e with
        | .list [.atom t, .atom n] => do
            pure ((← unhex t).toList, ← (if n == "!" then some none else (parseNum n).map some))
        | _ => none)
      let fc : Codec.FieldCodec :=
        { repr := fun n => ((reprs.find? (fun e => e.1 == n)).map (·.2)).getD "?".toList,
          parse := fun t => ((parses.find? (fun e => e.1 == t)).map (·.2)).getD none }
      let tc : Codec.TimeCodec :=
        { iso := fun _ => isoS.toList,
          fromIso := fun t => if t == isoS.toList then some p.time else none }
      let row := Codec.serialize fc tc compact p
      let back := match Codec.deserialize fc tc row with
        | some q => showPoint q
        | none => "err"
      pure (s!"row={showList (fun c => hex (String.ofList c)) row} back={back}")
    r.getD "bad-op"
  | _ => "bad-op"

def pyTypeOfName : String → Option Generated.PyType
  | "none" => some .none | "bool" => some .bool | "int" => some .int | "float" => some .float
  | "str" => some .str | "bytes" => some .bytes | "list" => some .list | "dict" => some .dict
  | "datetime" => some .datetime | "other" => some .other | _ => none

/-- the generated acceptance predicate of a slot -/
def acceptLine (sl ty : String) : String :=
  match pyTypeOfName ty with
  | none => "bad-op"
  | some t =>
    let r := match sl with
      | "time" => some (Generated.acceptTime t) | "measurement" => some (Generated.acceptMeasurement t)
      | "tag_key" => some (Generated.acceptTagKey t) | "tag_value" => some (Generated.acceptTagValue t)
      | "field_key" => some (Generated.acceptFieldKey t) | "field_value" => some (Generated.acceptFieldValue t)
      | "tags" => some (Generated.acceptMapping t) | "fields" => some (Generated.acceptMapping t)
      | _ => none
    match r with | some true => "accept" | some false => "reject" | none => "bad-op"

def mkCfg (storage : String) (auto : String) : Cfg :=
  { autoIndex := auto == "auto", norm := if storage == "csv" then id else id }

def modelLine (s : State) (line : String) : State × String :=
  match parseLine line with
  | none => (s, "bad-line")
  | some sx =>
    match sx with
    | .list [.atom "cfg", .atom st, .atom au] => (init (mkCfg st au), "ok cfg")
    | .list [.atom "state"] =>
      (s, s!"valid={if s.index.valid then 1 else 0} contents=" ++ showList showPoint s.storage)
    | .list [.atom "reopen"] => (reopen s, "ok unit")
    | .list (.atom "idx" :: rest) => (s, idxLine s rest)
    | .list [.atom "io", f, opx] =>
      match parseBool f, parseOp opx with
      | some fl, some op => (s, "io=" ++ showList id (opStepNames s fl op))
      | _, _ =>
        match opx with
        | .list [.atom "reopen"] =>
          (s, "io=" ++ showList id (["P.close", "P.open(a)", "P.close", "P.open(r+)", "P.seekEnd"] ++
                (if s.cfg.autoIndex && !s.storage.isEmpty then ["P.seek0", "P.read"] else [])))
        | _ => (s, "bad-op")
    | .list (.atom "codec" :: _) => (s, codecLine sx)
    | .list [.atom "validate", .atom sl, .atom ty] => (s, acceptLine sl ty)
    | .list [.atom "eval", q, pt] =>
      match parseQuery q, parsePoint pt with
      | some q, some (some p) =>
        (s, match eval q p with | .ok b => (if b then "ok true" else "ok false") | .error _ => "err")
      | _, _ => (s, "bad-op")
    | .list [.atom "qeq", a, b] =>
      match parseSQ a, parseSQ b with
      | some x, some y =>
        (s, s!"eq={QHash.qeq x y} hashable={(QHash.hashOf x).isSome},{(QHash.hashOf y).isSome}")
      | _, _ => (s, "bad-op")
    | .list (.atom "c18" :: _) =>
      match parseC18 sx with
      | some (fn, x, l) => (s, "gen=" ++ genFind fn l x)
      | none => (s, "bad-op")
    | _ =>
      match parseOp sx with
      | none => (s, "bad-op")
      | some op => let (s', out) := s.step op; (s', showOut out)

partial def loop (h : IO.FS.Stream) (out : IO.FS.Stream) (s : State) : IO Unit := do
  let line ← h.getLine
  if line.isEmpty then return ()
  let (s', o) := modelLine s line
  out.putStrLn o
  loop h out s'

def main : IO Unit := do
  let out ← IO.getStdout
  loop (← IO.getStdin) out (init (mkCfg "mem" "auto"))
  out.flush
