-- Root of the `TinyFlux` library (proof side). Drivers live in Driver/.
import TinyFlux.Py.Basic
import TinyFlux.Lemmas.Bisect
import TinyFlux.Generated.Utils
import TinyFlux.Generated.Modes
import TinyFlux.Generated.Decorators
import TinyFlux.Generated.Forward
