import TinyFlux.Lemmas.Reads
/-! Helper lemmas for `Writes.lean` (agent D2): index maintenance (`represents_*`), the remove loops,
    `Point.eqv` as an equivalence on well-formed points. -/
namespace TinyFlux.Model
open TinyFlux.Spec
namespace Writes

/-! ## index maintenance -/

theorem represents_empty : Represents {} [] := by
  refine ⟨rfl, ?_, ?_, ?_, ?_, ?_, ?_, rfl, ?_, ?_⟩ <;>
    simp [PMap.posting, lookupAL, postFrom, WFMap, keysAL]

theorem represents_build_w (l : List Point) (hwf : ∀ p ∈ l, WFPoint p) : Represents (Index.build l) l := by
  obtain ⟨h1, h2, h3, h4, h5, h6, h7, _, _⟩ := buildFrom_maps l hwf
  obtain ⟨t1, t2, t3⟩ := timeRep_build l
  exact ⟨h1, h2, h3, h4, h5, h6, h7, t1, t2, t3⟩

theorem represents_len {idx : Index} {l : List Point} (h : Represents idx l) : idx.ts.length = l.length := by
  have := h.tsPerm.length_eq
  have h2 := h.tsLen
  simp at this
  omega

theorem represents_insert {idx : Index} {l : List Point} {p : Point} (h : Represents idx l) (hp : WFPoint p)
    (hord : ∀ t, idx.ts.getLast? = some t → t ≤ p.time) : Represents (idx.insert p) (l ++ [p]) := by
  have hlen := represents_len h
  obtain ⟨m1, m2, m3, m4, m5, m6, m7, m8, m9, _⟩ :=
    insertMaps_maps { idx with numItems := idx.numItems + 1, pos := idx.pos ++ [idx.ts.length],
                               ts := idx.ts ++ [p.time] } l p hp h.meas h.tags h.fields h.wfMeas h.wfTags h.wfFields
  obtain ⟨t1, t2, t3⟩ := timeRep_insert idx.ts idx.pos l (timeRep_of_represents h) p hord
  unfold Index.insert
  rw [hlen] at *
  refine ⟨?_, m1, m2, m3, m4, m5, m6, ?_, ?_, ?_⟩
  · rw [m7]; simp [h.num]
  · rw [m8, m9]; exact t1
  · rw [m8]; exact t2
  · rw [m8, m9]; exact t3

theorem represents_remove_update {idx : Index} {l : List Point} (h : Represents idx l) (keep : Nat → Bool)
    (removed : List Nat) (updated : List (Nat × Nat))
    (hr : ∀ i, i < l.length → removed.contains i = !keep i)
    (hf : ∀ i, i < l.length → keep i = true → (updated.lookup i).getD i = cnt keep 0 i)
    (hlen : removed.length + (keepIdx keep l 0).length = l.length) :
    Represents ((idx.remove removed).update updated) (keepIdx keep l 0) := by
  obtain ⟨a1, a2⟩ := remove_renumber_map idx.meas carryMeas l keep removed.contains _ h.meas h.wfMeas hr hf
  obtain ⟨b1, b2⟩ := remove_renumber_map idx.tags carryTag l keep removed.contains _ h.tags h.wfTags hr hf
  obtain ⟨c1, c2⟩ := remove_renumber_map idx.fields carryField l keep removed.contains _ h.fields h.wfFields hr hf
  obtain ⟨t1, t2, t3⟩ := timeRep_remove_update idx.ts idx.pos l (timeRep_of_represents h) keep removed.contains _ hr hf
  refine ⟨?_, a1, b1, c1, a2, b2, c2, t1, t2, t3⟩
  simp only [Index.update, Index.remove]
  have := h.num
  omega

/-! ## the remove loops -/

theorem cnt_self (keep : Nat → Bool) (a : Nat) : cnt keep a a = 0 := by simp [cnt]

theorem cnt_step (keep : Nat → Bool) (a n : Nat) (h : a < n) :
    cnt keep a n = (if keep a then 1 else 0) + cnt keep (a + 1) n := by
  unfold cnt
  have : n - a = (n - (a + 1)) + 1 := by omega
  rw [this, List.range'_succ, List.filter_cons]
  split <;> simp <;> omega

theorem scan_nil (i np : Nat) : State.scanRemoveLoop [] i np = ([], [], []) := rfl
theorem scan_false (p : Point) (t : List (Point × Bool)) (i np : Nat) :
    State.scanRemoveLoop ((p, false) :: t) i np =
      (p :: (State.scanRemoveLoop t (i + 1) (np + 1)).1, (State.scanRemoveLoop t (i + 1) (np + 1)).2.1,
       if i != np then (i, np) :: (State.scanRemoveLoop t (i + 1) (np + 1)).2.2
       else (State.scanRemoveLoop t (i + 1) (np + 1)).2.2) := rfl
theorem scan_true (p : Point) (t : List (Point × Bool)) (i np : Nat) :
    State.scanRemoveLoop ((p, true) :: t) i np =
      ((State.scanRemoveLoop t (i + 1) np).1, i :: (State.scanRemoveLoop t (i + 1) np).2.1,
       (State.scanRemoveLoop t (i + 1) np).2.2) := rfl

/-- rows whose flag at offset `k` is `!keep (i + k)` -/
def FlagsAre (keep : Nat → Bool) (rows : List (Point × Bool)) (i : Nat) : Prop :=
  ∀ k (hk : k < rows.length), rows[k].2 = !keep (i + k)

theorem flagsAre_cons {keep : Nat → Bool} {p : Point} {b : Bool} {t : List (Point × Bool)} {i : Nat}
    (h : FlagsAre keep ((p, b) :: t) i) : b = (!keep i) ∧ FlagsAre keep t (i + 1) := by
  constructor
  · have := h 0 (by simp)
    simpa using this
  · intro k hk
    have := h (k + 1) (by simp; omega)
    simp only [List.getElem_cons_succ] at this
    rw [this]; congr 2; omega

theorem scan_kept (keep : Nat → Bool) (rows : List (Point × Bool)) :
    ∀ (i np : Nat), FlagsAre keep rows i →
    (State.scanRemoveLoop rows i np).1 = keepIdx keep (rows.map (·.1)) i := by
  induction rows with
  | nil => intro i np _; rfl
  | cons r t ih =>
    intro i np h
    obtain ⟨p, b⟩ := r
    obtain ⟨hb, ht⟩ := flagsAre_cons h
    cases hk : keep i <;> simp only [hk, Bool.not_false, Bool.not_true] at hb <;> subst hb
    · simp [scan_true, keepIdx, hk, ih _ np ht]
    · simp [scan_false, keepIdx, hk, ih _ (np + 1) ht]

theorem scan_removed (keep : Nat → Bool) (rows : List (Point × Bool)) :
    ∀ (i np : Nat), FlagsAre keep rows i →
    (State.scanRemoveLoop rows i np).2.1 = (List.range' i rows.length).filter (fun n => !keep n) := by
  induction rows with
  | nil => intro i np _; rfl
  | cons r t ih =>
    intro i np h
    obtain ⟨p, b⟩ := r
    obtain ⟨hb, ht⟩ := flagsAre_cons h
    cases hk : keep i <;> simp only [hk, Bool.not_false, Bool.not_true] at hb <;> subst hb
    · simp [scan_true, hk, ih _ np ht, List.range'_succ]
    · simp [scan_false, hk, ih _ (np + 1) ht, List.range'_succ]

theorem scan_length (rows : List (Point × Bool)) :
    ∀ (i np : Nat),
    (State.scanRemoveLoop rows i np).2.1.length + (State.scanRemoveLoop rows i np).1.length = rows.length := by
  induction rows with
  | nil => intro i np; rfl
  | cons r t ih =>
    intro i np
    obtain ⟨p, b⟩ := r
    cases b
    · simp only [scan_false, List.length_cons]; have := ih (i + 1) (np + 1); omega
    · simp only [scan_true, List.length_cons]; have := ih (i + 1) np; omega

theorem scan_updated (keep : Nat → Bool) (rows : List (Point × Bool)) :
    ∀ (i np : Nat), FlagsAre keep rows i →
    ∀ n, ((State.scanRemoveLoop rows i np).2.2.lookup n).getD n =
      if i ≤ n ∧ n < i + rows.length ∧ keep n = true then np + cnt keep i n else n := by
  induction rows with
  | nil => intro i np _ n; rw [if_neg (by simp; omega)]; rfl
  | cons r t ih =>
    intro i np h n
    obtain ⟨p, b⟩ := r
    obtain ⟨hb, ht⟩ := flagsAre_cons h
    cases hk : keep i <;> simp only [hk, Bool.not_false, Bool.not_true] at hb <;> subst hb
    · -- row removed
      simp only [scan_true, List.length_cons]
      rw [ih _ np ht n]
      by_cases hn : n = i
      · subst hn; rw [if_neg (by omega), if_neg (by simp [hk])]
      · by_cases hlt : i < n
        · rw [cnt_step keep i n hlt]; simp only [hk, Bool.false_eq_true, if_false, Nat.zero_add]
          by_cases c : (i + 1 ≤ n ∧ n < i + 1 + t.length ∧ keep n = true)
          · rw [if_pos c, if_pos ⟨by omega, by omega, c.2.2⟩]
          · rw [if_neg c, if_neg (by intro ⟨a, b, d⟩; exact c ⟨by omega, by omega, d⟩)]
        · rw [if_neg (by omega), if_neg (by omega)]
    · -- row kept
      simp only [scan_false, List.length_cons]
      have key : n ≠ i → ((State.scanRemoveLoop t (i + 1) (np + 1)).2.2.lookup n).getD n =
            if i ≤ n ∧ n < i + (t.length + 1) ∧ keep n = true then np + cnt keep i n else n := by
        intro hn
        rw [ih _ (np + 1) ht n]
        by_cases hlt : i < n
        · rw [cnt_step keep i n hlt]; simp only [hk, if_true]
          by_cases c : (i + 1 ≤ n ∧ n < i + 1 + t.length ∧ keep n = true)
          · rw [if_pos c, if_pos ⟨by omega, by omega, c.2.2⟩]; omega
          · rw [if_neg c, if_neg (by intro ⟨a, b, d⟩; exact c ⟨by omega, by omega, d⟩)]
        · rw [if_neg (by omega), if_neg (by omega)]
      by_cases hn : n = i
      · subst hn
        have hc : n ≤ n ∧ n < n + (t.length + 1) ∧ keep n = true := ⟨Nat.le_refl _, by omega, hk⟩
        rw [if_pos hc, cnt_self, Nat.add_zero]
        by_cases hne : n = np
        · subst hne
          rw [if_neg (by simp)]
          rw [ih _ (n + 1) ht n, if_neg (by omega)]; omega
        · rw [if_pos (by simpa using hne)]
          simp
      · rw [← key hn]
        split
        · have : (n == i) = false := by simpa using hn
          rw [List.lookup_cons, this]
        · rfl

theorem filter_lt_succ (items : List Nat) (hnd : items.Nodup) (i : Nat) :
    (items.filter (· < i + 1)).length = (items.filter (· < i)).length + if i ∈ items then 1 else 0 := by
  induction items with
  | nil => rfl
  | cons a t ih =>
    obtain ⟨ha, ht⟩ := List.nodup_cons.mp hnd
    have ih := ih ht
    simp only [List.filter_cons, List.mem_cons]
    grind

/-- the index-path loop is the scan-path loop over the flags `items.contains position` -/
theorem removeLoop_eq (items : List Nat) (hnd : items.Nodup) (l : List Point) :
    ∀ i j np, j = (items.filter (· < i)).length →
    State.removeLoop items l i j np =
      State.scanRemoveLoop ((l.zipIdx i).map (fun pi => (pi.1, items.contains pi.2))) i np := by
  induction l with
  | nil => intro i j np _; rfl
  | cons p t ih =>
    intro i j np hj
    have hcond : (j == items.length || !items.contains i) = !items.contains i := by
      cases hc : items.contains i
      · simp
      · simp only [Bool.not_true, Bool.or_false, beq_eq_false_iff_ne, ne_eq]
        intro he
        rw [he] at hj
        have := (List.length_filter_eq_length_iff.mp hj.symm) i (by simpa using hc)
        simp at this
    simp only [List.zipIdx_cons, List.map_cons]
    unfold State.removeLoop
    rw [hcond]
    cases hc : items.contains i
    · have hm : i ∉ items := by simpa using hc
      have hj' : j = (items.filter (· < i + 1)).length := by rw [filter_lt_succ items hnd i, if_neg hm]; simpa using hj
      simp only [Bool.not_false, if_true, scan_false, ih (i + 1) j (np + 1) hj']
    · have hm : i ∈ items := by simpa using hc
      have hj' : j + 1 = (items.filter (· < i + 1)).length := by rw [filter_lt_succ items hnd i, if_pos hm]; simpa using hj
      simp only [Bool.not_true, Bool.false_eq_true, if_false, scan_true, ih (i + 1) (j + 1) np hj']

theorem keepIdx_eq_filter {α : Type} (keep : Nat → Bool) (f : α → Bool) (l : List α) :
    ∀ a, (∀ k (hk : k < l.length), keep (a + k) = f l[k]) → keepIdx keep l a = l.filter f := by
  induction l with
  | nil => intro a _; rfl
  | cons x t ih =>
    intro a h
    have h0 : keep a = f x := by
      have := h 0 (by simp)
      simpa using this
    have ht : ∀ k (hk : k < t.length), keep (a + 1 + k) = f t[k] := by
      intro k hk
      have := h (k + 1) (by simp; omega)
      simp only [List.getElem_cons_succ] at this
      rw [← this]; congr 1; omega
    simp only [keepIdx, List.filter_cons, h0, ih (a + 1) ht]

theorem length_filter_add_not {α : Type} (f : α → Bool) (l : List α) :
    (l.filter f).length + (l.filter (fun x => !f x)).length = l.length := by
  induction l with
  | nil => rfl
  | cons x t ih => cases h : f x <;> simp [h] <;> omega

/-- the positional keep-predicate of a value selection -/
def keepOf (l : List Point) (sel : Point → Bool) : Nat → Bool :=
  fun n => if h : n < l.length then !sel l[n] else true

theorem rows_index (l : List Point) (sel : Point → Bool) (items : List Nat)
    (hmem : ∀ i, i ∈ items ↔ ∃ hi : i < l.length, sel l[i] = true) :
    (l.zipIdx 0).map (fun pi => (pi.1, items.contains pi.2)) = l.map (fun p => (p, sel p)) := by
  apply List.ext_getElem (by simp)
  intro i h1 h2
  simp only [List.length_map, List.length_zipIdx] at h1
  simp only [List.getElem_map, List.getElem_zipIdx, Nat.zero_add, Prod.mk.injEq, true_and]
  cases hs : sel l[i]
  · have : ¬ i ∈ items := by rw [hmem]; simp [h1, hs]
    simpa using this
  · have : i ∈ items := by rw [hmem]; exact ⟨h1, hs⟩
    simpa using this

theorem rows_scan (l : List Point) (sel : Point → Bool) :
    l.zip (l.map sel) = l.map (fun p => (p, sel p)) := by
  induction l with
  | nil => rfl
  | cons x t ih => simp [ih]

theorem loop_spec (l : List Point) (sel : Point → Bool) :
    (State.scanRemoveLoop (l.map (fun p => (p, sel p))) 0 0).1 = l.filter (fun p => !sel p) ∧
    keepIdx (keepOf l sel) l 0 = l.filter (fun p => !sel p) ∧
    (State.scanRemoveLoop (l.map (fun p => (p, sel p))) 0 0).2.1.length = (l.filter sel).length ∧
    (∀ i, i < l.length →
      (State.scanRemoveLoop (l.map (fun p => (p, sel p))) 0 0).2.1.contains i = !keepOf l sel i) ∧
    (∀ i, i < l.length → keepOf l sel i = true →
      ((State.scanRemoveLoop (l.map (fun p => (p, sel p))) 0 0).2.2.lookup i).getD i = cnt (keepOf l sel) 0 i) := by
  have hfl : FlagsAre (keepOf l sel) (l.map (fun p => (p, sel p))) 0 := by
    intro k hk
    simp only [List.length_map] at hk
    simp [keepOf, hk]
  have hk : keepIdx (keepOf l sel) l 0 = l.filter (fun p => !sel p) := by
    apply keepIdx_eq_filter
    intro k hk
    simp [keepOf, hk]
  have h1 := scan_kept _ _ 0 0 hfl
  have h2 := scan_removed _ _ 0 0 hfl
  have h3 := scan_length (l.map (fun p => (p, sel p))) 0 0
  have h4 := scan_updated _ _ 0 0 hfl
  simp only [List.map_map, List.length_map] at h1 h2 h3 h4
  have hid : l.map ((fun x : Point × Bool => x.1) ∘ fun p => (p, sel p)) = l := by simp [Function.comp_def]
  rw [hid] at h1
  refine ⟨h1.trans hk, hk, ?_, ?_, ?_⟩
  · have := length_filter_add_not sel l
    rw [h1, hk] at h3
    omega
  · intro i hi
    rw [h2]
    cases hkp : keepOf l sel i
    · simp [hkp, hi]
    · simp [hkp]
  · intro i hi hkp
    rw [h4 i, if_pos ⟨by omega, by omega, hkp⟩]
    omega

theorem loop_removed (l : List Point) (sel : Point → Bool) :
    (State.scanRemoveLoop (l.map (fun p => (p, sel p))) 0 0).2.1 =
      (List.range' 0 l.length).filter (fun n => !keepOf l sel n) := by
  have hfl : FlagsAre (keepOf l sel) (l.map (fun p => (p, sel p))) 0 := by
    intro k hk
    simp only [List.length_map] at hk
    simp [keepOf, hk]
  simpa using scan_removed _ _ 0 0 hfl

/-- a duplicate-free list of exactly the selected positions has as many entries as there are selected rows -/
theorem items_length (l : List Point) (sel : Point → Bool) (items : List Nat) (hnd : items.Nodup)
    (hmem : ∀ i, i ∈ items ↔ ∃ hi : i < l.length, sel l[i] = true) :
    items.length = (l.filter sel).length := by
  rw [← (loop_spec l sel).2.2.1, loop_removed]
  apply List.Perm.length_eq
  rw [List.perm_ext_iff_of_nodup hnd ((List.nodup_range' (s := 0) (n := l.length)).sublist List.filter_sublist)]
  intro a
  rw [hmem, List.mem_filter, List.mem_range'_1]
  constructor
  · rintro ⟨hi, hs⟩; exact ⟨by omega, by simp [keepOf, hi, hs]⟩
  · rintro ⟨hi, hs⟩
    have hi' : a < l.length := by omega
    exact ⟨hi', by simpa [keepOf, hi'] using hs⟩

/-! ## `Point.eqv` on well-formed points -/

theorem lookup_of_mem {V : Type} (a : List (String × V)) (hnd : (a.map (·.1)).Nodup) (k : String) (v : V)
    (h : (k, v) ∈ a) : a.lookup k = some v := by
  induction a with
  | nil => cases h
  | cons x t ih =>
    obtain ⟨k', v'⟩ := x
    simp only [List.map_cons, List.nodup_cons, List.mem_map, not_exists, not_and] at hnd
    rcases List.mem_cons.mp h with e | e
    · cases e; simp
    · have hne : k ≠ k' := by
        rintro rfl
        exact hnd.1 (k, v) e rfl
      have : (k == k') = false := by simpa using hne
      rw [List.lookup_cons, this]
      exact ih hnd.2 e

theorem mem_of_lookup {V : Type} (a : List (String × V)) (k : String) (v : V)
    (h : a.lookup k = some v) : (k, v) ∈ a := by
  obtain ⟨l1, l2, rfl, _⟩ := List.lookup_eq_some_iff.mp h
  simp

theorem superset_of_length {α : Type} [DecidableEq α] (a b : List α) (ha : a.Nodup) (hsub : a ⊆ b)
    (hlen : b.length ≤ a.length) : b ⊆ a := by
  intro x hx
  apply Classical.byContradiction
  intro hxa
  have hs : a ⊆ b.erase x := fun y hy =>
    (List.mem_erase_of_ne (by rintro rfl; exact hxa hy)).2 (hsub hy)
  have h1 := ha.length_le_of_subset hs
  have h2 : (b.erase x).length = b.length - 1 := by rw [List.length_erase]; simp [hx]
  have h3 : 0 < b.length := List.length_pos_of_mem hx
  omega

theorem dictEqv_iff {V : Type} [DecidableEq V] (a b : List (String × V)) :
    dictEqv a b = true ↔ a.length = b.length ∧ ∀ kv ∈ a, b.lookup kv.1 = some kv.2 := by
  simp [dictEqv, List.all_eq_true]

theorem dictEqv_refl {V : Type} [DecidableEq V] (a : List (String × V)) (hnd : (a.map (·.1)).Nodup) :
    dictEqv a a = true := by
  rw [dictEqv_iff]
  exact ⟨rfl, fun kv h => lookup_of_mem a hnd kv.1 kv.2 h⟩

theorem dictEqv_symm {V : Type} [DecidableEq V] (a b : List (String × V)) (hnd : (a.map (·.1)).Nodup)
    (h : dictEqv a b = true) : dictEqv b a = true := by
  rw [dictEqv_iff] at h ⊢
  refine ⟨h.1.symm, fun kv hkv => ?_⟩
  have hsub : a ⊆ b := fun x hx => mem_of_lookup b x.1 x.2 (h.2 x hx)
  have := superset_of_length a b (List.Pairwise.of_map (·.1) (fun _ _ h e => h (by rw [e])) hnd) hsub (by omega) hkv
  exact lookup_of_mem a hnd kv.1 kv.2 this

theorem eqv_refl (p : Point) (hp : WFPoint p) : p.eqv p = true := by
  simp [Point.eqv, dictEqv_refl _ hp.1, dictEqv_refl _ hp.2]

theorem eqv_symm (p q : Point) (hp : WFPoint p) (h : p.eqv q = true) : q.eqv p = true := by
  simp only [Point.eqv, Bool.and_eq_true, beq_iff_eq] at h ⊢
  obtain ⟨⟨⟨h1, h2⟩, h3⟩, h4⟩ := h
  exact ⟨⟨⟨h1.symm, h2.symm⟩, dictEqv_symm _ _ hp.1 h3⟩, dictEqv_symm _ _ hp.2 h4⟩

theorem eqv_comm (p q : Point) (hp : WFPoint p) (hq : WFPoint q) : p.eqv q = q.eqv p := by
  cases h1 : p.eqv q <;> cases h2 : q.eqv p <;> try rfl
  · rw [eqv_symm q p hq h2] at h1; cases h1
  · rw [eqv_symm p q hp h1] at h2; cases h2

end Writes
end TinyFlux.Model
