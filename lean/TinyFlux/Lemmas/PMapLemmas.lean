import TinyFlux.Lemmas.Defs
/-! Posting maps: association-list lemmas, build / insert / remove / renumber (agent A). -/
namespace TinyFlux.Model
open TinyFlux.Spec

/-! ## association lists -/
section AL
variable {K V : Type} [BEq K] [LawfulBEq K]

theorem lookup_alter_self (k : K) (d : V) (f : V → V) (l : AL K V) :
    lookupAL k (alterAL k d f l) = some (f ((lookupAL k l).getD d)) := by
  induction l with
  | nil => simp [alterAL, lookupAL]
  | cons h t ih =>
    obtain ⟨k', v⟩ := h
    by_cases hk : k' = k
    · subst hk; simp [alterAL, lookupAL]
    · have : (k' == k) = false := by simpa using hk
      simp [alterAL, lookupAL, this, ih]

theorem lookup_alter_other (k k2 : K) (hne : k2 ≠ k) (d : V) (f : V → V) (l : AL K V) :
    lookupAL k2 (alterAL k d f l) = lookupAL k2 l := by
  induction l with
  | nil =>
    have : (k == k2) = false := by simpa using (fun h => hne h.symm)
    simp [alterAL, lookupAL, this]
  | cons h t ih =>
    obtain ⟨k', v⟩ := h
    by_cases hk : k' = k
    · subst hk
      have : (k' == k2) = false := by simpa using (fun h => hne h.symm)
      simp [alterAL, lookupAL, this]
    · have h1 : (k' == k) = false := by simpa using hk
      by_cases hk2 : k' = k2
      · subst hk2; simp [alterAL, lookupAL, h1]
      · have h2 : (k' == k2) = false := by simpa using hk2
        simp [alterAL, lookupAL, h1, h2, ih]

theorem lookup_none_of_not_mem (k : K) (l : AL K V) (h : k ∉ keysAL l) : lookupAL k l = none := by
  induction l with
  | nil => rfl
  | cons h2 t ih =>
    obtain ⟨k2, v2⟩ := h2
    simp only [keysAL, List.map_cons, List.mem_cons, not_or] at h
    have hne : (k2 == k) = false := by simpa using (fun e => h.1 e.symm)
    simp only [lookupAL, hne]
    exact ih h.2

theorem keys_alterAL (k : K) (d : V) (f : V → V) (l : AL K V) :
    keysAL (alterAL k d f l) = if k ∈ keysAL l then keysAL l else keysAL l ++ [k] := by
  induction l with
  | nil => simp [alterAL, keysAL]
  | cons h t ih =>
    obtain ⟨k', v⟩ := h
    by_cases hk : k' = k
    · subst hk; simp [alterAL, keysAL]
    · have h1 : (k' == k) = false := by simpa using hk
      have h2 : ¬ k = k' := fun e => hk e.symm
      simp only [alterAL, h1, keysAL, List.map_cons, List.mem_cons, h2, false_or] at ih ⊢
      simp only [Bool.false_eq_true, ↓reduceIte, List.map_cons] at ih ⊢
      rw [ih]; split <;> simp_all

theorem nodup_keys_alterAL (k : K) (d : V) (f : V → V) (l : AL K V)
    (h : (keysAL l).Nodup) : (keysAL (alterAL k d f l)).Nodup := by
  rw [keys_alterAL]; split
  · exact h
  · rename_i hk
    rw [List.nodup_append]
    refine ⟨h, by simp, ?_⟩
    intro a ha b hb; simp at hb; subst hb; intro e; subst e; exact hk ha

theorem lookup_of_mem (l : AL K V) (h : (keysAL l).Nodup) (k : K) (v : V)
    (hm : (k, v) ∈ l) : lookupAL k l = some v := by
  induction l with
  | nil => simp at hm
  | cons hd t ih =>
    obtain ⟨k', v'⟩ := hd
    simp only [keysAL, List.map_cons, List.nodup_cons] at h
    cases List.mem_cons.mp hm with
    | inl e => cases e; simp [lookupAL]
    | inr hmem =>
      have hne : (k' == k) = false := by
        have : k' ≠ k := by
          intro e; subst e; exact h.1 (List.mem_map.mpr ⟨(k', v), hmem, rfl⟩)
        simpa using this
      simp only [lookupAL, hne]
      exact ih h.2 hmem

theorem mem_of_lookup (l : AL K V) (k : K) (v : V)
    (hl : lookupAL k l = some v) : (k, v) ∈ l := by
  induction l with
  | nil => simp [lookupAL] at hl
  | cons hd t ih =>
    obtain ⟨k', v'⟩ := hd
    by_cases hk : k' = k
    · subst hk; simp [lookupAL] at hl; subst hl; simp
    · have h1 : (k' == k) = false := by simpa using hk
      simp only [lookupAL, h1] at hl
      exact List.mem_cons_of_mem _ (ih hl)

omit [LawfulBEq K] in
theorem alterAL_all (Q : V → Prop) (k : K) (d : V) (f : V → V) (hf : ∀ v, Q (f v)) (l : AL K V)
    (hl : ∀ kv ∈ l, Q kv.2) : ∀ kv ∈ alterAL k d f l, Q kv.2 := by
  induction l with
  | nil => intro kv hkv; simp [alterAL] at hkv; subst hkv; exact hf d
  | cons hd t ih =>
    obtain ⟨k', v⟩ := hd
    intro kv hkv
    simp only [alterAL] at hkv
    split at hkv
    · cases List.mem_cons.mp hkv with
      | inl e => subst e; exact hf v
      | inr e => exact hl kv (List.mem_cons_of_mem _ e)
    · cases List.mem_cons.mp hkv with
      | inl e => subst e; exact hl _ List.mem_cons_self
      | inr e => exact ih (fun kv h => hl kv (List.mem_cons_of_mem _ h)) kv e

end AL

/-! ## one entry / postFrom basics -/

/-- the entry contributed by one point at position `n` -/
def one {β : Type} (o : Option β) (n : Nat) : List (Nat × β) :=
  match o with
  | some b => [(n, b)]
  | none => []

theorem postFrom_cons {β : Type} (c : Point → Option β) (p : Point) (t : List Point) (a : Nat) :
    postFrom c (p :: t) a = one (c p) a ++ postFrom c t (a + 1) := by
  simp only [postFrom, one]; cases c p <;> rfl

theorem postFrom_append_one {β : Type} (c : Point → Option β) (l : List Point) (p : Point) (a : Nat) :
    postFrom c (l ++ [p]) a = postFrom c l a ++ one (c p) (a + l.length) := by
  induction l generalizing a with
  | nil => simp [postFrom_cons, postFrom]
  | cons x t ih =>
    simp only [List.cons_append, postFrom_cons, ih, List.length_cons, List.append_assoc]
    congr 3; omega

theorem postFrom_ge {β : Type} (c : Point → Option β) (l : List Point) (a : Nat) :
    ∀ ip ∈ postFrom c l a, a ≤ ip.1 := by
  induction l generalizing a with
  | nil => simp [postFrom]
  | cons x t ih =>
    intro ip hi
    rw [postFrom_cons, List.mem_append] at hi
    cases hi with
    | inl h =>
      unfold one at h
      cases hc : c x <;> simp [hc] at h
      subst h; exact Nat.le_refl _
    | inr h => have := ih (a + 1) ip h; omega

theorem mem_postFrom_aux {β : Type} (c : Point → Option β) (l : List Point) (a i : Nat) (b : β) :
    (i, b) ∈ postFrom c l a ↔ a ≤ i ∧ ∃ p, l[i - a]? = some p ∧ c p = some b := by
  induction l generalizing a with
  | nil => simp [postFrom]
  | cons x t ih =>
    rw [postFrom_cons, List.mem_append, ih, List.getElem?_cons]
    constructor
    · rintro (h | ⟨h1, p, h2, h3⟩)
      · unfold one at h
        cases hc : c x <;> simp [hc] at h
        obtain ⟨rfl, rfl⟩ := h
        exact ⟨Nat.le_refl _, x, by simp, hc⟩
      · refine ⟨by omega, p, ?_, h3⟩
        have : ¬ (i - a = 0) := by omega
        have e : i - a - 1 = i - (a + 1) := by omega
        simp [this, e, h2]
    · rintro ⟨h1, p, h2, h3⟩
      by_cases hia : i = a
      · subst hia
        simp at h2; subst h2
        left; simp [one, h3]
      · right
        have : ¬ (i - a = 0) := by omega
        have e : i - a - 1 = i - (a + 1) := by omega
        simp only [this, ↓reduceIte, e] at h2
        exact ⟨by omega, p, h2, h3⟩

/-- positions in a posting list are in range, strictly increasing, and carry the key -/
theorem mem_postFrom {β : Type} (c : Point → Option β) (l : List Point) (a i : Nat) (b : β) :
    (i, b) ∈ postFrom c l a ↔ ∃ h : a ≤ i ∧ i - a < l.length, c (l[i - a]'h.2) = some b := by
  rw [mem_postFrom_aux]
  constructor
  · rintro ⟨h1, p, h2, h3⟩
    obtain ⟨hlt, rfl⟩ := List.getElem?_eq_some_iff.mp h2
    exact ⟨⟨h1, hlt⟩, h3⟩
  · rintro ⟨⟨h1, h2⟩, h3⟩
    exact ⟨h1, _, List.getElem?_eq_getElem h2, h3⟩

theorem postFrom_pairwise {β : Type} (c : Point → Option β) (l : List Point) (a : Nat) :
    (postFrom c l a).Pairwise (fun x y => x.1 < y.1) := by
  induction l generalizing a with
  | nil => simp [postFrom]
  | cons x t ih =>
    rw [postFrom_cons, List.pairwise_append]
    refine ⟨?_, ih _, ?_⟩
    · unfold one; cases c x <;> simp
    · intro u hu v hv
      have := postFrom_ge c t (a + 1) v hv
      unfold one at hu
      cases hc : c x <;> simp [hc] at hu
      subst hu; simp; omega

theorem postFrom_ne_nil_iff {β : Type} (c : Point → Option β) (l : List Point) (a : Nat) :
    postFrom c l a ≠ [] ↔ ∃ p ∈ l, (c p).isSome := by
  induction l generalizing a with
  | nil => simp [postFrom]
  | cons x t ih =>
    rw [postFrom_cons]
    cases hc : c x with
    | none => simp [one, hc, ih]
    | some b => simp [one, hc]

/-! ## posting maps: insert -/
section PM
variable {K P : Type} [BEq K] [LawfulBEq K]

theorem posting_insert (m : PMap K P) (k k' : K) (pos : Nat) (p : P) :
    (m.insert k pos p).posting k' = m.posting k' ++ (if k == k' then [(pos, p)] else []) := by
  unfold PMap.posting PMap.insert
  by_cases hk : k' = k
  · subst hk; rw [lookup_alter_self]; simp
  · rw [lookup_alter_other _ _ hk]
    have : (k == k') = false := by simpa using fun e => hk e.symm
    simp [this]

theorem wf_insert (m : PMap K P) (wm : WFMap m) (k : K) (pos : Nat) (p : P) :
    WFMap (m.insert k pos p) :=
  ⟨nodup_keys_alterAL _ _ _ _ wm.1,
   alterAL_all (fun v => v ≠ []) k [] _ (by intro v; simp) m wm.2⟩

theorem posting_foldl_insert {α : Type} (g : α → K) (h : α → P) (n : Nat) (xs : List α)
    (m : PMap K P) (k : K) :
    (xs.foldl (fun acc x => acc.insert (g x) n (h x)) m).posting k
      = m.posting k ++ (xs.filter (fun x => g x == k)).map (fun x => (n, h x)) := by
  induction xs generalizing m with
  | nil => simp
  | cons x t ih =>
    simp only [List.foldl_cons]
    rw [ih, posting_insert, List.filter_cons]
    split <;> simp_all

theorem wf_foldl_insert {α : Type} (g : α → K) (h : α → P) (n : Nat) (xs : List α)
    (m : PMap K P) (wm : WFMap m) :
    WFMap (xs.foldl (fun acc x => acc.insert (g x) n (h x)) m) := by
  induction xs generalizing m with
  | nil => exact wm
  | cons x t ih => exact ih _ (wf_insert m wm _ _ _)

end PM

/-! ## unique-key dicts -/

theorem filter_key_lookup {A B : Type} [BEq A] [LawfulBEq A] (xs : List (A × B))
    (hnd : (xs.map (·.1)).Nodup) (k : A) :
    xs.filter (fun x => x.1 == k) = match xs.lookup k with | some b => [(k, b)] | none => [] := by
  induction xs with
  | nil => simp
  | cons hd t ih =>
    obtain ⟨a, b⟩ := hd
    simp only [List.map_cons, List.nodup_cons] at hnd
    rw [List.filter_cons, List.lookup_cons]
    by_cases h : a = k
    · subst h
      have : t.filter (fun x => x.1 == a) = [] := by
        rw [List.filter_eq_nil_iff]
        intro x hx hxa
        have : x.1 = a := by simpa using hxa
        exact hnd.1 (this ▸ List.mem_map_of_mem hx)
      simp [this]
    · have h1 : (a == k) = false := by simpa using h
      have h2 : (k == a) = false := by simpa using fun e => h e.symm
      simp [h1, h2, ih hnd.2]

theorem filter_field (xs : List (String × Option Num)) (hnd : (xs.map (·.1)).Nodup) (k : String)
    (n : Nat) :
    (xs.filter (fun x => x.1 == k)).map (fun x => (n, x.2)) = one (xs.lookup k) n := by
  rw [filter_key_lookup xs hnd]
  cases xs.lookup k <;> simp [one]

theorem filter_tag (xs : List (String × Option String)) (hnd : (xs.map (·.1)).Nodup)
    (kv : String × Option String) (n : Nat) :
    (xs.filter (fun x => (x.1, x.2) == kv)).map (fun _ => (n, ()))
      = one (if xs.lookup kv.1 == some kv.2 then some () else none) n := by
  obtain ⟨a, b⟩ := kv
  have e : xs.filter (fun x => (x.1, x.2) == (a, b))
      = (xs.filter (fun x => x.1 == a)).filter (fun x => x.2 == b) := by
    rw [List.filter_filter]
    apply List.filter_congr
    intro x _
    rw [Bool.eq_iff_iff]; simp [and_comm]
  rw [e, filter_key_lookup xs hnd]
  cases h : xs.lookup a with
  | none => simp [one]
  | some b' =>
    by_cases hb : b' = b
    · subst hb; simp [one]
    · simp [one, hb]

/-! ## insertMaps / buildFrom -/

theorem insertMaps_acc (i : Index) (n : Nat) (p : Point) (hp : WFPoint p) :
    (∀ name, (i.insertMaps n p).meas.posting name = i.meas.posting name ++ one (carryMeas name p) n) ∧
    (∀ kv, (i.insertMaps n p).tags.posting kv = i.tags.posting kv ++ one (carryTag kv p) n) ∧
    (∀ k, (i.insertMaps n p).fields.posting k = i.fields.posting k ++ one (carryField k p) n) := by
  refine ⟨?_, ?_, ?_⟩
  · intro name
    simp only [Index.insertMaps, posting_insert, carryMeas]
    split <;> simp [one]
  · intro kv
    simp only [Index.insertMaps]
    rw [posting_foldl_insert (fun kv : String × Option String => (kv.1, kv.2)) (fun _ => ()),
      filter_tag _ hp.1]
    rfl
  · intro k
    simp only [Index.insertMaps]
    rw [posting_foldl_insert (fun kv : String × Option Num => kv.1) (fun kv => kv.2),
      filter_field _ hp.2]
    rfl

theorem insertMaps_wf (i : Index) (n : Nat) (p : Point) :
    (WFMap i.meas → WFMap (i.insertMaps n p).meas) ∧
    (WFMap i.tags → WFMap (i.insertMaps n p).tags) ∧
    (WFMap i.fields → WFMap (i.insertMaps n p).fields) :=
  ⟨fun w => wf_insert _ w _ _ _,
   fun w => wf_foldl_insert (fun kv : String × Option String => (kv.1, kv.2)) (fun _ => ()) n p.tags _ w,
   fun w => wf_foldl_insert (fun kv : String × Option Num => kv.1) (fun kv => kv.2) n p.fields _ w⟩

theorem insertMaps_rest (i : Index) (n : Nat) (p : Point) :
    (i.insertMaps n p).numItems = i.numItems ∧ (i.insertMaps n p).ts = i.ts ∧
    (i.insertMaps n p).pos = i.pos ∧ (i.insertMaps n p).valid = i.valid :=
  ⟨rfl, rfl, rfl, rfl⟩

theorem buildFrom_acc (i : Index) (l : List Point) (a : Nat) (hwf : ∀ p ∈ l, WFPoint p) :
    (Index.buildFrom i l a).numItems = i.numItems + l.length ∧
    (∀ name, (Index.buildFrom i l a).meas.posting name
        = i.meas.posting name ++ postFrom (carryMeas name) l a) ∧
    (∀ kv, (Index.buildFrom i l a).tags.posting kv
        = i.tags.posting kv ++ postFrom (carryTag kv) l a) ∧
    (∀ k, (Index.buildFrom i l a).fields.posting k
        = i.fields.posting k ++ postFrom (carryField k) l a) ∧
    (WFMap i.meas → WFMap (Index.buildFrom i l a).meas) ∧
    (WFMap i.tags → WFMap (Index.buildFrom i l a).tags) ∧
    (WFMap i.fields → WFMap (Index.buildFrom i l a).fields) ∧
    (Index.buildFrom i l a).ts = i.ts ∧ (Index.buildFrom i l a).pos = i.pos := by
  induction l generalizing i a with
  | nil => simp [Index.buildFrom, postFrom]
  | cons p t ih =>
    have hp := hwf p List.mem_cons_self
    have ht : ∀ q ∈ t, WFPoint q := fun q hq => hwf q (List.mem_cons_of_mem _ hq)
    obtain ⟨am, at_, af⟩ := insertMaps_acc i a p hp
    obtain ⟨wm, wt, wf⟩ := insertMaps_wf i a p
    obtain ⟨h1, h2, h3, h4, h5, h6, h7, h8, h9⟩ :=
      ih ({ (i.insertMaps a p) with numItems := i.numItems + 1 }) (a + 1) ht
    simp only [Index.buildFrom]
    refine ⟨?_, ?_, ?_, ?_, fun w => h5 (wm w), fun w => h6 (wt w), fun w => h7 (wf w), ?_, ?_⟩
    · rw [h1]; simp only [List.length_cons]; omega
    · intro name; rw [h2, postFrom_cons, ← List.append_assoc]; congr 1; exact am name
    · intro kv; rw [h3, postFrom_cons, ← List.append_assoc]; congr 1; exact at_ kv
    · intro k; rw [h4, postFrom_cons, ← List.append_assoc]; congr 1; exact af k
    · rw [h8]; rfl
    · rw [h9]; rfl

theorem wf_empty {K P : Type} : WFMap ([] : PMap K P) := by
  simp [WFMap, keysAL]

/-- L1 (maps): the maps built by one pass over `l` are exactly the posting lists of `l` -/
theorem buildFrom_maps (l : List Point) (hwf : ∀ p ∈ l, WFPoint p) :
    let i := Index.buildFrom {} l 0
    i.numItems = l.length ∧
    (∀ name, i.meas.posting name = postFrom (carryMeas name) l 0) ∧
    (∀ kv, i.tags.posting kv = postFrom (carryTag kv) l 0) ∧
    (∀ k, i.fields.posting k = postFrom (carryField k) l 0) ∧
    WFMap i.meas ∧ WFMap i.tags ∧ WFMap i.fields ∧ i.ts = [] ∧ i.pos = [] := by
  obtain ⟨h1, h2, h3, h4, h5, h6, h7, h8, h9⟩ := buildFrom_acc {} l 0 hwf
  refine ⟨by simpa using h1, ?_, ?_, ?_, h5 wf_empty, h6 wf_empty, h7 wf_empty, h8, h9⟩
  · intro name; rw [h2]; simp [PMap.posting, lookupAL]
  · intro kv; rw [h3]; simp [PMap.posting, lookupAL]
  · intro k; rw [h4]; simp [PMap.posting, lookupAL]

/-- L3a (maps): `insertMaps` at position `l.length` appends the new point's entries -/
theorem insertMaps_maps (idx : Index) (l : List Point) (p : Point) (hp : WFPoint p)
    (hm : ∀ name, idx.meas.posting name = postFrom (carryMeas name) l 0)
    (ht : ∀ kv, idx.tags.posting kv = postFrom (carryTag kv) l 0)
    (hf : ∀ k, idx.fields.posting k = postFrom (carryField k) l 0)
    (wm : WFMap idx.meas) (wt : WFMap idx.tags) (wf : WFMap idx.fields) :
    let i := idx.insertMaps l.length p
    (∀ name, i.meas.posting name = postFrom (carryMeas name) (l ++ [p]) 0) ∧
    (∀ kv, i.tags.posting kv = postFrom (carryTag kv) (l ++ [p]) 0) ∧
    (∀ k, i.fields.posting k = postFrom (carryField k) (l ++ [p]) 0) ∧
    WFMap i.meas ∧ WFMap i.tags ∧ WFMap i.fields ∧
    i.numItems = idx.numItems ∧ i.ts = idx.ts ∧ i.pos = idx.pos ∧ i.valid = idx.valid := by
  obtain ⟨am, at_, af⟩ := insertMaps_acc idx l.length p hp
  obtain ⟨wm', wt', wf'⟩ := insertMaps_wf idx l.length p
  refine ⟨?_, ?_, ?_, wm' wm, wt' wt, wf' wf, rfl, rfl, rfl, rfl⟩
  · intro name; rw [am, hm, postFrom_append_one, Nat.zero_add]
  · intro kv; rw [at_, ht, postFrom_append_one, Nat.zero_add]
  · intro k; rw [af, hf, postFrom_append_one, Nat.zero_add]

/-! ## remove / renumber -/
section RR
variable {K P : Type} [BEq K] [LawfulBEq K]

omit [BEq K] [LawfulBEq K] in
theorem keys_remove_sublist (m : PMap K P) (r : Nat → Bool) :
    (keysAL (m.remove r)).Sublist (keysAL m) := by
  induction m with
  | nil => simp [PMap.remove, keysAL]
  | cons hd t ih =>
    simp only [PMap.remove, keysAL, List.filterMap_cons] at ih ⊢
    split
    · rename_i h; exact List.Sublist.cons _ ih
    · rename_i kv h
      split at h
      · simp at h
      · simp only [Option.some.injEq] at h; subst h
        simp only [List.map_cons]
        exact List.Sublist.cons_cons _ ih

theorem posting_remove (m : PMap K P) (wm : (keysAL m).Nodup) (r : Nat → Bool) (k : K) :
    (m.remove r).posting k = (m.posting k).filter (fun ip => !r ip.1) := by
  induction m with
  | nil => simp [PMap.remove, PMap.posting, lookupAL]
  | cons hd t ih =>
    obtain ⟨k', v⟩ := hd
    have hnd : k' ∉ keysAL t ∧ (keysAL t).Nodup := by
      simpa [keysAL] using wm
    have ih' := ih hnd.2
    have hcons : PMap.remove ((k', v) :: t) r =
        (if (v.filter (fun ip => !r ip.1)).isEmpty then PMap.remove t r
         else (k', v.filter (fun ip => !r ip.1)) :: PMap.remove t r) := by
      by_cases he : (v.filter (fun ip => !r ip.1)).isEmpty = true
      · simp only [PMap.remove, List.filterMap_cons, he, ↓reduceIte]
      · simp only [PMap.remove, List.filterMap_cons, he, ↓reduceIte, Bool.false_eq_true]
    rw [hcons]
    by_cases hk : k' = k
    · subst hk
      have hnone : lookupAL k' (PMap.remove t r) = none :=
        lookup_none_of_not_mem _ _ (fun hmem => hnd.1 ((keys_remove_sublist t r).subset hmem))
      split
      · rename_i he
        simp only [PMap.posting, hnone, lookupAL, beq_self_eq_true, ↓reduceIte, Option.getD_some,
          Option.getD_none]
        exact (List.isEmpty_iff.mp he).symm
      · simp [PMap.posting, lookupAL]
    · have h1 : (k' == k) = false := by simpa using hk
      split
      · simpa [PMap.posting, lookupAL, h1] using ih'
      · simpa [PMap.posting, lookupAL, h1] using ih'

omit [BEq K] [LawfulBEq K] in
theorem wf_remove (m : PMap K P) (wm : WFMap m) (r : Nat → Bool) : WFMap (m.remove r) := by
  refine ⟨(keys_remove_sublist m r).nodup wm.1, ?_⟩
  intro kv hkv
  simp only [PMap.remove, List.mem_filterMap] at hkv
  obtain ⟨kv0, _, h⟩ := hkv
  split at h
  · simp at h
  · rename_i hne
    simp only [Option.some.injEq] at h; subst h
    simpa using hne

omit [BEq K] [LawfulBEq K] in
theorem keys_renumber (m : PMap K P) (f : Nat → Nat) : keysAL (m.renumber f) = keysAL m := by
  simp [PMap.renumber, keysAL, List.map_map, Function.comp_def]

theorem posting_renumber (m : PMap K P) (f : Nat → Nat) (k : K) :
    (m.renumber f).posting k = (m.posting k).map (fun ip => (f ip.1, ip.2)) := by
  induction m with
  | nil => simp [PMap.renumber, PMap.posting, lookupAL]
  | cons hd t ih =>
    obtain ⟨k', v⟩ := hd
    by_cases hk : k' = k
    · subst hk; simp [PMap.renumber, PMap.posting, lookupAL]
    · have h1 : (k' == k) = false := by simpa using hk
      simpa [PMap.renumber, PMap.posting, lookupAL, h1] using ih

omit [BEq K] [LawfulBEq K] in
theorem wf_renumber (m : PMap K P) (wm : WFMap m) (f : Nat → Nat) : WFMap (m.renumber f) := by
  refine ⟨by rw [keys_renumber]; exact wm.1, ?_⟩
  intro kv hkv
  simp only [PMap.renumber, List.mem_map] at hkv
  obtain ⟨kv0, h0, rfl⟩ := hkv
  simpa using wm.2 kv0 h0

end RR

/-! ## filter and renumber on `postFrom` -/

theorem cnt_self (keep : Nat → Bool) (a : Nat) : cnt keep a a = 0 := by simp [cnt]

theorem cnt_succ_left (keep : Nat → Bool) (a i : Nat) (h : a < i) :
    cnt keep a i = (if keep a then 1 else 0) + cnt keep (a+1) i := by
  unfold cnt
  have : i - a = (i - (a+1)) + 1 := by omega
  rw [this, List.range'_succ, List.filter_cons]
  split <;> simp <;> omega

theorem postFrom_keepIdx {β : Type} (c : Point → Option β) (keep : Nat → Bool) (l : List Point)
    (a b : Nat) :
    postFrom c (keepIdx keep l a) b
      = ((postFrom c l a).filter (fun ip => keep ip.1)).map (fun ip => (b + cnt keep a ip.1, ip.2)) := by
  induction l generalizing a b with
  | nil => simp [postFrom, keepIdx]
  | cons x t ih =>
    rw [postFrom_cons, List.filter_append, List.map_append]
    by_cases hk : keep a = true
    · have hrew : ((postFrom c t (a+1)).filter (fun ip => keep ip.1)).map
            (fun ip => ((b+1) + cnt keep (a+1) ip.1, ip.2))
          = ((postFrom c t (a+1)).filter (fun ip => keep ip.1)).map
            (fun ip => (b + cnt keep a ip.1, ip.2)) := by
        apply List.map_congr_left
        intro ip hi
        have hge := postFrom_ge c t (a+1) ip (List.mem_filter.mp hi).1
        rw [cnt_succ_left keep a ip.1 (by omega)]; simp [hk]; omega
      simp only [keepIdx, hk, ↓reduceIte, postFrom_cons, ih, hrew]
      congr 1
      cases c x <;> simp [one, hk, cnt_self]
    · have hk' : keep a = false := by simpa using hk
      have hrew : ((postFrom c t (a+1)).filter (fun ip => keep ip.1)).map
            (fun ip => (b + cnt keep (a+1) ip.1, ip.2))
          = ((postFrom c t (a+1)).filter (fun ip => keep ip.1)).map
            (fun ip => (b + cnt keep a ip.1, ip.2)) := by
        apply List.map_congr_left
        intro ip hi
        have hge := postFrom_ge c t (a+1) ip (List.mem_filter.mp hi).1
        rw [cnt_succ_left keep a ip.1 (by omega)]; simp [hk']
      simp only [keepIdx, hk', Bool.false_eq_true, ↓reduceIte, ih, hrew]
      cases c x <;> simp [one, hk']

/-- L3b (one map): removing the positions not kept and renumbering the others with `f`
    (which agrees with "number of kept positions before" on kept positions) yields the posting map
    of the filtered storage -/
theorem remove_renumber_map {K P : Type} [BEq K] [LawfulBEq K] (m : PMap K P) (c : K → Point → Option P)
    (l : List Point) (keep : Nat → Bool) (r : Nat → Bool) (f : Nat → Nat)
    (hm : ∀ k, m.posting k = postFrom (c k) l 0) (wm : WFMap m)
    (hr : ∀ i, i < l.length → r i = !keep i)
    (hf : ∀ i, i < l.length → keep i = true → f i = cnt keep 0 i) :
    (∀ k, ((m.remove r).renumber f).posting k = postFrom (c k) (keepIdx keep l 0) 0) ∧
    WFMap ((m.remove r).renumber f) := by
  refine ⟨?_, wf_renumber _ (wf_remove m wm r) f⟩
  intro k
  rw [posting_renumber, posting_remove m wm.1, hm, postFrom_keepIdx]
  have hlt : ∀ ip ∈ postFrom (c k) l 0, ip.1 < l.length := by
    intro ip hip
    obtain ⟨i, b⟩ := ip
    obtain ⟨⟨_, h2⟩, _⟩ := (mem_postFrom (c k) l 0 i b).mp hip
    simpa using h2
  have e1 : (postFrom (c k) l 0).filter (fun ip => !r ip.1)
      = (postFrom (c k) l 0).filter (fun ip => keep ip.1) := by
    apply List.filter_congr
    intro ip hip
    rw [hr _ (hlt ip hip)]; simp
  rw [e1]
  apply List.map_congr_left
  intro ip hip
  have h := List.mem_filter.mp hip
  rw [hf _ (hlt ip h.1) h.2, Nat.zero_add]

/-- entries of a well-formed map are exactly (key, posting of key) -/
theorem mem_iff_posting {K P : Type} [BEq K] [LawfulBEq K] (m : PMap K P) (wm : WFMap m) (k : K) (ps : List (Nat × P)) :
    (k, ps) ∈ m ↔ (ps ≠ [] ∧ m.posting k = ps) := by
  constructor
  · intro h
    exact ⟨wm.2 _ h, by simp [PMap.posting, lookup_of_mem m wm.1 k ps h]⟩
  · rintro ⟨hne, hp⟩
    unfold PMap.posting at hp
    cases hl : lookupAL k m with
    | none => rw [hl] at hp; exact absurd hp.symm hne
    | some v =>
      rw [hl] at hp; simp only [Option.getD_some] at hp; subst hp
      exact mem_of_lookup m k v hl

/-- a key is present in a well-formed represented map iff some point carries it -/
theorem mem_keys_iff {K P : Type} [BEq K] [LawfulBEq K] (m : PMap K P) (c : K → Point → Option P) (l : List Point)
    (hm : ∀ k, m.posting k = postFrom (c k) l 0) (wm : WFMap m) (k : K) :
    k ∈ keysAL m ↔ ∃ p ∈ l, (c k p).isSome := by
  rw [← postFrom_ne_nil_iff (c k) l 0, ← hm]
  constructor
  · intro h
    simp only [keysAL, List.mem_map] at h
    obtain ⟨⟨k', ps⟩, hmem, rfl⟩ := h
    have := (mem_iff_posting m wm k' ps).mp hmem
    rw [this.2]; exact this.1
  · intro h
    have := (mem_iff_posting m wm k (m.posting k)).mpr ⟨h, rfl⟩
    exact List.mem_map.mpr ⟨_, this, rfl⟩

end TinyFlux.Model
