import TinyFlux.Lemmas.PMapLemmas
import TinyFlux.Lemmas.TimeIndex
/-! Helpers for `Search.lean` (agent C): dedup, `Except` plumbing. -/
namespace TinyFlux.Model
open TinyFlux.Spec

theorem mem_dedup {α : Type} [BEq α] [LawfulBEq α] (l : List α) (a : α) : a ∈ dedup l ↔ a ∈ l := by
  induction l with
  | nil => simp [dedup]
  | cons x t ih =>
    simp only [dedup]
    split
    · rename_i hx
      have hx' : x ∈ t := by simpa using hx
      simp only [ih, List.mem_cons]
      constructor
      · exact Or.inr
      · rintro (rfl | h)
        · exact hx'
        · exact h
    · simp [ih]

theorem nodup_dedup {α : Type} [BEq α] [LawfulBEq α] (l : List α) : (dedup l).Nodup := by
  induction l with
  | nil => simp [dedup]
  | cons x t ih =>
    simp only [dedup]
    split
    · exact ih
    · rename_i hx
      have hx' : x ∉ t := by simpa using hx
      exact List.nodup_cons.mpr ⟨by rwa [mem_dedup], ih⟩

theorem nodup_eraseDups {α : Type} [BEq α] [LawfulBEq α] (l : List α) : l.eraseDups.Nodup := by
  suffices h : ∀ n, ∀ l : List α, l.length ≤ n → l.eraseDups.Nodup from h _ l (Nat.le_refl _)
  intro n
  induction n with
  | zero => intro l hl; have : l = [] := by simpa using hl
            subst this; simp
  | succ n ih =>
    intro l hl
    cases l with
    | nil => simp
    | cons a t =>
      rw [List.eraseDups_cons]
      refine List.nodup_cons.mpr ⟨?_, ih _ ?_⟩
      · simp [List.mem_eraseDups]
      · have := List.length_filter_le (fun b => !b == a) t
        simp at hl; omega

/-! ### `Except` plumbing -/

theorem mapM_ok_s {α β : Type} (f : α → Except Exc β) (g : α → β) (l : List α)
    (h : ∀ x ∈ l, f x = .ok (g x)) : l.mapM f = .ok (l.map g) := by
  induction l with
  | nil => simp [pure, Except.pure]
  | cons x t ih =>
    have hx := h x (List.mem_cons_self)
    have ht := ih (fun y hy => h y (List.mem_cons_of_mem _ hy))
    simp [List.mapM_cons, hx, ht, bind, Except.bind, pure, Except.pure]

theorem filterMapM_ok_s {α β : Type} (f : α → Except Exc (Option β)) (g : α → Option β) (l : List α)
    (h : ∀ x ∈ l, f x = .ok (g x)) : l.filterMapM f = .ok (l.filterMap g) := by
  induction l with
  | nil => simp [pure, Except.pure]
  | cons x t ih =>
    have hx := h x (List.mem_cons_self)
    have ht := ih (fun y hy => h y (List.mem_cons_of_mem _ hy))
    cases hg : g x <;>
      simp [List.filterMapM_cons, hx, ht, hg, bind, Except.bind, pure, Except.pure]

/-! ### posting lists of a represented map -/

theorem mem_postFrom0 {β : Type} (c : Point → Option β) (l : List Point) (i : Nat) (b : β) :
    (i, b) ∈ postFrom c l 0 ↔ ∃ h : i < l.length, c l[i] = some b := by
  rw [mem_postFrom]
  constructor
  · rintro ⟨⟨_, h2⟩, h3⟩
    exact ⟨by simpa using h2, by simpa using h3⟩
  · rintro ⟨h, h3⟩
    exact ⟨⟨Nat.zero_le _, by simpa using h⟩, by simpa using h3⟩

theorem mem_postFrom0_fst {β : Type} (c : Point → Option β) (l : List Point) (i : Nat) :
    i ∈ (postFrom c l 0).map (·.1) ↔ ∃ h : i < l.length, (c l[i]).isSome = true := by
  simp only [List.mem_map, Prod.exists, exists_and_right, exists_eq_right, mem_postFrom0]
  constructor
  · rintro ⟨b, h, hb⟩; exact ⟨h, by simp [hb]⟩
  · rintro ⟨h, hb⟩
    obtain ⟨b, hb⟩ := Option.isSome_iff_exists.mp hb
    exact ⟨b, h, hb⟩

/-- positions gathered from the entries of a represented map whose key passes `P` -/
theorem mem_hits {K P : Type} [BEq K] [LawfulBEq K] (m : PMap K P) (c : K → Point → Option P) (l : List Point)
    (hm : ∀ k, m.posting k = postFrom (c k) l 0) (wm : WFMap m) (f : K → Bool) (i : Nat) :
    i ∈ (m.map (fun kv => if f kv.1 then kv.2.map (·.1) else [])).flatten ↔
      ∃ k, f k = true ∧ ∃ h : i < l.length, (c k l[i]).isSome = true := by
  simp only [List.mem_flatten, List.mem_map]
  constructor
  · rintro ⟨_, ⟨⟨k, ps⟩, hkv, rfl⟩, hi⟩
    by_cases hf : f k = true
    · simp only [hf, if_true] at hi
      have := (mem_iff_posting m wm k ps).mp hkv
      rw [← this.2, hm, mem_postFrom0_fst] at hi
      exact ⟨k, hf, hi⟩
    · simp [hf] at hi
  · rintro ⟨k, hf, hi⟩
    rw [← mem_postFrom0_fst, ← hm] at hi
    refine ⟨_, ⟨(k, m.posting k), ?_, rfl⟩, by simpa [hf] using hi⟩
    rw [mem_iff_posting m wm]
    refine ⟨?_, rfl⟩
    intro e; rw [e] at hi; simp at hi

theorem lookup_isSome_s {β : Type} (k : String) (d : List (String × β)) :
    (d.lookup k).isSome = true ↔ k ∈ d.map (·.1) := by
  induction d with
  | nil => simp
  | cons h t ih =>
    obtain ⟨k', v⟩ := h
    by_cases hk : k = k'
    · subst hk; simp [List.lookup]
    · have : (k == k') = false := by simpa using hk
      simp [List.lookup, this, ih, hk]

/-! ### `alterAL` and the value-set accumulator of `get_tag_values` -/

theorem lookup_alter_self_s {K V} [BEq K] [LawfulBEq K] (k : K) (d : V) (f : V → V) (l : AL K V) :
    lookupAL k (alterAL k d f l) = some (f ((lookupAL k l).getD d)) := by
  induction l with
  | nil => simp [alterAL, lookupAL]
  | cons h t ih =>
    obtain ⟨k', v⟩ := h
    by_cases hk : k' = k
    · subst hk; simp [alterAL, lookupAL]
    · have : (k' == k) = false := by simpa using hk
      simp [alterAL, lookupAL, this, ih]

theorem lookup_alter_other_s {K V} [BEq K] [LawfulBEq K] (k k2 : K) (hne : k2 ≠ k) (d : V) (f : V → V)
    (l : AL K V) : lookupAL k2 (alterAL k d f l) = lookupAL k2 l := by
  induction l with
  | nil =>
    have : (k == k2) = false := by simpa using (fun h => hne h.symm)
    simp [alterAL, lookupAL, this]
  | cons h t ih =>
    obtain ⟨k', v⟩ := h
    by_cases hk : k' = k
    · subst hk
      have : (k' == k2) = false := by simpa using (fun h => hne h.symm)
      simp [alterAL, lookupAL, this]
    · have h1 : (k' == k) = false := by simpa using hk
      by_cases hk2 : k' = k2
      · subst hk2; simp [alterAL, lookupAL, h1]
      · have h2 : (k' == k2) = false := by simpa using hk2
        simp [alterAL, lookupAL, h1, h2, ih]

theorem keys_alterAL_s {K V} [BEq K] [LawfulBEq K] (k : K) (d : V) (f : V → V) (l : AL K V) :
    keysAL (alterAL k d f l) = if k ∈ keysAL l then keysAL l else keysAL l ++ [k] := by
  induction l with
  | nil => simp [alterAL, keysAL]
  | cons h t ih =>
    obtain ⟨k', v⟩ := h
    by_cases hk : k' = k
    · subst hk; simp [alterAL, keysAL]
    · have h1 : (k' == k) = false := by simpa using hk
      have h2 : ¬ k = k' := fun e => hk e.symm
      simp only [alterAL, h1, keysAL, List.map_cons, List.mem_cons, h2, false_or] at ih ⊢
      simp only [Bool.false_eq_true, ↓reduceIte, List.map_cons] at ih ⊢
      rw [ih]; split <;> simp_all

theorem lookup_of_mem_s {K V} [BEq K] [LawfulBEq K] (l : AL K V) (h : (keysAL l).Nodup) (k : K) (v : V)
    (hm : (k, v) ∈ l) : lookupAL k l = some v := by
  induction l with
  | nil => simp at hm
  | cons hd t ih =>
    obtain ⟨k', v'⟩ := hd
    simp only [keysAL, List.map_cons, List.nodup_cons] at h
    cases List.mem_cons.mp hm with
    | inl e => cases e; simp [lookupAL]
    | inr hmem =>
      have hne : (k' == k) = false := by
        have : k' ≠ k := by
          intro e; subst e; exact h.1 (List.mem_map.mpr ⟨(k', v), hmem, rfl⟩)
        simpa using this
      simp only [lookupAL, hne]
      exact ih h.2 hmem

theorem mem_of_lookup_s {K V} [BEq K] [LawfulBEq K] (l : AL K V) (k : K) (v : V)
    (hl : lookupAL k l = some v) : (k, v) ∈ l := by
  induction l with
  | nil => simp [lookupAL] at hl
  | cons hd t ih =>
    obtain ⟨k', v'⟩ := hd
    by_cases hk : k' = k
    · subst hk; simp [lookupAL] at hl; subst hl; simp
    · have h1 : (k' == k) = false := by simpa using hk
      simp only [lookupAL, h1] at hl
      exact List.mem_cons_of_mem _ (ih hl)

/-- `vals.setdefault(k, set()).add(v)` -/
def addTV (acc : AL String (List (Option String))) (k : String) (v : Option String) :
    AL String (List (Option String)) :=
  alterAL k [] (fun vs => if vs.contains v then vs else vs ++ [v]) acc

def valsAL (R : AL String (List (Option String))) (k : String) : List (Option String) :=
  (lookupAL k R).getD []

theorem mem_keys_addTV (acc) (k k' : String) (v : Option String) :
    k' ∈ keysAL (addTV acc k v) ↔ k' ∈ keysAL acc ∨ k' = k := by
  unfold addTV; rw [keys_alterAL_s]
  split
  · rename_i hk
    constructor
    · exact Or.inl
    · rintro (h | rfl)
      · exact h
      · exact hk
  · simp

theorem nodup_keys_addTV (acc) (k : String) (v : Option String) (h : (keysAL acc).Nodup) :
    (keysAL (addTV acc k v)).Nodup := by
  unfold addTV; rw [keys_alterAL_s]
  split
  · exact h
  · rename_i hk
    rw [List.nodup_append]
    refine ⟨h, by simp, ?_⟩
    intro a ha b hb; simp at hb; subst hb; intro e; subst e; exact hk ha

theorem vals_addTV (acc) (k k' : String) (v : Option String) :
    valsAL (addTV acc k v) k' =
      if k' = k then (if v ∈ valsAL acc k then valsAL acc k else valsAL acc k ++ [v]) else valsAL acc k' := by
  unfold valsAL addTV
  by_cases hk : k' = k
  · subst hk; simp [lookup_alter_self_s]
  · simp [lookup_alter_other_s _ _ hk, hk]

theorem mem_vals_addTV (acc) (k k' : String) (v v' : Option String) :
    v' ∈ valsAL (addTV acc k v) k' ↔ v' ∈ valsAL acc k' ∨ (k' = k ∧ v' = v) := by
  rw [vals_addTV]
  by_cases hk : k' = k
  · subst hk
    by_cases hv : v ∈ valsAL acc k'
    · simp only [hv, if_true, true_and]
      constructor
      · exact Or.inl
      · rintro (h | rfl)
        · exact h
        · exact hv
    · simp [hv]
  · simp [hk]

theorem nodup_vals_addTV (acc) (k k' : String) (v : Option String) (h : (valsAL acc k').Nodup) :
    (valsAL (addTV acc k v) k').Nodup := by
  rw [vals_addTV]
  by_cases hk : k' = k
  · subst hk
    by_cases hv : v ∈ valsAL acc k'
    · simpa [hv] using h
    · simp only [hv, if_true, if_false]
      rw [List.nodup_append]
      refine ⟨h, by simp, ?_⟩
      intro a ha b hb; simp at hb; subst hb; intro e; subst e; exact hv ha
  · simpa [hk] using h

theorem foldAdd_spec (es : List (String × Option String)) (init : AL String (List (Option String)))
    (hk : (keysAL init).Nodup) (hv : ∀ k, (valsAL init k).Nodup) :
    (keysAL (es.foldl (fun acc e => addTV acc e.1 e.2) init)).Nodup ∧
    (∀ k, k ∈ keysAL (es.foldl (fun acc e => addTV acc e.1 e.2) init) ↔ k ∈ keysAL init ∨ ∃ v, (k, v) ∈ es) ∧
    ∀ k, (valsAL (es.foldl (fun acc e => addTV acc e.1 e.2) init) k).Nodup ∧
      ∀ v, v ∈ valsAL (es.foldl (fun acc e => addTV acc e.1 e.2) init) k ↔ v ∈ valsAL init k ∨ (k, v) ∈ es := by
  induction es generalizing init with
  | nil => simp [hk, hv]
  | cons e t ih =>
    obtain ⟨k0, v0⟩ := e
    obtain ⟨h1, h2, h3⟩ := ih (addTV init k0 v0) (nodup_keys_addTV _ _ _ hk)
      (fun k => nodup_vals_addTV _ _ _ _ (hv k))
    simp only [List.foldl_cons]
    refine ⟨h1, fun k => ?_, fun k => ⟨(h3 k).1, fun v => ?_⟩⟩
    · rw [h2, mem_keys_addTV]
      simp only [List.mem_cons, Prod.mk.injEq]
      constructor
      · rintro ((h | rfl) | ⟨v, h⟩)
        · exact Or.inl h
        · exact Or.inr ⟨v0, Or.inl ⟨rfl, rfl⟩⟩
        · exact Or.inr ⟨v, Or.inr h⟩
      · rintro (h | ⟨v, ⟨rfl, rfl⟩ | h⟩)
        · exact Or.inl (Or.inl h)
        · exact Or.inl (Or.inr rfl)
        · exact Or.inr ⟨v, h⟩
    · rw [(h3 k).2, mem_vals_addTV]
      simp only [List.mem_cons, Prod.mk.injEq]
      constructor
      · rintro ((h | h) | h)
        · exact Or.inl h
        · exact Or.inr (Or.inl h)
        · exact Or.inr (Or.inr h)
      · rintro (h | h | h)
        · exact Or.inl (Or.inl h)
        · exact Or.inl (Or.inr h)
        · exact Or.inr h

/-- the loop of `get_tag_values` over the flattened tag map, entries selected by `C` -/
theorem tagFold_spec (tags : PMap (String × Option String) Unit)
    (C : (String × Option String) × List (Nat × Unit) → Bool)
    (init : AL String (List (Option String))) (hk : (keysAL init).Nodup)
    (hinit : ∀ k vs, (k, vs) ∈ init → vs = []) :
    let R := tags.foldl (fun acc kv => if C kv then addTV acc kv.1.1 kv.1.2 else acc) init
    (keysAL R).Nodup ∧
    (∀ k, k ∈ keysAL R ↔ k ∈ keysAL init ∨ ∃ v ps, ((k, v), ps) ∈ tags ∧ C ((k, v), ps) = true) ∧
    ∀ k vs, (k, vs) ∈ R → vs.Nodup ∧ ∀ v, v ∈ vs ↔ ∃ ps, ((k, v), ps) ∈ tags ∧ C ((k, v), ps) = true := by
  intro R
  have hR : R = ((tags.filter C).map (·.1)).foldl (fun acc e => addTV acc e.1 e.2) init := by
    rw [List.foldl_map, List.foldl_filter]
  have hv0 : ∀ k, valsAL init k = [] := by
    intro k
    unfold valsAL
    cases hl : lookupAL k init with
    | none => rfl
    | some vs => simpa using hinit k vs (mem_of_lookup_s _ _ _ hl)
  have hes : ∀ k v, (k, v) ∈ (tags.filter C).map (·.1) ↔ ∃ ps, ((k, v), ps) ∈ tags ∧ C ((k, v), ps) = true := by
    intro k v
    simp only [List.mem_map, List.mem_filter]
    constructor
    · rintro ⟨⟨kv, ps⟩, hm, rfl⟩; exact ⟨ps, hm⟩
    · rintro ⟨ps, hm⟩; exact ⟨_, hm, rfl⟩
  obtain ⟨h1, h2, h3⟩ := foldAdd_spec ((tags.filter C).map (·.1)) init hk (fun k => by simp [hv0])
  rw [← hR] at h1 h2 h3
  refine ⟨h1, fun k => ?_, fun k vs hmem => ?_⟩
  · rw [h2]; simp only [hes]
  · have : valsAL R k = vs := by unfold valsAL; rw [lookup_of_mem_s R h1 k vs hmem]; rfl
    rw [← this]
    refine ⟨(h3 k).1, fun v => ?_⟩
    rw [(h3 k).2, hv0, hes]; simp

end TinyFlux.Model
