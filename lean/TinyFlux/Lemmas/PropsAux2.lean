import TinyFlux.Lemmas.Refinement
/-! Helper lemmas for `Props/C03`, `C06`, `C10`, `C11`. -/
namespace TinyFlux.Model.PropsAux2
open TinyFlux.Spec TinyFlux.Model

/-! ## `mapM` in `Except` -/

theorem mapM_ok {α β ε : Type} (f : α → Except ε β) (l : List α) (l' : List β) (h : l.mapM f = .ok l') :
    l'.length = l.length ∧ ∀ i (hi : i < l.length) (hi' : i < l'.length), f l[i] = .ok l'[i] := by
  induction l generalizing l' with
  | nil =>
    simp [pure, Except.pure] at h
    subst h
    simp
  | cons a t ih =>
    rw [List.mapM_cons] at h
    cases hfa : f a with
    | error e => simp [hfa, bind, Except.bind] at h
    | ok b =>
      cases ht : t.mapM f with
      | error e => simp [hfa, ht, bind, Except.bind] at h
      | ok bs =>
        simp [hfa, ht, bind, Except.bind, pure, Except.pure] at h
        subst h
        obtain ⟨h1, h2⟩ := ih bs ht
        refine ⟨by simp [h1], ?_⟩
        intro i hi hi'
        cases i with
        | zero => simpa using hfa
        | succ j => simpa using h2 j (by simpa using hi) (by simpa using hi')

/-- what `Spec.update` returns on success -/
theorem update_ok (db db' : DB) (u : Upd) (q : Query) (m : Option String) (n : Nat)
    (h : Spec.update db u q m = .ok (db', n)) :
    db.mapM (Writes.specF u (selected q m)) = .ok db' ∧
    n = (List.zip db db').countP (fun pp => !(pp.1.eqv pp.2)) := by
  rw [Writes.update_eq] at h
  cases hm : db.mapM (Writes.specF u (selected q m)) with
  | error e => simp [hm, bind, Except.bind] at h
  | ok l =>
    simp [hm, bind, Except.bind, pure, Except.pure] at h
    obtain ⟨h1, h2⟩ := h
    subst h1
    exact ⟨rfl, h2.symm⟩

/-- positions never move: same length, unselected points untouched -/
theorem update_order_untouched (db db' : DB) (u : Upd) (q : Query) (m : Option String) (n : Nat)
    (h : Spec.update db u q m = .ok (db', n)) :
    db'.length = db.length ∧
    ∀ i (hi : i < db.length) (hi' : i < db'.length), selected q m db[i] = false → db'[i] = db[i] := by
  obtain ⟨hmap, _⟩ := update_ok db db' u q m n h
  obtain ⟨hl, hf⟩ := mapM_ok _ db db' hmap
  refine ⟨hl, fun i hi hi' hsel => ?_⟩
  have := hf i hi hi'
  simp only [Writes.specF, hsel, Bool.false_eq_true, if_false, pure, Except.pure, Except.ok.injEq] at this
  exact this.symm

/-! ## dicts -/

theorem keys_dictSet {V : Type} (d : List (String × V)) (k : String) (v : V) (k' : String)
    (h : k' ∈ d.map (·.1)) : k' ∈ (dictSet d k v).map (·.1) := by
  induction d with
  | nil => simp at h
  | cons kv t ih =>
    obtain ⟨a, b⟩ := kv
    unfold dictSet
    by_cases hk : (a == k) = true
    · simpa [hk] using h
    · simp only [hk, Bool.false_eq_true, if_false, List.map_cons, List.mem_cons] at h ⊢
      rcases h with h | h
      · exact Or.inl h
      · exact Or.inr (ih h)

theorem lookup_dictSet {V : Type} (d : List (String × V)) (k : String) (v : V) (k' : String) :
    (dictSet d k v).lookup k' = if k' = k then some v else d.lookup k' := by
  induction d with
  | nil =>
    by_cases hk : k' = k
    · simp [dictSet, hk]
    · have : (k' == k) = false := by simpa using hk
      simp [dictSet, hk]
  | cons kv t ih =>
    obtain ⟨a, b⟩ := kv
    unfold dictSet
    by_cases hak : a = k
    · subst hak
      by_cases hk : k' = a
      · simp [hk]
      · have : (k' == a) = false := by simpa using hk
        simp [hk, List.lookup, this]
    · have hak' : (a == k) = false := by simpa using hak
      simp only [hak', Bool.false_eq_true, if_false]
      by_cases hk' : k' = a
      · subst hk'
        simp [hak]
      · have : (k' == a) = false := by simpa using hk'
        simp only [List.lookup, this, ih]

theorem never_drops_keys {V : Type} (d new : List (String × V)) :
    ∀ k, k ∈ d.map (·.1) → k ∈ (dictUpdate d new).map (·.1) := by
  unfold dictUpdate
  induction new generalizing d with
  | nil => intro k h; simpa using h
  | cons kv t ih =>
    intro k h
    simp only [List.foldl_cons]
    exact ih _ k (keys_dictSet d kv.1 kv.2 k h)

theorem lookup_none_of_not_mem {V : Type} (d : List (String × V)) (k : String) (h : k ∉ d.map (·.1)) :
    d.lookup k = none := by
  induction d with
  | nil => rfl
  | cons kv t ih =>
    obtain ⟨a, b⟩ := kv
    simp only [List.map_cons, List.mem_cons, not_or] at h
    have : (k == a) = false := by simpa using h.1
    simp only [List.lookup, this]
    exact ih h.2

theorem merge_values {V : Type} (d new : List (String × V)) (hn : (new.map (·.1)).Nodup) (k : String) :
    (dictUpdate d new).lookup k = (match new.lookup k with | some v => some v | none => d.lookup k) := by
  unfold dictUpdate
  induction new generalizing d with
  | nil => simp [List.lookup]
  | cons kv t ih =>
    obtain ⟨a, b⟩ := kv
    simp only [List.map_cons, List.nodup_cons] at hn
    simp only [List.foldl_cons]
    rw [ih _ hn.2]
    by_cases hk : k = a
    · subst hk
      rw [lookup_none_of_not_mem t k hn.1]
      simp [List.lookup, lookup_dictSet]
    · have : (k == a) = false := by simpa using hk
      simp only [List.lookup, this, lookup_dictSet, hk, if_false]

theorem lookup_eraseKeys {V : Type} (d : List (String × V)) (ks : List String) (k : String) (hk : k ∈ ks) :
    (eraseKeys d ks).lookup k = none := by
  apply lookup_none_of_not_mem
  unfold eraseKeys
  intro hmem
  obtain ⟨kv, hkv, rfl⟩ := List.mem_map.mp hmem
  simp at hkv
  exact hkv.2 hk

theorem upd_ok (u : Upd) (p p' : Point) (h : upd u p = .ok p') :
    ∃ tg fl, p'.tags = eraseKeys tg u.unsetTags ∧ p'.fields = eraseKeys fl u.unsetFields := by
  unfold upd at h
  cases h1 : applyOpt u.time p.time with
  | error e => simp [h1, bind, Except.bind] at h
  | ok t =>
    cases h2 : applyOpt u.meas p.meas with
    | error e => simp [h1, h2, bind, Except.bind] at h
    | ok me =>
      simp only [h1, h2, bind, Except.bind] at h
      split at h
      · simp at h
      · split at h
        · simp at h
        · simp only [pure, Except.pure, Except.ok.injEq] at h
          subst h
          exact ⟨_, _, rfl, rfl⟩

/-! ## outputs -/

theorem canon_eq {a b : Out} (hb : ∀ l, b ≠ .tagVals l) (h : canon a = canon b) : a = b := by
  cases b with
  | tagVals l => exact absurd rfl (hb l)
  | _ => cases a <;> simp_all [canon]

/-! ## measurement restriction -/

theorem selected_meas (q : Query) (name : String) (p : Point) (h : selected q (some name) p = true) :
    p.meas = name := by
  simp [selected] at h
  exact h.1.symm

theorem mem_search_meas (db : DB) (q : Query) (name : String) (sorted : Bool) (p : Point)
    (h : p ∈ Spec.search db q (some name) sorted) : p.meas = name := by
  unfold Spec.search at h
  cases sorted with
  | false =>
    simp only [Bool.false_eq_true, if_false, List.mem_filter] at h
    exact selected_meas q name p h.2
  | true =>
    simp only [if_true, byTime] at h
    rw [(List.mergeSort_perm _ _).mem_iff, List.mem_filter] at h
    exact selected_meas q name p h.2

theorem filter_other_meas (db : DB) (q : Query) (name : String) :
    (db.filter (fun p => !selected q (some name) p)).filter (fun p => p.meas != name) =
      db.filter (fun p => p.meas != name) := by
  rw [List.filter_filter]
  apply List.filter_congr
  intro p _
  by_cases hp : p.meas = name
  · simp [hp]
  · have : selected q (some name) p = false := by
      cases hsel : selected q (some name) p with
      | false => rfl
      | true => exact absurd (selected_meas q name p hsel) hp
    simp [this]

theorem insertPrefix_some (name : String) (pts : List Point) :
    insertPrefix (some name) (pts.map some) = (pts.map (fun p => { p with meas := name }), false) := by
  induction pts with
  | nil => rfl
  | cons p t ih => simp [insertPrefix, ih]

/-- the three ways `Spec.step` on an update goes: an error leaves the db, success is `Spec.update` -/
theorem spec_update_cases (db : DB) (all : Bool) (q : Query) (u : Upd) (m : Option String) :
    ((Spec.step db (.update all q u m)).1 = db ∧ ∃ e, (Spec.step db (.update all q u m)).2 = .err e) ∨
    ∃ db' n, Spec.update db u (if all then .noop else q) m = .ok (db', n) ∧
      Spec.step db (.update all q u m) = (db', .nat n) := by
  unfold Spec.step
  by_cases he : updEmpty u = true
  · left; simp [he]
  · simp only [he, Bool.false_eq_true, if_false]
    cases hu : Spec.update db u (if all then .noop else q) m with
    | error e => left; exact ⟨rfl, e, rfl⟩
    | ok r =>
      obtain ⟨db', n⟩ := r
      right; exact ⟨db', n, rfl, rfl⟩

/-! ## one step / a history: invariant and contents, without going through `canon` -/

theorem spec_read_db (db : DB) (op : Op) (hr : isRead op = true) : (Spec.step db op).1 = db := by
  cases op <;> first | rfl | simp [isRead] at hr

theorem step_inv (s : State) (hs : Inv s) (op : Op) (hok : OpOK s.cfg op) (hm : MeasOK op) :
    Inv (s.step op).1 ∧ (s.step op).1.storage = (Spec.step s.storage op).1 ∧ (s.step op).1.cfg = s.cfg := by
  cases hr : isRead op with
  | true =>
    obtain ⟨_, h2, h3, h4, _⟩ := step_read_refines s hs op hr hm
    exact ⟨h4, by rw [h2, spec_read_db _ op hr], h3⟩
  | false =>
    obtain ⟨_, h2, h3, h4⟩ := step_write_refines s hs op hr hok hm
    exact ⟨h4, h2, h3⟩

theorem runM_cons_fst (s : State) (op : Op) (t : List Op) :
    (runM s (op :: t)).1 = (runM (s.step op).1 t).1 := by
  rw [runM]

theorem runM_inv (s : State) (hs : Inv s) (ops : List Op) (hok : OpsOK s.cfg ops) : Inv (runM s ops).1 := by
  induction ops generalizing s with
  | nil => simpa [runM] using hs
  | cons op t ih =>
    rw [runM_cons_fst]
    obtain ⟨h1, h2⟩ := hok op (by simp)
    obtain ⟨hi, _, hc⟩ := step_inv s hs op h1 h2
    apply ih _ hi
    intro op' hop'
    rw [hc]
    exact hok op' (by simp [hop'])

end TinyFlux.Model.PropsAux2
