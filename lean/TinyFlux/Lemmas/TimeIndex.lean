import TinyFlux.Lemmas.Defs
import TinyFlux.Lemmas.QueryEval
import TinyFlux.Props.C18
/-! The parallel sorted arrays `_timestamps` / `_storage_pos_sorted_by_ts` (agent B). -/
namespace TinyFlux.Model
open TinyFlux.Spec TinyFlux.Py TinyFlux.Props.C18

/-- the two time arrays are a time-sorted arrangement of the (time, position) pairs of `l` -/
def TimeRep (ts : List Int) (pos : List Nat) (l : List Point) : Prop :=
  ts.length = pos.length ∧ ts.Pairwise (· ≤ ·) ∧
  (ts.zip pos).Perm (l.zipIdx.map (fun pi => (pi.1.time, pi.2)))

theorem timeRep_of_represents {idx : Index} {l : List Point} (h : Represents idx l) :
    TimeRep idx.ts idx.pos l := ⟨h.tsLen, h.tsSorted, h.tsPerm⟩

theorem zip_map_fst_snd_t {α β : Type} (buf : List (α × β)) :
    (buf.map (·.1)).zip (buf.map (·.2)) = buf := by
  induction buf with
  | nil => rfl
  | cons a t ih => simp [ih]

/-- L1 (time): `Index.build`'s stable sort -/
theorem timeRep_build (l : List Point) :
    let buf := (l.zipIdx.map (fun pi => (pi.1.time, pi.2))).mergeSort (fun a b => decide (a.1 ≤ b.1))
    TimeRep (buf.map (·.1)) (buf.map (·.2)) l := by
  intro buf
  refine ⟨by simp, ?_, ?_⟩
  · rw [List.pairwise_map]
    have := List.pairwise_mergeSort (le := fun (a b : Int × Nat) => decide (a.1 ≤ b.1))
      (by intro a b c; simp; omega) (by intro a b; simp; omega)
      (l.zipIdx.map (fun pi => (pi.1.time, pi.2)))
    simpa using this
  · rw [zip_map_fst_snd_t]
    exact List.mergeSort_perm _ _

theorem TimeRep.len {ts pos l} (h : TimeRep ts pos l) : ts.length = l.length := by
  have := h.2.2.length_eq
  simp at this
  have := h.1
  omega

theorem le_getLast_t (ts : List Int) (hs : ts.Pairwise (· ≤ ·)) (t : Int) (ht : ts.getLast? = some t)
    (a : Int) (ha : a ∈ ts) : a ≤ t := by
  obtain ⟨ys, rfl⟩ := List.getLast?_eq_some_iff.mp ht
  rw [List.pairwise_append] at hs
  rcases List.mem_append.mp ha with h | h
  · exact hs.2.2 a h t (by simp)
  · simp at h; omega

/-- L3a (time): appending a point that is not older than the latest indexed time -/
theorem timeRep_insert (ts : List Int) (pos : List Nat) (l : List Point) (h : TimeRep ts pos l) (p : Point)
    (hord : ∀ t, ts.getLast? = some t → t ≤ p.time) :
    TimeRep (ts ++ [p.time]) (pos ++ [ts.length]) (l ++ [p]) := by
  have hlen := h.len
  obtain ⟨h1, h2, h3⟩ := h
  refine ⟨by simp [h1], ?_, ?_⟩
  · rw [List.pairwise_append]
    refine ⟨h2, by simp, ?_⟩
    intro a ha b hb
    simp at hb; subst hb
    cases hg : ts.getLast? with
    | none => simp at hg; subst hg; simp at ha
    | some t => exact Int.le_trans (le_getLast_t ts h2 t hg a ha) (hord t hg)
  · rw [List.zip_append h1, List.zipIdx_append, List.map_append]
    apply List.Perm.append h3
    simp [hlen]

theorem TimeRep.mem_zip {ts pos l} (h : TimeRep ts pos l) (t : Int) (i : Nat) :
    (t, i) ∈ ts.zip pos ↔ ∃ hi : i < l.length, l[i].time = t := by
  rw [h.2.2.mem_iff]
  simp only [List.mem_map, List.mem_zipIdx_iff_getElem?]
  constructor
  · rintro ⟨⟨p, k⟩, hk, he⟩
    simp at he hk
    obtain ⟨rfl, rfl⟩ := he
    obtain ⟨hk1, hk2⟩ := List.getElem?_eq_some_iff.mp hk
    exact ⟨hk1, by rw [hk2]⟩
  · rintro ⟨hi, rfl⟩
    exact ⟨(l[i], i), by simp, rfl⟩

theorem TimeRep.mem_ts {ts pos l} (h : TimeRep ts pos l) (t : Int) :
    t ∈ ts ↔ ∃ p ∈ l, p.time = t := by
  have : ts = (ts.zip pos).map (·.1) := (List.map_fst_zip (by rw [h.1]; exact Nat.le_refl _)).symm
  rw [this]
  simp only [List.mem_map]
  constructor
  · rintro ⟨⟨t', i⟩, hm, rfl⟩
    obtain ⟨hi, e⟩ := (h.mem_zip t' i).mp hm
    exact ⟨l[i], List.getElem_mem _, e⟩
  · rintro ⟨p, hp, rfl⟩
    obtain ⟨i, hi, rfl⟩ := List.mem_iff_getElem.mp hp
    exact ⟨(l[i].time, i), (h.mem_zip _ _).mpr ⟨hi, rfl⟩, rfl⟩

/-- the latest indexed time is the maximum of the stored times -/
theorem latestTime_spec (idx : Index) (l : List Point) (h : TimeRep idx.ts idx.pos l) :
    (l = [] → idx.ts = []) ∧ ∀ t, idx.ts.getLast? = some t → (∃ p ∈ l, p.time = t) ∧ ∀ p ∈ l, p.time ≤ t := by
  constructor
  · intro hl
    have := h.len
    subst hl
    simpa using this
  · intro t ht
    constructor
    · exact (h.mem_ts t).mp (List.mem_of_getLast? ht)
    · intro p hp
      exact le_getLast_t _ h.2.1 t ht _ ((h.mem_ts _).mpr ⟨p, hp, rfl⟩)


theorem cnt_self_t (keep : Nat → Bool) (a : Nat) : cnt keep a a = 0 := by simp [cnt]

theorem cnt_succ_left_t (keep : Nat → Bool) (a i : Nat) (h : a < i) :
    cnt keep a i = (if keep a then 1 else 0) + cnt keep (a+1) i := by
  unfold cnt
  have : i - a = (i - (a+1)) + 1 := by omega
  rw [this, List.range'_succ, List.filter_cons]
  split <;> simp <;> omega

theorem zipIdx_keepIdx_t {α : Type} (keep : Nat → Bool) (l : List α) (a b : Nat) :
    (keepIdx keep l a).zipIdx b =
      ((l.zipIdx a).filter (fun pi => keep pi.2)).map (fun pi => (pi.1, b + cnt keep a pi.2)) := by
  induction l generalizing a b with
  | nil => simp [keepIdx]
  | cons x t ih =>
    by_cases hk : keep a = true
    · have hrew : ((t.zipIdx (a+1)).filter (fun pi => keep pi.2)).map (fun pi => (pi.1, (b+1) + cnt keep (a+1) pi.2))
          = ((t.zipIdx (a+1)).filter (fun pi => keep pi.2)).map (fun pi => (pi.1, b + cnt keep a pi.2)) := by
        apply List.map_congr_left
        rintro ⟨y, i⟩ hi
        have hge := (List.mem_zipIdx (List.mem_filter.mp hi).1).1
        simp only
        rw [cnt_succ_left_t keep a i (by omega)]; simp [hk]; omega
      simp [keepIdx, hk, ih, cnt_self_t, hrew]
    · have hk' : keep a = false := by simpa using hk
      have hrew : ((t.zipIdx (a+1)).filter (fun pi => keep pi.2)).map (fun pi => (pi.1, b + cnt keep (a+1) pi.2))
          = ((t.zipIdx (a+1)).filter (fun pi => keep pi.2)).map (fun pi => (pi.1, b + cnt keep a pi.2)) := by
        apply List.map_congr_left
        rintro ⟨y, i⟩ hi
        have hge := (List.mem_zipIdx (List.mem_filter.mp hi).1).1
        simp only
        rw [cnt_succ_left_t keep a i (by omega)]; simp [hk']
      simp [keepIdx, hk', ih, hrew]

/-- L3b (time): filter by removed position, renumber the survivors -/
theorem timeRep_remove_update (ts : List Int) (pos : List Nat) (l : List Point) (h : TimeRep ts pos l)
    (keep : Nat → Bool) (r : Nat → Bool) (f : Nat → Nat)
    (hr : ∀ i, i < l.length → r i = !keep i)
    (hf : ∀ i, i < l.length → keep i = true → f i = cnt keep 0 i) :
    let z := (ts.zip pos).filter (fun tp => !r tp.2)
    TimeRep (z.map (·.1)) ((z.map (·.2)).map f) (keepIdx keep l 0) := by
  intro z
  obtain ⟨h1, h2, h3⟩ := h
  refine ⟨by simp, ?_, ?_⟩
  · have hsub : (z.map (·.1)).Sublist ((ts.zip pos).map (·.1)) := List.Sublist.map _ List.filter_sublist
    rw [List.map_fst_zip (by omega)] at hsub
    exact h2.sublist hsub
  · have e1 : (z.map (·.1)).zip ((z.map (·.2)).map f) = z.map (fun tp => (tp.1, f tp.2)) := by
      generalize z = w
      induction w with
      | nil => rfl
      | cons a t ih => simp at ih ⊢; exact ih
    rw [e1]
    have p1 : z.Perm ((l.zipIdx.map (fun pi => (pi.1.time, pi.2))).filter (fun tp => !r tp.2)) := h3.filter _
    refine (p1.map _).trans ?_
    rw [zipIdx_keepIdx_t]
    apply List.Perm.of_eq
    rw [List.filter_map, List.map_map, List.map_map]
    have e2 : l.zipIdx.filter ((fun tp : Int × Nat => !r tp.2) ∘ fun pi => (pi.1.time, pi.2))
        = l.zipIdx.filter (fun pi => keep pi.2) := by
      apply List.filter_congr
      rintro ⟨p, i⟩ hi
      have := List.mem_zipIdx hi
      simp [hr i (by omega)]
    rw [e2]
    apply List.map_congr_left
    rintro ⟨p, i⟩ hi
    have hk := (List.mem_filter.mp hi).2
    have := List.mem_zipIdx (List.mem_filter.mp hi).1
    simp at hk
    simp [hf i (by omega) hk]

theorem mem_dedup_t {α : Type} [BEq α] [LawfulBEq α] (a : α) (l : List α) : a ∈ dedup l ↔ a ∈ l := by
  induction l with
  | nil => simp [dedup]
  | cons b t ih =>
    unfold dedup
    split
    · rename_i hc
      simp at hc
      rw [ih]; simp
      rintro rfl; exact hc
    · simp [ih]

theorem nodup_dedup_t {α : Type} [BEq α] [LawfulBEq α] (l : List α) : (dedup l).Nodup := by
  induction l with
  | nil => simp [dedup]
  | cons b t ih =>
    unfold dedup
    split
    · exact ih
    · rename_i hc
      simp at hc
      exact List.nodup_cons.mpr ⟨by rw [mem_dedup_t]; exact hc, ih⟩

theorem TimeRep.getElem_t {ts pos l} (h : TimeRep ts pos l) (j : Nat) (hj : j < pos.length)
    (hj' : j < ts.length) : ∃ hi : pos[j] < l.length, l[pos[j]].time = ts[j] := by
  apply (h.mem_zip _ _).mp
  have hz : j < (ts.zip pos).length := by simp; omega
  have := List.getElem_mem hz
  rwa [List.getElem_zip] at this

theorem TimeRep.exists_idx_t {ts pos l} (h : TimeRep ts pos l) (i : Nat) (hi : i < l.length) :
    ∃ j, ∃ (hj : j < pos.length) (hj' : j < ts.length), pos[j] = i ∧ ts[j] = l[i].time := by
  have := (h.mem_zip l[i].time i).mpr ⟨hi, rfl⟩
  obtain ⟨j, hj, e⟩ := List.mem_iff_getElem.mp this
  rw [List.getElem_zip] at e
  have hl : (ts.zip pos).length = min ts.length pos.length := List.length_zip
  simp at e
  exact ⟨j, by omega, by omega, e.2, e.1⟩

theorem TimeRep.sel_t {ts pos l} (h : TimeRep ts pos l) (lf : Leaf) (Q : Int → Bool)
    (hQ : ∀ t, lf.eval (.time t) = Q t) (r : List Nat)
    (hr : ∀ i, i ∈ r ↔ ∃ j, ∃ (hj : j < pos.length) (hj' : j < ts.length), Q ts[j] = true ∧ pos[j] = i) :
    ∀ i, i ∈ r ↔ ∃ hi : i < l.length, lf.eval (.time (l[i].time)) = true := by
  intro i
  rw [hr]
  constructor
  · rintro ⟨j, hj, hj', hq, rfl⟩
    obtain ⟨hi, e⟩ := h.getElem_t j hj hj'
    exact ⟨hi, by rw [hQ, e]; exact hq⟩
  · rintro ⟨hi, hq⟩
    obtain ⟨j, hj, hj', e1, e2⟩ := h.exists_idx_t i hi
    exact ⟨j, hj, hj', by rw [e2, ← hQ]; exact hq, e1⟩

theorem sorted_le_t (ts : List Int) (hs : ts.Pairwise (· ≤ ·)) (j k : Nat) (hjk : j ≤ k)
    (hk : k < ts.length) : ts[j] ≤ ts[k] := by
  by_cases e : j = k
  · subst e; exact Int.le_refl _
  · exact List.pairwise_iff_getElem.mp hs _ _ (by omega) hk (by omega)

theorem findPos_spec_t (f : V → V → Except PyErr V) (ts : List Int) (x : Int) (A : Nat → Prop) (B : Prop)
    (h : ∃ r, f (.list ts) (.int x) = .ok r ∧ ((∃ i : Nat, r = .int i ∧ A i) ∨ (r = .none ∧ B))) :
    (∃ i, Index.findPos f ts x = .ok (some i) ∧ A i) ∨ (Index.findPos f ts x = .ok none ∧ B) := by
  obtain ⟨r, hf, ⟨i, rfl, hA⟩ | ⟨rfl, hB⟩⟩ := h
  · left
    refine ⟨i, ?_, hA⟩
    simp [Index.findPos, hf, pure, Except.pure]
  · right
    exact ⟨by simp [Index.findPos, hf, pure, Except.pure], hB⟩


theorem eval_lt_t (x t : Int) : (Leaf.cmp .lt (.time x)).eval (.time t) = decide (t < x) := by
  simp [Leaf.eval, pyCmp, ordCmp]
theorem eval_le_t (x t : Int) : (Leaf.cmp .le (.time x)).eval (.time t) = decide (t ≤ x) := by
  rw [Bool.eq_iff_iff]; simp [Leaf.eval, pyCmp, ordCmp]
  exact Int.le_iff_lt_or_eq.symm
theorem eval_gt_t (x t : Int) : (Leaf.cmp .gt (.time x)).eval (.time t) = decide (x < t) := by
  rw [Bool.eq_iff_iff]; simp [Leaf.eval, pyCmp, ordCmp]
  rw [Int.lt_iff_le_and_ne]
  constructor <;> rintro ⟨h1, h2⟩ <;> exact ⟨h1, fun e => h2 e.symm⟩
theorem eval_ge_t (x t : Int) : (Leaf.cmp .ge (.time x)).eval (.time t) = decide (x ≤ t) := by
  rw [Bool.eq_iff_iff]; simp [Leaf.eval, pyCmp, ordCmp]
theorem searchTs_lt_t (idx : Index) (l : List Point) (h : TimeRep idx.ts idx.pos l) (x : Int) :
    ∃ r, idx.searchTs (.cmp .lt (.time x)) = .ok r ∧ r.Nodup ∧
      ∀ i, i ∈ r ↔ ∃ hi : i < l.length, (Leaf.cmp .lt (.time x)).eval (.time (l[i].time)) = true := by
  have hs := h.2.1
  have hlen := h.1
  rcases findPos_spec_t _ idx.ts x _ _ (find_lt_spec idx.ts hs x) with ⟨m, hm, hml, hm1, hm2⟩ | ⟨hm, hnone⟩
  · refine ⟨dedup (idx.pos.take (m+1)), by simp [Index.searchTs, hm, bind, Except.bind, pure, Except.pure],
      nodup_dedup_t _, ?_⟩
    apply h.sel_t _ _ (eval_lt_t x)
    intro i
    rw [mem_dedup_t, List.mem_take_iff_getElem]
    constructor
    · rintro ⟨j, hj, e⟩
      refine ⟨j, by omega, by omega, ?_, e⟩
      have := sorted_le_t idx.ts hs j m (by omega) hml
      simp; omega
    · rintro ⟨j, hj, hj', hq, e⟩
      refine ⟨j, ?_, e⟩
      simp at hq
      have := hm2 j hj'
      omega
  · refine ⟨[], by simp [Index.searchTs, hm, bind, Except.bind, pure, Except.pure], List.nodup_nil, ?_⟩
    apply h.sel_t _ _ (eval_lt_t x)
    intro i
    constructor
    · intro hi; cases hi
    · rintro ⟨j, hj, hj', hq, _⟩
      simp at hq
      exact absurd hq (hnone j hj')

theorem searchTs_le_t (idx : Index) (l : List Point) (h : TimeRep idx.ts idx.pos l) (x : Int) :
    ∃ r, idx.searchTs (.cmp .le (.time x)) = .ok r ∧ r.Nodup ∧
      ∀ i, i ∈ r ↔ ∃ hi : i < l.length, (Leaf.cmp .le (.time x)).eval (.time (l[i].time)) = true := by
  have hs := h.2.1
  have hlen := h.1
  rcases findPos_spec_t _ idx.ts x _ _ (find_le_spec idx.ts hs x) with ⟨m, hm, hml, hm1, hm2⟩ | ⟨hm, hnone⟩
  · refine ⟨dedup (idx.pos.take (m+1)), by simp [Index.searchTs, hm, bind, Except.bind, pure, Except.pure],
      nodup_dedup_t _, ?_⟩
    apply h.sel_t _ _ (eval_le_t x)
    intro i
    rw [mem_dedup_t, List.mem_take_iff_getElem]
    constructor
    · rintro ⟨j, hj, e⟩
      refine ⟨j, by omega, by omega, ?_, e⟩
      have := sorted_le_t idx.ts hs j m (by omega) hml
      simp; omega
    · rintro ⟨j, hj, hj', hq, e⟩
      refine ⟨j, ?_, e⟩
      simp at hq
      have := hm2 j hj'
      omega
  · refine ⟨[], by simp [Index.searchTs, hm, bind, Except.bind, pure, Except.pure], List.nodup_nil, ?_⟩
    apply h.sel_t _ _ (eval_le_t x)
    intro i
    constructor
    · intro hi; cases hi
    · rintro ⟨j, hj, hj', hq, _⟩
      simp at hq
      exact absurd hq (hnone j hj')

theorem searchTs_gt_t (idx : Index) (l : List Point) (h : TimeRep idx.ts idx.pos l) (x : Int) :
    ∃ r, idx.searchTs (.cmp .gt (.time x)) = .ok r ∧ r.Nodup ∧
      ∀ i, i ∈ r ↔ ∃ hi : i < l.length, (Leaf.cmp .gt (.time x)).eval (.time (l[i].time)) = true := by
  have hs := h.2.1
  have hlen := h.1
  rcases findPos_spec_t _ idx.ts x _ _ (find_gt_spec idx.ts hs x) with ⟨m, hm, hml, hm1, hm2⟩ | ⟨hm, hnone⟩
  · refine ⟨dedup (idx.pos.drop m), by simp [Index.searchTs, hm, bind, Except.bind, pure, Except.pure],
      nodup_dedup_t _, ?_⟩
    apply h.sel_t _ _ (eval_gt_t x)
    intro i
    rw [mem_dedup_t, List.mem_drop_iff_getElem]
    constructor
    · rintro ⟨j, hj, e⟩
      refine ⟨m + j, by omega, by omega, ?_, e⟩
      have := sorted_le_t idx.ts hs m (m + j) (by omega) (by omega)
      simp; omega
    · rintro ⟨j, hj, hj', hq, e⟩
      simp at hq
      have := hm2 j hj'
      have hmj : m ≤ j := by omega
      refine ⟨j - m, by omega, ?_⟩
      have e2 : m + (j - m) = j := by omega
      simp only [e2]; exact e
  · refine ⟨[], by simp [Index.searchTs, hm, bind, Except.bind, pure, Except.pure], List.nodup_nil, ?_⟩
    apply h.sel_t _ _ (eval_gt_t x)
    intro i
    constructor
    · intro hi; cases hi
    · rintro ⟨j, hj, hj', hq, _⟩
      simp at hq
      exact absurd hq (hnone j hj')

theorem searchTs_ge_t (idx : Index) (l : List Point) (h : TimeRep idx.ts idx.pos l) (x : Int) :
    ∃ r, idx.searchTs (.cmp .ge (.time x)) = .ok r ∧ r.Nodup ∧
      ∀ i, i ∈ r ↔ ∃ hi : i < l.length, (Leaf.cmp .ge (.time x)).eval (.time (l[i].time)) = true := by
  have hs := h.2.1
  have hlen := h.1
  rcases findPos_spec_t _ idx.ts x _ _ (find_ge_spec idx.ts hs x) with ⟨m, hm, hml, hm1, hm2⟩ | ⟨hm, hnone⟩
  · refine ⟨dedup (idx.pos.drop m), by simp [Index.searchTs, hm, bind, Except.bind, pure, Except.pure],
      nodup_dedup_t _, ?_⟩
    apply h.sel_t _ _ (eval_ge_t x)
    intro i
    rw [mem_dedup_t, List.mem_drop_iff_getElem]
    constructor
    · rintro ⟨j, hj, e⟩
      refine ⟨m + j, by omega, by omega, ?_, e⟩
      have := sorted_le_t idx.ts hs m (m + j) (by omega) (by omega)
      simp; omega
    · rintro ⟨j, hj, hj', hq, e⟩
      simp at hq
      have := hm2 j hj'
      have hmj : m ≤ j := by omega
      refine ⟨j - m, by omega, ?_⟩
      have e2 : m + (j - m) = j := by omega
      simp only [e2]; exact e
  · refine ⟨[], by simp [Index.searchTs, hm, bind, Except.bind, pure, Except.pure], List.nodup_nil, ?_⟩
    apply h.sel_t _ _ (eval_ge_t x)
    intro i
    constructor
    · intro hi; cases hi
    · rintro ⟨j, hj, hj', hq, _⟩
      simp at hq
      exact absurd hq (hnone j hj')


theorem eval_eq_t (x t : Int) : (Leaf.cmp .eq (.time x)).eval (.time t) = decide (t = x) := by
  rw [Bool.eq_iff_iff]; simp [Leaf.eval, pyCmp]
theorem eval_ne_t (x t : Int) : (Leaf.cmp .ne (.time x)).eval (.time t) = decide (t ≠ x) := by
  rw [Bool.eq_iff_iff]; simp [Leaf.eval, pyCmp]

theorem takeWhile_eq_filter_t (x : Int) (w : List (Int × Nat)) (hs : (w.map (·.1)).Pairwise (· ≤ ·))
    (hge : ∀ tp ∈ w, x ≤ tp.1) :
    w.takeWhile (fun tp => tp.1 == x) = w.filter (fun tp => tp.1 == x) := by
  induction w with
  | nil => rfl
  | cons a t ih =>
    rw [List.map_cons, List.pairwise_cons] at hs
    have iht := ih hs.2 (fun tp htp => hge tp (List.mem_cons_of_mem _ htp))
    by_cases ha : a.1 = x
    · simp [ha, iht]
    · have hax : x < a.1 := by have := hge a (List.mem_cons_self ..); omega
      have : t.filter (fun tp => tp.1 == x) = [] := by
        rw [List.filter_eq_nil_iff]
        intro b hb
        have := hs.1 b.1 (List.mem_map_of_mem hb)
        simp; omega
      simp [ha, this]

theorem mem_equalRun_t (idx : Index) (hlen : idx.ts.length = idx.pos.length)
    (hs : idx.ts.Pairwise (· ≤ ·)) (m : Nat) (x : Int) (hml : m < idx.ts.length) (hm1 : idx.ts[m] = x)
    (hm2 : ∀ j (hj : j < idx.ts.length), j < m → idx.ts[j] ≠ x) (i : Nat) :
    i ∈ idx.equalRun m x ↔ ∃ j, ∃ (hj : j < idx.pos.length) (hj' : j < idx.ts.length),
      decide (idx.ts[j] = x) = true ∧ idx.pos[j] = i := by
  have hzl : (idx.ts.zip idx.pos).length = min idx.ts.length idx.pos.length := List.length_zip
  unfold Index.equalRun
  rw [takeWhile_eq_filter_t]
  · simp only [List.mem_map, List.mem_filter, List.mem_drop_iff_getElem]
    constructor
    · rintro ⟨⟨t, i'⟩, ⟨⟨k, hk, e⟩, hq⟩, rfl⟩
      rw [List.getElem_zip] at e
      simp at e hq
      exact ⟨m + k, by omega, by omega, by simp [e.1, hq], e.2⟩
    · rintro ⟨j, hj, hj', hq, e⟩
      simp at hq
      have hmj : m ≤ j := by
        apply Nat.le_of_not_lt; intro hc; exact hm2 j hj' hc hq
      have e2 : m + (j - m) = j := by omega
      refine ⟨(idx.ts[j], idx.pos[j]), ⟨⟨j - m, by omega, ?_⟩, by simp [hq]⟩, e⟩
      rw [List.getElem_zip]; simp only [e2]
  · rw [List.map_drop, List.map_fst_zip (by omega)]
    exact hs.sublist (List.drop_sublist _ _)
  · intro tp htp
    obtain ⟨k, hk, e⟩ := List.mem_drop_iff_getElem.mp htp
    rw [List.getElem_zip] at e
    subst e
    have := sorted_le_t idx.ts hs m (m + k) (by omega) (by omega)
    simp; omega

theorem TimeRep.ts_eq_of_pos_eq_t {ts pos l} (h : TimeRep ts pos l) (j j' : Nat) (hj : j < pos.length)
    (hjt : j < ts.length) (hj' : j' < pos.length) (hjt' : j' < ts.length) (e : pos[j] = pos[j']) :
    ts[j] = ts[j'] := by
  obtain ⟨hi, e1⟩ := h.getElem_t j hj hjt
  obtain ⟨hi', e2⟩ := h.getElem_t j' hj' hjt'
  rw [← e1, ← e2]
  simp only [e]

theorem searchTs_eq_t (idx : Index) (l : List Point) (h : TimeRep idx.ts idx.pos l) (x : Int) :
    ∃ r, idx.searchTs (.cmp .eq (.time x)) = .ok r ∧ r.Nodup ∧
      ∀ i, i ∈ r ↔ ∃ hi : i < l.length, (Leaf.cmp .eq (.time x)).eval (.time (l[i].time)) = true := by
  have hs := h.2.1
  have hlen := h.1
  rcases findPos_spec_t _ idx.ts x _ _ (find_eq_spec idx.ts hs x) with ⟨m, hm, hml, hm1, hm2⟩ | ⟨hm, hnone⟩
  · refine ⟨dedup (idx.equalRun m x), by simp [Index.searchTs, hm, bind, Except.bind, pure, Except.pure],
      nodup_dedup_t _, ?_⟩
    apply h.sel_t _ _ (eval_eq_t x)
    intro i
    rw [mem_dedup_t]
    exact mem_equalRun_t idx hlen hs m x hml hm1 hm2 i
  · refine ⟨[], by simp [Index.searchTs, hm, bind, Except.bind, pure, Except.pure], List.nodup_nil, ?_⟩
    apply h.sel_t _ _ (eval_eq_t x)
    intro i
    constructor
    · intro hi; cases hi
    · rintro ⟨j, hj, hj', hq, _⟩
      simp at hq
      exact absurd hq (hnone j hj')

theorem searchTs_ne_t (idx : Index) (l : List Point) (h : TimeRep idx.ts idx.pos l) (x : Int) :
    ∃ r, idx.searchTs (.cmp .ne (.time x)) = .ok r ∧ r.Nodup ∧
      ∀ i, i ∈ r ↔ ∃ hi : i < l.length, (Leaf.cmp .ne (.time x)).eval (.time (l[i].time)) = true := by
  have hs := h.2.1
  have hlen := h.1
  rcases findPos_spec_t _ idx.ts x _ _ (find_eq_spec idx.ts hs x) with ⟨m, hm, hml, hm1, hm2⟩ | ⟨hm, hnone⟩
  · refine ⟨(dedup idx.pos).filter (fun p => !(idx.equalRun m x).contains p),
      by simp [Index.searchTs, hm, bind, Except.bind, pure, Except.pure],
      (nodup_dedup_t _).filter _, ?_⟩
    apply h.sel_t _ _ (eval_ne_t x)
    intro i
    rw [List.mem_filter, mem_dedup_t]
    have hrun := mem_equalRun_t idx hlen hs m x hml hm1 hm2 i
    constructor
    · rintro ⟨hi, hn⟩
      obtain ⟨j, hj, e⟩ := List.mem_iff_getElem.mp hi
      refine ⟨j, hj, by omega, ?_, e⟩
      simp at hn ⊢
      intro hx
      exact hn (hrun.mpr ⟨j, hj, by omega, by simp [hx], e⟩)
    · rintro ⟨j, hj, hj', hq, e⟩
      refine ⟨e ▸ List.getElem_mem hj, ?_⟩
      simp at hq ⊢
      intro hin
      obtain ⟨j', hj1, hj1', hq', e'⟩ := hrun.mp hin
      simp at hq'
      have := h.ts_eq_of_pos_eq_t j j' hj hj' hj1 hj1' (by rw [e, e'])
      exact hq (this.trans hq')
  · refine ⟨dedup idx.pos, by simp [Index.searchTs, hm, bind, Except.bind, pure, Except.pure],
      nodup_dedup_t _, ?_⟩
    apply h.sel_t _ _ (eval_ne_t x)
    intro i
    rw [mem_dedup_t, List.mem_iff_getElem]
    constructor
    · rintro ⟨j, hj, e⟩
      exact ⟨j, hj, by omega, by simpa using hnone j (by omega), e⟩
    · rintro ⟨j, hj, hj', hq, e⟩
      exact ⟨j, hj, e⟩


theorem filterMapM_ok_t {α β : Type} (g : α → Option β) (f : α → Except Exc (Option β))
    (hf : ∀ a, f a = .ok (g a)) (xs : List α) : xs.filterMapM f = .ok (xs.filterMap g) := by
  induction xs with
  | nil => rfl
  | cons a t ih =>
    rw [List.filterMapM_cons, hf, ih, List.filterMap_cons]
    cases g a <;> simp [bind, Except.bind, pure, Except.pure]

/-- the generic branch of `Index.searchTs` (test every timestamp) -/
def genericTs_t (i : Index) (l : Leaf) : Except Exc (List Nat) := do
  let hits ← (i.pos.zip i.ts).filterMapM (fun pt => do
    if ← callOn l (.time pt.2) then pure (some pt.1) else pure none)
  pure (dedup hits)

theorem genericTs_spec_t (idx : Index) (l : List Point) (h : TimeRep idx.ts idx.pos l) (lf : Leaf) :
    ∃ r, genericTs_t idx lf = .ok r ∧ r.Nodup ∧
      ∀ i, i ∈ r ↔ ∃ hi : i < l.length, lf.eval (.time (l[i].time)) = true := by
  have hlen := h.1
  have hzl : (idx.pos.zip idx.ts).length = min idx.pos.length idx.ts.length := List.length_zip
  refine ⟨dedup ((idx.pos.zip idx.ts).filterMap
    (fun pt => if lf.eval (.time pt.2) then some pt.1 else none)), ?_, nodup_dedup_t _, ?_⟩
  · unfold genericTs_t
    rw [filterMapM_ok_t (fun pt => if lf.eval (.time pt.2) then some pt.1 else none)]
    · rfl
    · intro a
      rw [callOn_eq]
      cases lf.eval (.time a.2) <;> rfl
  · apply h.sel_t lf (fun t => lf.eval (.time t)) (fun _ => rfl)
    intro i
    rw [mem_dedup_t, List.mem_filterMap]
    constructor
    · rintro ⟨pt, hpt, e⟩
      obtain ⟨j, hj, rfl⟩ := List.mem_iff_getElem.mp hpt
      rw [List.getElem_zip] at e
      by_cases hq : lf.eval (.time idx.ts[j]) = true
      · simp [hq] at e
        exact ⟨j, by omega, by omega, hq, e⟩
      · simp [hq] at e
    · rintro ⟨j, hj, hj', hq, e⟩
      refine ⟨(idx.pos[j], idx.ts[j]), ?_, by simp [hq, e]⟩
      have hz : j < (idx.pos.zip idx.ts).length := by omega
      have := List.getElem_mem hz
      rwa [List.getElem_zip] at this

/-- L2 (time): `Index._search_timestamps` returns exactly the positions whose instant satisfies the leaf
    (bisect fast paths over the generated `find_*`, and the generic path) -/
theorem searchTs_spec (idx : Index) (l : List Point) (h : TimeRep idx.ts idx.pos l) (lf : Leaf) :
    ∃ r, idx.searchTs lf = .ok r ∧ r.Nodup ∧
      ∀ i, i ∈ r ↔ ∃ hi : i < l.length, lf.eval (.time (l[i].time)) = true := by
  cases lf with
  | cmp c rhs =>
    cases rhs with
    | time x =>
      cases c
      · exact searchTs_eq_t idx l h x
      · exact searchTs_ne_t idx l h x
      · exact searchTs_lt_t idx l h x
      · exact searchTs_le_t idx l h x
      · exact searchTs_gt_t idx l h x
      · exact searchTs_ge_t idx l h x
    | _ => cases c <;> exact genericTs_spec_t idx l h _
  | _ => exact genericTs_spec_t idx l h _

theorem sort_by_pos_t (z w : List (Int × Nat)) (hp : z.Perm w)
    (hw : w.Pairwise (fun a b => a.2 < b.2)) :
    z.mergeSort (fun a b => decide (a.2 ≤ b.2)) = w := by
  have hperm : (z.mergeSort (fun a b => decide (a.2 ≤ b.2))).Perm w := (List.mergeSort_perm _ _).trans hp
  refine List.Perm.eq_of_pairwise (le := fun a b => a.2 ≤ b.2) ?_ ?_ (hw.imp Nat.le_of_lt) hperm
  · intro a b ha hb h1 h2
    have ha' := hperm.mem_iff.mp ha
    obtain ⟨i, hi, rfl⟩ := List.mem_iff_getElem.mp ha'
    obtain ⟨j, hj, rfl⟩ := List.mem_iff_getElem.mp hb
    have hpw := List.pairwise_iff_getElem.mp hw
    by_cases hij : i = j
    · subst hij; rfl
    · rcases Nat.lt_or_gt_of_ne hij with hlt | hgt
      · have := hpw i j hi hj hlt; omega
      · have := hpw j i hj hi hgt; omega
  · have := List.pairwise_mergeSort (le := fun (a b : Int × Nat) => decide (a.2 ≤ b.2))
      (by intro a b c; simp; omega) (by intro a b; simp; omega) z
    exact this.imp (by intro a b hab; simpa using hab)

theorem pairwise_zipIdx_time_t (l : List Point) :
    (l.zipIdx.map (fun pi => (pi.1.time, pi.2))).Pairwise (fun a b => a.2 < b.2) := by
  have : ((l.zipIdx.map (fun pi => (pi.1.time, pi.2))).map (·.2)).Pairwise (· < ·) := by
    rw [List.map_map]
    have e : ((fun x : Int × Nat => x.2) ∘ fun pi : Point × Nat => (pi.1.time, pi.2)) = Prod.snd := rfl
    rw [e, List.zipIdx_map_snd]
    exact List.pairwise_lt_range' 1
  exact List.pairwise_map.mp this

theorem mem_postFrom_fst_t {β : Type} (c : Point → Option β) (l : List Point) (a i : Nat) :
    i ∈ (postFrom c l a).map (·.1) ↔ ∃ k, ∃ hk : k < l.length, i = a + k ∧ (c l[k]).isSome = true := by
  induction l generalizing a with
  | nil => simp [postFrom]
  | cons p t ih =>
    have ih' := ih (a + 1)
    constructor
    · intro hm
      unfold postFrom at hm
      cases hc : c p with
      | none =>
        simp only [hc] at hm
        obtain ⟨k, hk, e, hs⟩ := ih'.mp hm
        exact ⟨k + 1, by simp; omega, by omega, by simpa using hs⟩
      | some b =>
        simp only [hc, List.map_cons, List.mem_cons] at hm
        rcases hm with rfl | hm
        · exact ⟨0, by simp, rfl, by simp [hc]⟩
        · obtain ⟨k, hk, e, hs⟩ := ih'.mp hm
          exact ⟨k + 1, by simp; omega, by omega, by simpa using hs⟩
    · rintro ⟨k, hk, e, hs⟩
      unfold postFrom
      cases k with
      | zero =>
        simp at hs e
        obtain ⟨b, hb⟩ := Option.isSome_iff_exists.mp hs
        simp [hb, e]
      | succ k =>
        have : i ∈ (postFrom c t (a + 1)).map (·.1) :=
          ih'.mpr ⟨k, by simpa using hk, by omega, by simpa using hs⟩
        cases hc : c p with
        | none => simpa [hc] using this
        | some b => simp only [List.map_cons, List.mem_cons]; exact Or.inr this

theorem filter_zipIdx_map_t {α β : Type} (l : List α) (q : α → Bool) (f : α → β) :
    (l.zipIdx.filter (fun pi => q pi.1)).map (fun pi => f pi.1) = (l.filter q).map f := by
  have h1 : (l.zipIdx.map Prod.fst).filter q = (l.zipIdx.filter (q ∘ Prod.fst)).map Prod.fst :=
    List.filter_map
  rw [List.zipIdx_map_fst] at h1
  rw [h1, List.map_map]
  rfl

/-- `Index.get_timestamps`: instants in storage order, restricted to the measurement -/
theorem getTimestamps_spec (idx : Index) (l : List Point) (h : Represents idx l) (m : Option String) :
    idx.getTimestamps m = (l.filter (fun p => m.all (· == p.meas))).map (·.time) := by
  have hw := pairwise_zipIdx_time_t l
  cases m with
  | none =>
    simp only [Index.getTimestamps]
    rw [sort_by_pos_t _ _ h.tsPerm hw, List.map_map]
    have e := filter_zipIdx_map_t l (fun _ => true) (·.time)
    have ft : ∀ {α : Type} (xs : List α), xs.filter (fun _ => true) = xs :=
      fun xs => List.filter_eq_self.mpr (fun _ _ => rfl)
    rw [ft, ft] at e
    simp only [Option.all_none, ft]
    exact e
  | some name =>
    have hitems : ∀ i, i ∈ idx.measItems name ↔ ∃ hi : i < l.length, l[i].meas = name := by
      intro i
      unfold Index.measItems
      rw [h.meas, mem_postFrom_fst_t]
      constructor
      · rintro ⟨k, hk, e, hs⟩
        simp at e; subst e
        refine ⟨hk, ?_⟩
        simpa [carryMeas] using hs
      · rintro ⟨hi, e⟩
        exact ⟨i, hi, by simp, by simp [carryMeas, e]⟩
    by_cases hm : idx.hasMeas name = true
    · simp only [Index.getTimestamps, hm]
      have hp := h.tsPerm.filter (fun tp => (idx.measItems name).contains tp.2)
      simp only [Bool.not_true, Bool.false_eq_true, ↓reduceIte]
      rw [sort_by_pos_t _ _ hp (hw.filter _), List.filter_map, List.map_map]
      have e2 : l.zipIdx.filter ((fun tp : Int × Nat => (idx.measItems name).contains tp.2) ∘
            fun pi => (pi.1.time, pi.2))
          = l.zipIdx.filter (fun pi => pi.1.meas == name) := by
        apply List.filter_congr
        rintro ⟨p, i⟩ hi
        have hmem := List.mem_zipIdx hi
        simp at hmem
        simp only [Function.comp]
        rw [Bool.eq_iff_iff]
        simp only [List.contains_iff_mem, hitems, beq_iff_eq]
        constructor
        · rintro ⟨hi', e⟩; rw [hmem.2]; exact e
        · intro e; exact ⟨hmem.1, by rw [← hmem.2]; exact e⟩
      rw [e2]
      have := filter_zipIdx_map_t l (fun p => p.meas == name) (·.time)
      simp only [Option.all_some]
      have e3 : (fun p : Point => name == p.meas) = (fun p => p.meas == name) := by
        funext p; rw [Bool.eq_iff_iff]; simp only [beq_iff_eq]; exact eq_comm
      rw [e3, ← this]
      rfl
    · have hm' : idx.hasMeas name = false := by simpa using hm
      simp only [Index.getTimestamps, hm']
      simp only [Bool.not_false, ↓reduceIte]
      have hnil : idx.measItems name = [] := by
        unfold Index.hasMeas at hm'
        unfold Index.measItems PMap.posting
        cases hl : lookupAL name idx.meas with
        | none => rfl
        | some v => simp [hl] at hm'
      symm
      rw [List.map_eq_nil_iff, List.filter_eq_nil_iff]
      intro p hp
      obtain ⟨i, hi, rfl⟩ := List.mem_iff_getElem.mp hp
      simp only [Option.all_some, beq_iff_eq]
      intro e
      have := (hitems i).mpr ⟨hi, e.symm⟩
      rw [hnil] at this
      cases this

end TinyFlux.Model
