import TinyFlux.Lemmas.Search
/-! Generic list lemmas used by `Reads.lean` (agent D1): `filterM` in `Except`, counting the positions a
    Nodup index list denotes, sorting Nodup lists with the same members, `optStrLe` is a total order. -/
namespace TinyFlux.Model
open TinyFlux.Spec

/-! ## `filterM` with a predicate that never raises -/

theorem filterAuxM_ok {ε α : Type} (f : α → Except ε Bool) (g : α → Bool) (hf : ∀ x, f x = .ok (g x))
    (l acc : List α) : List.filterAuxM f l acc = .ok ((l.filter g).reverse ++ acc) := by
  induction l generalizing acc with
  | nil => simp [List.filterAuxM, pure, Except.pure]
  | cons a t ih =>
    simp only [List.filterAuxM, hf, bind, Except.bind]
    rw [ih]
    cases h : g a <;> simp [List.filter, h]

theorem filterM_ok {ε α : Type} (f : α → Except ε Bool) (g : α → Bool) (hf : ∀ x, f x = .ok (g x))
    (l : List α) : l.filterM f = .ok (l.filter g) := by
  simp [List.filterM, filterAuxM_ok f g hf, bind, Except.bind, pure, Except.pure]

/-! ## positions -/

/-- the positions of the elements satisfying `P` -/
def posOf {α : Type} (P : α → Bool) (l : List α) : List Nat := (l.zipIdx.filter (fun pi => P pi.1)).map (·.2)

theorem posOf_nodup {α : Type} (P : α → Bool) (l : List α) : (posOf P l).Nodup := by
  unfold posOf
  have h : (l.zipIdx.map (·.2)).Nodup := by
    rw [List.zipIdx_map_snd]; exact List.nodup_range' 1
  exact List.Nodup.sublist (List.Sublist.map _ List.filter_sublist) h

theorem mem_posOf {α : Type} (P : α → Bool) (l : List α) (i : Nat) :
    i ∈ posOf P l ↔ ∃ hi : i < l.length, P l[i] = true := by
  unfold posOf
  simp only [List.mem_map, List.mem_filter]
  constructor
  · rintro ⟨⟨x, j⟩, ⟨hmem, hp⟩, rfl⟩
    have := List.mem_zipIdx hmem
    simp at this
    exact ⟨this.1, by simpa [← this.2] using hp⟩
  · rintro ⟨hi, hp⟩
    refine ⟨(l[i], i), ⟨?_, hp⟩, rfl⟩
    rw [List.mk_mem_zipIdx_iff_getElem?]; simp [hi]

theorem posOf_length {α : Type} (P : α → Bool) (l : List α) : (posOf P l).length = (l.filter P).length := by
  unfold posOf
  have : l.filter P = (l.zipIdx.filter (P ∘ Prod.fst)).map Prod.fst := by
    rw [← List.filter_map, List.zipIdx_map_fst]
  rw [this]; simp; rfl

/-- a Nodup list of positions whose members are exactly the selected positions has as many elements as
    there are selected rows -/
theorem items_length {α : Type} (l : List α) (P : α → Bool) (items : List Nat) (hn : items.Nodup)
    (hm : ∀ i, i ∈ items ↔ ∃ hi : i < l.length, P l[i] = true) :
    items.length = (l.filter P).length := by
  rw [← posOf_length]
  apply List.Perm.length_eq
  rw [List.perm_ext_iff_of_nodup hn (posOf_nodup P l)]
  intro i; rw [hm, mem_posOf]

/-- `rowsAt`: the rows at the given positions, in storage order; the `take` cuts nothing -/
theorem rowsAt_eq_filter {α : Type} (l : List α) (P : α → Bool) (items : List Nat) (hn : items.Nodup)
    (hm : ∀ i, i ∈ items ↔ ∃ hi : i < l.length, P l[i] = true) :
    ((l.zipIdx.filter (fun pi => items.contains pi.2)).map (·.1)).take items.length = l.filter P := by
  have h1 : l.zipIdx.filter (fun pi => items.contains pi.2) = l.zipIdx.filter (P ∘ Prod.fst) := by
    apply List.filter_congr
    rintro ⟨x, j⟩ hmem
    have := List.mem_zipIdx hmem
    simp at this
    obtain ⟨hj, hx⟩ := this
    simp only [Function.comp]
    rw [Bool.eq_iff_iff, List.contains_iff_mem, hm]
    simp [hj, hx]
  have h2 : (l.zipIdx.filter (P ∘ Prod.fst)).map Prod.fst = l.filter P := by
    rw [← List.filter_map, List.zipIdx_map_fst]
  rw [h1, h2, items_length l P items hn hm]
  exact List.take_of_length_le (Nat.le_refl _)

/-! ## sorting Nodup lists with the same members -/

theorem mergeSort_congr {α : Type} (le : α → α → Bool)
    (htrans : ∀ a b c, le a b = true → le b c = true → le a c = true)
    (htotal : ∀ a b, (le a b || le b a) = true)
    (X Y : List α) (hanti : ∀ a b, a ∈ X → b ∈ X → le a b = true → le b a = true → a = b)
    (hx : X.Nodup) (hy : Y.Nodup) (hm : ∀ a, a ∈ X ↔ a ∈ Y) :
    X.mergeSort le = Y.mergeSort le := by
  have hp : X.Perm Y := (List.perm_ext_iff_of_nodup hx hy).2 hm
  have hp' : (X.mergeSort le).Perm (Y.mergeSort le) :=
    (List.mergeSort_perm X le).trans (hp.trans (List.mergeSort_perm Y le).symm)
  refine List.Perm.eq_of_pairwise (le := fun a b => le a b = true) ?_
    (List.pairwise_mergeSort htrans htotal X) (List.pairwise_mergeSort htrans htotal Y) hp'
  intro a b ha hb hab hba
  have ha' : a ∈ X := List.mem_mergeSort.1 ha
  have hb' : b ∈ X := (hm b).2 (List.mem_mergeSort.1 hb)
  exact hanti a b ha' hb' hab hba

theorem sortStr_congr (X Y : List String) (hx : X.Nodup) (hy : Y.Nodup) (hm : ∀ a, a ∈ X ↔ a ∈ Y) :
    sortStr X = sortStr Y := by
  unfold sortStr
  apply mergeSort_congr _ _ _ X Y _ hx hy hm
  · intro a b c h1 h2; simp only [decide_eq_true_eq] at *; exact String.le_trans h1 h2
  · intro a b; simp only [Bool.or_eq_true, decide_eq_true_eq]; exact String.le_total a b
  · intro a b _ _ h1 h2; simp only [decide_eq_true_eq] at *; exact String.le_antisymm h1 h2

theorem mem_sortStr (X : List String) (a : String) : a ∈ sortStr X ↔ a ∈ X := by
  unfold sortStr; exact List.mem_mergeSort

theorem nodup_sortStr (X : List String) (h : X.Nodup) : (sortStr X).Nodup :=
  (List.mergeSort_perm X _).nodup_iff.2 h

theorem optStrLe_trans (a b c : Option String) : optStrLe a b = true → optStrLe b c = true → optStrLe a c = true := by
  cases a <;> cases b <;> cases c <;> simp [optStrLe]
  exact String.le_trans

theorem optStrLe_total (a b : Option String) : (optStrLe a b || optStrLe b a) = true := by
  cases a <;> cases b <;> simp [optStrLe]
  exact String.le_total _ _

theorem optStrLe_antisymm (a b : Option String) : optStrLe a b = true → optStrLe b a = true → a = b := by
  cases a <;> cases b <;> simp [optStrLe]
  exact String.le_antisymm

theorem sortOpt_congr (X Y : List (Option String)) (hx : X.Nodup) (hy : Y.Nodup) (hm : ∀ a, a ∈ X ↔ a ∈ Y) :
    X.mergeSort optStrLe = Y.mergeSort optStrLe :=
  mergeSort_congr _ optStrLe_trans optStrLe_total X Y (fun a b _ _ => optStrLe_antisymm a b) hx hy hm

/-- association lists with unique keys and the same entries sort (by key) to the same list -/
theorem sortKeys_congr {V : Type} (X Y : List (String × V)) (hx : (X.map (·.1)).Nodup) (hy : (Y.map (·.1)).Nodup)
    (hm : ∀ a, a ∈ X ↔ a ∈ Y) :
    X.mergeSort (fun a b => decide (a.1 ≤ b.1)) = Y.mergeSort (fun a b => decide (a.1 ≤ b.1)) := by
  have nodup_of : ∀ Z : List (String × V), (Z.map (·.1)).Nodup → Z.Nodup := by
    intro Z hz
    rw [List.nodup_iff_pairwise_ne] at *
    rw [List.pairwise_map] at hz
    exact hz.imp (fun h e => h (by rw [e]))
  apply mergeSort_congr _ _ _ X Y _ (nodup_of X hx) (nodup_of Y hy) hm
  · intro a b c h1 h2; simp only [decide_eq_true_eq] at *; exact String.le_trans h1 h2
  · intro a b; simp only [Bool.or_eq_true, decide_eq_true_eq]; exact String.le_total _ _
  · intro a b ha hb h1 h2
    simp only [decide_eq_true_eq] at h1 h2
    have hk : a.1 = b.1 := String.le_antisymm h1 h2
    -- unique keys
    clear h1 h2 hm hy
    induction X with
    | nil => cases ha
    | cons x t ih =>
      simp only [List.map_cons, List.nodup_cons, List.mem_map, not_exists, not_and] at hx
      rcases List.mem_cons.1 ha with rfl | ha' <;> rcases List.mem_cons.1 hb with rfl | hb'
      · rfl
      · exact absurd hk.symm (hx.1 b hb')
      · exact absurd hk (hx.1 a ha')
      · exact ih hx.2 ha' hb'

/-! ## association lists -/

section AL
variable {K V : Type} [BEq K] [LawfulBEq K]

theorem mem_keysAL_alterAL (k : K) (d : V) (f : V → V) (acc : AL K V) (k' : K) :
    k' ∈ keysAL (alterAL k d f acc) ↔ k' ∈ keysAL acc ∨ k' = k := by
  induction acc with
  | nil => simp [alterAL, keysAL]
  | cons x t ih =>
    obtain ⟨k0, v⟩ := x
    simp only [alterAL]
    by_cases h : k0 = k
    · subst h; simp only [beq_self_eq_true, if_true, keysAL, List.map_cons, List.mem_cons]
      constructor
      · exact Or.inl
      · rintro (h | h)
        · exact h
        · exact Or.inl h
    · have hb : (k0 == k) = false := by simpa using h
      simp only [hb, Bool.false_eq_true, if_false]
      show k' ∈ k0 :: keysAL (alterAL k d f t) ↔ k' ∈ k0 :: keysAL t ∨ k' = k
      rw [List.mem_cons, List.mem_cons, ih, or_assoc]

theorem nodup_keysAL_alterAL (k : K) (d : V) (f : V → V) (acc : AL K V) (h : (keysAL acc).Nodup) :
    (keysAL (alterAL k d f acc)).Nodup := by
  induction acc with
  | nil => simp [alterAL, keysAL]
  | cons x t ih =>
    obtain ⟨k0, v⟩ := x
    simp only [alterAL]
    by_cases h0 : k0 = k
    · subst h0; simpa [keysAL] using h
    · have hb : (k0 == k) = false := by simpa using h0
      have h' : k0 ∉ keysAL t ∧ (keysAL t).Nodup := by simpa [keysAL] using h
      have hm := mem_keysAL_alterAL k d f t k0
      simp only [hb, Bool.false_eq_true, if_false]
      show (k0 :: keysAL (alterAL k d f t)).Nodup
      rw [List.nodup_cons]
      refine ⟨?_, ih h'.2⟩
      rw [hm]; rintro (h1 | h1)
      · exact h'.1 h1
      · exact h0 h1

theorem lookupAL_alterAL (k k' : K) (d : V) (f : V → V) (acc : AL K V) :
    lookupAL k' (alterAL k d f acc) =
      if k == k' then some (f ((lookupAL k acc).getD d)) else lookupAL k' acc := by
  induction acc with
  | nil => simp [alterAL, lookupAL]
  | cons x t ih =>
    obtain ⟨k0, v⟩ := x
    simp only [alterAL]
    by_cases h : k0 = k
    · subst h
      by_cases h2 : k0 = k' <;> simp [lookupAL, h2]
    · have hb : (k0 == k) = false := by simpa using h
      simp only [hb, Bool.false_eq_true, if_false, lookupAL, ih]
      by_cases h2 : k0 = k'
      · subst h2
        have : ¬ k = k0 := fun e => h e.symm
        simp [this]
      · simp [h2]

theorem mem_iff_lookupAL (acc : AL K V) (h : (keysAL acc).Nodup) (k : K) (v : V) :
    (k, v) ∈ acc ↔ lookupAL k acc = some v := by
  induction acc with
  | nil => simp [lookupAL]
  | cons x t ih =>
    obtain ⟨k0, v0⟩ := x
    simp only [keysAL, List.map_cons, List.nodup_cons, List.mem_map, not_exists, not_and] at h
    have ih' := ih h.2
    by_cases h2 : k0 = k
    · subst h2
      have : (k0, v) ∉ t := fun hm => h.1 (k0, v) hm rfl
      simp [lookupAL, this, eq_comm]
    · have h3 : ¬ k = k0 := fun e => h2 e.symm
      simp [lookupAL, h2, h3, ih']

omit [BEq K] [LawfulBEq K] in
theorem mem_keysAL_iff (acc : AL K V) (k : K) : k ∈ keysAL acc ↔ ∃ v, (k, v) ∈ acc := by
  simp [keysAL]

end AL

/-! ## the key ↦ set-of-values accumulation of `get_tag_values` -/

abbrev TV := AL String (List (Option String))

def addTV_r (acc : TV) (k : String) (v : Option String) : TV :=
  alterAL k [] (fun vs => if vs.contains v then vs else vs ++ [v]) acc

def valsAL_r (acc : TV) (k : String) : List (Option String) := (lookupAL k acc).getD []

theorem valsAL_addTV (acc : TV) (k : String) (v : Option String) (k' : String) :
    valsAL_r (addTV_r acc k v) k' =
      if k == k' then (if (valsAL_r acc k).contains v then valsAL_r acc k else valsAL_r acc k ++ [v])
      else valsAL_r acc k' := by
  unfold valsAL_r addTV_r
  rw [lookupAL_alterAL]
  split <;> simp

theorem mem_valsAL_addTV (acc : TV) (k : String) (v : Option String) (k' : String) (v' : Option String) :
    v' ∈ valsAL_r (addTV_r acc k v) k' ↔ v' ∈ valsAL_r acc k' ∨ (k = k' ∧ v' = v) := by
  rw [valsAL_addTV]
  by_cases h : k = k'
  · subst h
    by_cases hm : v ∈ valsAL_r acc k
    · simp only [beq_self_eq_true, if_true, List.contains_iff_mem.2 hm, true_and]
      constructor
      · exact Or.inl
      · rintro (h | rfl)
        · exact h
        · exact hm
    · have h2 : (valsAL_r acc k).contains v = false := by
        rw [Bool.eq_false_iff]; exact fun h => hm (List.contains_iff_mem.1 h)
      simp [hm]
  · simp [h]

theorem nodup_valsAL_addTV (acc : TV) (k : String) (v : Option String) (k' : String)
    (h : (valsAL_r acc k').Nodup) (hk : (valsAL_r acc k).Nodup) : (valsAL_r (addTV_r acc k v) k').Nodup := by
  rw [valsAL_addTV]
  by_cases h1 : k = k'
  · subst h1
    by_cases hm : v ∈ valsAL_r acc k
    · simpa [hm] using h
    · have h2 : (valsAL_r acc k).contains v = false := by
        rw [Bool.eq_false_iff]; exact fun h => hm (List.contains_iff_mem.1 h)
      simp only [beq_self_eq_true, if_true, h2, Bool.false_eq_true, if_false]
      rw [List.nodup_append]
      refine ⟨hk, by simp, ?_⟩
      intro a ha b hb
      simp at hb; subst hb
      intro e; subst e; exact hm ha
  · simpa [h1] using h

theorem mem_keys_addTV_r (acc : TV) (k : String) (v : Option String) (k' : String) :
    k' ∈ keysAL (addTV_r acc k v) ↔ k' ∈ keysAL acc ∨ k' = k := mem_keysAL_alterAL ..

theorem nodup_keys_addTV_r (acc : TV) (k : String) (v : Option String) (h : (keysAL acc).Nodup) :
    (keysAL (addTV_r acc k v)).Nodup := nodup_keysAL_alterAL _ _ _ _ h

theorem fold_addTV (L : List (String × Option String)) (init : TV) (hk : (keysAL init).Nodup)
    (hv : ∀ k, (valsAL_r init k).Nodup) :
    (keysAL (L.foldl (fun acc kv => addTV_r acc kv.1 kv.2) init)).Nodup ∧
    (∀ k, k ∈ keysAL (L.foldl (fun acc kv => addTV_r acc kv.1 kv.2) init) ↔ k ∈ keysAL init ∨ ∃ v, (k, v) ∈ L) ∧
    ∀ k, (valsAL_r (L.foldl (fun acc kv => addTV_r acc kv.1 kv.2) init) k).Nodup ∧
      ∀ v, v ∈ valsAL_r (L.foldl (fun acc kv => addTV_r acc kv.1 kv.2) init) k ↔ v ∈ valsAL_r init k ∨ (k, v) ∈ L := by
  induction L generalizing init with
  | nil => simp [hk, hv]
  | cons x L ih =>
    obtain ⟨k0, v0⟩ := x
    simp only [List.foldl_cons]
    obtain ⟨h1, h2, h3⟩ := ih (addTV_r init k0 v0) (nodup_keys_addTV_r init k0 v0 hk)
      (fun k => nodup_valsAL_addTV init k0 v0 k (hv k) (hv k0))
    refine ⟨h1, ?_, ?_⟩
    · intro k; rw [h2, mem_keys_addTV_r]
      simp only [List.mem_cons, Prod.mk.injEq]
      constructor
      · rintro ((h | rfl) | ⟨v, h⟩)
        · exact Or.inl h
        · exact Or.inr ⟨v0, Or.inl ⟨rfl, rfl⟩⟩
        · exact Or.inr ⟨v, Or.inr h⟩
      · rintro (h | ⟨v, (⟨rfl, rfl⟩ | h)⟩)
        · exact Or.inl (Or.inl h)
        · exact Or.inl (Or.inr rfl)
        · exact Or.inr ⟨v, h⟩
    · intro k
      refine ⟨(h3 k).1, ?_⟩
      intro v; rw [(h3 k).2, mem_valsAL_addTV]
      simp only [List.mem_cons, Prod.mk.injEq]
      constructor
      · rintro ((h | ⟨rfl, rfl⟩) | h)
        · exact Or.inl h
        · exact Or.inr (Or.inl ⟨rfl, rfl⟩)
        · exact Or.inr (Or.inr h)
      · rintro (h | ⟨rfl, rfl⟩ | h)
        · exact Or.inl (Or.inl h)
        · exact Or.inl (Or.inr ⟨rfl, rfl⟩)
        · exact Or.inr h

/-- what both paths of `get_tag_values` establish about the dict they return -/
def TVSpec (l : List Point) (keys : List String) (m : Option String) (R : TV) : Prop :=
  (keysAL R).Nodup ∧
  (∀ k, k ∈ keysAL R ↔
    (if keys.isEmpty then ∃ p ∈ l, m.all (· == p.meas) = true ∧ k ∈ p.tags.map (·.1) else k ∈ keys)) ∧
  ∀ k vs, (k, vs) ∈ R → vs.Nodup ∧
    ∀ v, v ∈ vs ↔ ∃ p ∈ l, m.all (· == p.meas) = true ∧ p.tags.lookup k = some v

theorem tagVals_canon (l : List Point) (keys : List String) (m : Option String) (R : TV)
    (h : TVSpec l keys m R) :
    canon (.tagVals (R.map (fun kv => (kv.1, kv.2.mergeSort optStrLe)))) =
      canon (.tagVals (tagValues l keys m)) := by
  obtain ⟨h1, h2, h3⟩ := h
  have hvals : ∀ k vs, (k, vs) ∈ R → vs.mergeSort optStrLe = tagValuesOf l m k := by
    intro k vs hmem
    obtain ⟨hn, hm⟩ := h3 k vs hmem
    unfold tagValuesOf
    apply sortOpt_congr _ _ hn (nodup_eraseDups _)
    intro v; rw [hm, List.mem_eraseDups]
    simp only [restrict, List.mem_filterMap, List.mem_filter, and_assoc]
  have hkeys : ∀ k, k ∈ keysAL R ↔
      k ∈ (if keys.isEmpty then tagKeys l m else sortStr keys.eraseDups) := by
    intro k; rw [h2]
    by_cases he : keys.isEmpty = true
    · rw [if_pos he, if_pos he]
      simp only [tagKeys, mem_sortStr, List.mem_eraseDups, restrict, List.mem_flatMap,
        List.mem_filter, and_assoc]
    · rw [if_neg he, if_neg he, mem_sortStr, List.mem_eraseDups]
  have hnd : (if keys.isEmpty then tagKeys l m else sortStr keys.eraseDups).Nodup := by
    split
    · exact nodup_sortStr _ (nodup_eraseDups _)
    · exact nodup_sortStr _ (nodup_eraseDups _)
  simp only [canon, tagValues]
  congr 1
  apply sortKeys_congr
  · simpa [List.map_map, keysAL, Function.comp_def] using h1
  · simpa [List.map_map, Function.comp_def] using hnd
  · rintro ⟨k, vs'⟩
    simp only [List.mem_map, Prod.mk.injEq]
    constructor
    · rintro ⟨⟨k1, vs⟩, hmem, rfl, rfl⟩
      exact ⟨k1, (hkeys k1).1 ((mem_keysAL_iff R k1).2 ⟨vs, hmem⟩), rfl, (hvals k1 vs hmem).symm⟩
    · rintro ⟨k1, hk, rfl, rfl⟩
      obtain ⟨vs, hmem⟩ := (mem_keysAL_iff R k1).1 ((hkeys k1).2 hk)
      exact ⟨(k1, vs), hmem, rfl, hvals k1 vs hmem⟩

end TinyFlux.Model
