import TinyFlux.Model.Codec
/-!
# Auxiliary lemmas for C05 (CSV row codec round trip)
-/
namespace TinyFlux.Lemmas.CodecLemmas
open TinyFlux.Spec TinyFlux.Model.Codec TinyFlux.Generated

/-! ## sniffing -/

theorem sniff_tag_key (c : Bool) (k : Str) :
    sniffTag (tagPre c ++ k) = some (some (tagPre c).length) := by
  cases c <;>
    simp [sniffTag, tagPre, tagSniff1, tagSniff2, defaultTagPrefix, compactTagPrefix] <;> rfl

theorem sniff_field_key_not_tag (c : Bool) (k : Str) : sniffTag (fieldPre c ++ k) = some none := by
  cases c <;>
    simp [sniffTag, fieldPre, tagSniff1, tagSniff2, defaultTagPrefix, compactTagPrefix,
      defaultFieldPrefix, compactFieldPrefix] <;> decide

theorem sniff_field_key (c : Bool) (k : Str) :
    sniffField (fieldPre c ++ k) = some (fieldPre c).length := by
  cases c <;>
    simp [sniffField, fieldPre, fieldSniff, fieldElsePrefix, defaultFieldPrefix, compactFieldPrefix]
      <;> decide


/-! ## the cells of a row -/

def tagValCell : Option String → Str
  | none => noneS
  | some v => v.toList

def fieldValCell (fc : FieldCodec) : Option Num → Str
  | none => noneS
  | some n => fc.repr n

def tagCells (c : Bool) (tags : List (String × Option String)) : List Str :=
  tags.flatMap (fun kv => [tagPre c ++ kv.1.toList, tagValCell kv.2])

def fieldCells (fc : FieldCodec) (c : Bool) (fields : List (String × Option Num)) : List Str :=
  fields.flatMap (fun kv => [fieldPre c ++ kv.1.toList, fieldValCell fc kv.2])

theorem serialize_eq (fc : FieldCodec) (tc : TimeCodec) (c : Bool) (p : Point) :
    serialize fc tc c p =
      tc.iso p.time :: (if measEmptyAsSentinel && p.meas.isEmpty then noneS else p.meas.toList) ::
        (tagCells c p.tags ++ fieldCells fc c p.fields) := by
  simp only [serialize, tagCells, fieldCells, List.cons_append, List.nil_append]
  rfl

theorem fieldCells_shape (fc : FieldCodec) (c : Bool) (fields : List (String × Option Num)) :
    fieldCells fc c fields = [] ∨ ∃ k v rest, fieldCells fc c fields = (fieldPre c ++ k) :: v :: rest := by
  cases fields with
  | nil => left; rfl
  | cons kv t => right; exact ⟨_, _, _, rfl⟩

/-! ## the tag loop -/

theorem parseTags_tagCells (c c' : Bool) (tags : List (String × Option String))
    (hv : ∀ kv ∈ tags, kv.2 ≠ some noneStr)
    (fcs : List Str)
    (hf : fcs = [] ∨ ∃ k v rest, fcs = (fieldPre c' ++ k) :: v :: rest) :
    parseTags (tagCells c tags ++ fcs)
      = some (tags.map (fun kv => (kv.1.toList, kv.2.map String.toList)), fcs) := by
  induction tags with
  | nil =>
    rcases hf with rfl | ⟨k, v, rest, rfl⟩
    · simp [tagCells, parseTags]
    · simp [tagCells, parseTags, sniff_field_key_not_tag]
  | cons kv t ih =>
    obtain ⟨k, v⟩ := kv
    have hvt : ∀ kv ∈ t, kv.2 ≠ some noneStr := fun kv h => hv kv (List.mem_cons_of_mem _ h)
    have ih' := ih hvt
    have e : tagCells c ((k, v) :: t) ++ fcs =
        (tagPre c ++ k.toList) :: tagValCell v ::
          (tagCells c t ++ fcs) := by
      simp [tagCells]
    rw [e, parseTags, sniff_tag_key, ih']
    have hvk := hv (k, v) List.mem_cons_self
    cases v with
    | none => simp [tagValCell]
    | some s =>
      have : s.toList ≠ noneS := fun e => hvk (by
        have : s = noneStr := String.toList_inj.mp e
        simp [this])
      simp [tagValCell, this]


/-! ## the field loop -/

theorem noneS_eq : noneS = ['_', 'n', 'o', 'n', 'e'] := by
  simp [noneS, noneStr]

theorem decodeField_noneS (fc : FieldCodec) (hs : SentinelNotNumber fc) :
    decodeField fc noneS = some none := by
  have hs' : fc.parse ['_', 'n', 'o', 'n', 'e'] = none := by rw [← noneS_eq]; exact hs
  rw [noneS_eq]
  simp [decodeField, hs', isDigits]

theorem decodeField_of (fc : FieldCodec) (v : Str) (r : Option Num) (h1 : v ≠ [])
    (h2 : isDigits v = false) (h3 : ¬ (∃ t, v = '-' :: t ∧ isDigits t = true))
    (hp : fc.parse v = r) : decodeField fc v = some r := by
  cases v with
  | nil => exact absurd rfl h1
  | cons c t =>
    have h3' : (c = '-' && isDigits t) = false := by
      cases hd : isDigits t
      · simp
      · by_cases hc : c = '-'
        · exact absurd ⟨t, by rw [hc], hd⟩ h3
        · simp [hc]
    simp only [decodeField, h2, hp]
    simp only [h3']
    cases r <;> simp

theorem parseFields_fieldCells (fc : FieldCodec) (hs : SentinelNotNumber fc) (c : Bool)
    (fields : List (String × Option Num))
    (hv : ∀ kv ∈ fields, ∀ n, kv.2 = some n →
      fc.parse (fc.repr n) = some n ∧ fc.repr n ≠ [] ∧ isDigits (fc.repr n) = false ∧
      ¬ (∃ t, fc.repr n = '-' :: t ∧ isDigits t = true)) :
    parseFields fc (fieldCells fc c fields) = some (fields.map (fun kv => (kv.1.toList, kv.2))) := by
  induction fields with
  | nil => simp [fieldCells, parseFields]
  | cons kv t ih =>
    obtain ⟨k, v⟩ := kv
    have ih' := ih (fun kv h => hv kv (List.mem_cons_of_mem _ h))
    have e : fieldCells fc c ((k, v) :: t) =
        (fieldPre c ++ k.toList) :: fieldValCell fc v :: fieldCells fc c t := rfl
    have hd : decodeField fc (fieldValCell fc v) = some v := by
      cases v with
      | none => exact decodeField_noneS fc hs
      | some n =>
        obtain ⟨a, b, c', d⟩ := hv (k, some n) List.mem_cons_self n rfl
        exact decodeField_of fc _ _ b c' d a
    rw [e, parseFields, sniff_field_key, hd, ih']
    simp


/-! ## dictionaries -/

theorem dictSet_of_not_mem {V : Type} (d : List (String × V)) (k : String) (v : V)
    (h : k ∉ d.map (·.1)) : dictSet d k v = d ++ [(k, v)] := by
  induction d with
  | nil => rfl
  | cons kv t ih =>
    obtain ⟨k', v'⟩ := kv
    simp only [List.map_cons, List.mem_cons, not_or] at h
    have hne : (k' == k) = false := by
      simp only [beq_eq_false_iff_ne, ne_eq]
      exact fun e => h.1 e.symm
    simp [dictSet, hne, ih h.2]

theorem foldl_dictSet_nodup {V : Type} (l : List (String × V)) (acc : List (String × V))
    (h : (acc.map (·.1) ++ l.map (·.1)).Nodup) :
    (l.map (fun kv => (kv.1.toList, kv.2))).foldl
        (fun d (kv : Str × V) => dictSet d (String.ofList kv.1) kv.2) acc = acc ++ l := by
  induction l generalizing acc with
  | nil => simp
  | cons kv t ih =>
    obtain ⟨k, v⟩ := kv
    have hk : k ∉ acc.map (·.1) := by
      intro hm
      rw [List.nodup_append] at h
      exact h.2.2 k hm k (by simp) rfl
    simp only [List.map_cons, List.foldl_cons, String.ofList_toList]
    rw [dictSet_of_not_mem acc k v hk, ih]
    · simp
    · simpa using h

theorem toDict_nodup {V : Type} (l : List (String × V)) (h : (l.map (·.1)).Nodup) :
    toDict (l.map (fun kv => (kv.1.toList, kv.2))) = l := by
  have := foldl_dictSet_nodup l [] (by simpa using h)
  simpa [toDict] using this

theorem toDict_tags (tags : List (String × Option String)) (h : (tags.map (·.1)).Nodup) :
    toDict ((tags.map (fun kv => (kv.1.toList, kv.2.map String.toList))).map
      (fun kv => (kv.1, kv.2.map String.ofList))) = tags := by
  have e : (tags.map (fun kv => (kv.1.toList, kv.2.map String.toList))).map
      (fun kv => (kv.1, kv.2.map String.ofList)) = tags.map (fun kv => (kv.1.toList, kv.2)) := by
    simp only [List.map_map]
    apply List.map_congr_left
    rintro ⟨k, v⟩ _
    cases v <;> simp
  rw [e, toDict_nodup tags h]

/-! ## the row -/

theorem deserialize_serialize (fc : FieldCodec) (tc : TimeCodec) (hs : SentinelNotNumber fc) (c : Bool)
    (p : Point) (hc : Codable fc tc p) :
    deserialize fc tc (serialize fc tc c p) = some p := by
  have hm : (measEmptyAsSentinel && p.meas.isEmpty) = false := by
    have := hc.measOk
    cases hg : measEmptyAsSentinel
    · rfl
    · cases h : p.meas.isEmpty
      · rfl
      · exact absurd (String.isEmpty_iff.mp h) (this hg)
  rw [serialize_eq, hm]
  simp only [deserialize, Bool.false_eq_true, if_false, hc.timeOk,
    parseTags_tagCells c c p.tags hc.tagVals _ (fieldCells_shape fc c p.fields),
    parseFields_fieldCells fc hs c p.fields hc.fieldVals, toDict_tags p.tags hc.tagKeys,
    toDict_nodup p.fields hc.fieldKeys, String.ofList_toList]

end TinyFlux.Lemmas.CodecLemmas
