import TinyFlux.Lemmas.Refinement
import TinyFlux.Lemmas.IOLemmas
import TinyFlux.Model.IOSteps
/-!
# Helpers for `IOOps.lean`: shapes of the step lists of the write operations, and atomicity of each shape
-/
namespace TinyFlux.Model
open TinyFlux.Spec TinyFlux.Model.IO

namespace IOOpsAux

variable {R : Type}

/-! ## steps that put nothing into the primary handle's buffer -/

def noPW : Step R → Bool
  | .pWrite _ => false
  | _ => true

theorem noPW_of_safe {s : Step R} (h : s.safe = true) : noPW s = true := by
  cases s <;> simp_all [Step.safe, noPW]

theorem exec_noPW (fs : FS R) (s : Step R) (hs : noPW s = true) (hp : fs.pendP = []) :
    (exec fs s).pendP = [] := by
  cases s <;> simp_all [noPW, exec]
  all_goals (split <;> simp_all)

theorem run_noPW (fs : FS R) (l : List (Step R)) (hl : ∀ s ∈ l, noPW s = true) (hp : fs.pendP = []) :
    (run fs l).pendP = [] := by
  induction l generalizing fs with
  | nil => simpa using hp
  | cons s t ih =>
    simp only [run_cons]
    exact ih _ (fun x hx => hl x (by simp [hx])) (exec_noPW fs s (hl s (by simp)) hp)

theorem run_noPW_take (fs : FS R) (l : List (Step R)) (hl : ∀ s ∈ l, noPW s = true) (hp : fs.pendP = [])
    (k : Nat) : (run fs (l.take k)).pendP = [] :=
  run_noPW fs _ (fun s hs => hl s (List.mem_of_mem_take hs)) hp

theorem tailSteps_noPW (rebuild : Bool) : ∀ s ∈ (tailSteps rebuild : List (Step R)), noPW s = true := by
  have h : (tailSteps rebuild : List (Step R)).all noPW = true := by cases rebuild <;> rfl
  exact fun s hs => List.all_eq_true.mp h s hs

theorem rewriteSteps_noPW (flush : Bool) (rows : List (Option R)) (rebuild : Bool) :
    ∀ s ∈ rewriteSteps flush rows rebuild, noPW s = true := by
  intro s hs
  rw [rewriteSteps_eq, List.mem_append] at hs
  rcases hs with h | h
  · exact noPW_of_safe (staging_safe flush rows s h)
  · exact tailSteps_noPW rebuild s h

theorem resetInTempSteps_noPW (flush : Bool) (rows : List (Option R)) (scanned : Bool) :
    ∀ s ∈ resetInTempSteps flush rows scanned, noPW s = true := by
  intro s hs
  rw [resetInTempSteps_eq, List.mem_append] at hs
  rcases hs with h | h
  · exact noPW_of_safe (scannedPart_safe flush rows scanned s h)
  · have h' : ([.pSeek0, .pTruncate, .tClose, .tUnlink] : List (Step R)).all noPW = true := rfl
    exact List.all_eq_true.mp h' s h

/-! ## read-only steps -/

def readOnly : Step R → Bool
  | .pSeek0 | .pRead => true
  | _ => false

theorem safe_of_readOnly {s : Step R} (h : readOnly s = true) : s.safe = true := by
  cases s <;> simp_all [Step.safe, readOnly]

theorem exec_readOnly (fs : FS R) (s : Step R) (hs : readOnly s = true) (hq : Quiet fs) :
    (exec fs s).primary = fs.primary ∧ Quiet (exec fs s) := by
  obtain ⟨a, b, c⟩ := hq
  cases s <;> simp [readOnly] at hs
  · exact ⟨by simp [exec, a], ⟨by simp [exec], by simp [exec, b], by simp [exec, c]⟩⟩
  · exact ⟨rfl, ⟨a, b, c⟩⟩

theorem run_readOnly (fs : FS R) (l : List (Step R)) (hl : ∀ s ∈ l, readOnly s = true) (hq : Quiet fs) :
    (run fs l).primary = fs.primary ∧ Quiet (run fs l) := by
  induction l generalizing fs with
  | nil => exact ⟨rfl, hq⟩
  | cons s t ih =>
    obtain ⟨h1, h2⟩ := exec_readOnly fs s (hl s (by simp)) hq
    obtain ⟨h3, h4⟩ := ih (exec fs s) (fun x hx => hl x (by simp [hx])) h2
    simp only [run_cons]
    exact ⟨h3.trans h1, h4⟩

/-! ## atomic step lists -/

/-- from a settled file holding `old`: the complete list leaves a settled file holding `new`; every
    prefix leaves the file holding `old` or `new` with nothing buffered in the primary handle -/
def Atomic (L : List (Step R)) (old new : List R) : Prop :=
  ∀ fs : FS R, fs.primary = old → Quiet fs →
    ((run fs L).primary = new ∧ Quiet (run fs L)) ∧
    ∀ k, ((run fs (L.take k)).primary = old ∨ (run fs (L.take k)).primary = new) ∧
         (run fs (L.take k)).pendP = []

theorem atomic_nil (old : List R) : Atomic ([] : List (Step R)) old old := by
  intro fs h1 hq
  exact ⟨⟨h1, hq⟩, fun k => ⟨Or.inl (by simpa using h1), by simpa using hq.noPend⟩⟩

theorem atomic_readOnly_append (P L : List (Step R)) (old new : List R)
    (hP : ∀ s ∈ P, readOnly s = true) (h : Atomic L old new) : Atomic (P ++ L) old new := by
  intro fs h1 hq
  obtain ⟨hp, hq'⟩ := run_readOnly fs P hP hq
  obtain ⟨hfull, hpre⟩ := h (run fs P) (hp.trans h1) hq'
  refine ⟨by rw [run_append]; exact hfull, fun k => ?_⟩
  rcases take_append_cases P L k with e | ⟨j, e⟩ <;> rw [e]
  · obtain ⟨a, b⟩ := run_readOnly fs (P.take k) (fun s hs => hP s (List.mem_of_mem_take hs)) hq
    exact ⟨Or.inl (a.trans h1), b.noPend⟩
  · rw [run_append]; exact hpre j

theorem atomic_readOnly (P : List (Step R)) (old : List R) (hP : ∀ s ∈ P, readOnly s = true) :
    Atomic P old old := by
  have := atomic_readOnly_append P [] old old hP (atomic_nil old)
  simpa using this

theorem atomic_noop (L : List (Step R)) (old : List R) (hL : ∀ s ∈ L, s.safe = true) :
    Atomic (L ++ [.tClose, .tUnlink]) old old := by
  have hall : ∀ s ∈ L ++ [Step.tClose, Step.tUnlink], s.safe = true := by
    intro s hs
    rcases List.mem_append.mp hs with h | h
    · exact hL s h
    · simp at h; rcases h with h | h <;> subst h <;> rfl
  intro fs h1 hq
  refine ⟨?_, fun k => ?_⟩
  · obtain ⟨a, b⟩ := run_safe fs _ hall hq.noPend
    refine ⟨a.trans h1, ⟨b, ?_, ?_⟩⟩
    · rw [run_append]; exact (run_cleanup _).2.2.1
    · rw [run_append]; exact (run_cleanup _).2.2.2
  · obtain ⟨a, b⟩ := run_safe_take fs _ hall hq.noPend k
    exact ⟨Or.inl (a.trans h1), b⟩

theorem atomic_rewrite (flush : Bool) (rows : List (Option R)) (rebuild : Bool) (old : List R) :
    Atomic (rewriteSteps flush rows rebuild) old (newRows rows) := by
  intro fs h1 hq
  refine ⟨?_, fun k => ⟨?_, run_noPW_take fs _ (rewriteSteps_noPW flush rows rebuild) hq.noPend k⟩⟩
  · obtain ⟨a, b, c, d, _⟩ := rewrite_full fs flush rows rebuild
    exact ⟨a, ⟨b, c, d⟩⟩
  · rw [← h1]; exact rewrite_prefix fs hq.noPend flush rows rebuild k

theorem atomic_resetInTemp (flush : Bool) (rows : List (Option R)) (scanned : Bool) (old : List R) :
    Atomic (resetInTempSteps flush rows scanned) old [] := by
  intro fs h1 hq
  refine ⟨?_, fun k => ⟨?_, run_noPW_take fs _ (resetInTempSteps_noPW flush rows scanned) hq.noPend k⟩⟩
  · obtain ⟨a, b, c, d⟩ := resetInTemp_full fs flush rows scanned
    exact ⟨a, ⟨b, c, d⟩⟩
  · rw [← h1]; exact resetInTemp_prefix fs hq.noPend flush rows scanned k

theorem atomic_reset (old : List R) : Atomic (resetSteps : List (Step R)) old [] := by
  intro fs h1 hq
  refine ⟨?_, fun k => ?_⟩
  · obtain ⟨a, b, c⟩ := hq
    exact ⟨by simp [resetSteps, exec], ⟨by simp [resetSteps, exec], by simp [resetSteps, exec, b],
      by simp [resetSteps, exec, c]⟩⟩
  · rw [← h1]; exact resetSteps_prefix fs hq.noPend k

/-! ## shapes of the step lists of remove / update -/

/-- the calls of a remove / update (after the `read_op` part): a discarded temp file (no-op), a reset
    inside a temp-storage operation, or a rewrite — the last two only with a non-zero count -/
def Shape (flush : Bool) (X : List (Step Point)) (old new : List Point) (out : Out) : Prop :=
  (∃ L, X = L ++ [.tClose, .tUnlink] ∧ (∀ st ∈ L, st.safe = true) ∧ new = old) ∨
  (∃ rows scanned n, X = resetInTempSteps flush rows scanned ∧ new = [] ∧ out = .nat n ∧ n ≠ 0) ∨
  (∃ rows rb n, X = rewriteSteps flush rows rb ∧ new = newRows rows ∧ out = .nat n ∧ n ≠ 0)

theorem Shape.atomic {flush : Bool} {X : List (Step Point)} {old new : List Point} {out : Out}
    (h : Shape flush X old new out) : Atomic X old new := by
  rcases h with ⟨L, rfl, hL, rfl⟩ | ⟨rows, sc, n, rfl, rfl, _, _⟩ | ⟨rows, rb, n, rfl, rfl, _, _⟩
  · exact atomic_noop L _ hL
  · exact atomic_resetInTemp flush rows sc old
  · exact atomic_rewrite flush rows rb old

theorem Shape.no_mutation {flush : Bool} {X : List (Step Point)} {old new : List Point} {out : Out}
    (h : Shape flush X old new out) (hout : out = .nat 0 ∨ ∃ e, out = .err e) :
    ∀ st ∈ X, st.mutatesPrimary = false := by
  rcases h with ⟨L, rfl, hL, _⟩ | ⟨rows, sc, n, _, _, rfl, hn⟩ | ⟨rows, rb, n, _, _, rfl, hn⟩
  · intro st hst
    apply Step.not_mutates_of_safe
    rcases List.mem_append.mp hst with h | h
    · exact hL st h
    · simp at h; rcases h with h | h <;> subst h <;> rfl
  · rcases hout with h | ⟨e, h⟩
    · exact absurd (Out.nat.inj h) hn
    · cases h
  · rcases hout with h | ⟨e, h⟩
    · exact absurd (Out.nat.inj h) hn
    · cases h

theorem shape_noopRewrite (flush : Bool) (rows : List (Option Point)) (scanned : Bool) (old : List Point)
    (out : Out) : Shape flush (noopRewriteSteps flush rows scanned) old old out :=
  Or.inl ⟨_, rfl, scannedPart_safe flush rows scanned, rfl⟩

theorem shape_noop3 (flush : Bool) (old : List Point) (out : Out) :
    Shape flush [.tCreate, .tClose, .tUnlink] old old out :=
  Or.inl ⟨[.tCreate], rfl, by simp [Step.safe], rfl⟩

theorem shape_noopStream (flush : Bool) (stream : List (Step Point)) (hs : ∀ st ∈ stream, st.safe = true)
    (old : List Point) (out : Out) :
    Shape flush ([.tCreate, .pSeek0] ++ stream ++ [.tClose, .tUnlink]) old old out := by
  refine Or.inl ⟨[.tCreate, .pSeek0] ++ stream, rfl, ?_, rfl⟩
  intro st hst
  simp only [List.mem_append, List.mem_cons, List.not_mem_nil, or_false] at hst
  rcases hst with (h | h) | h
  · subst h; rfl
  · subst h; rfl
  · exact hs st h

/-! ### remove -/

/-- the rows of the streaming loop of a remove: `none` = dropped -/
def selRows (sel : Point → Bool) (l : List Point) : List (Option Point) :=
  l.map (fun p => if sel p then none else some p)

theorem selRows_index (l : List Point) (sel : Point → Bool) (items : List Nat)
    (hmem : ∀ i, i ∈ items ↔ ∃ hi : i < l.length, sel l[i] = true) :
    l.zipIdx.map (fun pi => if items.contains pi.2 then none else some pi.1) = selRows sel l := by
  have := congrArg (List.map (fun pb : Point × Bool => if pb.2 then none else some pb.1))
    (Writes.rows_index l sel items hmem)
  simpa [List.map_map, Function.comp_def, selRows] using this

theorem selRows_scan (l : List Point) (sel : Point → Bool) :
    (l.zip (l.map sel)).map (fun pf => if pf.2 then none else some pf.1) = selRows sel l := by
  rw [Writes.rows_scan]
  simp [List.map_map, Function.comp_def, selRows]

theorem newRows_selRows (sel : Point → Bool) (l : List Point) :
    newRows (selRows sel l) = l.filter (fun p => !sel p) := by
  induction l with
  | nil => rfl
  | cons x t ih =>
    simp only [newRows, selRows] at ih ⊢
    cases h : sel x <;> simp [h, ih]

theorem selRows_allSome (sel : Point → Bool) (l : List Point) :
    (selRows sel l).all Option.isSome = true ↔ ∀ p ∈ l, sel p = false := by
  simp only [selRows, List.all_map, List.all_eq_true, Function.comp_def]
  constructor <;> intro h p hp <;> have := h p hp <;> cases hs : sel p <;> simp_all

theorem selRows_allNone (sel : Point → Bool) (l : List Point) :
    (selRows sel l).all Option.isNone = true ↔ ∀ p ∈ l, sel p = true := by
  simp only [selRows, List.all_map, List.all_eq_true, Function.comp_def]
  constructor <;> intro h p hp <;> have := h p hp <;> cases hs : sel p <;> simp_all

theorem shape_rows (flush : Bool) (sel : Point → Bool) (l : List Point) :
    Shape flush
      (if (selRows sel l).all Option.isSome then noopRewriteSteps flush (selRows sel l) true
       else if (selRows sel l).all Option.isNone then resetInTempSteps flush (selRows sel l) true
       else rewriteSteps flush (selRows sel l) false)
      l (l.filter (fun p => !sel p)) (.nat (l.filter sel).length) := by
  by_cases h1 : (selRows sel l).all Option.isSome = true
  · rw [if_pos h1]
    have h := (selRows_allSome sel l).mp h1
    have : l.filter (fun p => !sel p) = l := List.filter_eq_self.mpr (fun p hp => by simp [h p hp])
    rw [this]
    exact shape_noopRewrite flush _ true l _
  · rw [if_neg h1]
    have hn : (l.filter sel).length ≠ 0 := by
      intro h0
      apply h1
      rw [selRows_allSome]
      intro p hp
      cases hs : sel p
      · rfl
      · have : p ∈ l.filter sel := List.mem_filter.mpr ⟨hp, hs⟩
        rw [List.eq_nil_of_length_eq_zero h0] at this
        cases this
    by_cases h2 : (selRows sel l).all Option.isNone = true
    · rw [if_pos h2]
      have h := (selRows_allNone sel l).mp h2
      exact Or.inr (Or.inl ⟨_, _, _, rfl,
        List.filter_eq_nil_iff.mpr (fun p hp => by simp [h p hp]), rfl, hn⟩)
    · rw [if_neg h2]
      exact Or.inr (Or.inr ⟨_, _, _, rfl, (newRows_selRows sel l).symm, rfl, hn⟩)

/-- the part of `removeSteps` after the `read_op` reads -/
def removeBody (s : State) (flush : Bool) (q : Query) (m : Option String) : List (Step RowId) :=
  if s.index.valid && exact q then
    match s.indexSearch q m with
    | .error _ => noopRewriteSteps flush [] false
    | .ok items =>
      if items.isEmpty then noopRewriteSteps flush [] false
      else if items.length == s.index.numItems then resetInTempSteps flush [] false
      else
        let rows := s.storage.zipIdx.map (fun pi => if items.contains pi.2 then none else some pi.1)
        if rows.all Option.isSome then noopRewriteSteps flush rows true
        else if rows.all Option.isNone then resetInTempSteps flush rows true
        else rewriteSteps flush rows false
  else
    match s.storage.mapM (State.scanSel q m) with
    | .error _ => noopRewriteSteps flush [] false
    | .ok flags =>
      let rows := (s.storage.zip flags).map (fun pf => if pf.2 then none else some pf.1)
      if rows.all Option.isSome then noopRewriteSteps flush rows true
      else if rows.all Option.isNone then resetInTempSteps flush rows true
      else rewriteSteps flush rows false

theorem removeSteps_eq (s0 : State) (flush : Bool) (q : Query) (m : Option String) :
    removeSteps s0 flush q m = reindexSteps s0 ++ removeBody s0.readOp flush q m := rfl

theorem removeBody_shape (s : State) (hs : Inv s) (flush : Bool) (q : Query) (m : Option String)
    (hm : m ≠ some "") :
    Shape flush (removeBody s flush q m) s.storage (s.storage.filter (fun p => !selected q m p))
      (.nat (s.storage.filter (selected q m)).length) := by
  unfold removeBody
  by_cases h : (s.index.valid && exact q) = true
  · rw [if_pos h]
    have h' := h
    simp only [Bool.and_eq_true] at h'
    obtain ⟨items, hi, hnd, hmem⟩ := Writes.indexSearch_spec s hs h'.1 q h'.2 m hm
    have hcount := Writes.items_length s.storage (selected q m) items hnd hmem
    rw [hi]
    dsimp only
    by_cases h1 : items.isEmpty = true
    · rw [if_pos h1]
      have : items = [] := by simpa using h1
      rw [this] at hcount
      rw [Writes.filter_not_of_none _ _ hcount.symm]
      exact shape_noopRewrite flush _ _ _ _
    · rw [if_neg h1]
      have hn : (s.storage.filter (selected q m)).length ≠ 0 := by
        rw [← hcount]
        intro h0
        exact h1 (by simp [List.eq_nil_of_length_eq_zero h0])
      by_cases h2 : (items.length == s.index.numItems) = true
      · rw [if_pos h2]
        have h2' : items.length = s.storage.length := by
          rw [← (hs.rep h'.1).num]; simpa using h2
        exact Or.inr (Or.inl ⟨_, _, _, rfl, Writes.filter_not_of_all _ _ (hcount ▸ h2'), rfl, hn⟩)
      · rw [if_neg h2, selRows_index _ _ _ hmem]
        exact shape_rows flush _ _
  · rw [if_neg h, Writes.mapM_scanSel _ q m hm]
    dsimp only
    rw [selRows_scan]
    exact shape_rows flush _ _

theorem remove_shape (s0 : State) (hs : Inv s0) (flush : Bool) (q : Query) (m : Option String)
    (hm : m ≠ some "") :
    Shape flush (removeBody s0.readOp flush q m) s0.storage
      (match s0.readOp.removeHelper q m with
        | .ok (s', n) => (s', Out.nat n)
        | .error e => (s0.readOp, Out.err (excToErr e))).1.storage
      (match s0.readOp.removeHelper q m with
        | .ok (s', n) => (s', Out.nat n)
        | .error e => (s0.readOp, Out.err (excToErr e))).2 := by
  obtain ⟨r1, r2, r3, r4, _⟩ := readOp_spec s0 hs
  obtain ⟨s', e1, e2, _, _⟩ := Writes.removeHelper_spec s0.readOp r1 (fun ha => r4 (r3 ▸ ha)) q m hm
  have := removeBody_shape s0.readOp r1 flush q m hm
  rw [e1]
  dsimp only
  rw [e2]
  rw [r2] at this ⊢
  exact this

/-! ### update -/

theorem updateStream_safe (norm : Point → Point) (flush : Bool) (u : Upd) (rows : List (Point × Bool)) :
    ∀ st ∈ (updateStream norm flush u rows).1, st.safe = true := by
  induction rows with
  | nil => intro st h; simp [updateStream] at h; subst h; rfl
  | cons r t ih =>
    obtain ⟨p, b⟩ := r
    cases b
    · rcases hst : updateStream norm flush u t with ⟨r, ok⟩
      rw [hst] at ih
      simp only [updateStream, hst]
      intro st h
      simp only [List.mem_cons, List.mem_append] at h
      rcases h with (h | h) | h
      · subst h; rfl
      · exact Step.safe_of_tempSide (stageRow_tempSide flush _ st h)
      · exact ih st h
    · cases hu : upd u p with
      | error e => intro st h; simp [updateStream, hu] at h; subst h; rfl
      | ok p' =>
        rcases hst : updateStream norm flush u t with ⟨r, ok⟩
        rw [hst] at ih
        simp only [updateStream, hu, hst]
        intro st h
        simp only [List.mem_cons, List.mem_append] at h
        rcases h with (h | h) | h
        · subst h; rfl
        · exact Step.safe_of_tempSide (stageRow_tempSide flush _ st h)
        · exact ih st h

/-- when the rewrite loop succeeds, the stream is the streaming loop over the new rows -/
theorem updateStream_ok (norm : Point → Point) (flush : Bool) (u : Upd) (rows : List (Point × Bool)) :
    ∀ l c, State.updateLoop norm u rows = .ok (l, c) →
      updateStream norm flush u rows = (streamSteps flush (l.map some), true) := by
  induction rows with
  | nil =>
    intro l c h
    simp only [State.updateLoop, pure, Except.pure, Except.ok.injEq, Prod.mk.injEq] at h
    obtain ⟨rfl, _⟩ := h
    rfl
  | cons r t ih =>
    intro l c h
    obtain ⟨p, b⟩ := r
    cases b
    · simp only [State.updateLoop, bind, Except.bind] at h
      cases ht : State.updateLoop norm u t with
      | error e => rw [ht] at h; cases h
      | ok lc =>
        obtain ⟨l', c'⟩ := lc
        rw [ht] at h
        simp only [pure, Except.pure, Except.ok.injEq, Prod.mk.injEq] at h
        obtain ⟨rfl, _⟩ := h
        simp only [updateStream, ih l' c' ht, List.map_cons, streamSteps]
    · simp only [State.updateLoop, bind, Except.bind] at h
      cases hu : upd u p with
      | error e => rw [hu] at h; cases h
      | ok p' =>
        rw [hu] at h
        simp only at h
        cases ht : State.updateLoop norm u t with
        | error e => rw [ht] at h; cases h
        | ok lc =>
          obtain ⟨l', c'⟩ := lc
          rw [ht] at h
          simp only at h
          cases he : p'.eqv p <;> rw [he] at h <;>
            simp only [pure, Except.pure, Except.ok.injEq, Prod.mk.injEq, if_true, Bool.false_eq_true,
              if_false] at h <;> obtain ⟨rfl, _⟩ := h <;>
            simp [updateStream, hu, ih l' c' ht, he, streamSteps]

theorem newRows_map_some (l : List Point) : newRows (l.map some) = l := by
  simp [newRows, List.filterMap_map]

/-- the part of `updateSteps` after the `read_op` reads -/
def updateBody (s : State) (flush : Bool) (all : Bool) (q : Query) (u : Upd) (m : Option String) :
    List (Step RowId) :=
  if Spec.updEmpty u then [.tCreate, .tClose, .tUnlink] else
  match s.updateSel all q m with
  | .error _ => [.tCreate, .tClose, .tUnlink]
  | .ok none => [.tCreate, .tClose, .tUnlink]
  | .ok (some rows) =>
    let (stream, ok) := updateStream s.cfg.norm flush u rows
    if !ok then [.tCreate, .pSeek0] ++ stream ++ [.tClose, .tUnlink]
    else
      match State.updateLoop s.cfg.norm u rows with
      | .error _ => [.tCreate, .pSeek0] ++ stream ++ [.tClose, .tUnlink]
      | .ok (_, c) =>
        if c == 0 then [.tCreate, .pSeek0] ++ stream ++ [.tClose, .tUnlink]
        else [.tCreate, .pSeek0] ++ stream ++ swapSteps ++ (if s.cfg.autoIndex then scanSteps else []) ++ [.tClose]

theorem updateSteps_eq (s0 : State) (flush : Bool) (all : Bool) (q : Query) (u : Upd) (m : Option String) :
    updateSteps s0 flush all q u m = reindexSteps s0 ++ updateBody s0.readOp flush all q u m := rfl

theorem updateBody_shape (s : State) (flush : Bool) (all : Bool) (q : Query) (u : Upd) (m : Option String) :
    Shape flush (updateBody s flush all q u m) s.storage (s.updateHelper all q u m).1.storage
      (s.updateHelper all q u m).2 := by
  unfold updateBody State.updateHelper
  by_cases he : updEmpty u = true
  · simp only [he, if_true]
    exact shape_noop3 flush _ _
  · simp only [he, Bool.false_eq_true, if_false]
    cases hsel : s.updateSel all q m with
    | error e => exact shape_noop3 flush _ _
    | ok o =>
      cases o with
      | none => exact shape_noop3 flush _ _
      | some rows =>
        dsimp only
        cases hl : State.updateLoop s.cfg.norm u rows with
        | error e =>
          have hsafe := updateStream_safe s.cfg.norm flush u rows
          rcases hst : updateStream s.cfg.norm flush u rows with ⟨stream, ok⟩
          rw [hst] at hsafe
          dsimp only
          split <;> exact shape_noopStream flush stream hsafe _ _
        | ok lc =>
          obtain ⟨l, c⟩ := lc
          rw [updateStream_ok _ flush _ _ l c hl]
          dsimp only
          by_cases hc : (c == 0) = true
          · simp only [hc, Bool.not_true, Bool.false_eq_true, if_false, if_true]
            exact shape_noopStream flush _ (streamSteps_safe flush _) _ _
          · simp only [hc, Bool.not_true, Bool.false_eq_true, if_false]
            exact Or.inr (Or.inr ⟨l.map some, s.cfg.autoIndex, c, rfl, (newRows_map_some l).symm, rfl,
              by simpa using hc⟩)

/-! ### every remove / drop / update -/

theorem reindexSteps_readOnly (s : State) : ∀ st ∈ reindexSteps s, readOnly st = true := by
  unfold reindexSteps
  split <;> simp [scanSteps, readOnly]

theorem readOp_storage (s : State) : s.readOp.storage = s.storage := by
  unfold State.readOp; split <;> rfl

theorem write_shape (s : State) (hs : Inv s) (flush : Bool) (op : Op)
    (hop : (∃ q m, op = .remove q m) ∨ (∃ n, op = .drop n) ∨ (∃ a q u m, op = .update a q u m))
    (hm : MeasOK op) :
    ∃ X, opSteps s flush op = reindexSteps s ++ X ∧
      Shape flush X s.storage (s.step op).1.storage (s.step op).2 := by
  rcases hop with ⟨q, m, rfl⟩ | ⟨n, rfl⟩ | ⟨a, q, u, m, rfl⟩
  · exact ⟨_, removeSteps_eq s flush q m, remove_shape s hs flush q m hm⟩
  · exact ⟨_, removeSteps_eq s flush _ _, remove_shape s hs flush _ (some n) (by simpa [MeasOK] using hm)⟩
  · refine ⟨_, updateSteps_eq s flush a q u m, ?_⟩
    have := updateBody_shape s.readOp flush a q u m
    rw [readOp_storage] at this
    exact this

/-! ## insert -/

theorem insertLoop_storage (m : Option String) (pts : List (Option Point)) :
    ∀ (s : State) (c : Nat),
      (State.insertLoop s m pts c).1.storage = s.storage ++ insertedRows s.cfg m pts := by
  induction pts with
  | nil => intro s c; simp [State.insertLoop, insertedRows]
  | cons x t ih =>
    intro s c
    cases x with
    | none => simp [State.insertLoop, insertedRows]
    | some p =>
      rw [Writes.insertLoop_cons, ih, Writes.insertStep_storage, Writes.insertStep_cfg, List.append_assoc]
      rfl

theorem insertedRows_storage (s : State) (pts : List (Option Point)) (m : Option String) :
    (s.step (.insert pts m)).1.storage = s.storage ++ insertedRows s.cfg m pts := by
  have := insertLoop_storage m pts s 0
  simp only [State.step, State.insertOp]
  generalize State.insertLoop s m pts 0 = r at *
  obtain ⟨s', c, e⟩ := r
  simp only [apply_ite State.storage, ite_self]
  exact this

/-! ## reads -/

theorem read_op_steps_readOnly (s : State) (flush : Bool) (op : Op) (hr : isRead op = true) :
    ∀ st ∈ opSteps s flush op, readOnly st = true := by
  have h1 := reindexSteps_readOnly s
  have h2 : ∀ st ∈ (scanSteps : List (Step RowId)), readOnly st = true := by simp [scanSteps, readOnly]
  have h3 : ∀ st ∈ ([] : List (Step RowId)), readOnly st = true := by simp
  have happ : ∀ A B : List (Step RowId), (∀ st ∈ A, readOnly st = true) → (∀ st ∈ B, readOnly st = true) →
      ∀ st ∈ A ++ B, readOnly st = true := by
    intro A B hA hB st hst
    rcases List.mem_append.mp hst with h | h
    · exact hA st h
    · exact hB st h
  cases op <;> simp [isRead] at hr <;> simp only [opSteps] <;>
    first
      | exact h2
      | (split <;> first | exact h2 | exact h3)
      | (apply happ _ _ h1; first | exact h2 | (split <;> first | exact h2 | exact h3))

/-- every operation except insert is atomic on the file -/
theorem op_atomic (s : State) (hs : Inv s) (op : Op) (hm : MeasOK op)
    (hni : ∀ pts m, op ≠ .insert pts m) :
    Atomic (opSteps s true op) s.storage (s.step op).1.storage := by
  by_cases hr : isRead op = true
  · rw [(step_read_refines s hs op hr hm).2.1]
    exact atomic_readOnly _ _ (read_op_steps_readOnly s true op hr)
  · have hw : ∀ (hop : (∃ q m, op = .remove q m) ∨ (∃ n, op = .drop n) ∨ (∃ a q u m, op = .update a q u m)),
        Atomic (opSteps s true op) s.storage (s.step op).1.storage := by
      intro hop
      obtain ⟨X, e, hX⟩ := write_shape s hs true op hop hm
      rw [e]
      exact atomic_readOnly_append _ _ _ _ (reindexSteps_readOnly s) hX.atomic
    cases op with
    | insert pts m => exact absurd rfl (hni pts m)
    | remove q m => exact hw (Or.inl ⟨q, m, rfl⟩)
    | drop n => exact hw (Or.inr (Or.inl ⟨n, rfl⟩))
    | update a q u m => exact hw (Or.inr (Or.inr ⟨a, q, u, m, rfl⟩))
    | removeAll => exact atomic_reset s.storage
    | _ => simp [isRead] at hr

end IOOpsAux
end TinyFlux.Model
