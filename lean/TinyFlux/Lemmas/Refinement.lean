import TinyFlux.Lemmas.Writes
/-!
# The refinement theorem R: every history of the Model agrees with the Spec

`step_refines` joins the read half (`step_read_refines`) and the write half (`step_write_refines`);
`run_refines` lifts it to every operation sequence by induction, together with the invariant.
-/
namespace TinyFlux.Model
open TinyFlux.Spec

/-- run a history on the model; the outputs, oldest first -/
def runM (s : State) : List Op → State × List Out
  | [] => (s, [])
  | op :: t => let (s', o) := s.step op; let (s'', os) := runM s' t; (s'', o :: os)

/-- run a history on the specification -/
def runS (db : DB) : List Op → DB × List Out
  | [] => (db, [])
  | op :: t => let (db', o) := Spec.step db op; let (db'', os) := runS db' t; (db'', o :: os)

/-- the data of every operation is storable and no measurement argument is the empty string -/
def OpsOK (cfg : Cfg) (ops : List Op) : Prop := ∀ op ∈ ops, OpOK cfg op ∧ MeasOK op

/-- R, one step -/
theorem step_refines (s : State) (hs : Inv s) (op : Op) (hok : OpOK s.cfg op) (hm : MeasOK op) :
    canon (s.step op).2 = canon (Spec.step s.storage op).2 ∧
    (s.step op).1.storage = (Spec.step s.storage op).1 ∧
    (s.step op).1.cfg = s.cfg ∧ Inv (s.step op).1 := by
  cases h : isRead op
  · obtain ⟨a, b, c, d⟩ := step_write_refines s hs op h hok hm
    exact ⟨by rw [a], b, c, d⟩
  · obtain ⟨a, b, c, d, _⟩ := step_read_refines s hs op h hm
    refine ⟨a, ?_, c, d⟩
    rw [b]
    cases op <;> simp [isRead] at h <;> simp [Spec.step]

/-- R, every history from any state satisfying the invariant -/
theorem run_refines (s : State) (hs : Inv s) (ops : List Op) (hok : OpsOK s.cfg ops) :
    (runM s ops).1.storage = (runS s.storage ops).1 ∧
    (runM s ops).2.map canon = (runS s.storage ops).2.map canon ∧
    (runM s ops).1.cfg = s.cfg ∧ Inv (runM s ops).1 := by
  induction ops generalizing s with
  | nil => exact ⟨rfl, rfl, rfl, hs⟩
  | cons op t ih =>
    obtain ⟨ho, hm⟩ := hok op (List.mem_cons_self)
    obtain ⟨a, b, c, d⟩ := step_refines s hs op ho hm
    have hok' : OpsOK (s.step op).1.cfg t := by
      rw [c]; exact fun o h => hok o (List.mem_cons_of_mem _ h)
    obtain ⟨e, f, g, i⟩ := ih (s.step op).1 d hok'
    simp only [runM, runS, List.map_cons]
    rw [b] at e f
    exact ⟨e, by rw [a, f], g.trans c, i⟩

/-- every state reachable from the empty database satisfies the invariant and holds the Spec's contents -/
theorem reachable (cfg : Cfg) (ops : List Op) (hok : OpsOK cfg ops) :
    Inv (runM (init cfg) ops).1 ∧ (runM (init cfg) ops).1.storage = (runS [] ops).1 ∧
    (runM (init cfg) ops).2.map canon = (runS [] ops).2.map canon := by
  obtain ⟨a, b, _, d⟩ := run_refines (init cfg) (init_inv cfg) ops hok
  exact ⟨d, a, b⟩

/-- `canon` only touches dict-valued outputs -/
theorem canon_eq_iff_of_not_tagVals (a b : Out) (hb : ∀ l, b ≠ .tagVals l) (h : canon a = canon b) : a = b := by
  cases a <;> cases b <;> simp_all [canon]

end TinyFlux.Model
