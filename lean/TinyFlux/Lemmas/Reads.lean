import TinyFlux.Lemmas.ReadsAux
/-! Refinement of the read operations of `database.py` (agent D1). -/
namespace TinyFlux.Model
open TinyFlux.Spec

/-- operations that never change storage -/
def isRead : Op → Bool
  | .insert .. | .remove .. | .drop .. | .removeAll | .update .. => false
  | _ => true

/-- `Index.build` yields an index that represents the list it was built from -/
theorem represents_build (l : List Point) (hwf : ∀ p ∈ l, WFPoint p) : Represents (Index.build l) l := by
  have h := buildFrom_maps l hwf
  have t := timeRep_build l
  simp only at h t
  obtain ⟨h1, h2, h3, h4, h5, h6, h7, _, _⟩ := h
  obtain ⟨t1, t2, t3⟩ := t
  exact { num := h1, meas := h2, tags := h3, fields := h4, wfMeas := h5, wfTags := h6, wfFields := h7,
          tsLen := by simp [Index.build], tsSorted := t2, tsPerm := t3 }

theorem inv_rebuild (s : State) (hs : Inv s) : Inv { s with index := Index.build s.storage } :=
  ⟨hs.good, fun _ => represents_build _ (fun p hp => (hs.good p hp).1)⟩

/-- `read_op`: storage untouched, the invariant kept, and a valid index afterwards when auto-indexing -/
theorem readOp_spec (s : State) (hs : Inv s) :
    Inv s.readOp ∧ s.readOp.storage = s.storage ∧ s.readOp.cfg = s.cfg ∧
    (s.cfg.autoIndex = true → s.readOp.index.valid = true) ∧
    (s.index.valid = true → s.readOp = s) := by
  unfold State.readOp
  by_cases hc : (s.cfg.autoIndex && !s.index.valid) = true
  · rw [if_pos hc]
    refine ⟨inv_rebuild s hs, rfl, rfl, fun _ => by simp [Index.build], fun hv => ?_⟩
    simp [hv] at hc
  · rw [if_neg hc]
    refine ⟨hs, rfl, rfl, ?_, fun _ => rfl⟩
    intro ha; simpa [ha] using hc

theorem effMeas_of_ne (m : Option String) (hm : m ≠ some "") : effMeas m = m := by
  cases m with
  | none => rfl
  | some s =>
    have : s ≠ "" := fun h => hm (by rw [h])
    simp [effMeas, this]

/-- the scan path's row filter is the Spec's selection -/
theorem scanSel_eq (q : Query) (m : Option String) (hm : m ≠ some "") (p : Point) :
    State.scanSel q m p = .ok (selected q m p) := by
  unfold State.scanSel
  rw [effMeas_of_ne m hm]
  cases m with
  | none => simp [eval_eq, selected]
  | some name =>
    by_cases h : p.meas = name
    · simp [eval_eq, selected, h]
    · have h' : ¬ name = p.meas := fun e => h e.symm
      simp [selected, h, h', pure, Except.pure]

theorem restrictM_eq (l : List Point) (m : Option String) (hm : m ≠ some "") :
    State.restrictM l m = restrict l m := by
  unfold State.restrictM restrict
  rw [effMeas_of_ne m hm]
  cases m with
  | none => induction l with
    | nil => rfl
    | cons a t ih => simpa using ih
  | some name =>
    apply List.filter_congr; intro p _
    simp only [Option.all_some]; rw [Bool.eq_iff_iff]; simp only [beq_iff_eq]; exact eq_comm

/-- the index search of `mq & q` yields exactly the selected positions -/
theorem indexSearch_spec (s : State) (hs : Inv s) (hv : s.index.valid = true) (q : Query) (hq : exact q = true)
    (m : Option String) (hm : m ≠ some "") :
    ∃ r, s.indexSearch q m = .ok r ∧ r.Nodup ∧
      ∀ i, i ∈ r ↔ ∃ hi : i < s.storage.length, selected q m s.storage[i] = true := by
  have hrep := hs.rep hv
  have hwf : ∀ p ∈ s.storage, WFPoint p := fun p hp => (hs.good p hp).1
  unfold State.indexSearch
  rw [effMeas_of_ne m hm]
  cases m with
  | none =>
    obtain ⟨r, h1, h2, h3⟩ := search_exact s.index s.storage hrep hwf q hq
    exact ⟨r, h1, h2, by simpa [selected] using h3⟩
  | some name =>
    obtain ⟨r, h1, h2, h3⟩ := search_exact s.index s.storage hrep hwf
      (.and (.meas (.cmp .eq (.str name))) q) (by simp [exact, hq])
    refine ⟨r, h1, h2, ?_⟩
    intro i; rw [h3]
    simp only [selected, sem, Leaf.eval, pyCmp, Option.all_some, Bool.and_eq_true, beq_iff_eq, PyV.str.injEq]
    constructor <;> rintro ⟨hi, h, h'⟩ <;> exact ⟨hi, h.symm, h'⟩

/-- index path = scan path = Spec: the matching rows in storage order -/
theorem found_spec (s : State) (hs : Inv s) (q : Query) (m : Option String) (hm : m ≠ some "") (fb : Bool) :
    s.found q m fb = .ok (s.storage.filter (selected q m)) := by
  have hscan := filterM_ok (State.scanSel q m) (selected q m) (scanSel_eq q m hm) s.storage
  unfold State.found
  by_cases hv : (s.index.valid && exact q) = true
  · simp only [hv, if_true]
    have hv' : s.index.valid = true ∧ exact q = true := by simpa using hv
    obtain ⟨r, hr, hn, hmem⟩ := indexSearch_spec s hs hv'.1 q hv'.2 m hm
    have hlen := items_length s.storage (selected q m) r hn hmem
    simp only [hr, bind, Except.bind]
    by_cases he : r.isEmpty = true
    · simp only [he, if_true, pure, Except.pure]
      rw [List.isEmpty_iff_length_eq_zero, hlen] at he
      rw [List.eq_nil_of_length_eq_zero he]
    · have hrows : s.rowsAt r = s.storage.filter (selected q m) :=
        rowsAt_eq_filter s.storage (selected q m) r hn hmem
      simp only [he, hrows, hscan, pure, Except.pure]
      simp
  · simp only [hv]
    exact hscan

/-! ## outputs of the individual read operations (on a state satisfying `Inv`) -/

theorem sortByTime_eq (l : List Point) : State.sortByTime l = byTime l := rfl

theorem search_out (s : State) (hs : Inv s) (q : Query) (m : Option String) (hm : m ≠ some "") (sorted fb : Bool) :
    State.outOf (s.found q m fb) (fun l => .points (if sorted then State.sortByTime l else l)) =
      .points (search s.storage q m sorted) := by
  rw [found_spec s hs q m hm]
  cases sorted <;> simp [State.outOf, search, sortByTime_eq]

theorem get_out (s : State) (hs : Inv s) (q : Query) (m : Option String) (hm : m ≠ some "") (fb : Bool) :
    State.outOf (s.found q m fb) (fun l => .point l.head?) = .point (Spec.get s.storage q m) := by
  rw [found_spec s hs q m hm]; simp [State.outOf, Spec.get, search]

theorem select_out (s : State) (hs : Inv s) (keys : List SelKey) (q : Query) (m : Option String)
    (hm : m ≠ some "") (fb : Bool) :
    State.outOf (s.found q m fb) (fun l => .rows (l.map (project keys))) = .rows (select s.storage keys q m) := by
  rw [found_spec s hs q m hm]; simp [State.outOf, select, search]

theorem count_out (s : State) (hs : Inv s) (q : Query) (m : Option String) (hm : m ≠ some "") :
    (if s.index.valid && exact q
      then State.outOf (s.indexSearch q m) fun items => .nat items.length
      else State.outOf (s.storage.filterM (State.scanSel q m)) fun l => .nat l.length) =
    .nat (count s.storage q m) := by
  by_cases hv : (s.index.valid && exact q) = true
  · rw [if_pos hv]
    have hv' : s.index.valid = true ∧ exact q = true := by simpa using hv
    obtain ⟨r, hr, hn, hmem⟩ := indexSearch_spec s hs hv'.1 q hv'.2 m hm
    rw [hr]
    simp [State.outOf, count, search, items_length s.storage (selected q m) r hn hmem]
  · rw [if_neg hv, filterM_ok (State.scanSel q m) (selected q m) (scanSel_eq q m hm)]
    simp [State.outOf, count, search]

theorem contains_out (s : State) (hs : Inv s) (q : Query) (m : Option String) (hm : m ≠ some "") :
    (if s.index.valid && exact q
      then State.outOf (s.indexSearch q m) fun items => .bool (!items.isEmpty)
      else State.outOf (s.storage.filterM (State.scanSel q m)) fun l => .bool (!l.isEmpty)) =
    .bool (contains s.storage q m) := by
  by_cases hv : (s.index.valid && exact q) = true
  · rw [if_pos hv]
    have hv' : s.index.valid = true ∧ exact q = true := by simpa using hv
    obtain ⟨r, hr, hn, hmem⟩ := indexSearch_spec s hs hv'.1 q hv'.2 m hm
    rw [hr]
    have hlen := items_length s.storage (selected q m) r hn hmem
    have : r.isEmpty = (s.storage.filter (selected q m)).isEmpty := by
      rw [Bool.eq_iff_iff, List.isEmpty_iff_length_eq_zero, List.isEmpty_iff_length_eq_zero, hlen]
    simp [State.outOf, contains, search, this]
  · rw [if_neg hv, filterM_ok (State.scanSel q m) (selected q m) (scanSel_eq q m hm)]
    simp [State.outOf, contains, search]

theorem wf_of_inv {s : State} (hs : Inv s) : ∀ p ∈ s.storage, WFPoint p := fun p hp => (hs.good p hp).1

theorem measurements_out (s : State) (hs : Inv s) :
    sortStr (if s.index.valid then s.index.getMeasurements else dedup (s.storage.map (·.meas))) =
      measurements s.storage := by
  unfold measurements
  by_cases hv : s.index.valid = true
  · rw [if_pos hv]
    obtain ⟨h1, h2⟩ := getMeasurements_spec s.index s.storage (hs.rep hv)
    apply sortStr_congr _ _ h1 (nodup_eraseDups _)
    intro a; rw [h2, List.mem_eraseDups, List.mem_map]
  · rw [if_neg hv]
    apply sortStr_congr _ _ (nodup_dedup _) (nodup_eraseDups _)
    intro a; rw [mem_dedup, List.mem_eraseDups]

theorem tagKeys_out (s : State) (hs : Inv s) (m : Option String) (hm : m ≠ some "") :
    sortStr (if s.index.valid then s.index.getTagKeys (effMeas m)
             else dedup ((State.restrictM s.storage m).flatMap (fun p => p.tags.map (·.1)))) =
      tagKeys s.storage m := by
  unfold tagKeys
  by_cases hv : s.index.valid = true
  · rw [if_pos hv, effMeas_of_ne m hm]
    obtain ⟨h1, h2⟩ := getTagKeys_spec s.index s.storage (hs.rep hv) (wf_of_inv hs) m
    apply sortStr_congr _ _ h1 (nodup_eraseDups _)
    intro a; rw [h2, List.mem_eraseDups]
    simp only [restrict, List.mem_flatMap, List.mem_filter, and_assoc]
  · rw [if_neg hv, restrictM_eq _ m hm]
    apply sortStr_congr _ _ (nodup_dedup _) (nodup_eraseDups _)
    intro a; rw [mem_dedup, List.mem_eraseDups]

theorem fieldKeys_out (s : State) (hs : Inv s) (m : Option String) (hm : m ≠ some "") :
    sortStr (if s.index.valid then s.index.getFieldKeys (effMeas m)
             else dedup ((State.restrictM s.storage m).flatMap (fun p => p.fields.map (·.1)))) =
      fieldKeys s.storage m := by
  unfold fieldKeys
  by_cases hv : s.index.valid = true
  · rw [if_pos hv, effMeas_of_ne m hm]
    obtain ⟨h1, h2⟩ := getFieldKeys_spec s.index s.storage (hs.rep hv) (wf_of_inv hs) m
    apply sortStr_congr _ _ h1 (nodup_eraseDups _)
    intro a; rw [h2, List.mem_eraseDups]
    simp only [restrict, List.mem_flatMap, List.mem_filter, and_assoc]
  · rw [if_neg hv, restrictM_eq _ m hm]
    apply sortStr_congr _ _ (nodup_dedup _) (nodup_eraseDups _)
    intro a; rw [mem_dedup, List.mem_eraseDups]

theorem fieldValues_out (s : State) (hs : Inv s) (k : String) (m : Option String) (hm : m ≠ some "") :
    (if s.index.valid then s.index.getFieldValues k (effMeas m)
     else (State.restrictM s.storage m).filterMap (fun p => p.fields.lookup k)) =
      fieldValues s.storage k m := by
  unfold fieldValues
  by_cases hv : s.index.valid = true
  · rw [if_pos hv, effMeas_of_ne m hm, getFieldValues_spec s.index s.storage (hs.rep hv) (wf_of_inv hs) k m]
    rfl
  · rw [if_neg hv, restrictM_eq _ m hm]

theorem timestamps_out (s : State) (hs : Inv s) (m : Option String) (hm : m ≠ some "") :
    (if s.index.valid then s.index.getTimestamps (effMeas m)
     else (State.restrictM s.storage m).map (·.time)) = timestamps s.storage m := by
  unfold timestamps
  by_cases hv : s.index.valid = true
  · rw [if_pos hv, effMeas_of_ne m hm, getTimestamps_spec s.index s.storage (hs.rep hv) m]
    rfl
  · rw [if_neg hv, restrictM_eq _ m hm]

theorem restrict_some (l : List Point) (name : String) :
    restrict l (some name) = l.filter (fun p => p.meas == name) := by
  unfold restrict
  apply List.filter_congr; intro p _
  simp only [Option.all_some]; rw [Bool.eq_iff_iff]; simp only [beq_iff_eq]; exact eq_comm

theorem len_out (s : State) (hs : Inv s) :
    (if s.cfg.autoIndex && s.index.valid then s.index.numItems else s.storage.length) = s.storage.length := by
  by_cases hv : (s.cfg.autoIndex && s.index.valid) = true
  · rw [if_pos hv]
    have hv' : s.cfg.autoIndex = true ∧ s.index.valid = true := by simpa using hv
    exact (hs.rep hv'.2).num
  · rw [if_neg hv]

theorem mlen_out (s : State) (hs : Inv s) (name : String) :
    (if s.cfg.autoIndex && s.index.valid then (s.index.measItems name).length
     else (s.storage.filter (fun p => p.meas == name)).length) = (restrict s.storage (some name)).length := by
  rw [restrict_some]
  by_cases hv : (s.cfg.autoIndex && s.index.valid) = true
  · rw [if_pos hv]
    have hv' : s.cfg.autoIndex = true ∧ s.index.valid = true := by simpa using hv
    exact (measItems_spec s.index s.storage (hs.rep hv'.2) name).1
  · rw [if_neg hv]

/-! ### `get_tag_values` -/

theorem lookup_iff_mem {V : Type} (d : List (String × V)) (h : (d.map (·.1)).Nodup) (k : String) (v : V) :
    d.lookup k = some v ↔ (k, v) ∈ d := by
  induction d with
  | nil => simp
  | cons x t ih =>
    obtain ⟨k0, v0⟩ := x
    simp only [List.map_cons, List.nodup_cons, List.mem_map, not_exists, not_and] at h
    by_cases h2 : k = k0
    · subst h2
      have : (k, v) ∉ t := fun hm => h.1 (k, v) hm rfl
      simp [this, eq_comm]
    · have hb : (k == k0) = false := by simpa using h2
      simp [List.lookup_cons, hb, h2, ih h.2]

theorem valsAL_init (ks : List String) (k : String) :
    valsAL_r (ks.map (fun k => (k, ([] : List (Option String))))) k = [] := by
  induction ks with
  | nil => rfl
  | cons a t ih =>
    unfold valsAL_r at *
    simp only [List.map_cons, lookupAL]
    split
    · rfl
    · exact ih

/-- the scan path of `get_tag_values` -/
theorem tagValues_scan (l : List Point) (hwf : ∀ p ∈ l, WFPoint p) (keys : List String) (m : Option String) :
    TVSpec l keys m ((restrict l m).foldl (fun acc p => p.tags.foldl (fun acc kv =>
        if !keys.isEmpty && !keys.contains kv.1 then acc else addTV_r acc kv.1 kv.2) acc)
      ((sortStr (dedup keys)).map (fun k => (k, [])))) := by
  have hG : (fun (acc : TV) (kv : String × Option String) =>
        if !keys.isEmpty && !keys.contains kv.1 then acc else addTV_r acc kv.1 kv.2) =
      (fun acc kv => if (keys.isEmpty || keys.contains kv.1) = true then addTV_r acc kv.1 kv.2 else acc) := by
    funext acc kv
    cases keys.isEmpty <;> cases keys.contains kv.1 <;> simp
  rw [hG, ← List.foldl_flatMap (f := fun p : Point => p.tags), ← List.foldl_filter]
  generalize hL : List.filter (fun kv : String × Option String => keys.isEmpty || keys.contains kv.1)
    (List.flatMap (fun p => p.tags) (restrict l m)) = L
  have hmemL : ∀ k v, (k, v) ∈ L ↔
      (∃ p ∈ l, m.all (· == p.meas) = true ∧ p.tags.lookup k = some v) ∧ (keys.isEmpty = true ∨ k ∈ keys) := by
    intro k v
    rw [← hL]
    simp only [List.mem_filter, List.mem_flatMap, restrict, Bool.or_eq_true, List.contains_iff_mem, and_assoc]
    constructor
    · rintro ⟨⟨p, hp, hm, ht⟩, hk⟩
      exact ⟨⟨p, hp, hm, (lookup_iff_mem _ (hwf p hp).1 k v).2 ht⟩, hk⟩
    · rintro ⟨⟨p, hp, hm, ht⟩, hk⟩
      exact ⟨⟨p, hp, hm, (lookup_iff_mem _ (hwf p hp).1 k v).1 ht⟩, hk⟩
  have hkinit : ∀ k, k ∈ keysAL ((sortStr (dedup keys)).map (fun k => (k, ([] : List (Option String))))) ↔ k ∈ keys := by
    intro k; simp [keysAL, Function.comp_def, mem_sortStr, mem_dedup]
  obtain ⟨h1, h2, h3⟩ := fold_addTV L ((sortStr (dedup keys)).map (fun k => (k, [])))
    (by simpa [keysAL, Function.comp_def] using nodup_sortStr _ (nodup_dedup keys))
    (fun k => by rw [valsAL_init]; exact List.nodup_nil)
  have hkeys : ∀ k, k ∈ keysAL (L.foldl (fun acc kv => addTV_r acc kv.1 kv.2)
      ((sortStr (dedup keys)).map (fun k => (k, [])))) ↔
      (if keys.isEmpty then ∃ p ∈ l, m.all (· == p.meas) = true ∧ k ∈ p.tags.map (·.1) else k ∈ keys) := by
    intro k; rw [h2, hkinit]
    by_cases he : keys.isEmpty = true
    · rw [if_pos he]
      have : keys = [] := List.isEmpty_iff.1 he
      subst this
      simp only [hmemL, List.not_mem_nil, false_or, List.isEmpty_nil, or_false, and_true, List.mem_map]
      constructor
      · rintro ⟨v, p, hp, hm, ht⟩
        exact ⟨p, hp, hm, (k, v), (lookup_iff_mem _ (hwf p hp).1 k v).1 ht, rfl⟩
      · rintro ⟨p, hp, hm, ⟨k', v⟩, ht, rfl⟩
        exact ⟨v, p, hp, hm, (lookup_iff_mem _ (hwf p hp).1 k' v).2 ht⟩
    · rw [if_neg he]
      constructor
      · rintro (h | ⟨v, hv⟩)
        · exact h
        · rcases ((hmemL k v).1 hv).2 with h | h
          · exact absurd h he
          · exact h
      · exact Or.inl
  refine ⟨h1, hkeys, ?_⟩
  intro k vs hmem
  have hk : k ∈ keysAL (L.foldl (fun acc kv => addTV_r acc kv.1 kv.2)
      ((sortStr (dedup keys)).map (fun k => (k, [])))) := (mem_keysAL_iff _ k).2 ⟨vs, hmem⟩
  have hvs : valsAL_r (L.foldl (fun acc kv => addTV_r acc kv.1 kv.2)
      ((sortStr (dedup keys)).map (fun k => (k, [])))) k = vs := by
    unfold valsAL_r; rw [(mem_iff_lookupAL _ h1 k vs).1 hmem]; rfl
  rw [← hvs]
  refine ⟨(h3 k).1, ?_⟩
  intro v; rw [(h3 k).2, valsAL_init, hmemL]
  have hok : keys.isEmpty = true ∨ k ∈ keys := by
    have := (hkeys k).1 hk
    by_cases he : keys.isEmpty = true
    · exact Or.inl he
    · rw [if_neg he] at this; exact Or.inr this
  simp only [List.not_mem_nil, false_or]
  exact ⟨fun h => h.1, fun h => ⟨h, hok⟩⟩

theorem tagValues_out (s : State) (hs : Inv s) (keys : List String) (m : Option String) (hm : m ≠ some "") :
    canon (s.step (.getTagValues keys m)).2 = canon (.tagVals (tagValues s.storage keys m)) := by
  obtain ⟨hi, hst, _, _, _⟩ := readOp_spec s hs
  simp only [State.step]
  by_cases hv : s.readOp.index.valid = true
  · rw [if_pos hv, effMeas_of_ne m hm, ← hst]
    exact tagVals_canon _ keys m _ (getTagValues_spec s.readOp.index s.readOp.storage (hi.rep hv) (wf_of_inv hi) keys m)
  · rw [if_neg hv, restrictM_eq _ m hm, ← hst]
    exact tagVals_canon _ keys m _ (tagValues_scan s.readOp.storage (wf_of_inv hi) keys m)

/-- every read operation returns what the Spec says, leaves storage alone and keeps the invariant -/
theorem step_read_refines (s : State) (hs : Inv s) (op : Op) (hr : isRead op = true) (hm : MeasOK op) :
    canon (s.step op).2 = canon (Spec.step s.storage op).2 ∧
    (s.step op).1.storage = s.storage ∧ (s.step op).1.cfg = s.cfg ∧ Inv (s.step op).1 ∧
    (s.index.valid = true → (s.step op).1.index = s.index) := by
  obtain ⟨hi, hst, hcfg, _, hid⟩ := readOp_spec s hs
  have hidx : s.index.valid = true → s.readOp.index = s.index := fun hv => by rw [hid hv]
  cases op with
  | insert pts m => simp [isRead] at hr
  | remove q m => simp [isRead] at hr
  | drop name => simp [isRead] at hr
  | removeAll => simp [isRead] at hr
  | update all q u m => simp [isRead] at hr
  | search q m sorted =>
    refine ⟨?_, hst, hcfg, hi, hidx⟩
    simp only [State.step, Spec.step]
    rw [search_out s.readOp hi q m hm, hst]
  | count q m =>
    refine ⟨?_, hst, hcfg, hi, hidx⟩
    simp only [State.step, Spec.step]
    rw [count_out s.readOp hi q m hm, hst]
  | contains q m =>
    refine ⟨?_, hst, hcfg, hi, hidx⟩
    simp only [State.step, Spec.step]
    rw [contains_out s.readOp hi q m hm, hst]
  | get q m =>
    refine ⟨?_, hst, hcfg, hi, hidx⟩
    simp only [State.step, Spec.step]
    rw [get_out s.readOp hi q m hm, hst]
  | select keys q m =>
    refine ⟨?_, hst, hcfg, hi, hidx⟩
    simp only [State.step, Spec.step]
    rw [select_out s.readOp hi keys q m hm, hst]
  | getMeasurements =>
    refine ⟨?_, hst, hcfg, hi, hidx⟩
    simp only [State.step, Spec.step]
    rw [measurements_out s.readOp hi, hst]
  | getTagKeys m =>
    refine ⟨?_, hst, hcfg, hi, hidx⟩
    simp only [State.step, Spec.step]
    rw [tagKeys_out s.readOp hi m hm, hst]
  | getTagValues keys m =>
    refine ⟨tagValues_out s hs keys m hm, ?_, ?_, ?_, ?_⟩
    all_goals (simp only [State.step]; split)
    all_goals first | exact hst | exact hcfg | exact hi | exact hidx
  | getFieldKeys m =>
    refine ⟨?_, hst, hcfg, hi, hidx⟩
    simp only [State.step, Spec.step]
    rw [fieldKeys_out s.readOp hi m hm, hst]
  | getFieldValues k m =>
    refine ⟨?_, hst, hcfg, hi, hidx⟩
    simp only [State.step, Spec.step]
    rw [fieldValues_out s.readOp hi k m hm, hst]
  | getTimestamps m =>
    refine ⟨?_, hst, hcfg, hi, hidx⟩
    simp only [State.step, Spec.step]
    rw [timestamps_out s.readOp hi m hm, hst]
  | len =>
    refine ⟨?_, rfl, rfl, hs, fun _ => rfl⟩
    simp only [State.step, Spec.step]
    rw [len_out s hs]
  | iter => exact ⟨rfl, rfl, rfl, hs, fun _ => rfl⟩
  | all sorted =>
    refine ⟨?_, hst, hcfg, hi, hidx⟩
    simp only [State.step, Spec.step, hst, all, sortByTime_eq]
  | mlen name =>
    refine ⟨?_, rfl, rfl, hs, fun _ => rfl⟩
    simp only [State.step, Spec.step]
    rw [mlen_out s hs]
  | miter name =>
    refine ⟨?_, rfl, rfl, hs, fun _ => rfl⟩
    simp only [State.step, Spec.step, restrict_some]
  | mall name sorted =>
    refine ⟨?_, rfl, rfl, hs, fun _ => rfl⟩
    simp only [State.step, Spec.step, restrict_some, all, sortByTime_eq]
  | reindex =>
    by_cases hv : s.index.valid = true
    · have : s.step .reindex = (s, .unit) := by simp [State.step, hv]
      rw [this]; exact ⟨rfl, rfl, rfl, hs, fun _ => rfl⟩
    · have : s.step .reindex = ({ s with index := Index.build s.storage }, .unit) := by simp [State.step, hv]
      rw [this]; exact ⟨rfl, rfl, rfl, inv_rebuild s hs, fun h => absurd h hv⟩

end TinyFlux.Model
