import TinyFlux.Py.Basic
/-! Helper lemmas about the `bisect` contract on sorted lists. -/
namespace TinyFlux.Py

theorem lt_of_lt_bisectLeft (l : List Int) (x : Int) (j : Nat) (hj : j < bisectLeftNat l x)
    (h : j < l.length) : l[j] < x := by
  induction l generalizing j with
  | nil => simp [bisectLeftNat] at hj
  | cons a t ih =>
    unfold bisectLeftNat at hj
    rw [List.takeWhile_cons] at hj
    split at hj
    · rename_i hax
      cases j with
      | zero => simpa using hax
      | succ j => simp at hj ⊢; exact ih j (by unfold bisectLeftNat; omega) (by simpa using h)
    · simp at hj

theorem ge_of_bisectLeft_le (l : List Int) (hs : l.Pairwise (· ≤ ·)) (x : Int) (j : Nat)
    (hj : bisectLeftNat l x ≤ j) (h : j < l.length) : x ≤ l[j] := by
  induction l generalizing j with
  | nil => simp at h
  | cons a t ih =>
    have ⟨ha, ht⟩ := List.pairwise_cons.mp hs
    unfold bisectLeftNat at hj
    rw [List.takeWhile_cons] at hj
    split at hj
    · cases j with
      | zero => simp at hj
      | succ j => simp at hj ⊢; exact ih ht j (by unfold bisectLeftNat; omega) (by simpa using h)
    · rename_i hax
      cases j with
      | zero => simp at hax ⊢; omega
      | succ j =>
        simp at hax h ⊢
        have := ha (t[j]'h) (List.getElem_mem ..)
        omega

theorem bisectLeft_le (l : List Int) (x : Int) : bisectLeftNat l x ≤ l.length := by
  unfold bisectLeftNat; exact (List.takeWhile_sublist _).length_le

theorem le_of_lt_bisectRight (l : List Int) (x : Int) (j : Nat) (hj : j < bisectRightNat l x)
    (h : j < l.length) : l[j] ≤ x := by
  induction l generalizing j with
  | nil => simp [bisectRightNat] at hj
  | cons a t ih =>
    unfold bisectRightNat at hj
    rw [List.takeWhile_cons] at hj
    split at hj
    · rename_i hax
      cases j with
      | zero => simpa using hax
      | succ j => simp at hj ⊢; exact ih j (by unfold bisectRightNat; omega) (by simpa using h)
    · simp at hj

theorem gt_of_bisectRight_le (l : List Int) (hs : l.Pairwise (· ≤ ·)) (x : Int) (j : Nat)
    (hj : bisectRightNat l x ≤ j) (h : j < l.length) : x < l[j] := by
  induction l generalizing j with
  | nil => simp at h
  | cons a t ih =>
    have ⟨ha, ht⟩ := List.pairwise_cons.mp hs
    unfold bisectRightNat at hj
    rw [List.takeWhile_cons] at hj
    split at hj
    · cases j with
      | zero => simp at hj
      | succ j => simp at hj ⊢; exact ih ht j (by unfold bisectRightNat; omega) (by simpa using h)
    · rename_i hax
      cases j with
      | zero => simp at hax ⊢; omega
      | succ j =>
        simp at hax h ⊢
        have := ha (t[j]'h) (List.getElem_mem ..)
        omega

theorem bisectRight_le (l : List Int) (x : Int) : bisectRightNat l x ≤ l.length := by
  unfold bisectRightNat; exact (List.takeWhile_sublist _).length_le

theorem getItem_nat (l : List Int) (i : Nat) (h : i < l.length) :
    getItem (.list l) (.int (i : Int)) = .ok (.int l[i]) := by
  have h0 : ¬ ((i : Int) < 0) := by omega
  have h1 : (0 : Int) ≤ (i : Int) := by omega
  simp [getItem, h0, h1, List.getElem?_eq_getElem h, pure, Except.pure]

end TinyFlux.Py
