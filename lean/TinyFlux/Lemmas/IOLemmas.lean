import TinyFlux.Model.IO
/-!
# Lemmas about the I/O protocol model (`Model/IO.lean`), shared by C04, C12, C13, C15, C16
-/
namespace TinyFlux.Model.IO

variable {R : Type}

/-! ## `run` -/

@[simp] theorem run_nil (fs : FS R) : run fs [] = fs := rfl

@[simp] theorem run_cons (fs : FS R) (s : Step R) (l : List (Step R)) :
    run fs (s :: l) = run (exec fs s) l := rfl

theorem run_append (fs : FS R) (a b : List (Step R)) : run fs (a ++ b) = run (run fs a) b := by
  simp [run, List.foldl_append]

/-- a prefix of `A ++ B` is a prefix of `A`, or all of `A` followed by a prefix of `B` -/
theorem take_append_cases {α : Type} (A B : List α) (k : Nat) :
    List.take k (A ++ B) = List.take k A ∨ ∃ j, List.take k (A ++ B) = A ++ List.take j B := by
  rw [List.take_append]
  by_cases hk : k ≤ A.length
  · left
    have : k - A.length = 0 := by omega
    simp [this]
  · right
    exact ⟨k - A.length, by rw [List.take_of_length_le (by omega)]⟩

/-! ## steps that cannot change what the primary file holds -/

/-- steps that leave `primary` alone as long as nothing is buffered in the primary handle -/
def Step.safe : Step R → Bool
  | .pWrite _ | .pTruncate | .replace => false
  | _ => true

/-- the steps of the streaming loop: reads of the primary, writes to the temp file -/
def Step.tempSide : Step R → Bool
  | .pRead | .tSeekEnd | .tWrite _ | .tFlush | .tFsync | .tTruncate => true
  | _ => false

theorem Step.safe_of_tempSide {s : Step R} (h : s.tempSide = true) : s.safe = true := by
  cases s <;> simp_all [Step.safe, Step.tempSide]

theorem Step.not_mutates_of_safe {s : Step R} (h : s.safe = true) : s.mutatesPrimary = false := by
  cases s <;> simp_all [Step.safe, Step.mutatesPrimary]

theorem exec_safe (fs : FS R) (s : Step R) (hs : s.safe = true) (hp : fs.pendP = []) :
    (exec fs s).primary = fs.primary ∧ (exec fs s).pendP = [] := by
  cases s <;> simp_all [Step.safe, exec]

theorem run_safe (fs : FS R) (l : List (Step R)) (hl : ∀ s ∈ l, s.safe = true) (hp : fs.pendP = []) :
    (run fs l).primary = fs.primary ∧ (run fs l).pendP = [] := by
  induction l generalizing fs with
  | nil => simp [hp]
  | cons s t ih =>
    have h1 := exec_safe fs s (hl s (by simp)) hp
    have h2 := ih (exec fs s) (fun x hx => hl x (by simp [hx])) h1.2
    simp only [run_cons]
    exact ⟨h2.1.trans h1.1, h2.2⟩

theorem run_safe_take (fs : FS R) (l : List (Step R)) (hl : ∀ s ∈ l, s.safe = true) (hp : fs.pendP = [])
    (k : Nat) : (run fs (l.take k)).primary = fs.primary ∧ (run fs (l.take k)).pendP = [] :=
  run_safe fs _ (fun s hs => hl s (List.mem_of_mem_take hs)) hp

/-- the `finally` clause of `temp_storage_op` -/
theorem run_cleanup (fs : FS R) :
    (run fs [.tClose, .tUnlink]).primary = fs.primary ∧ (run fs [.tClose, .tUnlink]).pendP = fs.pendP ∧
    (run fs [.tClose, .tUnlink]).temp = none ∧ (run fs [.tClose, .tUnlink]).pendT = [] := by
  simp [exec]

/-! ## the streaming loop -/

theorem stageRow_tempSide (flush : Bool) (r : R) : ∀ s ∈ stageRow flush r, s.tempSide = true := by
  cases flush <;> simp [stageRow, Step.tempSide]

theorem streamSteps_tempSide (flush : Bool) (rows : List (Option R)) :
    ∀ s ∈ streamSteps flush rows, s.tempSide = true := by
  induction rows with
  | nil => intro s hs; simp [streamSteps] at hs; subst hs; rfl
  | cons o t ih =>
    intro s hs
    cases o with
    | none =>
      simp only [streamSteps, List.mem_cons] at hs
      rcases hs with h | h
      · subst h; rfl
      · exact ih s h
    | some r =>
      simp only [streamSteps, List.mem_cons, List.mem_append] at hs
      rcases hs with (h | h) | h
      · subst h; rfl
      · exact stageRow_tempSide flush r s h
      · exact ih s h

theorem streamSteps_safe (flush : Bool) (rows : List (Option R)) :
    ∀ s ∈ streamSteps flush rows, s.safe = true :=
  fun s hs => Step.safe_of_tempSide (streamSteps_tempSide flush rows s hs)

/-- the temp file's content including what its handle still buffers -/
def tempAll (fs : FS R) : Option (List R) := fs.temp.map (· ++ fs.pendT)

theorem tempAll_eq_some {fs : FS R} {acc : List R} (h : tempAll fs = some acc) :
    ∃ t, fs.temp = some t ∧ t ++ fs.pendT = acc := by
  unfold tempAll at h
  cases ht : fs.temp with
  | none => simp [ht] at h
  | some t => exact ⟨t, rfl, by simpa [ht] using h⟩

theorem tempAll_stageRow (fs : FS R) (flush : Bool) (r : R) :
    tempAll (run fs (stageRow flush r)) = (tempAll fs).map (· ++ [r]) := by
  cases ht : fs.temp <;> cases flush <;> simp [stageRow, exec, tempAll, ht]

theorem tempAll_stream (fs : FS R) (flush : Bool) (rows : List (Option R)) :
    tempAll (run fs (streamSteps flush rows)) = (tempAll fs).map (· ++ newRows rows) := by
  induction rows generalizing fs with
  | nil => cases ht : fs.temp <;> simp [streamSteps, exec, tempAll, newRows, ht]
  | cons o t ih =>
    cases o with
    | none =>
      simp only [streamSteps, run_cons]
      rw [ih]
      simp [exec, newRows]
    | some r =>
      simp only [streamSteps, run_cons, run_append]
      rw [ih, tempAll_stageRow]
      have e : exec fs Step.pRead = fs := rfl
      rw [e]
      cases h : tempAll fs <;> simp [newRows]

/-- the state after `tCreate; seek(0); streaming loop`: the primary holds everything written so far
    (and is untouched if nothing was buffered), the temp file (with its buffer) the new contents -/
theorem run_staging (fs : FS R) (flush : Bool) (rows : List (Option R)) :
    let fs1 := run fs ([.tCreate, .pSeek0] ++ streamSteps flush rows)
    fs1.primary = fs.primary ++ fs.pendP ∧ fs1.pendP = [] ∧
      ∃ t, fs1.temp = some t ∧ t ++ fs1.pendT = newRows rows := by
  intro fs1
  have hs := run_safe (run fs [.tCreate, .pSeek0]) (streamSteps flush rows) (streamSteps_safe flush rows)
    (by simp [exec])
  have ht := tempAll_stream (run fs [.tCreate, .pSeek0]) flush rows
  have e : fs1 = run (run fs [.tCreate, .pSeek0]) (streamSteps flush rows) := by
    simp only [fs1, run_append]
  rw [← e] at hs ht
  refine ⟨?_, hs.2, ?_⟩
  · rw [hs.1]; simp [exec]
  · apply tempAll_eq_some
    rw [ht]; simp [exec, tempAll]

theorem staging_safe (flush : Bool) (rows : List (Option R)) :
    ∀ s ∈ ([.tCreate, .pSeek0] ++ streamSteps flush rows : List (Step R)), s.safe = true := by
  intro s hs
  simp only [List.mem_append, List.mem_cons, List.not_mem_nil, or_false] at hs
  rcases hs with (h | h) | h
  · subst h; rfl
  · subst h; rfl
  · exact streamSteps_safe flush rows s h

/-- the steps after the streaming loop -/
def tailSteps (rebuild : Bool) : List (Step R) :=
  swapSteps ++ (if rebuild then scanSteps else []) ++ [.tClose]

theorem rewriteSteps_eq (flush : Bool) (rows : List (Option R)) (rebuild : Bool) :
    rewriteSteps flush rows rebuild =
      ([.tCreate, .pSeek0] ++ streamSteps flush rows) ++ tailSteps rebuild := by
  simp [rewriteSteps, tailSteps, List.append_assoc]

/-- every prefix of the swap-and-cleanup tail leaves the primary holding the old or the new contents -/
theorem tail_prefix (fs1 : FS R) (old new t : List R) (h1 : fs1.primary = old) (h2 : fs1.pendP = [])
    (h3 : fs1.temp = some t) (h4 : t ++ fs1.pendT = new) (rebuild : Bool) (j : Nat) :
    (run fs1 ((tailSteps rebuild).take j)).primary = old ∨
    (run fs1 ((tailSteps rebuild).take j)).primary = new := by
  cases rebuild
  · simp only [tailSteps, swapSteps, scanSteps, Bool.false_eq_true, if_false, List.append_nil,
      List.cons_append, List.nil_append]
    match j with
    | 0 => left; simp [h1]
    | 1 => left; simp [exec, h1]
    | 2 => left; simp [exec, h1]
    | 3 => left; simp [exec, h1, h2]
    | 4 => right; simp [exec, h1, h2, h3, h4]
    | 5 => right; simp [exec, h1, h2, h3, h4]
    | (n+6) => right; simp [exec, h1, h2, h3, h4]
  · simp only [tailSteps, swapSteps, scanSteps, if_true, List.cons_append, List.nil_append]
    match j with
    | 0 => left; simp [h1]
    | 1 => left; simp [exec, h1]
    | 2 => left; simp [exec, h1]
    | 3 => left; simp [exec, h1, h2]
    | 4 => right; simp [exec, h1, h2, h3, h4]
    | 5 => right; simp [exec, h1, h2, h3, h4]
    | 6 => right; simp [exec, h1, h2, h3, h4]
    | 7 => right; simp [exec, h1, h2, h3, h4]
    | (n+8) => right; simp [exec, h1, h2, h3, h4]

/-- the complete tail: the primary holds the new contents, nothing buffered, no temp file -/
theorem tail_full (fs1 : FS R) (new t : List R) (h2 : fs1.pendP = [])
    (h3 : fs1.temp = some t) (h4 : t ++ fs1.pendT = new) (rebuild : Bool) :
    (run fs1 (tailSteps rebuild)).primary = new ∧ (run fs1 (tailSteps rebuild)).pendP = [] ∧
    (run fs1 (tailSteps rebuild)).temp = none ∧ (run fs1 (tailSteps rebuild)).pendT = [] ∧
    (run fs1 (tailSteps rebuild)).pOpen = true := by
  cases rebuild <;> simp [tailSteps, swapSteps, scanSteps, exec, h2, h3, h4]

/-- a complete rewrite, from any state -/
theorem rewrite_full (fs : FS R) (flush : Bool) (rows : List (Option R)) (rebuild : Bool) :
    (run fs (rewriteSteps flush rows rebuild)).primary = newRows rows ∧
    (run fs (rewriteSteps flush rows rebuild)).pendP = [] ∧
    (run fs (rewriteSteps flush rows rebuild)).temp = none ∧
    (run fs (rewriteSteps flush rows rebuild)).pendT = [] ∧
    (run fs (rewriteSteps flush rows rebuild)).pOpen = true := by
  rw [rewriteSteps_eq, run_append]
  obtain ⟨_, h2, t, h3, h4⟩ := run_staging fs flush rows
  exact tail_full _ _ t h2 h3 h4 rebuild

/-- every prefix of a rewrite leaves the primary holding the old or the new contents -/
theorem rewrite_prefix (fs : FS R) (hp : fs.pendP = []) (flush : Bool) (rows : List (Option R))
    (rebuild : Bool) (k : Nat) :
    (run fs ((rewriteSteps flush rows rebuild).take k)).primary = fs.primary ∨
    (run fs ((rewriteSteps flush rows rebuild).take k)).primary = newRows rows := by
  rw [rewriteSteps_eq]
  rcases take_append_cases ([.tCreate, .pSeek0] ++ streamSteps flush rows) (tailSteps rebuild) k with h | ⟨j, h⟩
  · rw [h]
    left
    exact (run_safe_take fs _ (staging_safe flush rows) hp k).1
  · rw [h, run_append]
    obtain ⟨h1, h2, t, h3, h4⟩ := run_staging fs flush rows
    rw [hp, List.append_nil] at h1
    exact tail_prefix _ _ _ t h1 h2 h3 h4 rebuild j

/-! ## no-op rewrite and reset -/

theorem scannedPart_safe (flush : Bool) (rows : List (Option R)) (scanned : Bool) :
    ∀ s ∈ ([.tCreate] ++ (if scanned then .pSeek0 :: streamSteps flush rows else []) : List (Step R)),
      s.safe = true := by
  intro s hs
  cases scanned
  · simp at hs; subst hs; rfl
  · simp only [if_true, List.mem_append, List.mem_cons, List.not_mem_nil, or_false] at hs
    rcases hs with h | h | h
    · subst h; rfl
    · subst h; rfl
    · exact streamSteps_safe flush rows s h

theorem noopRewriteSteps_safe (flush : Bool) (rows : List (Option R)) (scanned : Bool) :
    ∀ s ∈ noopRewriteSteps flush rows scanned, s.safe = true := by
  intro s hs
  unfold noopRewriteSteps at hs
  rw [List.mem_append] at hs
  rcases hs with h | h
  · exact scannedPart_safe flush rows scanned s h
  · simp at h
    rcases h with h | h <;> subst h <;> rfl

theorem noop_full (fs : FS R) (hp : fs.pendP = []) (flush : Bool) (rows : List (Option R)) (scanned : Bool) :
    (run fs (noopRewriteSteps flush rows scanned)).primary = fs.primary ∧
    (run fs (noopRewriteSteps flush rows scanned)).pendP = [] ∧
    (run fs (noopRewriteSteps flush rows scanned)).temp = none ∧
    (run fs (noopRewriteSteps flush rows scanned)).pendT = [] := by
  obtain ⟨h1, h2⟩ := run_safe fs _ (noopRewriteSteps_safe flush rows scanned) hp
  refine ⟨h1, h2, ?_⟩
  unfold noopRewriteSteps
  rw [run_append]
  exact (run_cleanup _).2.2

theorem resetSteps_prefix (fs : FS R) (hp : fs.pendP = []) (k : Nat) :
    ((run fs ((resetSteps (R := R)).take k)).primary = fs.primary ∨
      (run fs ((resetSteps (R := R)).take k)).primary = []) ∧
    (run fs ((resetSteps (R := R)).take k)).pendP = [] := by
  match k with
  | 0 => simp [hp]
  | 1 => simp [resetSteps, exec, hp]
  | (n+2) => simp [resetSteps, exec, hp]

theorem resetInTempSteps_eq (flush : Bool) (rows : List (Option R)) (scanned : Bool) :
    resetInTempSteps flush rows scanned =
      ([.tCreate] ++ (if scanned then .pSeek0 :: streamSteps flush rows else [])) ++
        [.pSeek0, .pTruncate, .tClose, .tUnlink] := by
  simp [resetInTempSteps, resetSteps, List.append_assoc]

theorem resetInTemp_prefix (fs : FS R) (hp : fs.pendP = []) (flush : Bool) (rows : List (Option R))
    (scanned : Bool) (k : Nat) :
    (run fs ((resetInTempSteps flush rows scanned).take k)).primary = fs.primary ∨
    (run fs ((resetInTempSteps flush rows scanned).take k)).primary = [] := by
  rw [resetInTempSteps_eq]
  rcases take_append_cases ([.tCreate] ++ (if scanned then .pSeek0 :: streamSteps flush rows else []))
    ([.pSeek0, .pTruncate, .tClose, .tUnlink] : List (Step R)) k with h | ⟨j, h⟩
  · rw [h]
    left
    exact (run_safe_take fs _ (scannedPart_safe flush rows scanned) hp k).1
  · rw [h, run_append]
    obtain ⟨h1, h2⟩ := run_safe fs _ (scannedPart_safe flush rows scanned) hp
    generalize run fs _ = fs1 at h1 h2 ⊢
    match j with
    | 0 => left; simp [h1]
    | 1 => left; simp [exec, h1, h2]
    | 2 => right; simp [exec]
    | 3 => right; simp [exec]
    | (n+4) => right; simp [exec]

theorem resetInTemp_full (fs : FS R) (flush : Bool) (rows : List (Option R)) (scanned : Bool) :
    (run fs (resetInTempSteps flush rows scanned)).primary = [] ∧
    (run fs (resetInTempSteps flush rows scanned)).pendP = [] ∧
    (run fs (resetInTempSteps flush rows scanned)).temp = none ∧
    (run fs (resetInTempSteps flush rows scanned)).pendT = [] := by
  rw [resetInTempSteps_eq, run_append]
  simp [exec]

/-! ## appends -/

theorem appendSteps_cons (flush : Bool) (r : R) (t : List R) :
    appendSteps flush (r :: t) =
      (if flush then [.pSeekEnd, .pWrite r, .pFlush, .pFsync, .pTruncate] else [.pSeekEnd, .pWrite r]) ++
        appendSteps flush t := by
  simp [appendSteps]

@[simp] theorem appendSteps_nil (flush : Bool) : appendSteps flush ([] : List R) = [] := rfl

/-- complete append with `flush_on_insert` -/
theorem append_flush_full (fs : FS R) (hp : fs.pendP = []) (rows : List R) :
    (run fs (appendSteps true rows)).primary = fs.primary ++ rows ∧
    (run fs (appendSteps true rows)).pendP = [] ∧
    (run fs (appendSteps true rows)).temp = fs.temp ∧
    (run fs (appendSteps true rows)).pendT = fs.pendT := by
  induction rows generalizing fs with
  | nil => simp [hp]
  | cons r t ih =>
    rw [appendSteps_cons, run_append]
    have := ih (run fs [.pSeekEnd, .pWrite r, .pFlush, .pFsync, .pTruncate]) (by simp [exec])
    simp only [if_true]
    refine ⟨this.1.trans ?_, this.2.1, this.2.2.1.trans ?_, this.2.2.2.trans ?_⟩ <;> simp [exec, hp]

/-- complete append without `flush_on_insert`: everything is in the file or in the handle's buffer -/
theorem append_noflush_full (fs : FS R) (rows : List R) :
    afterClose (run fs (appendSteps false rows)) = afterClose fs ++ rows := by
  induction rows generalizing fs with
  | nil => simp
  | cons r t ih =>
    rw [appendSteps_cons, run_append, ih]
    simp [exec, afterClose]

/-- a prefix of an append (either mode): the file plus the buffer hold the old contents plus a prefix
    of the new rows -/
theorem append_prefix_close (fs : FS R) (flush : Bool) (rows : List R) (k : Nat) :
    ∃ j, j ≤ rows.length ∧
      afterClose (run fs ((appendSteps flush rows).take k)) = afterClose fs ++ rows.take j := by
  induction rows generalizing fs k with
  | nil => exact ⟨0, by simp⟩
  | cons r t ih =>
    rw [appendSteps_cons]
    cases flush
    · simp only [Bool.false_eq_true, if_false, List.cons_append, List.nil_append]
      match k with
      | 0 => exact ⟨0, by simp⟩
      | 1 => exact ⟨0, by simp [exec, afterClose]⟩
      | (n+2) =>
        obtain ⟨j, hj, h⟩ := ih (run fs [.pSeekEnd, .pWrite r]) n
        refine ⟨j+1, by simpa using hj, ?_⟩
        simp only [List.take_succ_cons, run_cons, run_nil] at h ⊢
        rw [h]
        simp [exec, afterClose]
    · simp only [if_true, List.cons_append, List.nil_append]
      match k with
      | 0 => exact ⟨0, by simp⟩
      | 1 => exact ⟨0, by simp [exec, afterClose]⟩
      | 2 => exact ⟨1, by simp [exec, afterClose]⟩
      | 3 => exact ⟨1, by simp [exec, afterClose]⟩
      | 4 => exact ⟨1, by simp [exec, afterClose]⟩
      | (n+5) =>
        obtain ⟨j, hj, h⟩ := ih (run fs [.pSeekEnd, .pWrite r, .pFlush, .pFsync, .pTruncate]) n
        refine ⟨j+1, by simpa using hj, ?_⟩
        simp only [List.take_succ_cons, run_cons, run_nil] at h ⊢
        rw [h]
        simp [exec, afterClose]

/-- a prefix of an append with `flush_on_insert`: the file holds the old contents plus a prefix of
    the new rows -/
theorem append_prefix_crash (fs : FS R) (hp : fs.pendP = []) (rows : List R) (k : Nat) :
    ∃ j, j ≤ rows.length ∧
      (run fs ((appendSteps true rows).take k)).primary = fs.primary ++ rows.take j := by
  induction rows generalizing fs k with
  | nil => exact ⟨0, by simp⟩
  | cons r t ih =>
    rw [appendSteps_cons]
    simp only [if_true, List.cons_append, List.nil_append]
    match k with
    | 0 => exact ⟨0, by simp⟩
    | 1 => exact ⟨0, by simp [exec, hp]⟩
    | 2 => exact ⟨0, by simp [exec, hp]⟩
    | 3 => exact ⟨1, by simp [exec, hp]⟩
    | 4 => exact ⟨1, by simp [exec, hp]⟩
    | (n+5) =>
      obtain ⟨j, hj, h⟩ := ih (run fs [.pSeekEnd, .pWrite r, .pFlush, .pFsync, .pTruncate])
        (by simp [exec]) n
      refine ⟨j+1, by simpa using hj, ?_⟩
      simp only [List.take_succ_cons, run_cons, run_nil] at h ⊢
      rw [h]
      simp [exec, hp]

/-- a prefix of an append (either mode) only ever extends the file -/
theorem append_prefix_isPrefix (fs : FS R) (flush : Bool) (rows : List R) (k : Nat) :
    fs.primary <+: (run fs ((appendSteps flush rows).take k)).primary := by
  induction rows generalizing fs k with
  | nil => simp
  | cons r t ih =>
    rw [appendSteps_cons]
    cases flush
    · simp only [Bool.false_eq_true, if_false, List.cons_append, List.nil_append]
      match k with
      | 0 => simp
      | 1 => simp [exec]
      | (n+2) =>
        have h := ih (run fs [.pSeekEnd, .pWrite r]) n
        simp only [List.take_succ_cons, run_cons, run_nil] at h ⊢
        refine List.IsPrefix.trans ?_ h
        simp [exec]
    · simp only [if_true, List.cons_append, List.nil_append]
      match k with
      | 0 => simp
      | 1 => simp [exec]
      | 2 => simp [exec]
      | 3 => simp [exec, List.append_assoc]
      | 4 => simp [exec, List.append_assoc]
      | (n+5) =>
        have h := ih (run fs [.pSeekEnd, .pWrite r, .pFlush, .pFsync, .pTruncate]) n
        simp only [List.take_succ_cons, run_cons, run_nil] at h ⊢
        refine List.IsPrefix.trans ?_ h
        simp [exec, List.append_assoc]

end TinyFlux.Model.IO
