import TinyFlux.Model.DB
/-!
# Definitions shared by the index / database proofs

`Represents idx l` — the index `idx` is exactly the index of storage contents `l`;
`Inv s` — a state whose index, if flagged valid, represents its storage;
`OpOK`, `MeasOK` — the hypotheses on an operation's arguments under which the refinement is stated.
Definitions only; lemmas live in the other files of `Lemmas/`, property theorems in `Props/`.
-/
namespace TinyFlux.Model
open TinyFlux.Spec

/-- a point's tag and field sets are Python dicts: keys are unique -/
def WFPoint (p : Point) : Prop := (p.tags.map (·.1)).Nodup ∧ (p.fields.map (·.1)).Nodup

/-- entries contributed to a posting list by the points of `l` (numbered from `a`): the positions
    (with payload) of the points that carry the key -/
def postFrom {β : Type} (c : Point → Option β) : List Point → Nat → List (Nat × β)
  | [], _ => []
  | p :: t, a =>
    match c p with
    | some b => (a, b) :: postFrom c t (a + 1)
    | none => postFrom c t (a + 1)

def carryMeas (name : String) (p : Point) : Option Unit := if p.meas == name then some () else none
def carryTag (kv : String × Option String) (p : Point) : Option Unit :=
  if p.tags.lookup kv.1 == some kv.2 then some () else none
def carryField (k : String) (p : Point) : Option (Option Num) := p.fields.lookup k

/-- well-formed posting map: unique keys, no empty posting list (a key is present iff some point carries it) -/
def WFMap {K P : Type} (m : PMap K P) : Prop := (keysAL m).Nodup ∧ ∀ kv ∈ m, kv.2 ≠ []

/-- the rows of `l` (numbered from `a`) whose position satisfies `keep` -/
def keepIdx {α : Type} (keep : Nat → Bool) : List α → Nat → List α
  | [], _ => []
  | x :: t, a => if keep a then x :: keepIdx keep t (a + 1) else keepIdx keep t (a + 1)

/-- number of kept positions in `[a, i)`: the new position of a kept row -/
def cnt (keep : Nat → Bool) (a i : Nat) : Nat := ((List.range' a (i - a)).filter keep).length

/-- `idx` is exactly the index of `l` -/
structure Represents (idx : Index) (l : List Point) : Prop where
  num : idx.numItems = l.length
  meas : ∀ name, idx.meas.posting name = postFrom (carryMeas name) l 0
  tags : ∀ kv, idx.tags.posting kv = postFrom (carryTag kv) l 0
  fields : ∀ k, idx.fields.posting k = postFrom (carryField k) l 0
  wfMeas : WFMap idx.meas
  wfTags : WFMap idx.tags
  wfFields : WFMap idx.fields
  tsLen : idx.ts.length = idx.pos.length
  tsSorted : idx.ts.Pairwise (· ≤ ·)
  tsPerm : (idx.ts.zip idx.pos).Perm (l.zipIdx.map (fun pi => (pi.1.time, pi.2)))

/-- a point that storage can hold faithfully: dict-shaped, and unchanged by a trip through the
    storage's serialiser (always true for `MemoryStorage`; `Codable` for CSV, see C05) -/
def Good (cfg : Cfg) (p : Point) : Prop := WFPoint p ∧ cfg.norm p = p

/-- the measurement override of `insert(point, measurement)` -/
def setMeas (m : Option String) (p : Point) : Point :=
  match m with | some name => { p with meas := name } | none => p

/-- hypotheses on the *data* an operation carries -/
def OpOK (cfg : Cfg) : Op → Prop
  | .insert pts m => ∀ p, some p ∈ pts → Good cfg (setMeas (effMeas m) p)
  | .update _ _ u _ => ∀ p p', Good cfg p → upd u p = .ok p' → Good cfg p'
  | _ => True

/-- the measurement argument is not the empty string (known finding: the code reads `""` as "no filter") -/
def MeasOK : Op → Prop
  | .insert _ m | .search _ m _ | .count _ m | .contains _ m | .get _ m | .select _ _ m
  | .getTagKeys m | .getTagValues _ m | .getFieldKeys m | .getFieldValues _ m | .getTimestamps m
  | .remove _ m | .update _ _ _ m => m ≠ some ""
  | .drop name | .mlen name | .miter name | .mall name _ => name ≠ ""
  | _ => True

structure Inv (s : State) : Prop where
  good : ∀ p ∈ s.storage, Good s.cfg p
  rep : s.index.valid = true → Represents s.index s.storage

/-- outputs that are Python dicts are compared without order -/
def canon : Out → Out
  | .tagVals l => .tagVals (l.mergeSort (fun a b => decide (a.1 ≤ b.1)))
  | o => o

end TinyFlux.Model
