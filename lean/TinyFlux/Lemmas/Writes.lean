import TinyFlux.Lemmas.WritesAux
/-! Refinement of insert / remove / drop / remove_all / update, and preservation of the invariant (agent D2). -/
namespace TinyFlux.Model
open TinyFlux.Spec
namespace Writes

theorem effMeas_eq (m : Option String) (hm : m ≠ some "") : effMeas m = m := by
  cases m with
  | none => rfl
  | some s =>
    have : s ≠ "" := fun h => hm (by rw [h])
    simp [effMeas, this]

theorem reset_spec (s : State) (_hs : Inv s) :
    Inv s.resetDatabase ∧ s.resetDatabase.storage = [] ∧ s.resetDatabase.cfg = s.cfg := by
  refine ⟨⟨by simp [State.resetDatabase], ?_⟩, rfl, rfl⟩
  intro hv
  simp only [State.resetDatabase] at hv ⊢
  cases ha : s.cfg.autoIndex
  · simp [ha, Index.invalidate] at hv
  · simp only [if_true, Index.reset]; exact represents_empty

/-! ## insert -/

/-- one iteration of `_insert_helper`'s loop, for the point with its measurement already overridden -/
def insertStep (s : State) (p : Point) : State :=
  let s1 := { s with storage := s.storage ++ [s.cfg.norm p] }
  if s1.cfg.autoIndex && s1.index.valid then
    if !s1.index.empty && (match s1.index.latestTime with | some lt => decide (p.time < lt) | none => false)
    then { s1 with index := s1.index.invalidate }
    else { s1 with index := s1.index.insert p }
  else s1

theorem insertLoop_cons (s : State) (m : Option String) (p : Point) (t : List (Option Point)) (c : Nat) :
    State.insertLoop s m (some p :: t) c = State.insertLoop (insertStep s (setMeas (effMeas m) p)) m t (c + 1) := by
  rw [State.insertLoop]
  unfold insertStep setMeas
  cases effMeas m <;> rfl

theorem insertStep_storage (s : State) (p : Point) : (insertStep s p).storage = s.storage ++ [s.cfg.norm p] := by
  unfold insertStep; simp only [apply_ite State.storage, ite_self]

theorem insertStep_cfg (s : State) (p : Point) : (insertStep s p).cfg = s.cfg := by
  unfold insertStep; simp only [apply_ite State.cfg, ite_self]

theorem insertStep_noauto (s : State) (p : Point) (ha : s.cfg.autoIndex = false) : (insertStep s p).index = s.index := by
  unfold insertStep; simp [ha]

theorem insertStep_rep (s : State) (p : Point) (hp : Good s.cfg p)
    (hrep : s.index.valid = true → Represents s.index s.storage) :
    (insertStep s p).index.valid = true → s.cfg.autoIndex = true →
      Represents (insertStep s p).index (insertStep s p).storage := by
  intro hv ha
  rw [insertStep_storage, hp.2]
  cases hval : s.index.valid
  · have : (insertStep s p).index = s.index := by unfold insertStep; simp [hval]
    rw [this, hval] at hv; cases hv
  · by_cases hc : (!s.index.empty && (match s.index.latestTime with
        | some lt => decide (p.time < lt) | none => false)) = true
    · have : (insertStep s p).index = s.index.invalidate := by
        unfold insertStep; simp only [ha, hval, Bool.and_self, if_true]; rw [if_pos hc]
      rw [this] at hv; simp [Index.invalidate] at hv
    · have : (insertStep s p).index = s.index.insert p := by
        unfold insertStep; simp only [ha, hval, Bool.and_self, if_true]; rw [if_neg hc]
      rw [this]
      apply represents_insert (hrep hval) hp.1
      intro t ht
      have hne : s.index.empty = false := by
        have : s.index.ts ≠ [] := by intro e; rw [e] at ht; cases ht
        simp [Index.empty, this]
      simp only [hne, Bool.not_false, Bool.true_and, Index.latestTime, ht, decide_eq_true_eq] at hc
      exact Int.not_lt.mp hc

theorem insertLoop_spec (m : Option String) (hm : m ≠ some "") (pts : List (Option Point)) :
    ∀ (s : State) (c : Nat), (∀ p ∈ s.storage, Good s.cfg p) →
      (s.cfg.autoIndex = true → s.index.valid = true → Represents s.index s.storage) →
      (∀ p, some p ∈ pts → Good s.cfg (setMeas (effMeas m) p)) →
      (State.insertLoop s m pts c).1.storage = s.storage ++ (insertPrefix m pts).1 ∧
      (State.insertLoop s m pts c).1.cfg = s.cfg ∧
      (∀ p ∈ (State.insertLoop s m pts c).1.storage, Good s.cfg p) ∧
      (s.cfg.autoIndex = true → (State.insertLoop s m pts c).1.index.valid = true →
        Represents (State.insertLoop s m pts c).1.index (State.insertLoop s m pts c).1.storage) ∧
      (s.cfg.autoIndex = false → (State.insertLoop s m pts c).1.index = s.index) ∧
      (State.insertLoop s m pts c).2.1 = c + (insertPrefix m pts).1.length ∧
      (State.insertLoop s m pts c).2.2 = if (insertPrefix m pts).2 then some .type else none := by
  induction pts with
  | nil => intro s c hg hr _; simp [State.insertLoop, insertPrefix]; exact ⟨hg, hr⟩
  | cons x t ih =>
    intro s c hg hr hok
    cases x with
    | none => simp [State.insertLoop, insertPrefix]; exact ⟨hg, hr⟩
    | some p =>
      have hp : Good s.cfg (setMeas (effMeas m) p) := hok p (by simp)
      rw [insertLoop_cons]
      have hcfg := insertStep_cfg s (setMeas (effMeas m) p)
      have hsto := insertStep_storage s (setMeas (effMeas m) p)
      rw [hp.2] at hsto
      obtain ⟨h1, h2, h3, h4, h5, h6, h7⟩ := ih (insertStep s (setMeas (effMeas m) p)) (c + 1)
        (by rw [hsto, hcfg]; intro q hq
            rcases List.mem_append.mp hq with h | h
            · exact hg q h
            · simp at h; rw [h]; exact hp)
        (by rw [hcfg]; intro ha hv
            cases hval : s.index.valid
            · exact insertStep_rep s _ hp (by simp [hval]) hv ha
            · exact insertStep_rep s _ hp (fun _ => hr ha hval) hv ha)
        (by rw [hcfg]; intro q hq; exact hok q (by simp [hq]))
      have hpre : insertPrefix m (some p :: t) =
          (setMeas (effMeas m) p :: (insertPrefix m t).1, (insertPrefix m t).2) := by
        rw [effMeas_eq m hm]; rfl
      rw [hpre]
      rw [hcfg] at h2 h3 h4 h5
      refine ⟨by rw [h1, hsto]; simp, h2, h3, h4, ?_, by rw [h6]; simp; omega, h7⟩
      intro ha
      rw [h5 ha, insertStep_noauto s _ ha]

theorem insert_refines (s : State) (hs : Inv s) (pts : List (Option Point)) (m : Option String)
    (hok : OpOK s.cfg (.insert pts m)) (hm : m ≠ some "") :
    (s.step (.insert pts m)).2 = (Spec.step s.storage (.insert pts m)).2 ∧
    (s.step (.insert pts m)).1.storage = (Spec.step s.storage (.insert pts m)).1 ∧
    (s.step (.insert pts m)).1.cfg = s.cfg ∧ Inv (s.step (.insert pts m)).1 := by
  obtain ⟨h1, h2, h3, h4, h5, h6, h7⟩ := insertLoop_spec m hm pts s 0 hs.good (fun _ hv => hs.rep hv) hok
  simp only [State.step, State.insertOp, Spec.step]
  generalize State.insertLoop s m pts 0 = r at *
  obtain ⟨s', c, e⟩ := r
  simp only at h1 h2 h3 h4 h5 h6 h7 ⊢
  generalize insertPrefix m pts = pre at *
  obtain ⟨l, eb⟩ := pre
  simp only [Nat.zero_add] at h1 h2 h3 h4 h5 h6 h7 ⊢
  subst h6 h7
  refine ⟨by cases eb <;> rfl, ?_, ?_, ?_⟩
  · simp only [apply_ite State.storage, ite_self, h1]
  · simp only [apply_ite State.cfg, ite_self, h2]
  · rw [h2]
    cases ha : s.cfg.autoIndex
    · have hidx := h5 ha
      by_cases hc : (l.length != 0 && s'.index.valid) = true
      · simp only [Bool.not_false, Bool.and_true, hc, if_true]
        exact ⟨by simpa [h2] using h3, by simp [Index.invalidate]⟩
      · simp only [Bool.not_false, Bool.and_true, hc, Bool.false_eq_true, if_false]
        refine ⟨by simpa [h2] using h3, fun hv => ?_⟩
        have hl : l = [] := by
          rw [hv] at hc
          simpa using hc
        rw [h1, hl, hidx, List.append_nil]
        exact hs.rep (hidx ▸ hv)
    · simp only [Bool.not_true, Bool.and_false, Bool.false_and, Bool.false_eq_true, if_false]
      exact ⟨by simpa [h2] using h3, h4 ha⟩

theorem insert_single (s : State) (ha : s.cfg.autoIndex = true) (p : Point) (m : Option String) :
    (s.step (.insert [some p] m)).1 = insertStep s (setMeas (effMeas m) p) := by
  simp only [State.step, State.insertOp]
  rw [insertLoop_cons]
  simp only [State.insertLoop, insertStep_cfg, ha]
  simp

theorem setMeas_time (m : Option String) (p : Point) : (setMeas m p).time = p.time := by
  cases m <;> rfl

/-! ## remove / drop -/

theorem indexSearch_spec (s : State) (hs : Inv s) (hv : s.index.valid = true) (q : Query) (hq : exact q = true)
    (m : Option String) (hm : m ≠ some "") :
    ∃ r, s.indexSearch q m = .ok r ∧ r.Nodup ∧
      ∀ i, i ∈ r ↔ ∃ hi : i < s.storage.length, selected q m s.storage[i] = true := by
  have hwf : ∀ p ∈ s.storage, WFPoint p := fun p hp => (hs.good p hp).1
  unfold State.indexSearch
  rw [effMeas_eq m hm]
  cases m with
  | none =>
    obtain ⟨r, h1, h2, h3⟩ := search_exact s.index s.storage (hs.rep hv) hwf q hq
    exact ⟨r, h1, h2, by simpa [selected] using h3⟩
  | some name =>
    obtain ⟨r, h1, h2, h3⟩ := search_exact s.index s.storage (hs.rep hv) hwf
      (.and (.meas (.cmp .eq (.str name))) q) (by simp [exact, hq])
    refine ⟨r, h1, h2, ?_⟩
    intro i
    rw [h3]
    simp only [selected, sem, Leaf.eval, pyCmp, Option.all_some, Bool.and_eq_true, beq_iff_eq, PyV.str.injEq]
    constructor <;> rintro ⟨hi, h, h'⟩ <;> exact ⟨hi, h.symm, h'⟩

/-- the common tail of the two branches of `_remove_helper` -/
def removeFinish (s : State) (kru : List Point × List Nat × List (Nat × Nat)) : State × Nat :=
  if kru.2.1.isEmpty then (s, 0) else
  if kru.1.isEmpty then (s.resetDatabase, kru.2.1.length) else
  ({ s with storage := kru.1,
            index := if s.cfg.autoIndex then (s.index.remove kru.2.1).update kru.2.2 else s.index.invalidate },
   kru.2.1.length)

theorem removeHelper_index (s : State) (q : Query) (m : Option String) (h : (s.index.valid && exact q) = true)
    (items : List Nat) (hi : s.indexSearch q m = .ok items) :
    s.removeHelper q m = .ok (if items.isEmpty then (s, 0) else
      if items.length == s.index.numItems then (s.resetDatabase, items.length) else
      removeFinish s (State.removeLoop items s.storage 0 0 0)) := by
  unfold State.removeHelper
  simp only [h, if_true, hi, bind, Except.bind, pure, Except.pure, removeFinish]
  repeat' (split <;> try rfl)

theorem removeHelper_scan (s : State) (q : Query) (m : Option String) (h : (s.index.valid && exact q) = false)
    (flags : List Bool) (hf : s.storage.mapM (State.scanSel q m) = .ok flags) :
    s.removeHelper q m = .ok (removeFinish s (State.scanRemoveLoop (s.storage.zip flags) 0 0)) := by
  unfold State.removeHelper
  simp only [h, Bool.false_eq_true, if_false, hf, bind, Except.bind, pure, Except.pure, removeFinish]
  repeat' (split <;> try rfl)

theorem filter_not_of_none {α : Type} (sel : α → Bool) (l : List α) (h : (l.filter sel).length = 0) :
    l.filter (fun p => !sel p) = l := by
  have := length_filter_add_not sel l
  apply List.filter_eq_self.mpr
  exact List.length_filter_eq_length_iff.mp (by omega)

theorem filter_not_of_all {α : Type} (sel : α → Bool) (l : List α) (h : (l.filter sel).length = l.length) :
    l.filter (fun p => !sel p) = [] := by
  have := length_filter_add_not sel l
  exact List.eq_nil_of_length_eq_zero (by omega)

theorem removeFinish_spec (s : State) (hs : Inv s) (hv : s.cfg.autoIndex = true → s.index.valid = true)
    (sel : Point → Bool) :
    (removeFinish s (State.scanRemoveLoop (s.storage.map (fun p => (p, sel p))) 0 0)).2 =
      (s.storage.filter sel).length ∧
    (removeFinish s (State.scanRemoveLoop (s.storage.map (fun p => (p, sel p))) 0 0)).1.storage =
      s.storage.filter (fun p => !sel p) ∧
    (removeFinish s (State.scanRemoveLoop (s.storage.map (fun p => (p, sel p))) 0 0)).1.cfg = s.cfg ∧
    Inv (removeFinish s (State.scanRemoveLoop (s.storage.map (fun p => (p, sel p))) 0 0)).1 := by
  obtain ⟨hk, hk', hlen, hcont, hupd⟩ := loop_spec s.storage sel
  have hsum := scan_length (s.storage.map (fun p => (p, sel p))) 0 0
  generalize State.scanRemoveLoop (s.storage.map (fun p => (p, sel p))) 0 0 = kru at *
  obtain ⟨k, r, u⟩ := kru
  simp only [List.length_map] at hk hlen hcont hupd hsum
  unfold removeFinish
  simp only []
  by_cases h1 : r.isEmpty = true
  · rw [if_pos h1]
    have hr : r = [] := by simpa using h1
    rw [hr] at hlen
    exact ⟨hlen, (filter_not_of_none sel _ hlen.symm).symm, rfl, hs⟩
  · rw [if_neg h1]
    by_cases h2 : k.isEmpty = true
    · rw [if_pos h2]
      have hk0 : k = [] := by simpa using h2
      obtain ⟨a, b, c⟩ := reset_spec s hs
      exact ⟨hlen, by rw [b, ← hk, hk0], c, a⟩
    · rw [if_neg h2]
      refine ⟨hlen, hk, rfl, ⟨?_, ?_⟩⟩
      · intro p hp
        simp only [hk] at hp
        exact hs.good p (List.mem_filter.mp hp).1
      · simp only [hk]
        cases ha : s.cfg.autoIndex
        · simp [Index.invalidate]
        · intro _
          simp only [if_true]
          rw [← hk']
          apply represents_remove_update (hs.rep (hv ha)) _ _ _ hcont hupd
          rw [hk', ← hk]; exact hsum

theorem mapM_scanSel (l : List Point) (q : Query) (m : Option String) (hm : m ≠ some "") :
    l.mapM (State.scanSel q m) = .ok (l.map (selected q m)) := by
  have : State.scanSel q m = fun p => (pure (selected q m p) : Except Exc Bool) := by
    funext p; exact scanSel_eq q m hm p
  rw [this, List.mapM_pure]; rfl

theorem removeHelper_spec (s : State) (hs : Inv s) (hv : s.cfg.autoIndex = true → s.index.valid = true)
    (q : Query) (m : Option String) (hm : m ≠ some "") :
    ∃ s', s.removeHelper q m = .ok (s', (s.storage.filter (selected q m)).length) ∧
      s'.storage = s.storage.filter (fun p => !selected q m p) ∧ s'.cfg = s.cfg ∧ Inv s' := by
  by_cases h : (s.index.valid && exact q) = true
  · have h' := h
    simp only [Bool.and_eq_true] at h'
    obtain ⟨items, hi, hnd, hmem⟩ := indexSearch_spec s hs h'.1 q h'.2 m hm
    have hcount := items_length s.storage (selected q m) items hnd hmem
    rw [removeHelper_index s q m h items hi]
    by_cases h1 : items.isEmpty = true
    · rw [if_pos h1]
      have : items = [] := by simpa using h1
      rw [this] at hcount
      exact ⟨s, by rw [← hcount]; rfl, (filter_not_of_none _ _ hcount.symm).symm, rfl, hs⟩
    · rw [if_neg h1]
      by_cases h2 : (items.length == s.index.numItems) = true
      · rw [if_pos h2]
        have h2' : items.length = s.storage.length := by
          rw [← (hs.rep h'.1).num]; simpa using h2
        obtain ⟨a, b, c⟩ := reset_spec s hs
        exact ⟨_, by rw [hcount], by rw [b, filter_not_of_all _ _ (hcount ▸ h2')], c, a⟩
      · rw [if_neg h2, removeLoop_eq items hnd s.storage 0 0 0
          (by rw [List.filter_eq_nil_iff.mpr (by simp)]; rfl), rows_index _ _ _ hmem]
        obtain ⟨a, b, c, d⟩ := removeFinish_spec s hs hv (selected q m)
        exact ⟨_, by rw [← a], b, c, d⟩
  · have h' : (s.index.valid && exact q) = false := by simpa using h
    rw [removeHelper_scan s q m h' _ (mapM_scanSel _ q m hm), rows_scan]
    obtain ⟨a, b, c, d⟩ := removeFinish_spec s hs hv (selected q m)
    exact ⟨_, by rw [← a], b, c, d⟩

theorem remove_refines (s : State) (hs : Inv s) (q : Query) (m : Option String) (hm : m ≠ some "") :
    (s.step (.remove q m)).2 = (Spec.step s.storage (.remove q m)).2 ∧
    (s.step (.remove q m)).1.storage = (Spec.step s.storage (.remove q m)).1 ∧
    (s.step (.remove q m)).1.cfg = s.cfg ∧ Inv (s.step (.remove q m)).1 := by
  obtain ⟨r1, r2, r3, r4, _⟩ := readOp_spec s hs
  obtain ⟨s', e1, e2, e3, e4⟩ := removeHelper_spec s.readOp r1 (fun ha => r4 (r3 ▸ ha)) q m hm
  simp only [State.step, e1, Spec.step, Spec.remove, Spec.count, Spec.search]
  rw [r2] at e2 ⊢
  exact ⟨rfl, e2, e3.trans r3, e4⟩

theorem drop_refines (s : State) (hs : Inv s) (name : String) (hm : name ≠ "") :
    (s.step (.drop name)).2 = (Spec.step s.storage (.drop name)).2 ∧
    (s.step (.drop name)).1.storage = (Spec.step s.storage (.drop name)).1 ∧
    (s.step (.drop name)).1.cfg = s.cfg ∧ Inv (s.step (.drop name)).1 := by
  obtain ⟨r1, r2, r3, r4, _⟩ := readOp_spec s hs
  obtain ⟨s', e1, e2, e3, e4⟩ := removeHelper_spec s.readOp r1 (fun ha => r4 (r3 ▸ ha))
    (.meas (.cmp .eq (.str name))) (some name) (by simpa using hm)
  have hsel : selected (.meas (.cmp .eq (.str name))) (some name) = selected .noop (some name) := by
    funext p
    simp only [selected, sem, Leaf.eval, pyCmp, Option.all_some, Bool.and_true]
    cases h : (name == p.meas)
    · rfl
    · have : name = p.meas := by simpa using h
      simp [this]
  simp only [State.step, e1, Spec.step, Spec.drop, Spec.remove, Spec.count, Spec.search]
  rw [hsel] at e2 ⊢
  rw [r2] at e2 ⊢
  exact ⟨rfl, e2, e3.trans r3, e4⟩

theorem removeAll_refines (s : State) (hs : Inv s) :
    (s.step .removeAll).2 = (Spec.step s.storage .removeAll).2 ∧
    (s.step .removeAll).1.storage = (Spec.step s.storage .removeAll).1 ∧
    (s.step .removeAll).1.cfg = s.cfg ∧ Inv (s.step .removeAll).1 := by
  obtain ⟨a, b, c⟩ := reset_spec s hs
  exact ⟨rfl, b, c, a⟩

/-! ## update -/

/-- the per-point function of `Spec.update` -/
def specF (u : Upd) (sel : Point → Bool) (p : Point) : Except Err Point :=
  if sel p then do let p' ← upd u p; pure (if p'.eqv p then p else p') else pure p

theorem update_eq (db : DB) (u : Upd) (q : Query) (m : Option String) :
    Spec.update db u q m = (db.mapM (specF u (selected q m))) >>= fun db' =>
      pure (db', (List.zip db db').countP (fun pp => !(pp.1.eqv pp.2))) := rfl

theorem updateLoop_spec (cfg : Cfg) (u : Upd)
    (hok : ∀ p p', Good cfg p → upd u p = .ok p' → Good cfg p') (sel : Point → Bool) (l : List Point)
    (hg : ∀ p ∈ l, Good cfg p) :
    match l.mapM (specF u sel) with
    | .error e => State.updateLoop cfg.norm u (l.map (fun p => (p, sel p))) = .error e
    | .ok db' =>
      State.updateLoop cfg.norm u (l.map (fun p => (p, sel p))) =
        .ok (db', (List.zip l db').countP (fun pp => !(pp.1.eqv pp.2))) ∧
      (∀ p ∈ db', Good cfg p) ∧
      ((List.zip l db').countP (fun pp => !(pp.1.eqv pp.2)) = 0 → db' = l) := by
  induction l with
  | nil => simp [State.updateLoop, pure, Except.pure]
  | cons p t ih =>
    have hp : Good cfg p := hg p (by simp)
    have ih := ih (fun q hq => hg q (by simp [hq]))
    rw [List.mapM_cons]
    simp only [List.map_cons]
    cases hs : sel p
    · -- not selected
      simp only [specF, hs, Bool.false_eq_true, if_false, State.updateLoop]
      cases ht : t.mapM (specF u sel) with
      | error e =>
        rw [ht] at ih; simp only at ih
        simp [ih, bind, Except.bind, pure, Except.pure]
      | ok db' =>
        rw [ht] at ih; simp only at ih
        obtain ⟨i1, i2, i3⟩ := ih
        simp only [i1, bind, Except.bind, pure, Except.pure, List.zip_cons_cons, List.countP_cons,
          eqv_refl p hp.1, Bool.not_true, Bool.false_eq_true, if_false, Nat.add_zero]
        refine ⟨trivial, ?_, fun h => by rw [i3 h]⟩
        intro q hq
        rcases List.mem_cons.mp hq with e | e
        · rw [e]; exact hp
        · exact i2 q e
    · -- selected
      simp only [specF, hs, if_true, State.updateLoop]
      cases hu : upd u p with
      | error e => simp [bind, Except.bind]
      | ok p' =>
        have hp' : Good cfg p' := hok p p' hp hu
        cases ht : t.mapM (specF u sel) with
        | error e =>
          rw [ht] at ih; simp only at ih
          simp [ih, bind, Except.bind, pure, Except.pure]
        | ok db' =>
          rw [ht] at ih; simp only at ih
          obtain ⟨i1, i2, i3⟩ := ih
          cases he : p'.eqv p
          · have he' : p.eqv p' = false := by rw [eqv_comm p p' hp.1 hp'.1]; exact he
            simp only [i1, bind, Except.bind, pure, Except.pure, List.zip_cons_cons, List.countP_cons,
              he, he', Bool.not_false, Bool.false_eq_true, if_false, if_true, hp'.2]
            refine ⟨trivial, ?_, fun h => by omega⟩
            intro q hq
            rcases List.mem_cons.mp hq with e | e
            · rw [e]; exact hp'
            · exact i2 q e
          · simp only [i1, bind, Except.bind, pure, Except.pure, List.zip_cons_cons, List.countP_cons,
              he, eqv_refl p hp.1, Bool.not_true, Bool.false_eq_true, if_false, if_true, Nat.add_zero]
            refine ⟨trivial, ?_, fun h => by rw [i3 h]⟩
            intro q hq
            rcases List.mem_cons.mp hq with e | e
            · rw [e]; exact hp
            · exact i2 q e

theorem mapM_specF_none (u : Upd) (sel : Point → Bool) (l : List Point) (h : ∀ p ∈ l, sel p = false) :
    l.mapM (specF u sel) = .ok l := by
  induction l with
  | nil => rfl
  | cons p t ih =>
    rw [List.mapM_cons, ih (fun q hq => h q (by simp [hq]))]
    simp [specF, h p (by simp), bind, Except.bind, pure, Except.pure]

theorem countP_self (l : List Point) (h : ∀ p ∈ l, WFPoint p) :
    (List.zip l l).countP (fun pp => !(pp.1.eqv pp.2)) = 0 := by
  induction l with
  | nil => rfl
  | cons p t ih =>
    simp [eqv_refl p (h p (by simp)), ih (fun q hq => h q (by simp [hq]))]

theorem updateSel_spec (s : State) (hs : Inv s) (all : Bool) (q : Query) (m : Option String) (hm : m ≠ some "") :
    (s.updateSel all q m = .ok none ∧ ∀ p ∈ s.storage, selected (if all then .noop else q) m p = false) ∨
    s.updateSel all q m =
      .ok (some (s.storage.map (fun p => (p, selected (if all then .noop else q) m p)))) := by
  unfold State.updateSel
  rw [effMeas_eq m hm]
  cases all
  · -- a query
    have hscan : (do
        let flags ← s.storage.mapM (State.scanSel q m)
        pure (some (s.storage.zip flags)) : Except Exc (Option (List (Point × Bool)))) =
        .ok (some (s.storage.map (fun p => (p, selected q m p)))) := by
      rw [mapM_scanSel _ q m hm]
      simp only [bind, Except.bind, pure, Except.pure, rows_scan]
    simp only [Bool.false_eq_true, if_false, Bool.not_false, Bool.true_and]
    by_cases h : (s.index.valid && exact q) = true
    · have h' := h
      simp only [Bool.and_eq_true] at h'
      obtain ⟨items, hi, hnd, hmem⟩ := indexSearch_spec s hs h'.1 q h'.2 m hm
      simp only [h, if_true, hi, bind, Except.bind]
      by_cases h1 : items.isEmpty = true
      · left
        simp only [h1, if_true, pure, Except.pure, true_and]
        have : items = [] := by simpa using h1
        intro p hp
        obtain ⟨i, hi, rfl⟩ := List.getElem_of_mem hp
        cases hsel : selected q m s.storage[i]
        · rfl
        · have := (hmem i).mpr ⟨hi, hsel⟩
          simp_all
      · right
        simp only [h1, Bool.false_eq_true, if_false]
        by_cases h2 : (items.length == s.index.numItems) = true
        · simp only [h2, if_true]; exact hscan
        · simp only [h2, Bool.false_eq_true, if_false, pure, Except.pure, rows_index _ _ _ hmem]
    · right
      simp only [h, Bool.false_eq_true, if_false]
      exact hscan
  · -- every point (of the measurement)
    right
    simp only [Bool.not_true, Bool.false_and, Bool.false_eq_true, if_false, if_true]
    cases m with
    | none =>
      simp only [List.mapM_pure]
      simp only [bind, Except.bind, pure, Except.pure, rows_scan]
      simp [selected, sem]
    | some name =>
      simp only [List.mapM_pure]
      simp only [bind, Except.bind, pure, Except.pure, rows_scan]
      congr 2
      apply List.map_congr_left
      intro p _
      simp only [selected, sem, Option.all_some, Bool.and_true, Prod.mk.injEq, true_and]
      exact Bool.beq_comm

theorem update_refines (s : State) (hs : Inv s) (all : Bool) (q : Query) (u : Upd) (m : Option String)
    (hok : OpOK s.cfg (.update all q u m)) (hm : m ≠ some "") :
    (s.step (.update all q u m)).2 = (Spec.step s.storage (.update all q u m)).2 ∧
    (s.step (.update all q u m)).1.storage = (Spec.step s.storage (.update all q u m)).1 ∧
    (s.step (.update all q u m)).1.cfg = s.cfg ∧ Inv (s.step (.update all q u m)).1 := by
  obtain ⟨r1, r2, r3, _, _⟩ := readOp_spec s hs
  simp only [State.step, Spec.step, State.updateHelper]
  rw [← r2]
  by_cases he : updEmpty u = true
  · simp only [he, if_true]
    exact ⟨trivial, trivial, r3, r1⟩
  · simp only [he, Bool.false_eq_true, if_false]
    rw [update_eq]
    have hwf : ∀ p ∈ s.readOp.storage, WFPoint p := fun p hp => (r1.good p hp).1
    rcases updateSel_spec s.readOp r1 all q m hm with ⟨h1, h2⟩ | h1
    · rw [h1, mapM_specF_none u _ _ h2]
      simp only [bind, Except.bind, pure, Except.pure, countP_self _ hwf]
      exact ⟨trivial, trivial, r3, r1⟩
    · rw [h1]
      simp only []
      have hl := updateLoop_spec s.readOp.cfg u (fun p p' => by rw [r3]; exact hok p p')
        (selected (if all = true then Query.noop else q) m) _ r1.good
      cases hmm : s.readOp.storage.mapM (specF u (selected (if all = true then Query.noop else q) m)) with
      | error e =>
        rw [hmm] at hl; simp only at hl
        rw [hl]
        simp only [bind, Except.bind]
        exact ⟨trivial, trivial, r3, r1⟩
      | ok db' =>
        rw [hmm] at hl; simp only at hl
        obtain ⟨l1, l2, l3⟩ := hl
        rw [l1]
        simp only [bind, Except.bind, pure, Except.pure]
        by_cases hc : (List.countP (fun pp => !pp.1.eqv pp.2) (s.readOp.storage.zip db') == 0) = true
        · simp only [hc, if_true]
          have hc' := l3 (by simpa using hc)
          exact ⟨by rw [eq_of_beq hc], hc'.symm, r3, r1⟩
        · simp only [hc, Bool.false_eq_true, if_false]
          refine ⟨trivial, trivial, r3, ⟨l2, ?_⟩⟩
          cases ha : s.readOp.cfg.autoIndex
          · simp [Index.invalidate]
          · intro _
            simp only [if_true]
            exact represents_build_w db' (fun p hp => (l2 p hp).1)

end Writes
open Writes

/-- every write operation (incl. the ones that raise) returns what the Spec says, leaves storage as the
    Spec says and keeps the invariant -/
theorem step_write_refines (s : State) (hs : Inv s) (op : Op) (hw : isRead op = false)
    (hok : OpOK s.cfg op) (hm : MeasOK op) :
    (s.step op).2 = (Spec.step s.storage op).2 ∧
    (s.step op).1.storage = (Spec.step s.storage op).1 ∧ (s.step op).1.cfg = s.cfg ∧ Inv (s.step op).1 := by
  cases op with
  | insert pts m => exact Writes.insert_refines s hs pts m hok hm
  | remove q m => exact Writes.remove_refines s hs q m hm
  | drop name => exact Writes.drop_refines s hs name hm
  | removeAll => exact Writes.removeAll_refines s hs
  | update all q u m => exact Writes.update_refines s hs all q u m hok hm
  | _ => simp [isRead] at hw

/-- with automatic indexing, inserting in non-decreasing time order keeps a valid index valid -/
theorem insert_inorder_keeps_valid (s : State) (hs : Inv s) (hv : s.index.valid = true) (ha : s.cfg.autoIndex = true)
    (p : Point) (m : Option String) (hok : OpOK s.cfg (.insert [some p] m))
    (hord : ∀ q ∈ s.storage, q.time ≤ p.time) :
    (s.step (.insert [some p] m)).1.index.valid = true := by
  rw [Writes.insert_single s ha]
  have hlt := (latestTime_spec s.index s.storage (timeRep_of_represents (hs.rep hv))).2
  have hc : ¬ (!s.index.empty && (match s.index.latestTime with
        | some lt => decide ((setMeas (effMeas m) p).time < lt) | none => false)) = true := by
    cases hl : s.index.latestTime with
    | none => simp
    | some t =>
      obtain ⟨⟨q, hq, hqt⟩, _⟩ := hlt t hl
      have h1 := hord q hq
      rw [hqt] at h1
      simp only [Writes.setMeas_time, Bool.and_eq_true, decide_eq_true_eq, not_and]
      intro _
      exact Int.not_lt.mpr h1
  unfold Writes.insertStep
  simp only [ha, hv, Bool.and_self, if_true]
  rw [if_neg hc]
  simp [Index.insert, Index.insertMaps, hv]

/-- an out-of-order insert only appends to storage and invalidates the index -/
theorem insert_out_of_order_only_invalidates (s : State) (hs : Inv s) (hv : s.index.valid = true)
    (ha : s.cfg.autoIndex = true) (p : Point) (hok : OpOK s.cfg (.insert [some p] none))
    (hord : ∃ q ∈ s.storage, p.time < q.time) :
    (s.step (.insert [some p] none)).1.index.valid = false ∧
    (s.step (.insert [some p] none)).1.storage = s.storage ++ [p] := by
  rw [Writes.insert_single s ha]
  have hp : Good s.cfg p := hok p (by simp)
  have hset : setMeas (effMeas none) p = p := rfl
  rw [hset, Writes.insertStep_storage, hp.2]
  refine ⟨?_, rfl⟩
  have hrep := hs.rep hv
  obtain ⟨q, hq, hqt⟩ := hord
  have hlt := (latestTime_spec s.index s.storage (timeRep_of_represents hrep)).2
  have hlen := Writes.represents_len hrep
  have hpos : 0 < s.storage.length := List.length_pos_of_mem hq
  have hc : (!s.index.empty && (match s.index.latestTime with
        | some lt => decide (p.time < lt) | none => false)) = true := by
    have hne : s.index.empty = false := by
      have : s.index.numItems ≠ 0 := by rw [hrep.num]; omega
      simp [Index.empty, this]
    cases hl : s.index.latestTime with
    | none =>
      have : s.index.ts = [] := by simpa [Index.latestTime] using hl
      rw [this] at hlen; simp at hlen; omega
    | some t =>
      have h1 := (hlt t hl).2 q hq
      simp only [hne, Bool.not_false, Bool.true_and, decide_eq_true_eq]
      exact Int.lt_of_lt_of_le hqt h1
  unfold Writes.insertStep
  simp only [ha, hv, Bool.and_self, if_true]
  rw [if_pos hc]
  simp [Index.invalidate]

theorem reopen_inv (s : State) (hs : Inv s) : Inv (reopen s) ∧ (reopen s).storage = s.storage := by
  unfold reopen
  cases hl : s.storage with
  | nil =>
    simp only [List.isEmpty_nil, Bool.not_true, Bool.and_false, Bool.false_eq_true, if_false]
    exact ⟨⟨by simp, fun _ => Writes.represents_empty⟩, trivial⟩
  | cons x t =>
    cases ha : s.cfg.autoIndex
    · simp only [List.isEmpty_cons, Bool.false_and, Bool.false_eq_true, if_false]
      exact ⟨⟨by simpa [hl] using hs.good, by simp⟩, trivial⟩
    · simp only [List.isEmpty_cons, Bool.not_false, Bool.and_true, if_true]
      refine ⟨⟨by simpa [hl] using hs.good, fun _ => ?_⟩, trivial⟩
      apply Writes.represents_build_w
      intro p hp
      exact (hs.good p (by rw [hl]; exact hp)).1

theorem init_inv (cfg : Cfg) : Inv (init cfg) := ⟨by simp [init], fun _ => Writes.represents_empty⟩

end TinyFlux.Model
