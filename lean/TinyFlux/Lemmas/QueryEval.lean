import TinyFlux.Model.Query
/-! Evaluation of a query object (model of queries.py) equals the documented meaning. -/
namespace TinyFlux.Model
open TinyFlux.Spec

theorem pyOp_pyCmp (c : Cmp) (a b : PyV) :
    pyOp c a b = .ok (pyCmp c a b) ∨ (pyOp c a b = .error .type ∧ pyCmp c a b = false) := by
  cases c <;> cases a <;> cases b <;> simp [pyOp, pyCmp, pure, Except.pure, throw, throwThe, MonadExceptOf.throw]

theorem testLeaf_cmp (c : Cmp) (rhs v : PyV) : testLeaf (.cmp c rhs) v = .ok (pyCmp c v rhs) := by
  rcases pyOp_pyCmp c v rhs with h | ⟨h, h'⟩
  · simp [testLeaf, h, pure, Except.pure]
  · simp [testLeaf, h, h', pure, Except.pure]

theorem callOn_map (g : PyV → Option PyV) (t : Leaf) (v : PyV) :
    callOn (.map g t) v = match g v with | some v' => callOn t v' | none => .ok false := by
  unfold callOn
  cases h : g v <;> simp [resolveMaps, h, pure, Except.pure, throw, throwThe, MonadExceptOf.throw]

/-- `SimpleQuery.__call__` after the attribute lookup: never raises, and computes `Leaf.eval` -/
theorem callOn_eq (l : Leaf) (v : PyV) : callOn l v = .ok (l.eval v) := by
  induction l generalizing v with
  | cmp c rhs => simp [callOn, resolveMaps, testLeaf_cmp, Leaf.eval, pure, Except.pure]
  | «exists» => simp [callOn, resolveMaps, testLeaf, Leaf.eval, pure, Except.pure]
  | regex r => cases v <;> simp [callOn, resolveMaps, testLeaf, Leaf.eval, pure, Except.pure]
  | test f => simp [callOn, resolveMaps, testLeaf, Leaf.eval, pure, Except.pure]
  | map g t ih =>
    rw [callOn_map]
    cases h : g v <;> simp [Leaf.eval, h, ih]

theorem eval_eq (q : Query) (p : Point) : eval q p = .ok (sem q p) := by
  induction q with
  | time l => simp [eval, sem, callOn_eq]
  | meas l => simp [eval, sem, callOn_eq]
  | tag k l => simp only [eval, sem]; cases p.tags.lookup k <;> simp [callOn_eq, pure, Except.pure]
  | field k l => simp only [eval, sem]; cases p.fields.lookup k <;> simp [callOn_eq, pure, Except.pure]
  | noop => simp [eval, sem, pure, Except.pure]
  | not q ih => simp [eval, sem, ih, bind, Except.bind, pure, Except.pure]
  | and q r ih1 ih2 => simp [eval, sem, ih1, ih2, bind, Except.bind, pure, Except.pure]
  | or q r ih1 ih2 => simp [eval, sem, ih1, ih2, bind, Except.bind, pure, Except.pure]

end TinyFlux.Model
