import TinyFlux.Lemmas.PMapLemmas
import TinyFlux.Lemmas.TimeIndex
import TinyFlux.Lemmas.SearchAux
/-! L2: what a represented index answers (search over maps, compound queries, getters) (agent C).
    `nodup_dedup`, `mem_dedup`, `nodup_eraseDups` and the generic helpers are in `SearchAux.lean`. -/
set_option linter.unusedVariables false
namespace TinyFlux.Model
open TinyFlux.Spec

theorem searchMeas_spec (idx : Index) (l : List Point) (h : Represents idx l) (lf : Leaf) :
    ∃ r, idx.searchMeas lf = .ok r ∧ r.Nodup ∧
      ∀ i, i ∈ r ↔ ∃ hi : i < l.length, sem (.meas lf) l[i] = true := by
  have e : idx.searchMeas lf = .ok (dedup
      (idx.meas.map (fun kv => if lf.eval (.str kv.1) then kv.2.map (·.1) else [])).flatten) := by
    unfold Index.searchMeas
    rw [mapM_ok_s _ (fun kv => if lf.eval (.str kv.1) then kv.2.map (·.1) else [])]
    · simp only [bind, Except.bind, pure, Except.pure]
    · intro kv _
      simp only [callOn_eq, bind, Except.bind, pure, Except.pure]
      split <;> rfl
  refine ⟨_, e, nodup_dedup _, ?_⟩
  · intro i
    rw [mem_dedup, mem_hits idx.meas carryMeas l h.meas h.wfMeas (fun k => lf.eval (.str k))]
    simp only [sem, carryMeas]
    constructor
    · rintro ⟨k, hf, hi, hc⟩
      refine ⟨hi, ?_⟩
      have : l[i].meas = k := by
        by_cases e : l[i].meas = k
        · exact e
        · simp [e] at hc
      rw [this]; exact hf
    · rintro ⟨hi, hf⟩
      exact ⟨_, hf, hi, by simp⟩

theorem searchTags_spec (idx : Index) (l : List Point) (h : Represents idx l) (hwf : ∀ p ∈ l, WFPoint p)
    (k : String) (lf : Leaf) :
    ∃ r, idx.searchTags k lf = .ok r ∧ r.Nodup ∧
      ∀ i, i ∈ r ↔ ∃ hi : i < l.length, sem (.tag k lf) l[i] = true := by
  have e : idx.searchTags k lf = .ok (dedup
      (idx.tags.map (fun kv => if (kv.1.1 == k && lf.eval (ofOptStr kv.1.2)) then kv.2.map (·.1) else [])).flatten) := by
    unfold Index.searchTags
    rw [mapM_ok_s _ (fun kv => if (kv.1.1 == k && lf.eval (ofOptStr kv.1.2)) then kv.2.map (·.1) else [])]
    · simp only [bind, Except.bind, pure, Except.pure]
    · intro kv _
      simp only [callOn_eq, bind, Except.bind, pure, Except.pure]
      by_cases h1 : (kv.1.1 == k) = true <;> by_cases h2 : lf.eval (ofOptStr kv.1.2) = true <;> simp [h1, h2]
  refine ⟨_, e, nodup_dedup _, ?_⟩
  · intro i
    rw [mem_dedup, mem_hits idx.tags carryTag l h.tags h.wfTags (fun kv => kv.1 == k && lf.eval (ofOptStr kv.2))]
    simp only [sem, carryTag]
    constructor
    · rintro ⟨⟨k', v⟩, hf, hi, hc⟩
      refine ⟨hi, ?_⟩
      simp only [Bool.and_eq_true, beq_iff_eq] at hf
      obtain ⟨rfl, hf⟩ := hf
      have : l[i].tags.lookup k' = some v := by
        by_cases e : l[i].tags.lookup k' = some v
        · exact e
        · simp [e] at hc
      rw [this]; exact hf
    · rintro ⟨hi, hf⟩
      cases hv : l[i].tags.lookup k with
      | none => simp [hv] at hf
      | some v =>
        simp only [hv] at hf
        exact ⟨(k, v), by simp [hf], hi, by simp [hv]⟩

theorem searchFields_spec (idx : Index) (l : List Point) (h : Represents idx l) (hwf : ∀ p ∈ l, WFPoint p)
    (k : String) (lf : Leaf) :
    ∃ r, idx.searchFields k lf = .ok r ∧ r.Nodup ∧
      ∀ i, i ∈ r ↔ ∃ hi : i < l.length, sem (.field k lf) l[i] = true := by
  have e : idx.searchFields k lf = .ok (dedup
      ((idx.fields.posting k).filterMap (fun ip => if lf.eval (ofOptNum ip.2) then some ip.1 else none))) := by
    unfold Index.searchFields
    rw [filterMapM_ok_s _ (fun ip => if lf.eval (ofOptNum ip.2) then some ip.1 else none)]
    · simp only [bind, Except.bind, pure, Except.pure]
    · intro ip _
      simp only [callOn_eq, bind, Except.bind, pure, Except.pure]
      split <;> rfl
  refine ⟨_, e, nodup_dedup _, ?_⟩
  · intro i
    rw [mem_dedup, h.fields]
    simp only [List.mem_filterMap, Prod.exists, sem]
    constructor
    · rintro ⟨j, b, hjb, hi⟩
      by_cases hb : lf.eval (ofOptNum b) = true
      · simp only [hb, if_true, Option.some.injEq] at hi
        subst hi
        obtain ⟨hj, hc⟩ := (mem_postFrom0 _ _ _ _).mp hjb
        exact ⟨hj, by simp only [carryField] at hc; rw [hc]; exact hb⟩
      · simp [hb] at hi
    · rintro ⟨hi, hf⟩
      cases hv : l[i].fields.lookup k with
      | none => simp [hv] at hf
      | some v =>
        simp only [hv] at hf
        exact ⟨i, v, (mem_postFrom0 _ _ _ _).mpr ⟨hi, hv⟩, by simp [hf]⟩

/-! ### compound queries -/

theorem search_not_s (idx : Index) (q : Query) (hq : ∀ k lf, q ≠ .field k lf) :
    idx.search (.not q) = (do let a ← idx.search q; pure (Index.compl idx.numItems a)) := by
  cases q <;> first | rfl | (exfalso; exact hq _ _ rfl)

theorem exact_not_s (q : Query) (hq : ∀ k lf, q ≠ .field k lf) : exact (.not q) = exact q := by
  cases q <;> first | rfl | (exfalso; exact hq _ _ rfl)

theorem search_exact (idx : Index) (l : List Point) (h : Represents idx l) (hwf : ∀ p ∈ l, WFPoint p)
    (q : Query) (hq : exact q = true) :
    ∃ r, idx.search q = .ok r ∧ r.Nodup ∧ ∀ i, i ∈ r ↔ ∃ hi : i < l.length, sem q l[i] = true := by
  induction q with
  | time lf =>
    obtain ⟨r, h1, h2, h3⟩ := searchTs_spec idx l (timeRep_of_represents h) lf
    exact ⟨r, by simpa [Index.search] using h1, h2, by simpa [sem] using h3⟩
  | meas lf => simpa [Index.search] using searchMeas_spec idx l h lf
  | tag k lf => simpa [Index.search] using searchTags_spec idx l h hwf k lf
  | field k lf => simpa [Index.search] using searchFields_spec idx l h hwf k lf
  | noop =>
    refine ⟨List.range idx.numItems, by simp [Index.search, pure, Except.pure], List.nodup_range, ?_⟩
    intro i; simp [sem, h.num]
  | not q ih =>
    by_cases hf : ∃ k lf, q = .field k lf
    · obtain ⟨k, lf, rfl⟩ := hf
      simp [exact] at hq
    · have hf' : ∀ k lf, q ≠ .field k lf := fun k lf e => hf ⟨k, lf, e⟩
      rw [exact_not_s q hf'] at hq
      obtain ⟨r, h1, h2, h3⟩ := ih hq
      refine ⟨Index.compl idx.numItems r, ?_, ?_, ?_⟩
      · rw [search_not_s idx q hf', h1]; rfl
      · exact List.Nodup.sublist List.filter_sublist List.nodup_range
      · intro i
        simp only [Index.compl, List.mem_filter, List.mem_range, h.num, sem,
          Bool.not_eq_eq_eq_not, Bool.not_true]
        constructor
        · rintro ⟨hi, hc⟩
          refine ⟨hi, ?_⟩
          have : i ∉ r := by simpa using hc
          rw [h3] at this
          cases hs : sem q l[i] with
          | false => rfl
          | true => exact absurd ⟨hi, hs⟩ this
        · rintro ⟨hi, hs⟩
          refine ⟨hi, ?_⟩
          have : i ∉ r := by rw [h3]; rintro ⟨_, h'⟩; simp [hs] at h'
          simpa using this
  | and q r ih1 ih2 =>
    simp only [exact, Bool.and_eq_true] at hq
    obtain ⟨a, h1, h2, h3⟩ := ih1 hq.1
    obtain ⟨b, g1, g2, g3⟩ := ih2 hq.2
    refine ⟨Index.inter a b, by simp [Index.search, h1, g1, bind, Except.bind, pure, Except.pure],
      List.Nodup.sublist List.filter_sublist h2, ?_⟩
    intro i
    simp only [Index.inter, List.mem_filter, List.contains_iff_mem, h3, g3, sem, Bool.and_eq_true]
    constructor
    · rintro ⟨⟨hi, x⟩, ⟨_, y⟩⟩; exact ⟨hi, x, y⟩
    · rintro ⟨hi, x, y⟩; exact ⟨⟨hi, x⟩, ⟨hi, y⟩⟩
  | or q r ih1 ih2 =>
    simp only [exact, Bool.and_eq_true] at hq
    obtain ⟨a, h1, h2, h3⟩ := ih1 hq.1
    obtain ⟨b, g1, g2, g3⟩ := ih2 hq.2
    refine ⟨Index.union a b, by simp [Index.search, h1, g1, bind, Except.bind, pure, Except.pure],
      nodup_dedup _, ?_⟩
    intro i
    simp only [Index.union, mem_dedup, List.mem_append, h3, g3, sem, Bool.or_eq_true]
    constructor
    · rintro (⟨hi, x⟩ | ⟨hi, y⟩)
      · exact ⟨hi, Or.inl x⟩
      · exact ⟨hi, Or.inr y⟩
    · rintro ⟨hi, x | y⟩
      · exact Or.inl ⟨hi, x⟩
      · exact Or.inr ⟨hi, y⟩

/-! ### getters -/

theorem lookupAL_isSome_s {K V : Type} [BEq K] [LawfulBEq K] (k : K) (m : AL K V) :
    (lookupAL k m).isSome = true ↔ k ∈ keysAL m := by
  induction m with
  | nil => simp [lookupAL, keysAL]
  | cons h t ih =>
    obtain ⟨k', v⟩ := h
    by_cases hk : k' = k
    · subst hk; simp [lookupAL, keysAL]
    · have h1 : (k' == k) = false := by simpa using hk
      have h2 : ¬ k = k' := fun e => hk e.symm
      simp only [keysAL] at ih
      simp [lookupAL, keysAL, h1, h2, ih]

theorem carryMeas_isSome (name : String) (p : Point) : (carryMeas name p).isSome = true ↔ p.meas = name := by
  unfold carryMeas; split <;> simp_all

theorem carryTag_isSome (kv : String × Option String) (p : Point) :
    (carryTag kv p).isSome = true ↔ p.tags.lookup kv.1 = some kv.2 := by
  unfold carryTag; split <;> simp_all

theorem exists_mem_iff_getElem {α : Type} (l : List α) (P : α → Prop) :
    (∃ p ∈ l, P p) ↔ ∃ i, ∃ h : i < l.length, P l[i] := by
  constructor
  · rintro ⟨p, hp, h⟩
    obtain ⟨i, hi, rfl⟩ := List.getElem_of_mem hp
    exact ⟨i, hi, h⟩
  · rintro ⟨i, hi, h⟩
    exact ⟨_, List.getElem_mem hi, h⟩

theorem getMeasurements_spec (idx : Index) (l : List Point) (h : Represents idx l) :
    idx.getMeasurements.Nodup ∧ ∀ s, s ∈ idx.getMeasurements ↔ ∃ p ∈ l, p.meas = s := by
  refine ⟨h.wfMeas.1, fun s => ?_⟩
  unfold Index.getMeasurements
  rw [mem_keys_iff idx.meas carryMeas l h.meas h.wfMeas]
  simp only [carryMeas_isSome]

theorem hasMeas_iff (idx : Index) (l : List Point) (h : Represents idx l) (name : String) :
    idx.hasMeas name = true ↔ ∃ p ∈ l, p.meas = name := by
  unfold Index.hasMeas
  rw [lookupAL_isSome_s, mem_keys_iff idx.meas carryMeas l h.meas h.wfMeas]
  simp only [carryMeas_isSome]

theorem hasMeas_spec (idx : Index) (l : List Point) (h : Represents idx l) (name : String) :
    idx.hasMeas name = l.any (fun p => p.meas == name) := by
  rw [Bool.eq_iff_iff, hasMeas_iff idx l h]
  simp

theorem length_postFrom_carryMeas (name : String) (l : List Point) (a : Nat) :
    (postFrom (carryMeas name) l a).length = (l.filter (fun p => p.meas == name)).length := by
  induction l generalizing a with
  | nil => simp [postFrom]
  | cons p t ih =>
    by_cases hp : (p.meas == name) = true
    · simp [postFrom, carryMeas, hp, ih]
    · simp [postFrom, carryMeas, hp, ih]

theorem measItems_spec (idx : Index) (l : List Point) (h : Represents idx l) (name : String) :
    (idx.measItems name).length = (l.filter (fun p => p.meas == name)).length ∧
    ∀ i, i ∈ idx.measItems name ↔ ∃ hi : i < l.length, l[i].meas = name := by
  unfold Index.measItems
  rw [h.meas]
  refine ⟨by simp [length_postFrom_carryMeas], fun i => ?_⟩
  rw [mem_postFrom0_fst]
  simp only [carryMeas_isSome]

/-- entries of a represented map whose posting list meets the items of measurement `name` -/
theorem mem_meets_meas {K P : Type} [BEq K] [LawfulBEq K] (idx : Index) (l : List Point) (h : Represents idx l)
    (m : PMap K P) (c : K → Point → Option P)
    (hm : ∀ k, m.posting k = postFrom (c k) l 0) (wm : WFMap m) (name : String) (k : K) :
    (∃ ps, (k, ps) ∈ m ∧ Index.meets (idx.measItems name) (ps.map (·.1)) = true) ↔
      ∃ p ∈ l, p.meas = name ∧ (c k p).isSome = true := by
  rw [exists_mem_iff_getElem]
  simp only [Index.meets, List.any_eq_true, List.contains_iff_mem, (measItems_spec idx l h name).2]
  constructor
  · rintro ⟨ps, hkv, i, hi, hi', hn⟩
    have := (mem_iff_posting m wm k ps).mp hkv
    rw [← this.2, hm, mem_postFrom0_fst] at hi
    exact ⟨i, hi', hn, hi.2⟩
  · rintro ⟨i, hi, hn, hc⟩
    have hmem : i ∈ (m.posting k).map (·.1) := by rw [hm, mem_postFrom0_fst]; exact ⟨hi, hc⟩
    refine ⟨m.posting k, ?_, i, hmem, hi, hn⟩
    rw [mem_iff_posting m wm]
    refine ⟨?_, rfl⟩
    intro e; rw [e] at hmem; simp at hmem

theorem lookup_eq_some_iff_isSome {β : Type} (k : String) (d : List (String × β)) :
    (∃ v, d.lookup k = some v) ↔ k ∈ d.map (·.1) := by
  rw [← lookup_isSome_s, Option.isSome_iff_exists]

theorem getTagKeys_spec (idx : Index) (l : List Point) (h : Represents idx l) (hwf : ∀ p ∈ l, WFPoint p)
    (m : Option String) :
    (idx.getTagKeys m).Nodup ∧
    ∀ k, k ∈ idx.getTagKeys m ↔ ∃ p ∈ l, m.all (· == p.meas) = true ∧ k ∈ p.tags.map (·.1) := by
  cases m with
  | none =>
    refine ⟨nodup_dedup _, fun k => ?_⟩
    simp only [Index.getTagKeys, mem_dedup, Option.all_none, true_and, ← lookup_eq_some_iff_isSome]
    have : k ∈ idx.tags.map (·.1.1) ↔ ∃ v, (k, v) ∈ keysAL idx.tags := by
      simp only [keysAL, List.mem_map]
      constructor
      · rintro ⟨⟨⟨k', v⟩, ps⟩, hm, rfl⟩; exact ⟨v, _, hm, rfl⟩
      · rintro ⟨v, ⟨⟨k', v'⟩, ps⟩, hm, e⟩
        simp only [Prod.mk.injEq] at e
        exact ⟨_, hm, e.1⟩
    rw [this]
    simp only [mem_keys_iff idx.tags carryTag l h.tags h.wfTags, carryTag_isSome]
    constructor
    · rintro ⟨v, p, hp, hv⟩; exact ⟨p, hp, v, hv⟩
    · rintro ⟨p, hp, v, hv⟩; exact ⟨v, p, hp, hv⟩
  | some name =>
    simp only [Index.getTagKeys, Option.all_some, beq_iff_eq]
    by_cases hh : idx.hasMeas name = true
    · simp only [hh, Bool.not_true, Bool.false_eq_true, if_false]
      refine ⟨nodup_dedup _, fun k => ?_⟩
      simp only [mem_dedup, ← lookup_eq_some_iff_isSome]
      have : k ∈ (idx.tags.filter (fun kv => Index.meets (idx.measItems name) (kv.2.map (·.1)))).map (·.1.1) ↔
          ∃ v ps, ((k, v), ps) ∈ idx.tags ∧ Index.meets (idx.measItems name) (ps.map (·.1)) = true := by
        simp only [List.mem_map, List.mem_filter]
        constructor
        · rintro ⟨⟨⟨k', v⟩, ps⟩, hm, rfl⟩; exact ⟨v, ps, hm⟩
        · rintro ⟨v, ps, hm⟩; exact ⟨_, hm, rfl⟩
      rw [this]
      simp only [mem_meets_meas idx l h idx.tags carryTag h.tags h.wfTags, carryTag_isSome]
      constructor
      · rintro ⟨v, p, hp, hn, hv⟩; exact ⟨p, hp, hn.symm, v, hv⟩
      · rintro ⟨p, hp, hn, v, hv⟩; exact ⟨v, p, hp, hn.symm, hv⟩
    · have hno : ¬ ∃ p ∈ l, p.meas = name := fun e => hh ((hasMeas_iff idx l h name).mpr e)
      simp only [hh, Bool.not_false, if_true, List.nodup_nil, List.not_mem_nil, false_iff, true_and]
      rintro k ⟨p, hp, hn, _⟩
      exact hno ⟨p, hp, hn.symm⟩

theorem getFieldKeys_spec (idx : Index) (l : List Point) (h : Represents idx l) (hwf : ∀ p ∈ l, WFPoint p)
    (m : Option String) :
    (idx.getFieldKeys m).Nodup ∧
    ∀ k, k ∈ idx.getFieldKeys m ↔ ∃ p ∈ l, m.all (· == p.meas) = true ∧ k ∈ p.fields.map (·.1) := by
  cases m with
  | none =>
    refine ⟨h.wfFields.1, fun k => ?_⟩
    simp only [Index.getFieldKeys, Option.all_none, true_and,
      mem_keys_iff idx.fields carryField l h.fields h.wfFields, carryField, lookup_isSome_s]
  | some name =>
    simp only [Index.getFieldKeys, Option.all_some, beq_iff_eq]
    by_cases hh : idx.hasMeas name = true
    · simp only [hh, Bool.not_true, Bool.false_eq_true, if_false]
      refine ⟨List.Nodup.sublist (List.filter_sublist.map _) h.wfFields.1, fun k => ?_⟩
      have : k ∈ (idx.fields.filter (fun kv => Index.meets (idx.measItems name) (kv.2.map (·.1)))).map (·.1) ↔
          ∃ ps, (k, ps) ∈ idx.fields ∧ Index.meets (idx.measItems name) (ps.map (·.1)) = true := by
        simp only [List.mem_map, List.mem_filter]
        constructor
        · rintro ⟨⟨k', ps⟩, hm, rfl⟩; exact ⟨ps, hm⟩
        · rintro ⟨ps, hm⟩; exact ⟨_, hm, rfl⟩
      rw [this]
      simp only [mem_meets_meas idx l h idx.fields carryField h.fields h.wfFields, carryField, lookup_isSome_s]
      constructor
      · rintro ⟨p, hp, hn, hv⟩; exact ⟨p, hp, hn.symm, hv⟩
      · rintro ⟨p, hp, hn, hv⟩; exact ⟨p, hp, hn.symm, hv⟩
    · have hno : ¬ ∃ p ∈ l, p.meas = name := fun e => hh ((hasMeas_iff idx l h name).mpr e)
      simp only [hh, Bool.not_false, if_true, List.nodup_nil, List.not_mem_nil, false_iff, true_and]
      rintro k ⟨p, hp, hn, _⟩
      exact hno ⟨p, hp, hn.symm⟩

theorem postFrom_filter_map_snd {β : Type} (c : Point → Option β) (f : Nat → Bool) (g : Point → Bool)
    (l : List Point) (a : Nat) (hfg : ∀ i, ∀ h : i < l.length, f (a + i) = g l[i]) :
    ((postFrom c l a).filter (fun ip => f ip.1)).map (·.2) = (l.filter g).filterMap c := by
  induction l generalizing a with
  | nil => simp [postFrom]
  | cons p t ih =>
    have h0 : f a = g p := hfg 0 (Nat.zero_lt_succ _)
    have ht := ih (a + 1) (fun i hi => by
      have := hfg (i + 1) (Nat.succ_lt_succ hi)
      rw [show a + 1 + i = a + (i + 1) by omega]; exact this)
    simp only [postFrom]
    cases hc : c p with
    | none =>
      simp only [ht]
      cases hg : g p <;> simp [hg, hc]
    | some b =>
      cases hg : g p <;> simp [hg, hc, h0, ht]

theorem getFieldValues_spec (idx : Index) (l : List Point) (h : Represents idx l) (hwf : ∀ p ∈ l, WFPoint p)
    (k : String) (m : Option String) :
    idx.getFieldValues k m =
      (l.filter (fun p => m.all (· == p.meas))).filterMap (fun p => p.fields.lookup k) := by
  cases m with
  | none =>
    simp only [Index.getFieldValues, Option.all_none, h.fields]
    have := postFrom_filter_map_snd (carryField k) (fun _ => true) (fun _ => true) l 0 (fun _ _ => rfl)
    have e1 : ∀ {α : Type} (l : List α), l.filter (fun _ => true) = l := fun l => List.filter_eq_self.mpr (by simp)
    rw [e1, e1] at this
    rw [e1]; exact this
  | some name =>
    simp only [Index.getFieldValues, Option.all_some]
    by_cases hh : idx.hasMeas name = true
    · simp only [hh, Bool.not_true, Bool.false_eq_true, if_false, h.fields]
      have := postFrom_filter_map_snd (carryField k) (idx.measItems name).contains (fun p => name == p.meas) l 0
        (fun i hi => by
          rw [Bool.eq_iff_iff, List.contains_iff_mem, Nat.zero_add, (measItems_spec idx l h name).2]
          simp only [beq_iff_eq]
          exact ⟨fun ⟨_, e⟩ => e.symm, fun e => ⟨hi, e.symm⟩⟩)
      exact this
    · have hno : ¬ ∃ p ∈ l, p.meas = name := fun e => hh ((hasMeas_iff idx l h name).mpr e)
      simp only [hh, Bool.not_false, if_true]
      have : l.filter (fun p => name == p.meas) = [] := by
        rw [List.filter_eq_nil_iff]
        intro p hp e
        exact hno ⟨p, hp, (beq_iff_eq.mp e).symm⟩
      simp [this]

/-! ### `get_tag_values` -/

theorem getTagValues_none_true (idx : Index) (keys : List String) (hk : keys.isEmpty = true) :
    idx.getTagValues keys none =
      idx.tags.foldl (fun acc kv => if (fun _ => true) kv then addTV acc kv.1.1 kv.1.2 else acc) [] := by
  simp [Index.getTagValues, hk, addTV]

theorem getTagValues_some_true (idx : Index) (keys : List String) (name : String) (hk : keys.isEmpty = true) :
    idx.getTagValues keys (some name) =
      if !idx.hasMeas name then [] else
      idx.tags.foldl (fun acc kv =>
        if (fun kv => Index.meets (idx.measItems name) (kv.2.map (·.1))) kv then addTV acc kv.1.1 kv.1.2 else acc) [] := by
  simp [Index.getTagValues, hk, addTV]

theorem getTagValues_none_false (idx : Index) (keys : List String) (hk : keys.isEmpty = false) :
    idx.getTagValues keys none =
      idx.tags.foldl (fun acc kv => if (fun kv => keys.contains kv.1.1) kv then addTV acc kv.1.1 kv.1.2 else acc)
        ((dedup keys).map (fun k => (k, []))) := by
  simp [Index.getTagValues, hk, addTV]

theorem getTagValues_some_false (idx : Index) (keys : List String) (name : String) (hk : keys.isEmpty = false) :
    idx.getTagValues keys (some name) =
      if !idx.hasMeas name then (dedup keys).map (fun k => (k, [])) else
      idx.tags.foldl (fun acc kv =>
        if (fun kv => keys.contains kv.1.1 && Index.meets (idx.measItems name) (kv.2.map (·.1))) kv
        then addTV acc kv.1.1 kv.1.2 else acc)
        ((dedup keys).map (fun k => (k, []))) := by
  simp [Index.getTagValues, hk, addTV]


theorem tagFold_spec' (tags : PMap (String × Option String) Unit)
    (C : (String × Option String) × List (Nat × Unit) → Bool)
    (init : AL String (List (Option String))) (R : AL String (List (Option String)))
    (hR : R = tags.foldl (fun acc kv => if C kv then addTV acc kv.1.1 kv.1.2 else acc) init)
    (hk : (keysAL init).Nodup) (hinit : ∀ k vs, (k, vs) ∈ init → vs = []) :
    (keysAL R).Nodup ∧
    (∀ k, k ∈ keysAL R ↔ k ∈ keysAL init ∨ ∃ v ps, ((k, v), ps) ∈ tags ∧ C ((k, v), ps) = true) ∧
    ∀ k vs, (k, vs) ∈ R → vs.Nodup ∧ ∀ v, v ∈ vs ↔ ∃ ps, ((k, v), ps) ∈ tags ∧ C ((k, v), ps) = true := by
  subst hR; exact tagFold_spec tags C init hk hinit

theorem getTagValues_spec (idx : Index) (l : List Point) (h : Represents idx l) (hwf : ∀ p ∈ l, WFPoint p)
    (keys : List String) (m : Option String) :
    let R := idx.getTagValues keys m
    (keysAL R).Nodup ∧
    (∀ k, k ∈ keysAL R ↔
      (if keys.isEmpty then ∃ p ∈ l, m.all (· == p.meas) = true ∧ k ∈ p.tags.map (·.1) else k ∈ keys)) ∧
    ∀ k vs, (k, vs) ∈ R → vs.Nodup ∧
      ∀ v, v ∈ vs ↔ ∃ p ∈ l, m.all (· == p.meas) = true ∧ p.tags.lookup k = some v := by
  have hinitK : ∀ keys : List String,
      keysAL ((dedup keys).map (fun k => (k, ([] : List (Option String))))) = dedup keys := by
    intro keys; simp [keysAL, List.map_map, Function.comp_def]
  have hinitV : ∀ (keys : List String) k vs,
      (k, vs) ∈ (dedup keys).map (fun k => (k, ([] : List (Option String)))) → vs = [] := by
    intro keys k vs hm
    simp only [List.mem_map, Prod.mk.injEq] at hm
    obtain ⟨_, _, _, e⟩ := hm; exact e.symm
  have hA : ∀ k v, (∃ ps, ((k, v), ps) ∈ idx.tags) ↔ ∃ p ∈ l, p.tags.lookup k = some v := by
    intro k v
    have := mem_keys_iff idx.tags carryTag l h.tags h.wfTags (k, v)
    simp only [carryTag_isSome] at this
    rw [← this]
    simp only [keysAL, List.mem_map]
    constructor
    · rintro ⟨ps, hm⟩; exact ⟨_, hm, rfl⟩
    · rintro ⟨⟨kv, ps⟩, hm, rfl⟩; exact ⟨ps, hm⟩
  have hB : ∀ name k v,
      (∃ ps, ((k, v), ps) ∈ idx.tags ∧ Index.meets (idx.measItems name) (ps.map (·.1)) = true) ↔
        ∃ p ∈ l, name = p.meas ∧ p.tags.lookup k = some v := by
    intro name k v
    have := mem_meets_meas idx l h idx.tags carryTag h.tags h.wfTags name (k, v)
    simp only [carryTag_isSome] at this
    rw [this]
    constructor
    · rintro ⟨p, hp, hn, hv⟩; exact ⟨p, hp, hn.symm, hv⟩
    · rintro ⟨p, hp, hn, hv⟩; exact ⟨p, hp, hn.symm, hv⟩
  have hmem : ∀ (R : AL String (List (Option String))) k vs, (k, vs) ∈ R → k ∈ keysAL R :=
    fun R k vs hm => List.mem_map.mpr ⟨_, hm, rfl⟩
  intro R
  cases m with
  | none =>
    cases hke : keys.isEmpty with
    | true =>
      have hR : R = _ := getTagValues_none_true idx keys hke
      clear_value R
      obtain ⟨h1, h2, h3⟩ := tagFold_spec' idx.tags _ _ R hR (by simp [keysAL]) (by simp)
      simp only [and_true, hA, keysAL, List.map_nil, List.not_mem_nil, false_or] at h2 h3
      refine ⟨h1, fun k => ?_, fun k vs hm => ⟨(h3 k vs hm).1, fun v => ?_⟩⟩
      · simp only [if_true, Option.all_none, true_and, ← lookup_eq_some_iff_isSome]
        rw [keysAL, h2]
        constructor
        · rintro ⟨v, p, hp, hv⟩; exact ⟨p, hp, v, hv⟩
        · rintro ⟨p, hp, v, hv⟩; exact ⟨v, p, hp, hv⟩
      · simp only [Option.all_none, true_and]
        exact (h3 k vs hm).2 v
    | false =>
      have hR : R = _ := getTagValues_none_false idx keys hke
      clear_value R
      obtain ⟨h1, h2, h3⟩ := tagFold_spec' idx.tags _ _ R hR (by rw [hinitK]; exact nodup_dedup _) (hinitV keys)
      simp only [List.contains_iff_mem, hinitK, mem_dedup] at h2 h3
      have h2' : ∀ k, k ∈ keysAL R ↔ k ∈ keys := by
        intro k; rw [h2]
        exact ⟨fun h => h.elim id (fun ⟨_, _, _, hk⟩ => hk), Or.inl⟩
      refine ⟨h1, fun k => ?_, fun k vs hm => ⟨(h3 k vs hm).1, fun v => ?_⟩⟩
      · simpa using h2' k
      · simp only [Option.all_none, true_and]
        rw [(h3 k vs hm).2 v, ← hA k v]
        have hk := (h2' k).mp (hmem R k vs hm)
        constructor
        · rintro ⟨ps, hm, _⟩; exact ⟨ps, hm⟩
        · rintro ⟨ps, hm⟩; exact ⟨ps, hm, hk⟩
  | some name =>
    have hno : ¬ idx.hasMeas name = true → ¬ ∃ p ∈ l, p.meas = name :=
      fun hh e => hh ((hasMeas_iff idx l h name).mpr e)
    cases hke : keys.isEmpty with
    | true =>
      have hR : R = _ := getTagValues_some_true idx keys name hke
      clear_value R
      by_cases hh : idx.hasMeas name = true
      · simp only [hh, Bool.not_true, Bool.false_eq_true, if_false] at hR
        obtain ⟨h1, h2, h3⟩ := tagFold_spec' idx.tags _ _ R hR (by simp [keysAL]) (by simp)
        simp only [hB, keysAL, List.map_nil, List.not_mem_nil, false_or] at h2 h3
        refine ⟨h1, fun k => ?_, fun k vs hm => ⟨(h3 k vs hm).1, fun v => ?_⟩⟩
        · simp only [if_true, Option.all_some, beq_iff_eq, ← lookup_eq_some_iff_isSome]
          rw [keysAL, h2]
          constructor
          · rintro ⟨v, p, hp, hn, hv⟩; exact ⟨p, hp, hn, v, hv⟩
          · rintro ⟨p, hp, hn, v, hv⟩; exact ⟨v, p, hp, hn, hv⟩
        · simp only [Option.all_some, beq_iff_eq]
          exact (h3 k vs hm).2 v
      · simp only [hh, Bool.not_false, if_true] at hR
        subst hR
        refine ⟨by simp [keysAL], fun k => ?_, fun k vs hm => by simp at hm⟩
        simp only [keysAL, List.map_nil, List.not_mem_nil, if_true, Option.all_some, beq_iff_eq, false_iff]
        rintro ⟨p, hp, hn, _⟩
        exact hno hh ⟨p, hp, hn.symm⟩
    | false =>
      have hR : R = _ := getTagValues_some_false idx keys name hke
      clear_value R
      by_cases hh : idx.hasMeas name = true
      · simp only [hh, Bool.not_true, Bool.false_eq_true, if_false] at hR
        obtain ⟨h1, h2, h3⟩ := tagFold_spec' idx.tags _ _ R hR (by rw [hinitK]; exact nodup_dedup _) (hinitV keys)
        simp only [Bool.and_eq_true, List.contains_iff_mem, hinitK, mem_dedup] at h2 h3
        have h2' : ∀ k, k ∈ keysAL R ↔ k ∈ keys := by
          intro k; rw [h2]
          exact ⟨fun h => h.elim id (fun ⟨_, _, _, hk, _⟩ => hk), Or.inl⟩
        refine ⟨h1, fun k => ?_, fun k vs hm => ⟨(h3 k vs hm).1, fun v => ?_⟩⟩
        · simpa using h2' k
        · simp only [Option.all_some, beq_iff_eq]
          rw [(h3 k vs hm).2 v]
          have hk := (h2' k).mp (hmem R k vs hm)
          rw [← hB name k v]
          constructor
          · rintro ⟨ps, hm, _, hc⟩; exact ⟨ps, hm, hc⟩
          · rintro ⟨ps, hm, hc⟩; exact ⟨ps, hm, hk, hc⟩
      · simp only [hh, Bool.not_false, if_true] at hR
        subst hR
        refine ⟨by rw [hinitK]; exact nodup_dedup _, fun k => by simp [hinitK, mem_dedup], fun k vs hm => ?_⟩
        have := hinitV keys k vs hm
        subst this
        refine ⟨List.nodup_nil, fun v => ?_⟩
        simp only [List.not_mem_nil, Option.all_some, beq_iff_eq, false_iff]
        rintro ⟨p, hp, hn, _⟩
        exact hno hh ⟨p, hp, hn.symm⟩

end TinyFlux.Model
