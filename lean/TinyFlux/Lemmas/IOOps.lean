import TinyFlux.Lemmas.Refinement
import TinyFlux.Lemmas.IOLemmas
import TinyFlux.Model.IOSteps
import TinyFlux.Lemmas.IOOpsAux
import TinyFlux.Props.C16
/-!
# End to end: the I/O calls of every API operation, on every reachable state

`opSteps s flush op` (Model/IOSteps.lean) is the list of I/O calls the operation `op` makes in state `s`
(rows = the stored points; validated against the calls recorded on the real code). These theorems join
the database model (`Model/DB.lean`: what the operation does to the contents) with the I/O model
(`Model/IO.lean`: what the calls do to the file): after the calls of any operation the file holds exactly
the operation's resulting contents; after any *prefix* of them (a crash) it holds the old or the new
contents; reads and no-op writes make no mutating call; no temp file survives.
-/
namespace TinyFlux.Model
open TinyFlux.Spec TinyFlux.Model.IO TinyFlux.Model.IOOpsAux

/-- the file-system state that goes with a database state between operations (`flush_on_insert=True`):
    the file holds exactly the stored points, nothing is buffered, no temp file exists -/
def FileOf (s : State) (fs : FS Point) : Prop := fs.primary = s.storage ∧ Quiet fs

/-- **C04, end to end**: after the I/O calls of any operation (also one that raises) the file holds
    exactly the contents the operation leaves -/
theorem op_file_holds_contents (s : State) (hs : Inv s) (op : Op) (hok : OpOK s.cfg op) (hm : MeasOK op)
    (fs : FS Point) (hfs : FileOf s fs) :
    FileOf (s.step op).1 (run fs (opSteps s true op)) := by
  by_cases hins : ∃ pts m, op = .insert pts m
  · obtain ⟨pts, m, rfl⟩ := hins
    obtain ⟨h1, h2, h3, h4⟩ := append_flush_full fs hfs.2.noPend (insertedRows s.cfg m pts)
    refine ⟨?_, ⟨h2, h3.trans hfs.2.noTemp, h4.trans hfs.2.noPendT⟩⟩
    rw [insertedRows_storage, ← hfs.1]
    exact h1
  · exact ((op_atomic s hs op hm (fun pts m h => hins ⟨pts, m, h⟩)) fs hfs.1 hfs.2).1

/-- **C12, end to end**: if the process dies between any two I/O calls of any operation, the file holds the
    contents before the operation or the contents after it — for an insert, the old contents plus a prefix
    of the new rows -/
theorem op_crash_atomic (s : State) (hs : Inv s) (op : Op) (hok : OpOK s.cfg op) (hm : MeasOK op)
    (fs : FS Point) (hfs : FileOf s fs) (k : Nat) :
    afterCrash (run fs ((opSteps s true op).take k)) = s.storage ∨
    afterCrash (run fs ((opSteps s true op).take k)) = (s.step op).1.storage ∨
    ∃ pts m j, op = .insert pts m ∧
      afterCrash (run fs ((opSteps s true op).take k)) = s.storage ++ (insertedRows s.cfg m pts).take j := by
  by_cases hins : ∃ pts m, op = .insert pts m
  · obtain ⟨pts, m, rfl⟩ := hins
    obtain ⟨j, _, h⟩ := append_prefix_crash fs hfs.2.noPend (insertedRows s.cfg m pts) k
    refine Or.inr (Or.inr ⟨pts, m, j, rfl, ?_⟩)
    rw [← hfs.1]
    exact h
  · rcases (((op_atomic s hs op hm (fun pts m h => hins ⟨pts, m, h⟩)) fs hfs.1 hfs.2).2 k).1 with h | h
    · exact Or.inl h
    · exact Or.inr (Or.inl h)

/-- **C13, end to end**: an I/O error after any prefix of the calls, followed by the `finally` cleanup
    (close and unlink the temp file), leaves the old or the new contents (insert: plus a prefix, counting
    rows still buffered) and no temp file -/
theorem op_fault_atomic (s : State) (hs : Inv s) (op : Op) (hok : OpOK s.cfg op) (hm : MeasOK op)
    (fs : FS Point) (hfs : FileOf s fs) (k : Nat) :
    let fs' := run fs ((opSteps s true op).take k ++ [.tClose, .tUnlink])
    fs'.temp = none ∧
    (afterClose fs' = s.storage ∨ afterClose fs' = (s.step op).1.storage ∨
     ∃ pts m j, op = .insert pts m ∧ afterClose fs' = s.storage ++ (insertedRows s.cfg m pts).take j) := by
  intro fs'
  have e : fs' = run (run fs ((opSteps s true op).take k)) [.tClose, .tUnlink] := by
    simp only [fs', run_append]
  obtain ⟨c1, c2, c3, _⟩ := run_cleanup (run fs ((opSteps s true op).take k))
  have hac : afterClose fs' = afterClose (run fs ((opSteps s true op).take k)) := by
    rw [e]; simp only [afterClose, c1, c2]
  refine ⟨by rw [e]; exact c3, ?_⟩
  rw [hac]
  by_cases hins : ∃ pts m, op = .insert pts m
  · obtain ⟨pts, m, rfl⟩ := hins
    obtain ⟨j, _, h⟩ := append_prefix_close fs true (insertedRows s.cfg m pts) k
    refine Or.inr (Or.inr ⟨pts, m, j, rfl, ?_⟩)
    rw [← hfs.1]
    have h0 : afterClose fs = fs.primary := by simp [afterClose, hfs.2.noPend]
    rw [← h0]
    exact h
  · obtain ⟨h1, h2⟩ := ((op_atomic s hs op hm (fun pts m h => hins ⟨pts, m, h⟩)) fs hfs.1 hfs.2).2 k
    have h0 : afterClose (run fs ((opSteps s true op).take k)) =
        (run fs ((opSteps s true op).take k)).primary := by simp [afterClose, h2]
    rw [h0]
    rcases h1 with h | h
    · exact Or.inl h
    · exact Or.inr (Or.inl h)

/-- **C15, end to end**: a read operation makes no call that can change the database file -/
theorem read_op_steps_do_not_mutate (s : State) (flush : Bool) (op : Op) (hr : isRead op = true) :
    ∀ st ∈ opSteps s flush op, st.mutatesPrimary = false := by
  intro st hst
  exact Step.not_mutates_of_safe (safe_of_readOnly (read_op_steps_readOnly s flush op hr st hst))

/-- **C15, end to end**: a remove / update that reports 0 (or raises) makes no call that can change the
    database file -/
theorem noop_write_steps_do_not_mutate (s : State) (hs : Inv s) (flush : Bool) (op : Op)
    (hop : (∃ q m, op = .remove q m) ∨ (∃ n, op = .drop n) ∨ (∃ a q u m, op = .update a q u m))
    (hok : OpOK s.cfg op) (hm : MeasOK op)
    (hout : (s.step op).2 = .nat 0 ∨ ∃ e, (s.step op).2 = .err e) :
    ∀ st ∈ opSteps s flush op, st.mutatesPrimary = false := by
  have _ := hok  -- not needed: the shapes of the step lists do not depend on the data being storable
  obtain ⟨X, e, hX⟩ := write_shape s hs flush op hop hm
  intro st hst
  rw [e] at hst
  rcases List.mem_append.mp hst with h | h
  · exact Step.not_mutates_of_safe (safe_of_readOnly (reindexSteps_readOnly s st h))
  · exact hX.no_mutation hout st h

/-- **C16, end to end**: the calls of an insert depend on the inserted points (and the configuration) only —
    not on the stored contents, the index or its validity — and contain no read -/
theorem insert_steps_independent_of_state (s₁ s₂ : State) (h : s₁.cfg = s₂.cfg) (flush : Bool)
    (pts : List (Option Point)) (m : Option String) :
    opSteps s₁ flush (.insert pts m) = opSteps s₂ flush (.insert pts m) ∧
    (opSteps s₁ flush (.insert pts m)).length = (if flush then 5 else 2) * (insertedRows s₁.cfg m pts).length ∧
    ∀ st ∈ opSteps s₁ flush (.insert pts m), st.isRead = false := by
  refine ⟨by simp only [opSteps, h], ?_, ?_⟩
  · obtain ⟨a, b⟩ := TinyFlux.Props.C16.insert_steps_count (insertedRows s₁.cfg m pts)
    cases flush
    · simpa [opSteps] using b
    · simpa [opSteps] using a
  · intro st hst
    exact (TinyFlux.Props.C16.insert_reads_nothing flush (insertedRows s₁.cfg m pts) st hst).1

/-- the rows an insert appends are exactly what the operation adds to the contents -/
theorem insertedRows_spec (s : State) (pts : List (Option Point)) (m : Option String) :
    (s.step (.insert pts m)).1.storage = s.storage ++ insertedRows s.cfg m pts := by
  exact insertedRows_storage s pts m

end TinyFlux.Model
