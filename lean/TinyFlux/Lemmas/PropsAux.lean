import TinyFlux.Lemmas.Refinement
/-!
# Helpers for the property files C01 / C07 / C02

Output equalities for read operations whose result is not a dict (where `canon` is the identity),
and the order facts about `byTime` (stable merge sort by time) and `sortStr`.
-/
namespace TinyFlux.Model
open TinyFlux.Spec

/-- a read whose documented result is not a dict returns *exactly* the Spec's result -/
theorem read_out_eq (s : State) (hs : Inv s) (op : Op) (hr : isRead op = true) (hm : MeasOK op)
    (hb : ∀ l, (Spec.step s.storage op).2 ≠ .tagVals l) :
    (s.step op).2 = (Spec.step s.storage op).2 :=
  canon_eq_iff_of_not_tagVals _ _ hb (step_read_refines s hs op hr hm).1

/-! ## `byTime` -/

theorem timeLe_trans (a b c : Point) :
    decide (a.time ≤ b.time) = true → decide (b.time ≤ c.time) = true → decide (a.time ≤ c.time) = true := by
  simp only [decide_eq_true_eq]; exact Int.le_trans

theorem timeLe_total (a b : Point) : (decide (a.time ≤ b.time) || decide (b.time ≤ a.time)) = true := by
  simp only [Bool.or_eq_true, decide_eq_true_eq]; exact Int.le_total _ _

theorem byTime_perm (l : DB) : (byTime l).Perm l := List.mergeSort_perm _ _

theorem byTime_sorted (l : DB) : (byTime l).Pairwise (fun a b => a.time ≤ b.time) := by
  have := List.pairwise_mergeSort timeLe_trans timeLe_total l
  exact this.imp (fun h => by simpa using h)

/-- stability: the points of one instant keep their relative order -/
theorem byTime_filter_time (l : DB) (t : Time) :
    (byTime l).filter (fun p => p.time == t) = l.filter (fun p => p.time == t) := by
  have hpw : (l.filter (fun p => p.time == t)).Pairwise
      (fun a b => decide (a.time ≤ b.time) = true) := by
    rw [List.pairwise_iff_forall_sublist]
    intro a b hab
    have ha : a ∈ l.filter (fun p => p.time == t) := hab.subset (by simp)
    have hb : b ∈ l.filter (fun p => p.time == t) := hab.subset (by simp)
    simp only [List.mem_filter, beq_iff_eq] at ha hb
    simp [ha.2, hb.2]
  have hsub : (l.filter (fun p => p.time == t)).Sublist (byTime l) :=
    List.sublist_mergeSort timeLe_trans timeLe_total hpw List.filter_sublist
  have hsub' := hsub.filter (fun p => p.time == t)
  rw [List.filter_filter] at hsub'
  simp only [Bool.and_self] at hsub'
  exact (hsub'.eq_of_length ((byTime_perm l).filter _).length_eq.symm).symm

/-! ## `sortStr` of a duplicate-free list is strictly increasing -/

theorem sortStr_strict (X : List String) (h : X.Nodup) : (sortStr X).Pairwise (fun a b => a < b) := by
  have h1 : (sortStr X).Pairwise (fun a b => decide (a ≤ b) = true) :=
    List.pairwise_mergeSort
      (fun a b c h1 h2 => by simp only [decide_eq_true_eq] at *; exact String.le_trans h1 h2)
      (fun a b => by simp only [Bool.or_eq_true, decide_eq_true_eq]; exact String.le_total a b) X
  have h2 : (sortStr X).Pairwise (· ≠ ·) := nodup_sortStr X h
  refine (h1.and h2).imp ?_
  rintro a b ⟨hle, hne⟩
  have hle' : a ≤ b := by simpa using hle
  apply Classical.byContradiction
  intro hlt
  exact hne (String.le_antisymm hle' (String.not_lt.1 hlt))

end TinyFlux.Model
