import TinyFlux.Spec.Basic
/-!
# The API as a state machine over `DB = List Point`

`Op` is one API call, `Out` what it returns, `step` its effect and result according to the
documentation. A `Measurement` handle is, by definition (C10), the same operation with
`m := some name` (and `insert` with the measurement set to `name`). This is the reference the model
of the implementation is proved to refine, and the oracle the real code is compared with.
-/
namespace TinyFlux.Spec

inductive Out
  | unit
  | nat (n : Nat)
  | bool (b : Bool)
  | point (p : Option Point)
  | points (l : List Point)
  | rows (l : List (List PyV))
  | strs (l : List String)
  | tagVals (l : List (String × List (Option String)))
  | nums (l : List (Option Num))
  | times (l : List Time)
  | err (e : Err)
deriving DecidableEq, Repr

inductive Op
  /-- `insert` / `insert_multiple`: `none` = an element that is not a `Point`; times are already
      instants (normalisation is C08's subject) -/
  | insert (pts : List (Option Point)) (m : Option String)
  | search (q : Query) (m : Option String) (sorted : Bool)
  | count (q : Query) (m : Option String)
  | contains (q : Query) (m : Option String)
  | get (q : Query) (m : Option String)
  | select (keys : List SelKey) (q : Query) (m : Option String)
  | getMeasurements
  | getTagKeys (m : Option String)
  | getTagValues (keys : List String) (m : Option String)
  | getFieldKeys (m : Option String)
  | getFieldValues (k : String) (m : Option String)
  | getTimestamps (m : Option String)
  | len | iter | all (sorted : Bool)
  | mlen (name : String) | miter (name : String) | mall (name : String) (sorted : Bool)
  | remove (q : Query) (m : Option String)
  | drop (name : String)
  | removeAll
  | update (all : Bool) (q : Query) (u : Upd) (m : Option String)
  | reindex

/-- the points of `insert_multiple` before the first non-Point, and whether one was met -/
def insertPrefix (m : Option String) : List (Option Point) → List Point × Bool
  | [] => ([], false)
  | none :: _ => ([], true)
  | some p :: t =>
    let (l, e) := insertPrefix m t
    ((match m with | some name => { p with meas := name } | none => p) :: l, e)

def updEmpty (u : Upd) : Bool :=
  u.time.isNone && u.meas.isNone && u.tags.isNone && u.fields.isNone &&
    u.unsetTags.isEmpty && u.unsetFields.isEmpty

def step (db : DB) : Op → DB × Out
  | .insert pts m =>
    let (l, e) := insertPrefix m pts
    (db ++ l, if e then .err .type else .nat l.length)
  | .search q m sorted => (db, .points (search db q m sorted))
  | .count q m => (db, .nat (count db q m))
  | .contains q m => (db, .bool (contains db q m))
  | .get q m => (db, .point (get db q m))
  | .select keys q m => (db, .rows (select db keys q m))
  | .getMeasurements => (db, .strs (measurements db))
  | .getTagKeys m => (db, .strs (tagKeys db m))
  | .getTagValues keys m => (db, .tagVals (tagValues db keys m))
  | .getFieldKeys m => (db, .strs (fieldKeys db m))
  | .getFieldValues k m => (db, .nums (fieldValues db k m))
  | .getTimestamps m => (db, .times (timestamps db m))
  | .len => (db, .nat db.length)
  | .iter => (db, .points db)
  | .all sorted => (db, .points (all db sorted))
  | .mlen name => (db, .nat (restrict db (some name)).length)
  | .miter name => (db, .points (restrict db (some name)))
  | .mall name sorted => (db, .points (all (restrict db (some name)) sorted))
  | .remove q m => let (db', n) := remove db q m; (db', .nat n)
  | .drop name => let (db', n) := drop db name; (db', .nat n)
  | .removeAll => ([], .unit)
  | .update all q u m =>
    if updEmpty u then (db, .err .value) else
    match update db u (if all then .noop else q) m with
    | .ok (db', n) => (db', .nat n)
    | .error e => (db, .err e)
  | .reindex => (db, .unit)

def run (db : DB) : List Op → DB
  | [] => db
  | op :: t => run (step db op).1 t

end TinyFlux.Spec
