/-!
# What may be stored: the types of point data (C14)

The Python types of the values an API caller may supply, and which of them each slot of a point may
hold: a datetime time, a string measurement, string tag keys, string-or-None tag values, string
field keys, numeric (not boolean) or None field values.
-/
namespace TinyFlux.Spec

inductive VType | none | bool | int | float | str | bytes | list | dict | datetime | other
deriving DecidableEq, Repr

inductive Slot | time | meas | tagKey | tagValue | fieldKey | fieldValue
deriving DecidableEq, Repr

def wellTyped : Slot → VType → Bool
  | .time, t => t == .datetime
  | .meas, t => t == .str
  | .tagKey, t => t == .str
  | .tagValue, t => t == .str || t == .none
  | .fieldKey, t => t == .str
  | .fieldValue, t => t == .int || t == .float || t == .none

def VType.ofName : String → Option VType
  | "none" => some .none | "bool" => some .bool | "int" => some .int | "float" => some .float
  | "str" => some .str | "bytes" => some .bytes | "list" => some .list | "dict" => some .dict
  | "datetime" => some .datetime | "other" => some .other | _ => Option.none

def Slot.ofName : String → Option Slot
  | "time" => some .time | "measurement" => some .meas | "tag_key" => some .tagKey
  | "tag_value" => some .tagValue | "field_key" => some .fieldKey | "field_value" => some .fieldValue
  | _ => Option.none

end TinyFlux.Spec
