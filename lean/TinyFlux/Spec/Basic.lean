/-!
# The abstract specification of TinyFlux — the formal reading of the properties

Short on purpose: a database is a list of points in insertion order and every API operation is a
one-line `filter / map / length / head? / mergeSort` over it. Nothing here mentions an index, a
file, a row or an exception handler. Core Lean only (no Mathlib), so the oracle driver compiles
to a native executable. Imports nothing generated: the oracle stays available when a generated
definition or a proof no longer builds.
-/
namespace TinyFlux.Spec

/-- an instant: microseconds since 1970-01-01T00:00:00Z -/
abbrev Time := Int

/-- a field value: Python `int`/`float` compared exactly; NaN excluded -/
inductive Num | ninf | fin (q : Rat) | pinf
deriving DecidableEq, Repr

def Num.le : Num → Num → Bool
  | .ninf, _ => true
  | _, .pinf => true
  | .fin a, .fin b => decide (a ≤ b)
  | _, _ => false
def Num.lt (a b : Num) : Bool := a.le b && !(b.le a)

/-- the values a query test can see -/
inductive PyV | none | str (s : String) | num (n : Num) | time (t : Time) | other (tag : Nat)
deriving DecidableEq, Repr

structure Point where
  time : Time
  meas : String
  tags   : List (String × Option String)   -- a Python dict: insertion order kept, keys unique
  fields : List (String × Option Num)
deriving DecidableEq, Repr

/-- dict equality: same key set, same value per key (keys unique); order irrelevant -/
def dictEqv {V} [DecidableEq V] (a b : List (String × V)) : Bool :=
  a.length == b.length && a.all (fun kv => b.lookup kv.1 == some kv.2)
/-- Python's `Point.__eq__` -/
def Point.eqv (p q : Point) : Bool :=
  p.time == q.time && p.meas == q.meas && dictEqv p.tags q.tags && dictEqv p.fields q.fields

inductive Cmp | eq | ne | lt | le | gt | ge
deriving DecidableEq, Repr

def ordCmp (c : Cmp) (lt eq : Bool) : Bool :=
  match c with
  | .eq => eq | .ne => !eq | .lt => lt | .le => lt || eq | .gt => !lt && !eq | .ge => !lt

/-- comparison of an attribute value with a right-hand side; "a comparison that is undefined
    (for `None`, or across types) is false, not an error" -/
def pyCmp : Cmp → PyV → PyV → Bool
  | .eq, a, b => a == b
  | .ne, a, b => a != b
  | c, .str a, .str b => ordCmp c (a < b) (a == b)
  | c, .num a, .num b => ordCmp c (a.lt b) (a == b)
  | c, .time a, .time b => ordCmp c (a < b) (a == b)
  | _, _, _ => false

inductive Leaf
  | cmp (c : Cmp) (rhs : PyV)
  | exists
  | regex (r : String → Bool)             -- `re.match` / `re.search` with its flags
  | test (f : PyV → Bool)                 -- user predicate (with its extra arguments applied)
  | map (g : PyV → Option PyV) (then_ : Leaf)   -- `g = none` ⇔ the user function raised

def Leaf.eval : Leaf → PyV → Bool
  | .cmp c rhs, v => pyCmp c v rhs
  | .exists, _ => true
  | .regex r, .str s => r s
  | .regex _, _ => false
  | .test f, v => f v
  | .map g l, v => match g v with | some v' => l.eval v' | none => false

inductive Query
  | time (l : Leaf) | meas (l : Leaf) | tag (key : String) (l : Leaf) | field (key : String) (l : Leaf)
  | noop | not (q : Query) | and (q r : Query) | or (q r : Query)

def ofOptStr : Option String → PyV | none => .none | some s => .str s
def ofOptNum : Option Num → PyV | none => .none | some n => .num n

/-- the documented meaning of a query on a point -/
def sem : Query → Point → Bool
  | .time l,    p => l.eval (.time p.time)
  | .meas l,    p => l.eval (.str p.meas)
  | .tag k l,   p => match p.tags.lookup k   with | none => false | some v => l.eval (ofOptStr v)
  | .field k l, p => match p.fields.lookup k with | none => false | some v => l.eval (ofOptNum v)
  | .noop, _ => true
  | .not q, p => !sem q p
  | .and q r, p => sem q p && sem r p
  | .or q r, p => sem q p || sem r p

abbrev DB := List Point   -- insertion order

def selected (q : Query) (m : Option String) (p : Point) : Bool := (m.all (· == p.meas)) && sem q p
/-- stable time order -/
def byTime (l : DB) : DB := l.mergeSort (fun a b => decide (a.time ≤ b.time))
def search (db : DB) (q : Query) (m : Option String) (sorted : Bool) : DB :=
  let r := db.filter (selected q m); if sorted then byTime r else r
def count (db : DB) (q : Query) (m : Option String) : Nat := (search db q m false).length
def contains (db : DB) (q : Query) (m : Option String) : Bool := !(search db q m false).isEmpty
def get (db : DB) (q : Query) (m : Option String) : Option Point := (search db q m false).head?

inductive SelKey | time | meas | tag (k : String) | field (k : String)
deriving DecidableEq, Repr
def project (keys : List SelKey) (p : Point) : List PyV :=
  keys.map fun
    | .time => .time p.time
    | .meas => .str p.meas
    | .tag k => (p.tags.lookup k).elim .none ofOptStr
    | .field k => (p.fields.lookup k).elim .none ofOptNum
def select (db : DB) (keys : List SelKey) (q : Query) (m : Option String) : List (List PyV) :=
  (search db q m false).map (project keys)

def remove (db : DB) (q : Query) (m : Option String) : DB × Nat :=
  (db.filter (fun p => !selected q m p), count db q m)
def drop (db : DB) (name : String) : DB × Nat := remove db .noop (some name)
def removeAll (_ : DB) : DB := []

inductive Err | value | type | os | user
deriving DecidableEq, Repr

/-- Python `d[k] = v` on an insertion-ordered dict -/
def dictSet {V} (d : List (String × V)) (k : String) (v : V) : List (String × V) :=
  match d with
  | [] => [(k, v)]
  | (k', v') :: t => if k' == k then (k', v) :: t else (k', v') :: dictSet t k v
/-- Python `d.update(new)`: merge key by key, never dropping keys -/
def dictUpdate {V} (d new : List (String × V)) : List (String × V) :=
  new.foldl (fun acc kv => dictSet acc kv.1 kv.2) d
def eraseKeys {V} (d : List (String × V)) (ks : List String) : List (String × V) :=
  d.filter (fun kv => !ks.contains kv.1)

/-- update arguments; `none` = argument not given. A static value is the constant function. -/
structure Upd where
  time   : Option (Time → Except Err Time)
  meas   : Option (String → Except Err String)
  tags   : Option (List (String × Option String) → Except Err (List (String × Option String)))
  fields : Option (List (String × Option Num) → Except Err (List (String × Option Num)))
  unsetTags : List String
  unsetFields : List String

def applyOpt {α} (f : Option (α → Except Err α)) (a : α) : Except Err α :=
  match f with | none => pure a | some g => g a

/-- replace / replace / merge key by key / merge / then unset -/
def upd (u : Upd) (p : Point) : Except Err Point := do
  let t ← applyOpt u.time p.time
  let me ← applyOpt u.meas p.meas
  let tg ← (match u.tags with | none => pure p.tags | some f => do pure (dictUpdate p.tags (← f p.tags)))
  let fl ← (match u.fields with | none => pure p.fields | some f => do pure (dictUpdate p.fields (← f p.fields)))
  pure { time := t, meas := me, tags := eraseKeys tg u.unsetTags, fields := eraseKeys fl u.unsetFields }

/-- the selected points are replaced by their updated versions (a point the update leaves equal
    stays as it is); the count is the number of points whose content changed; an error anywhere ⇒
    the database is unchanged (C11) -/
def update (db : DB) (u : Upd) (q : Query) (m : Option String) : Except Err (DB × Nat) := do
  let db' ← db.mapM (fun p =>
    if selected q m p then do let p' ← upd u p; pure (if p'.eqv p then p else p') else pure p)
  pure (db', (List.zip db db').countP (fun pp => !(pp.1.eqv pp.2)))

def insert (db : DB) (pts : List Point) : DB := db ++ pts

def restrict (db : DB) (m : Option String) : DB := db.filter (fun p => m.all (· == p.meas))
def sortStr (l : List String) : List String := l.mergeSort (fun a b => decide (a ≤ b))
def measurements (db : DB) : List String := sortStr (db.map (·.meas)).eraseDups
def tagKeys (db : DB) (m : Option String) : List String :=
  sortStr ((restrict db m).flatMap (fun p => p.tags.map (·.1))).eraseDups
def fieldKeys (db : DB) (m : Option String) : List String :=
  sortStr ((restrict db m).flatMap (fun p => p.fields.map (·.1))).eraseDups
/-- `None` sorts last -/
def optStrLe : Option String → Option String → Bool
  | some a, some b => decide (a ≤ b) | some _, none => true | none, none => true | none, some _ => false
def tagValuesOf (db : DB) (m : Option String) (k : String) : List (Option String) :=
  (((restrict db m).filterMap (fun p => p.tags.lookup k)).eraseDups).mergeSort optStrLe
/-- requested keys are always present; none requested = every key seen -/
def tagValues (db : DB) (keys : List String) (m : Option String) : List (String × List (Option String)) :=
  let ks := if keys.isEmpty then tagKeys db m else sortStr keys.eraseDups
  ks.map (fun k => (k, tagValuesOf db m k))
def fieldValues (db : DB) (key : String) (m : Option String) : List (Option Num) :=
  (restrict db m).filterMap (fun p => p.fields.lookup key)
def timestamps (db : DB) (m : Option String) : List Time := (restrict db m).map (·.time)
def len (db : DB) : Nat := db.length
def all (db : DB) (sorted : Bool) : DB := if sorted then byTime db else db

/-! ## sorted-list helpers (C18): executable characterisations, independent of `bisect` -/

def idxWhere (p : Int → Bool) (l : List Int) : List Nat :=
  (l.zipIdx.filter (fun vi => p vi.1)).map (·.2)
def findEq (l : List Int) (x : Int) : Option Nat := (idxWhere (· == x) l).head?
def findLt (l : List Int) (x : Int) : Option Nat := (idxWhere (· < x) l).getLast?
def findLe (l : List Int) (x : Int) : Option Nat := (idxWhere (· ≤ x) l).getLast?
def findGt (l : List Int) (x : Int) : Option Nat := (idxWhere (x < ·) l).head?
def findGe (l : List Int) (x : Int) : Option Nat := (idxWhere (x ≤ ·) l).head?

end TinyFlux.Spec
