import TinyFlux.Mirror.Search
import TinyFlux.Lemmas.TimeIndex
/-!
# Mirror theorems, part K: `Index._search_timestamps` of index.py, as translated

The time search translated statement by statement from the working tree (`Generated/IndexImpl.lean`): the choice of the
operator (`query._operator if query.is_hashable() else None`, kept only for an aware `datetime` to compare with), the six
bisection branches over the *translated* `find_*` helpers of utils.py (`Generated/Utils.lean`, C18) — with the scan of the
run of equal timestamps for `==` / `!=` (a `while` loop, translated as the bounded scan it is) and the slices for the order
comparisons — and the generic branch that tests every timestamp. On the query object of any Model leaf it returns the same
set of positions as the Model's `Index.searchTs` on the `abs`-read state.

`timeQuery` states what the index sees of a time query object (queries.py, tied by the C01 / C08 / C09 correspondence runs): a
comparison leaf is hashable and carries its operator and, for an aware datetime, its instant; a `map` in the path makes the
query unhashable; any other test is not one of the six operators.
-/
namespace TinyFlux.Mirror
open TinyFlux.Model TinyFlux.Spec TinyFlux.Py.Typed
open TinyFlux.Generated

def opOf : Cmp → Operator
  | .eq => .eq | .ne => .ne | .lt => .lt | .le => .le | .gt => .gt | .ge => .ge

def timeQuery (l : Leaf) : SimpleQuery :=
  { _path_resolver := fun a => match a with | .time t => resolver l (.time t.us) | _ => .error ()
    _test := testOf l
    _operator := match l with | .cmp c _ => opOf c | _ => .other
    hashable := match l with | .map _ _ => false | _ => true
    _rhs := match l with | .cmp _ (.time x) => .aware ⟨x⟩ | _ => .other }

/-! ## helpers (in their own namespace: other Mirror files have helpers of their own) -/
namespace SearchTime

theorem findIn_findPos (f) (ts : List Int) (x : Int) :
    (∃ v, findIn f ts x = .ok v ∧ Index.findPos f ts x = .ok v) ∨
    ((∃ e, findIn f ts x = .error e) ∧ ∃ e, Index.findPos f ts x = .error e) := by
  unfold findIn Index.findPos
  cases h : f (.list ts) (.int x) with
  | error e => right; exact ⟨⟨_, rfl⟩, ⟨_, rfl⟩⟩
  | ok v =>
    cases v with
    | int n =>
      by_cases hn : 0 ≤ n
      · left; exact ⟨some n.toNat, by simp [hn, pure, Except.pure], by simp [hn, pure, Except.pure]⟩
      · right; exact ⟨⟨.typeError, by simp [hn, throw, throwThe, MonadExceptOf.throw]⟩,
          ⟨.type, by simp [hn, throw, throwThe, MonadExceptOf.throw]⟩⟩
    | none => left; exact ⟨none, rfl, rfl⟩
    | _ => right; exact ⟨⟨_, rfl⟩, ⟨_, rfl⟩⟩

theorem find_eq_some (ts : List Int) (x : Int) (m : Nat)
    (h : Index.findPos Generated.find_eq ts x = .ok (some m)) : ∃ hm : m < ts.length, ts[m] = x := by
  open TinyFlux.Py in
  have hle := bisectLeft_le ts x
  unfold Index.findPos at h
  by_cases h0 : bisectLeftNat ts x = ts.length
  · have : find_eq (.list ts) (.int x) = .ok .none := by
      simp [find_eq, bisect_left, Py.len, ne, Py.pyEq, Py.truthy, h0, bind, Except.bind, pure, Except.pure]
    rw [this] at h
    simp [pure, Except.pure] at h
  · have hlt : bisectLeftNat ts x < ts.length := by omega
    have hne : ¬ ((bisectLeftNat ts x : Int) = (ts.length : Int)) := by omega
    have hget := getItem_nat ts (bisectLeftNat ts x) hlt
    by_cases hx : ts[bisectLeftNat ts x] = x
    · have : find_eq (.list ts) (.int x) = .ok (.int (bisectLeftNat ts x : Int)) := by
        simp [find_eq, bisect_left, Py.len, ne, eq, Py.pyEq, Py.truthy, hne, hget, hx, bind, Except.bind,
          pure, Except.pure]
      rw [this] at h
      simp [pure, Except.pure] at h
      subst h
      exact ⟨hlt, hx⟩
    · have : find_eq (.list ts) (.int x) = .ok .none := by
        simp [find_eq, bisect_left, Py.len, ne, eq, Py.pyEq, Py.truthy, hne, hget, hx, bind, Except.bind,
          pure, Except.pure]
      rw [this] at h
      simp [pure, Except.pure] at h

theorem gen_generic (g : GSelf) (l : Leaf) (h1 : (timeQuery l)._rhs = .other) :
    IndexImpl._search_timestamps g (timeQuery l) = .ok
      ((List.zip g._storage_pos_sorted_by_ts g._timestamps).foldl (fun acc (e : Nat × Int) =>
        if hit l (.time e.2) then setAdd acc e.1 else acc) []) := by
  unfold IndexImpl._search_timestamps
  simp only [h1, Rhs.isDatetime, truthy, id, Bool.false_and, Bool.false_eq_true, if_false, pyEq]
  rw [foldlM_ok (g := fun acc (e : Nat × Int) => if hit l (.time e.2) then setAdd acc e.1 else acc)]
  intro b a
  exact step_eq (timeQuery l) (toArg (fromtimestamp a.2)) l (.time a.2) (fun acc => setAdd acc a.1) b rfl rfl

/-- the catch-all arm of `Index.searchTs` -/
theorem mod_generic (g : GSelf) (l : Leaf) :
    genericTs_t (abs g) l = .ok (dedup ((List.zip g._storage_pos_sorted_by_ts g._timestamps).filterMap
      (fun (e : Nat × Int) => if hit l (.time e.2) then some e.1 else none))) := by
  unfold genericTs_t
  rw [filterMapM_ok_s (g := fun (e : Nat × Int) => if hit l (.time e.2) then some e.1 else none)]
  · rfl
  · intro e _
    simp only [(callOn_eq l (.time e.2)).1, bind, Except.bind, pure, Except.pure]
    split <;> rfl

theorem generic_same (g : GSelf) (l : Leaf) :
    SameSet ((List.zip g._storage_pos_sorted_by_ts g._timestamps).foldl (fun acc (e : Nat × Int) =>
        if hit l (.time e.2) then setAdd acc e.1 else acc) [])
      (dedup ((List.zip g._storage_pos_sorted_by_ts g._timestamps).filterMap
      (fun (e : Nat × Int) => if hit l (.time e.2) then some e.1 else none))) := by
  have h1 := fold_nodup (fun acc (e : Nat × Int) => if hit l (.time e.2) then setAdd acc e.1 else acc)
    (by
      intro acc e hacc; split
      · exact nodup_setAdd _ _ hacc
      · exact hacc) (List.zip g._storage_pos_sorted_by_ts g._timestamps) [] List.nodup_nil
  have h2 := fold_mem (fun acc (e : Nat × Int) => if hit l (.time e.2) then setAdd acc e.1 else acc)
    (fun e x => hit l (.time e.2) = true ∧ x = e.1) (by
      intro acc e x; split
      · rename_i h; simp [mem_setAdd, h]
      · rename_i h; simp [h]) (List.zip g._storage_pos_sorted_by_ts g._timestamps) []
  refine ⟨h1, nodup_dedup _, fun x => ?_⟩
  rw [h2, mem_dedup]
  simp only [List.not_mem_nil, false_or, List.mem_filterMap]
  constructor
  · rintro ⟨e, he, hh, rfl⟩
    exact ⟨e, he, by simp [hh]⟩
  · rintro ⟨e, he, hx⟩
    refine ⟨e, he, ?_⟩
    split at hx
    · rename_i hh; simp at hx; exact ⟨hh, hx.symm⟩
    · simp at hx

theorem generic_ok (g : GSelf) (l : Leaf) (h1 : (timeQuery l)._rhs = .other)
    (h2 : (abs g).searchTs l = genericTs_t (abs g) l) :
    match (abs g).searchTs l with
    | .ok r' => ∃ r, IndexImpl._search_timestamps g (timeQuery l) = .ok r ∧ SameSet r r'
    | .error _ => ∃ e, IndexImpl._search_timestamps g (timeQuery l) = .error e := by
  rw [h2, mod_generic]
  exact ⟨_, gen_generic g l h1, generic_same g l⟩

/-- the body of the `while` loop of `==` / `!=`, as generated -/
def scanStep (ts : List Int) (pos : List Nat) (rhs : Rhs) : (List Nat × Bool) → Nat → M (List Nat × Bool) :=
  fun (results, brk) match_ => do
          if brk then pure (results, brk) else do
            if ((← getItem ts match_) != (← Rhs.timestamp rhs)) then do
              pure (results, true)
            else do
              let results ← pure (setAdd results (← getItem pos match_))
              pure (results, brk)

theorem scan_brk (ts : List Int) (pos : List Nat) (rhs : Rhs) (r : List Nat) (l : List Nat) :
    l.foldlM (scanStep ts pos rhs) (r, true) = .ok (r, true) := by
  induction l with
  | nil => rfl
  | cons a t ih =>
    rw [List.foldlM_cons]
    simp only [scanStep, if_true, bind, Except.bind, pure, Except.pure]
    exact ih

theorem getItem_list {α : Type} (l : List α) (i : Nat) (h : i < l.length) :
    (getItem l i : M α) = .ok l[i] := by
  simp [getItem, List.getElem?_eq_getElem h, pure, Except.pure]

/-- the rest of the run of equal timestamps from `s` on -/
def runFrom (ts : List Int) (pos : List Nat) (s : Nat) (x : Int) : List Nat :=
  (((ts.zip pos).drop s).takeWhile (fun tp => tp.1 == x)).map (·.2)

theorem scan_run (ts : List Int) (pos : List Nat) (hlen : ts.length = pos.length) (x : Int) (n : Nat) :
    ∀ (s : Nat) (r : List Nat), s + n = ts.length →
    ∃ b, (List.range' s n).foldlM (scanStep ts pos (.aware ⟨x⟩)) (r, false) =
      .ok ((runFrom ts pos s x).foldl setAdd r, b) := by
  induction n with
  | zero =>
    intro s r hs
    refine ⟨false, ?_⟩
    have : (ts.zip pos).drop s = [] := by
      apply List.drop_eq_nil_of_le
      rw [List.length_zip]; omega
    simp [runFrom, this, pure, Except.pure]
  | succ n ih =>
    intro s r hs
    have hs1 : s < ts.length := by omega
    have hs2 : s < pos.length := by omega
    have hz : s < (ts.zip pos).length := by rw [List.length_zip]; omega
    have hd : (ts.zip pos).drop s = (ts[s], pos[s]) :: (ts.zip pos).drop (s + 1) := by
      rw [List.drop_eq_getElem_cons hz, List.getElem_zip]
    rw [List.range'_succ, List.foldlM_cons]
    by_cases hx : ts[s] = x
    · obtain ⟨b, hb⟩ := ih (s + 1) (setAdd r pos[s]) (by omega)
      refine ⟨b, ?_⟩
      have h1 : scanStep ts pos (.aware ⟨x⟩) (r, false) s = .ok (setAdd r pos[s], false) := by
        simp [scanStep, getItem_list ts s hs1, getItem_list pos s hs2, Rhs.timestamp, hx, bind, Except.bind,
          pure, Except.pure]
      rw [h1]
      simp only [bind, Except.bind]
      rw [hb]
      simp [runFrom, hd, hx]
    · refine ⟨true, ?_⟩
      have h1 : scanStep ts pos (.aware ⟨x⟩) (r, false) s = .ok (r, true) := by
        simp [scanStep, getItem_list ts s hs1, Rhs.timestamp, hx, bind, Except.bind,
          pure, Except.pure]
      rw [h1]
      simp only [bind, Except.bind]
      rw [scan_brk]
      simp [runFrom, hd, hx]

theorem mem_foldl_setAdd (l r : List Nat) (x : Nat) : x ∈ l.foldl setAdd r ↔ x ∈ r ∨ x ∈ l := by
  rw [fold_mem setAdd (fun e x => x = e) (fun acc e x => mem_setAdd acc e x)]
  simp

theorem nodup_foldl_setAdd (l r : List Nat) (hr : r.Nodup) : (l.foldl setAdd r).Nodup :=
  fold_nodup setAdd (fun acc e h => nodup_setAdd acc e h) l r hr

theorem equalRun_eq (g : GSelf) (hlen : g._timestamps.length = g._storage_pos_sorted_by_ts.length)
    (m : Nat) (x : Int) (hm : m < g._timestamps.length) (hx : g._timestamps[m] = x) :
    (abs g).equalRun m x = g._storage_pos_sorted_by_ts[m]'(by omega) ::
      runFrom g._timestamps g._storage_pos_sorted_by_ts (m + 1) x := by
  have hz : m < (g._timestamps.zip g._storage_pos_sorted_by_ts).length := by rw [List.length_zip]; omega
  simp [Index.equalRun, abs, runFrom, List.drop_eq_getElem_cons hz, List.getElem_zip, hx]

/-- the result of the scan started at the match `m` -/
def scanFrom (g : GSelf) (x : Int) (m : Nat) : M (List Nat) := do
  let p ← getItem g._storage_pos_sorted_by_ts m
  let rb ← (List.range' (m + 1) (g._timestamps.length - (m + 1))).foldlM
    (scanStep g._timestamps g._storage_pos_sorted_by_ts (.aware ⟨x⟩)) (mkSet [p], false)
  pure rb.1

theorem gen_eq (g : GSelf) (x : Int) :
    IndexImpl._search_timestamps g (timeQuery (.cmp .eq (.time x))) = (do
      let r ← findIn Generated.find_eq g._timestamps x
      match r with
      | none => pure []
      | some m => scanFrom g x m) := by
  unfold IndexImpl._search_timestamps scanFrom scanStep
  simp only [timeQuery, opOf, Rhs.isDatetime, Rhs.tzinfo, Rhs.timestamp, truthy, id, Bool.and_self, if_true, pyEq,
    beq_iff_eq, reduceCtorEq, if_false, pure_bind, Py.Typed.len]
  rfl

theorem gen_ne (g : GSelf) (x : Int) :
    IndexImpl._search_timestamps g (timeQuery (.cmp .ne (.time x))) = (do
      let r ← findIn Generated.find_eq g._timestamps x
      match r with
      | none => pure (mkSet g._storage_pos_sorted_by_ts)
      | some m => do
        let res ← scanFrom g x m
        pure (setDiff (mkSet g._storage_pos_sorted_by_ts) res)) := by
  unfold IndexImpl._search_timestamps scanFrom scanStep
  simp only [timeQuery, opOf, Rhs.isDatetime, Rhs.tzinfo, Rhs.timestamp, truthy, id, Bool.and_self, if_true, pyEq,
    beq_iff_eq, reduceCtorEq, if_false, pure_bind, Py.Typed.len]
  congr 1
  funext r
  cases r with
  | none => rfl
  | some m => simp only [bind_assoc, pure_bind]

theorem gen_lt (g : GSelf) (x : Int) :
    IndexImpl._search_timestamps g (timeQuery (.cmp .lt (.time x))) = (do
      let r ← findIn Generated.find_lt g._timestamps x
      match r with
      | none => pure []
      | some m => pure (dedup (g._storage_pos_sorted_by_ts.take (m + 1)))) := by
  unfold IndexImpl._search_timestamps
  simp only [timeQuery, opOf, Rhs.isDatetime, Rhs.tzinfo, Rhs.timestamp, truthy, id, Bool.and_self, if_true, pyEq,
    beq_iff_eq, reduceCtorEq, if_false, pure_bind, mkSet, sliceTo]
  rfl

theorem gen_le (g : GSelf) (x : Int) :
    IndexImpl._search_timestamps g (timeQuery (.cmp .le (.time x))) = (do
      let r ← findIn Generated.find_le g._timestamps x
      match r with
      | none => pure []
      | some m => pure (dedup (g._storage_pos_sorted_by_ts.take (m + 1)))) := by
  unfold IndexImpl._search_timestamps
  simp only [timeQuery, opOf, Rhs.isDatetime, Rhs.tzinfo, Rhs.timestamp, truthy, id, Bool.and_self, if_true, pyEq,
    beq_iff_eq, reduceCtorEq, if_false, pure_bind, mkSet, sliceTo]
  rfl

theorem gen_gt (g : GSelf) (x : Int) :
    IndexImpl._search_timestamps g (timeQuery (.cmp .gt (.time x))) = (do
      let r ← findIn Generated.find_gt g._timestamps x
      match r with
      | none => pure []
      | some m => pure (dedup (g._storage_pos_sorted_by_ts.drop m))) := by
  unfold IndexImpl._search_timestamps
  simp only [timeQuery, opOf, Rhs.isDatetime, Rhs.tzinfo, Rhs.timestamp, truthy, id, Bool.and_self, if_true, pyEq,
    beq_iff_eq, reduceCtorEq, if_false, pure_bind, mkSet, sliceFrom]
  rfl

theorem gen_ge (g : GSelf) (x : Int) :
    IndexImpl._search_timestamps g (timeQuery (.cmp .ge (.time x))) = (do
      let r ← findIn Generated.find_ge g._timestamps x
      match r with
      | none => pure []
      | some m => pure (dedup (g._storage_pos_sorted_by_ts.drop m))) := by
  unfold IndexImpl._search_timestamps
  simp only [timeQuery, opOf, Rhs.isDatetime, Rhs.tzinfo, Rhs.timestamp, truthy, id, Bool.and_self, if_true, pyEq,
    beq_iff_eq, reduceCtorEq, if_false, pure_bind, mkSet, sliceFrom]
  rfl

theorem scanFrom_ok (g : GSelf) (hlen : g._timestamps.length = g._storage_pos_sorted_by_ts.length)
    (x : Int) (m : Nat) (hm : m < g._timestamps.length) :
    scanFrom g x m = .ok ((runFrom g._timestamps g._storage_pos_sorted_by_ts (m + 1) x).foldl setAdd
      [g._storage_pos_sorted_by_ts[m]'(by omega)]) := by
  obtain ⟨b, hb⟩ := scan_run g._timestamps g._storage_pos_sorted_by_ts hlen x (g._timestamps.length - (m + 1))
    (m + 1) [g._storage_pos_sorted_by_ts[m]'(by omega)] (by omega)
  unfold scanFrom
  rw [getItem_list _ _ (by omega)]
  have hset : mkSet [g._storage_pos_sorted_by_ts[m]'(by omega)] = [g._storage_pos_sorted_by_ts[m]'(by omega)] := by
    simp [mkSet, dedup]
  simp only [bind, Except.bind, hset]
  rw [hb]
  rfl

theorem mem_scan_run (g : GSelf) (hlen : g._timestamps.length = g._storage_pos_sorted_by_ts.length)
    (x : Int) (m : Nat) (hm : m < g._timestamps.length) (hx : g._timestamps[m] = x) (y : Nat) :
    y ∈ (runFrom g._timestamps g._storage_pos_sorted_by_ts (m + 1) x).foldl setAdd
      [g._storage_pos_sorted_by_ts[m]'(by omega)] ↔ y ∈ (abs g).equalRun m x := by
  rw [mem_foldl_setAdd, equalRun_eq g hlen m x hm hx]
  simp

theorem sameSet_refl (a : List Nat) (h : a.Nodup) : SameSet a a := ⟨h, h, fun _ => Iff.rfl⟩

theorem mod_eq (g : GSelf) (x : Int) :
    (abs g).searchTs (.cmp .eq (.time x)) = (do
      match ← Index.findPos Generated.find_eq g._timestamps x with
      | none => pure []
      | some m => pure (dedup ((abs g).equalRun m x))) := rfl

theorem mod_ne (g : GSelf) (x : Int) :
    (abs g).searchTs (.cmp .ne (.time x)) = (do
      match ← Index.findPos Generated.find_eq g._timestamps x with
      | none => pure (dedup g._storage_pos_sorted_by_ts)
      | some m => pure ((dedup g._storage_pos_sorted_by_ts).filter (fun p => !((abs g).equalRun m x).contains p))) := rfl

theorem mod_lt (g : GSelf) (x : Int) :
    (abs g).searchTs (.cmp .lt (.time x)) = (do
      match ← Index.findPos Generated.find_lt g._timestamps x with
      | none => pure []
      | some m => pure (dedup (g._storage_pos_sorted_by_ts.take (m + 1)))) := rfl

theorem mod_le (g : GSelf) (x : Int) :
    (abs g).searchTs (.cmp .le (.time x)) = (do
      match ← Index.findPos Generated.find_le g._timestamps x with
      | none => pure []
      | some m => pure (dedup (g._storage_pos_sorted_by_ts.take (m + 1)))) := rfl

theorem mod_gt (g : GSelf) (x : Int) :
    (abs g).searchTs (.cmp .gt (.time x)) = (do
      match ← Index.findPos Generated.find_gt g._timestamps x with
      | none => pure []
      | some m => pure (dedup (g._storage_pos_sorted_by_ts.drop m))) := rfl

theorem mod_ge (g : GSelf) (x : Int) :
    (abs g).searchTs (.cmp .ge (.time x)) = (do
      match ← Index.findPos Generated.find_ge g._timestamps x with
      | none => pure []
      | some m => pure (dedup (g._storage_pos_sorted_by_ts.drop m))) := rfl

/-- the shape shared by the four order comparisons: the same bisection on both sides, the same slice -/
theorem order_ok (f) (ts : List Int) (x : Int) (k : Nat → List Nat) :
    match (do
      match ← Index.findPos f ts x with
      | none => pure []
      | some m => pure (dedup (k m)) : Except Exc (List Nat)) with
    | .ok r' => ∃ r, (do
      let r ← findIn f ts x
      match r with
      | none => pure []
      | some m => pure (dedup (k m)) : M (List Nat)) = .ok r ∧ SameSet r r'
    | .error _ => ∃ e, (do
      let r ← findIn f ts x
      match r with
      | none => pure []
      | some m => pure (dedup (k m)) : M (List Nat)) = .error e := by
  rcases findIn_findPos f ts x with ⟨v, hIn, hPos⟩ | ⟨⟨e, hIn⟩, ⟨e', hPos⟩⟩
  · rw [hIn, hPos]
    cases v with
    | none => exact ⟨[], rfl, sameSet_refl _ List.nodup_nil⟩
    | some m => exact ⟨_, rfl, sameSet_refl _ (nodup_dedup _)⟩
  · rw [hIn, hPos]
    exact ⟨e, rfl⟩

theorem eq_ok (g : GSelf) (hlen : g._timestamps.length = g._storage_pos_sorted_by_ts.length) (x : Int) :
    match (abs g).searchTs (.cmp .eq (.time x)) with
    | .ok r' => ∃ r, IndexImpl._search_timestamps g (timeQuery (.cmp .eq (.time x))) = .ok r ∧ SameSet r r'
    | .error _ => ∃ e, IndexImpl._search_timestamps g (timeQuery (.cmp .eq (.time x))) = .error e := by
  rw [mod_eq, gen_eq]
  rcases findIn_findPos Generated.find_eq g._timestamps x with ⟨v, hIn, hPos⟩ | ⟨⟨e, hIn⟩, ⟨e', hPos⟩⟩
  · rw [hIn, hPos]
    cases v with
    | none => exact ⟨[], rfl, sameSet_refl _ List.nodup_nil⟩
    | some m =>
      obtain ⟨hm, hx⟩ := find_eq_some _ _ _ hPos
      refine ⟨_, scanFrom_ok g hlen x m hm, nodup_foldl_setAdd _ _ (by simp), nodup_dedup _, fun y => ?_⟩
      rw [mem_scan_run g hlen x m hm hx, mem_dedup]
  · rw [hIn, hPos]
    exact ⟨e, rfl⟩

theorem ne_ok (g : GSelf) (hlen : g._timestamps.length = g._storage_pos_sorted_by_ts.length) (x : Int) :
    match (abs g).searchTs (.cmp .ne (.time x)) with
    | .ok r' => ∃ r, IndexImpl._search_timestamps g (timeQuery (.cmp .ne (.time x))) = .ok r ∧ SameSet r r'
    | .error _ => ∃ e, IndexImpl._search_timestamps g (timeQuery (.cmp .ne (.time x))) = .error e := by
  rw [mod_ne, gen_ne]
  rcases findIn_findPos Generated.find_eq g._timestamps x with ⟨v, hIn, hPos⟩ | ⟨⟨e, hIn⟩, ⟨e', hPos⟩⟩
  · rw [hIn, hPos]
    cases v with
    | none => exact ⟨_, rfl, sameSet_refl _ (nodup_dedup _)⟩
    | some m =>
      obtain ⟨hm, hx⟩ := find_eq_some _ _ _ hPos
      refine ⟨_, by
        show (do let res ← scanFrom g x m; pure (setDiff (mkSet g._storage_pos_sorted_by_ts) res)) = _
        rw [scanFrom_ok g hlen x m hm]; rfl, ?_, ?_, fun y => ?_⟩
      · exact (nodup_dedup _).filter _
      · exact (nodup_dedup _).filter _
      · have hc : ((runFrom g._timestamps g._storage_pos_sorted_by_ts (m + 1) x).foldl setAdd
            [g._storage_pos_sorted_by_ts[m]'(by omega)]).contains y = ((abs g).equalRun m x).contains y := by
          rw [Bool.eq_iff_iff, List.contains_iff_mem, List.contains_iff_mem]
          exact mem_scan_run g hlen x m hm hx y
        simp only [setDiff, mkSet, List.mem_filter, hc]
  · rw [hIn, hPos]
    exact ⟨e, rfl⟩

end SearchTime

open SearchTime in
theorem search_timestamps_ok (g : GSelf) (hlen : g._timestamps.length = g._storage_pos_sorted_by_ts.length) (l : Leaf) :
    match (abs g).searchTs l with
    | .ok r' => ∃ r, IndexImpl._search_timestamps g (timeQuery l) = .ok r ∧ SameSet r r'
    | .error _ => ∃ e, IndexImpl._search_timestamps g (timeQuery l) = .error e := by
  cases l with
  | cmp c rhs =>
    cases rhs with
    | time x =>
      cases c
      · exact eq_ok g hlen x
      · exact ne_ok g hlen x
      · rw [mod_lt, gen_lt]; exact order_ok _ _ x (fun m => g._storage_pos_sorted_by_ts.take (m + 1))
      · rw [mod_le, gen_le]; exact order_ok _ _ x (fun m => g._storage_pos_sorted_by_ts.take (m + 1))
      · rw [mod_gt, gen_gt]; exact order_ok _ _ x (fun m => g._storage_pos_sorted_by_ts.drop m)
      · rw [mod_ge, gen_ge]; exact order_ok _ _ x (fun m => g._storage_pos_sorted_by_ts.drop m)
    | _ => cases c <;> exact generic_ok g _ rfl rfl
  | _ => exact generic_ok g _ rfl rfl

end TinyFlux.Mirror
