import TinyFlux.Mirror.Maps
import TinyFlux.Mirror.Remove
import TinyFlux.Mirror.Update
import TinyFlux.Mirror.Tags
import TinyFlux.Lemmas.WritesAux
/-!
# Mirror theorems, part E: `insert`, `remove`, `update`, `build` of the translated `Index`, and what they maintain

The composite methods of the translated class return what the Model's operations return on the `abs`-read state
(up to the order of flattened tag keys), and therefore maintain `Represents`: the translated source of index
maintenance — not only the hand-written Model of it — keeps the index equal to the index of the stored points.
-/
namespace TinyFlux.Mirror
open TinyFlux.Model TinyFlux.Spec TinyFlux.Py.Typed
open TinyFlux.Generated

theorem represents_of_idxEq {a b : Index} {l : List Point} (h : IdxEq a b) (hw : WFMap a.tags)
    (hb : Represents b l) : Represents a l := by
  obtain ⟨h1, h2, h3, h4, h5, h6, h7⟩ := h
  refine ⟨?_, ?_, ?_, ?_, ?_, hw, ?_, ?_, ?_, ?_⟩
  · rw [h1]; exact hb.num
  · rw [h4]; exact hb.meas
  · intro kv; rw [h7]; exact hb.tags kv
  · rw [h5]; exact hb.fields
  · rw [h4]; exact hb.wfMeas
  · rw [h5]; exact hb.wfFields
  · rw [h2, h3]; exact hb.tsLen
  · rw [h2]; exact hb.tsSorted
  · rw [h2, h3]; exact hb.tsPerm

theorem wfmap_abs_tags (g : GSelf) (hg : GWF g) : WFMap (abs g).tags := by
  exact wfmap_flat g._tags hg.tags

def insBody (start_idx : Nat) : GSelf → Nat × Point → M GSelf :=
  fun self (idx, point) => do
      let new_idx := (start_idx + idx)
      let self := { self with _num_items := self._num_items + 1 }
      if (!(truthy (timeOf point))) then do
        throw PyErr.valueError
      else do
        let self ← IndexImpl._insert_time self (timeOf point)
        let self ← IndexImpl._insert_tags self new_idx point.tags
        let self ← IndexImpl._insert_fields self new_idx point.fields
        let self ← IndexImpl._insert_measurements self new_idx point.meas
        pure self

theorem insert_eq (g : GSelf) (pts : List Point) :
    IndexImpl.insert g pts = List.foldlM (insBody g._timestamps.length) g (enumerate pts) := by
  unfold IndexImpl.insert insBody
  simp [Py.Typed.len]

theorem ins_step (start : Nat) (g : GSelf) (i : Index) (idx : Nat) (p : Point) (hg : GWF g)
    (h : IdxEq (abs g) i) (hn : g._timestamps.length = start + idx) :
    ∃ g', insBody start g (idx, p) = .ok g' ∧ GWF g' ∧ IdxEq (abs g') (i.insert p)
      ∧ g'._timestamps.length = start + (idx + 1) := by
  unfold insBody
  simp only [truthy, Bool.not_true, Bool.false_eq_true, ↓reduceIte]
  rw [insert_time_ok]
  simp only [bind, Except.bind]
  obtain ⟨X1, e1, w1, p1⟩ := insert_tags_ok ⟨g._num_items + 1, g._tags, g._fields, g._measurements,
    g._timestamps ++ [(timeOf p).us], g._valid, g._storage_pos_sorted_by_ts ++ [g._timestamps.length]⟩ (start + idx) p.tags hg.tags
  rw [e1]
  obtain ⟨X2, e2, q2, w2⟩ := insert_fields_ok ⟨g._num_items + 1, X1, g._fields, g._measurements,
    g._timestamps ++ [(timeOf p).us], g._valid, g._storage_pos_sorted_by_ts ++ [g._timestamps.length]⟩ (start + idx) p.fields
  simp only []
  rw [e2]
  obtain ⟨X3, e3, q3, w3⟩ := insert_measurements_ok ⟨g._num_items + 1, X1, X2, g._measurements,
    g._timestamps ++ [(timeOf p).us], g._valid, g._storage_pos_sorted_by_ts ++ [g._timestamps.length]⟩ (start + idx) p.meas
  simp only []
  rw [e3]
  refine ⟨_, rfl, ⟨w3 hg.meas, w2 hg.fields, w1⟩, ?_, ?_⟩
  · obtain ⟨h1, h2, h3, h4, h5, h6, h7⟩ := h
    simp only [abs] at h1 h2 h3 h4 h5 h6 h7
    have hn' : start + idx = i.ts.length := by rw [← h2, hn]
    refine ⟨?_, ?_, ?_, ?_, ?_, ?_, ?_⟩
    · simp [abs, Index.insert, Index.insertMaps, h1]
    · simp [abs, Index.insert, Index.insertMaps, h2, timeOf]
    · simp [abs, Index.insert, Index.insertMaps, h3, h2]
    · simp only [abs, Index.insert, Index.insertMaps, q3, h4, hn']
    · simp only [abs, Index.insert, Index.insertMaps, q2, h5, hn']
    · simp [abs, Index.insert, Index.insertMaps, h6]
    · intro kv
      simp only [abs, Index.insert, Index.insertMaps]
      rw [p1 kv, hn']
      rw [posting_foldl_insert (fun kv : String × Option String => (kv.1, kv.2)) (fun _ => ()),
        posting_foldl_insert (fun kv : String × Option String => (kv.1, kv.2)) (fun _ => ()), h7]
  · simp; omega


theorem idxEq_refl (a : Index) : IdxEq a a := ⟨rfl, rfl, rfl, rfl, rfl, rfl, fun _ => rfl⟩

theorem idxEq_trans {a b c : Index} (h1 : IdxEq a b) (h2 : IdxEq b c) : IdxEq a c :=
  ⟨h1.num.trans h2.num, h1.ts.trans h2.ts, h1.pos.trans h2.pos, h1.meas.trans h2.meas,
   h1.fields.trans h2.fields, h1.valid.trans h2.valid, fun kv => (h1.tags kv).trans (h2.tags kv)⟩

theorem ins_loop (start : Nat) (pts : List Point) : ∀ (g : GSelf) (i : Index) (k : Nat), GWF g →
    IdxEq (abs g) i → g._timestamps.length = start + k →
    ∃ g', List.foldlM (insBody start) g ((pts.zipIdx k).map (fun xi => (xi.2, xi.1))) = .ok g' ∧ GWF g'
      ∧ IdxEq (abs g') (pts.foldl Index.insert i) := by
  induction pts with
  | nil => intro g i k hg h _; exact ⟨g, rfl, hg, h⟩
  | cons p t ih =>
    intro g i k hg h hn
    obtain ⟨g1, e1, hg1, h1, hn1⟩ := ins_step start g i k p hg h hn
    obtain ⟨g2, e2, hg2, h2⟩ := ih g1 (i.insert p) (k + 1) hg1 h1 hn1
    refine ⟨g2, ?_, hg2, h2⟩
    simp only [List.zipIdx_cons, List.map_cons, List.foldlM_cons, e1, bind, Except.bind]
    exact e2

/-- `Index.insert(points)` -/
theorem insert_ok (g : GSelf) (pts : List Point) (hg : GWF g) (hlen : g._timestamps.length = g._storage_pos_sorted_by_ts.length) :
    ∃ g', IndexImpl.insert g pts = .ok g' ∧ GWF g' ∧ IdxEq (abs g') (pts.foldl Index.insert (abs g)) := by
  have _ := hlen
  rw [insert_eq]
  exact ins_loop g._timestamps.length pts g (abs g) 0 hg (idxEq_refl _) rfl

theorem remove_pre (g : GSelf) (r : List Nat) (hg : GWF g) :
    ∃ g', (do
        let self ← IndexImpl._remove_timestamps g r
        let self ← IndexImpl._remove_measurements self r
        let self ← IndexImpl._remove_tags self r
        IndexImpl._remove_fields self r) = .ok g' ∧ GWF g' ∧ g'._num_items = g._num_items
      ∧ IdxEq (abs g') { (abs g).remove r with numItems := g._num_items } := by
  rw [remove_timestamps_ok]
  simp only [bind, Except.bind]
  obtain ⟨X1, e1, q1, w1⟩ := remove_measurements_ok ⟨g._num_items, g._tags, g._fields, g._measurements,
    ((g._timestamps.zip g._storage_pos_sorted_by_ts).filter (fun tp => !r.contains tp.2)).map (·.1), g._valid,
    ((g._timestamps.zip g._storage_pos_sorted_by_ts).filter (fun tp => !r.contains tp.2)).map (·.2)⟩ r hg.meas
  rw [e1]
  obtain ⟨X2, e2, w2, p2⟩ := remove_tags_ok ⟨g._num_items, g._tags, g._fields, X1,
    ((g._timestamps.zip g._storage_pos_sorted_by_ts).filter (fun tp => !r.contains tp.2)).map (·.1), g._valid,
    ((g._timestamps.zip g._storage_pos_sorted_by_ts).filter (fun tp => !r.contains tp.2)).map (·.2)⟩ r hg.tags
  simp only []
  rw [e2]
  obtain ⟨X3, e3, q3, w3⟩ := remove_fields_ok ⟨g._num_items, X2, g._fields, X1,
    ((g._timestamps.zip g._storage_pos_sorted_by_ts).filter (fun tp => !r.contains tp.2)).map (·.1), g._valid,
    ((g._timestamps.zip g._storage_pos_sorted_by_ts).filter (fun tp => !r.contains tp.2)).map (·.2)⟩ r hg.fields
  simp only []
  rw [e3]
  refine ⟨_, rfl, ⟨w1, w3, w2⟩, rfl, ?_⟩
  refine ⟨rfl, rfl, rfl, ?_, ?_, rfl, ?_⟩
  · simp only [abs, Index.remove, q1]
  · simp only [abs, Index.remove, q3]
  · intro kv; simp only [abs, Index.remove]; exact p2 kv

theorem remove_eq (g : GSelf) (r : List Nat) :
    IndexImpl.remove g r = (do
        let self ← (do
          let self ← IndexImpl._remove_timestamps g r
          let self ← IndexImpl._remove_measurements self r
          let self ← IndexImpl._remove_tags self r
          IndexImpl._remove_fields self r)
        let n ← natSub self._num_items r.length
        pure { self with _num_items := n }) := by
  unfold IndexImpl.remove
  simp [Py.Typed.len]

/-- `Index.remove(r_items)` -/
theorem remove_ok (g : GSelf) (r : List Nat) (hg : GWF g) (hle : r.length ≤ g._num_items) :
    ∃ g', IndexImpl.remove g r = .ok g' ∧ GWF g' ∧ IdxEq (abs g') ((abs g).remove r) := by
  obtain ⟨g1, e1, hg1, hn1, h1⟩ := remove_pre g r hg
  rw [remove_eq, e1]
  simp only [bind, Except.bind, natSub, hn1, hle, ↓reduceIte, pure, Except.pure]
  refine ⟨_, rfl, ⟨hg1.meas, hg1.fields, hg1.tags⟩, ?_⟩
  obtain ⟨_, h2, h3, h4, h5, h6, h7⟩ := h1
  exact ⟨rfl, h2, h3, h4, h5, h6, h7⟩

/-- a removal of more items than the index holds is flagged by the translation (it would leave `Nat`) -/
theorem remove_range (g : GSelf) (r : List Nat) (hg : GWF g) (hgt : g._num_items < r.length) :
    IndexImpl.remove g r = .error .range := by
  obtain ⟨g1, e1, hg1, hn1, h1⟩ := remove_pre g r hg
  rw [remove_eq, e1]
  have : ¬ r.length ≤ g._num_items := by omega
  simp only [bind, Except.bind, natSub, hn1, this, ↓reduceIte, throw, throwThe, MonadExceptOf.throw]

/-- `Index.update(u_items)` -/
theorem update_ok (g : GSelf) (u : AL Nat Nat) (hg : GWF g) :
    ∃ g', IndexImpl.update g u = .ok g' ∧ GWF g' ∧ IdxEq (abs g') ((abs g).update u) := by
  unfold IndexImpl.update
  rw [update_timestamps_ok]
  simp only [bind, Except.bind]
  obtain ⟨X1, e1, q1, w1⟩ := update_measurements_ok ⟨g._num_items, g._tags, g._fields, g._measurements,
    g._timestamps, g._valid, g._storage_pos_sorted_by_ts.map (renum u)⟩ u hg.meas
  rw [e1]
  obtain ⟨X2, e2, w2, p2⟩ := update_tags_ok ⟨g._num_items, g._tags, g._fields, X1,
    g._timestamps, g._valid, g._storage_pos_sorted_by_ts.map (renum u)⟩ u hg.tags
  simp only []
  rw [e2]
  obtain ⟨X3, e3, q3, w3⟩ := update_fields_ok ⟨g._num_items, X2, g._fields, X1,
    g._timestamps, g._valid, g._storage_pos_sorted_by_ts.map (renum u)⟩ u hg.fields
  simp only []
  rw [e3]
  refine ⟨_, rfl, ⟨w1, w3, w2⟩, ?_⟩
  refine ⟨rfl, rfl, rfl, ?_, ?_, rfl, ?_⟩
  · simp only [abs, Index.update, q1]; rfl
  · simp only [abs, Index.update, q3]; rfl
  · intro kv; simp only [abs, Index.update, p2]; rfl

/-- equal on the maps (up to the order of the flattened tag keys) and the item count -/
structure MapsEq (a b : Index) : Prop where
  num : a.numItems = b.numItems
  meas : a.meas = b.meas
  fields : a.fields = b.fields
  tags : ∀ kv, a.tags.posting kv = b.tags.posting kv

def bldBody : GSelf × List (Int × Nat) → Nat × Point → M (GSelf × List (Int × Nat)) :=
  fun (self, timestamp_buffer) (idx, point) => do
      let self := { self with _num_items := self._num_items + 1 }
      let self ← IndexImpl._insert_measurements self idx point.meas
      let self ← IndexImpl._insert_tags self idx point.tags
      let self ← IndexImpl._insert_fields self idx point.fields
      if (!(truthy (timeOf point))) then do
        throw PyErr.valueError
      else do
        let timestamp_buffer := (append timestamp_buffer ((timestamp (timeOf point)), idx))
        pure (self, timestamp_buffer)

theorem build_eq (g : GSelf) (pts : List Point) :
    IndexImpl.build g pts = (do
      let self ← IndexImpl._reset g
      let st ← List.foldlM bldBody ({ self with _valid := false }, []) (enumerate pts)
      let buf := sortedBy (fun x => (item0 x)) st.2
      pure { st.1 with _timestamps := buf.map (fun i => item0 i),
                       _storage_pos_sorted_by_ts := buf.map (fun i => item1 i), _valid := true }) := by
  unfold IndexImpl.build bldBody
  rfl

theorem bld_step (g : GSelf) (buf : List (Int × Nat)) (i : Index) (idx : Nat) (p : Point) (hg : GWF g)
    (h : MapsEq (abs g) i) :
    ∃ g', bldBody (g, buf) (idx, p) = .ok (g', buf ++ [(p.time, idx)]) ∧ GWF g'
      ∧ MapsEq (abs g') { (i.insertMaps idx p) with numItems := i.numItems + 1 } := by
  unfold bldBody
  simp only [truthy, Bool.not_true, Bool.false_eq_true, ↓reduceIte]
  obtain ⟨X1, e1, q1, w1⟩ := insert_measurements_ok ⟨g._num_items + 1, g._tags, g._fields, g._measurements,
    g._timestamps, g._valid, g._storage_pos_sorted_by_ts⟩ idx p.meas
  obtain ⟨X2, e2, w2, p2⟩ := insert_tags_ok ⟨g._num_items + 1, g._tags, g._fields, X1,
    g._timestamps, g._valid, g._storage_pos_sorted_by_ts⟩ idx p.tags hg.tags
  obtain ⟨X3, e3, q3, w3⟩ := insert_fields_ok ⟨g._num_items + 1, X2, g._fields, X1,
    g._timestamps, g._valid, g._storage_pos_sorted_by_ts⟩ idx p.fields
  simp only [bind, Except.bind]
  rw [e1]
  simp only []
  rw [e2]
  simp only []
  rw [e3]
  refine ⟨_, rfl, ⟨w1 hg.meas, w3 hg.fields, w2⟩, ?_⟩
  obtain ⟨h1, h4, h5, h7⟩ := h
  simp only [abs] at h1 h4 h5 h7
  refine ⟨?_, ?_, ?_, ?_⟩
  · simp [abs, h1]
  · simp only [abs, Index.insertMaps, q1, h4]
  · simp only [abs, Index.insertMaps, q3, h5]
  · intro kv
    simp only [abs, Index.insertMaps]
    rw [p2 kv]
    rw [posting_foldl_insert (fun kv : String × Option String => (kv.1, kv.2)) (fun _ => ()),
      posting_foldl_insert (fun kv : String × Option String => (kv.1, kv.2)) (fun _ => ()), h7]

theorem bld_loop (pts : List Point) : ∀ (g : GSelf) (buf : List (Int × Nat)) (i : Index) (k : Nat), GWF g →
    MapsEq (abs g) i →
    ∃ g', List.foldlM bldBody (g, buf) ((pts.zipIdx k).map (fun xi => (xi.2, xi.1)))
        = .ok (g', buf ++ (pts.zipIdx k).map (fun pi => (pi.1.time, pi.2))) ∧ GWF g'
      ∧ MapsEq (abs g') (Index.buildFrom i pts k) := by
  induction pts with
  | nil => intro g buf i k hg h; exact ⟨g, by simp [List.foldlM_nil, pure, Except.pure], hg, h⟩
  | cons p t ih =>
    intro g buf i k hg h
    obtain ⟨g1, e1, hg1, h1⟩ := bld_step g buf i k p hg h
    obtain ⟨g2, e2, hg2, h2⟩ := ih g1 (buf ++ [(p.time, k)]) _ (k + 1) hg1 h1
    refine ⟨g2, ?_, hg2, h2⟩
    simp only [List.zipIdx_cons, List.map_cons, List.foldlM_cons, e1, bind, Except.bind]
    rw [e2]
    simp

theorem init_invalid : ({ IndexImpl.__init__ true with _valid := false } : GSelf) = IndexImpl.__init__ false := rfl

/-- `Index.build(points)` -/
theorem build_ok (g : GSelf) (pts : List Point) :
    ∃ g', IndexImpl.build g pts = .ok g' ∧ GWF g' ∧ IdxEq (abs g') (Index.build pts) := by
  have h0 : MapsEq (abs (IndexImpl.__init__ false)) {} := by
    rw [abs_init]; exact ⟨rfl, rfl, rfl, fun _ => rfl⟩
  obtain ⟨g1, e1, hg1, h1⟩ := bld_loop pts (IndexImpl.__init__ false) [] {} 0 (gwf_init false) h0
  rw [build_eq, reset_ok]
  simp only [bind, Except.bind, init_invalid, enumerate]
  rw [e1]
  simp only [pure, Except.pure]
  refine ⟨_, rfl, ⟨hg1.meas, hg1.fields, hg1.tags⟩, ?_⟩
  obtain ⟨h1, h4, h5, h7⟩ := h1
  simp only [abs] at h1 h4 h5 h7
  refine ⟨?_, ?_, ?_, ?_, ?_, ?_, ?_⟩
  · simp only [abs, Index.build, h1]
  · simp only [abs, Index.build, sortedBy, item0, List.nil_append]; rfl
  · simp only [abs, Index.build, sortedBy, item0, item1, List.nil_append]; rfl
  · simp only [abs, Index.build, h4]
  · simp only [abs, Index.build, h5]
  · simp only [abs, Index.build]
  · intro kv; simp only [abs, Index.build]; exact h7 kv

theorem idxEq_update {a b : Index} (h : IdxEq a b) (u : AL Nat Nat) : IdxEq (a.update u) (b.update u) := by
  obtain ⟨h1, h2, h3, h4, h5, h6, h7⟩ := h
  refine ⟨h1, h2, ?_, ?_, ?_, h6, ?_⟩
  · simp only [Index.update, h3]
  · simp only [Index.update, h4]
  · simp only [Index.update, h5]
  · intro kv; simp only [Index.update, posting_renumber, h7]

/-! ## what the translated methods maintain -/

theorem gen_build_represents (g : GSelf) (l : List Point) (hwf : ∀ p ∈ l, WFPoint p) :
    ∃ g', IndexImpl.build g l = .ok g' ∧ GWF g' ∧ g'._valid = true ∧ Represents (abs g') l := by
  obtain ⟨g', e, hg', h⟩ := build_ok g l
  exact ⟨g', e, hg', h.valid, represents_of_idxEq h (wfmap_abs_tags g' hg') (Writes.represents_build_w l hwf)⟩

theorem gen_insert_represents (g : GSelf) (l : List Point) (p : Point) (hg : GWF g) (h : Represents (abs g) l)
    (hp : WFPoint p) (hord : ∀ t, g._timestamps.getLast? = some t → t ≤ p.time) :
    ∃ g', IndexImpl.insert g [p] = .ok g' ∧ GWF g' ∧ g'._valid = g._valid ∧ Represents (abs g') (l ++ [p]) := by
  obtain ⟨g', e, hg', h'⟩ := insert_ok g [p] hg h.tsLen
  exact ⟨g', e, hg', h'.valid, represents_of_idxEq h' (wfmap_abs_tags g' hg') (Writes.represents_insert h hp hord)⟩

theorem gen_remove_update_represents (g : GSelf) (l : List Point) (hg : GWF g) (h : Represents (abs g) l)
    (keep : Nat → Bool) (removed : List Nat) (updated : AL Nat Nat)
    (hr : ∀ i, i < l.length → removed.contains i = !keep i)
    (hf : ∀ i, i < l.length → keep i = true → (updated.lookup i).getD i = cnt keep 0 i)
    (hlen : removed.length + (keepIdx keep l 0).length = l.length) :
    ∃ g1 g2, IndexImpl.remove g removed = .ok g1 ∧ IndexImpl.update g1 updated = .ok g2 ∧ GWF g2
      ∧ g2._valid = g._valid ∧ Represents (abs g2) (keepIdx keep l 0) := by
  have hle : removed.length ≤ g._num_items := by
    have := h.num
    simp only [abs] at this
    omega
  obtain ⟨g1, e1, hg1, h1⟩ := remove_ok g removed hg hle
  obtain ⟨g2, e2, hg2, h2⟩ := update_ok g1 updated hg1
  have h3 := idxEq_trans h2 (idxEq_update h1 updated)
  exact ⟨g1, g2, e1, e2, hg2, h3.valid,
    represents_of_idxEq h3 (wfmap_abs_tags g2 hg2) (Writes.represents_remove_update h keep removed updated hr hf hlen)⟩

end TinyFlux.Mirror
