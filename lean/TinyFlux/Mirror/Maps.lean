import TinyFlux.Mirror.Defs
import TinyFlux.Lemmas.PMapLemmas
/-!
# Mirror theorems, part A: `_reset`, `invalidate`, `_insert_measurements`, `_insert_fields`, `_insert_time`

Each theorem says what the *translated* method (Generated/IndexImpl.lean, regenerated from index.py on every
run) returns: it does not raise, it changes exactly one attribute, and the new attribute read through `abs`
is what the Model's operation produces.
-/
namespace TinyFlux.Mirror
open TinyFlux.Model TinyFlux.Spec TinyFlux.Py.Typed
open TinyFlux.Generated

theorem reset_ok (g : GSelf) : IndexImpl._reset g = .ok (IndexImpl.__init__ true) := by
  rfl

theorem invalidate_ok (g : GSelf) : IndexImpl.invalidate g = .ok (IndexImpl.__init__ false) := by
  rfl

theorem abs_init (v : Bool) : abs (IndexImpl.__init__ v) = { valid := v } := by
  rfl

theorem gwf_init (v : Bool) : GWF (IndexImpl.__init__ v) := by
  refine ⟨?_, ?_, ?_, ?_⟩
  · simp [IndexImpl.__init__, keysAL]
  · simp [IndexImpl.__init__, keysAL]
  · simp [IndexImpl.__init__, keysAL]
  · intro kd h; simp [IndexImpl.__init__] at h

/-! ## the `if k not in d: d[k] = [x] else: d[k].append(x)` step -/
section Step
variable {K V : Type} [BEq K]

/-- on a missing key, `alterAL` appends at the end -/
theorem alterAL_of_lookup_none (k : K) (dflt : V) (f : V → V) (d : AL K V)
    (h : lookupAL k d = none) : alterAL k dflt f d = d ++ [(k, f dflt)] := by
  induction d with
  | nil => rfl
  | cons hd t ih =>
    obtain ⟨k', v⟩ := hd
    simp only [lookupAL] at h
    split at h
    · cases h
    · rename_i hk
      simp only [alterAL, hk, List.cons_append]
      rw [ih h]; rfl

/-- `d[k] = v` on a missing key is `alterAL` with any default and function that produce `v` -/
theorem setItem_of_lookup_none (k : K) (v dflt : V) (f : V → V) (d : AL K V)
    (h : lookupAL k d = none) (hv : f dflt = v) : setItem d k v = alterAL k dflt f d := by
  unfold setItem
  rw [alterAL_of_lookup_none k v _ d h, alterAL_of_lookup_none k dflt f d h, hv]

/-- an in-place pure change of `d[k]` on a present key does not raise and is `alterAL` -/
theorem updItem_of_lookup_isSome (k : K) (dflt : V) (f : V → V) (d : AL K V)
    (h : (lookupAL k d).isSome = true) :
    updItem d k (fun v => Except.ok (f v)) = .ok (alterAL k dflt f d) := by
  induction d with
  | nil => simp [lookupAL] at h
  | cons hd t ih =>
    obtain ⟨k', v⟩ := hd
    simp only [lookupAL] at h
    by_cases hk : (k' == k) = true
    · simp [updItem, alterAL, hk, bind, Except.bind, pure, Except.pure]
    · simp only [hk] at h
      simp [updItem, alterAL, hk, ih h, bind, Except.bind, pure, Except.pure]

/-- the whole step, for a dict of lists -/
theorem insert_step {α : Type} (d : AL K (List α)) (k : K) (x : α) :
    (if (!isin k d) = true then (Except.ok (setItem d k [x]) : M (AL K (List α)))
     else updItem d k (fun v => Except.ok (append v x)))
      = .ok (alterAL k [] (fun l => l ++ [x]) d) := by
  cases h : lookupAL k d with
  | none =>
    have : isin k d = false := by simp [isin, h]
    simp only [this, Bool.not_false, ↓reduceIte]
    rw [setItem_of_lookup_none k [x] [] (fun l => l ++ [x]) d h rfl]
  | some v =>
    have hs : (lookupAL k d).isSome = true := by simp [h]
    have : isin k d = true := by simp [isin, h]
    simp only [this, Bool.not_true, Bool.false_eq_true, ↓reduceIte]
    exact updItem_of_lookup_isSome k [] (fun l => l ++ [x]) d hs

end Step

theorem absMeas_alterAL (k : String) (idx : Nat) (d : AL String (List Nat)) :
    absMeas (alterAL k [] (fun l => l ++ [idx]) d)
      = alterAL k [] (fun l => l ++ [(idx, ())]) (absMeas d) := by
  induction d with
  | nil => rfl
  | cons hd t ih =>
    obtain ⟨k', v⟩ := hd
    by_cases hk : (k' == k) = true
    · simp [absMeas, alterAL, hk, unitP]
    · simp only [absMeas] at ih
      simp [absMeas, alterAL, hk, ih]

theorem insert_measurements_ok (g : GSelf) (idx : Nat) (m : String) :
    ∃ X, IndexImpl._insert_measurements g idx m = .ok { g with _measurements := X }
      ∧ absMeas X = (absMeas g._measurements).insert m idx ()
      ∧ ((keysAL g._measurements).Nodup → (keysAL X).Nodup) := by
  refine ⟨alterAL m [] (fun l => l ++ [idx]) g._measurements, ?_, ?_, ?_⟩
  · have hs := insert_step g._measurements m idx
    unfold IndexImpl._insert_measurements
    split at hs
    · rename_i hc
      simp only [Except.ok.injEq] at hs
      simp [hc, hs, pure, Except.pure]
    · rename_i hc
      simp [hc, hs, bind, Except.bind, pure, Except.pure]
  · rw [absMeas_alterAL]; rfl
  · exact nodup_keys_alterAL _ _ _ _

/-- the body of the loop of `_insert_fields` (the translated text, verbatim) -/
def fieldStep (idx : Nat) (self : GSelf) (x : String × Option Num) : M GSelf :=
  match x with
  | (field_key, field_value) => do
    let self ← (if (!isin field_key self._fields) then do
      let self := { self with _fields := (setItem self._fields field_key [(idx, field_value)]) }
      pure self
    else do
      let self := { self with _fields := (← updItem self._fields field_key (fun d0 => pure (append d0 (idx, field_value)))) }
      pure self
    )
    pure self

theorem insert_fields_eq (g : GSelf) (idx : Nat) (fields : AL String (Option Num)) :
    IndexImpl._insert_fields g idx fields
      = (do let self ← List.foldlM (fieldStep idx) g fields; pure self) := rfl

theorem fieldStep_ok (idx : Nat) (g : GSelf) (fk : String) (fv : Option Num) :
    fieldStep idx g (fk, fv) = .ok { g with _fields := PMap.insert g._fields fk idx fv } := by
  have hs := insert_step g._fields fk (idx, fv)
  unfold fieldStep
  split at hs
  · rename_i hc
    simp only [Except.ok.injEq] at hs
    simp [hc, hs, PMap.insert, pure, Except.pure]
  · rename_i hc
    simp [hc, hs, PMap.insert, bind, Except.bind, pure, Except.pure]

/-- the loop of `_insert_fields`, for an arbitrary accumulator -/
theorem insert_fields_loop (idx : Nat) (fields : List (String × Option Num)) (g : GSelf) :
    List.foldlM (fieldStep idx) g fields
      = .ok { g with _fields := fields.foldl (fun acc kv => PMap.insert acc kv.1 idx kv.2) g._fields } := by
  induction fields generalizing g with
  | nil => rfl
  | cons hd t ih =>
    obtain ⟨fk, fv⟩ := hd
    rw [List.foldlM_cons, fieldStep_ok]
    simp only [bind, Except.bind]
    rw [ih]; rfl

theorem nodup_foldl_insert (idx : Nat) (fields : List (String × Option Num))
    (d : PMap String (Option Num)) (h : (keysAL d).Nodup) :
    (keysAL (fields.foldl (fun acc kv => PMap.insert acc kv.1 idx kv.2) d)).Nodup := by
  induction fields generalizing d with
  | nil => exact h
  | cons hd t ih =>
    simp only [List.foldl_cons]
    exact ih _ (nodup_keys_alterAL _ _ _ _ h)

theorem insert_fields_ok (g : GSelf) (idx : Nat) (fields : AL String (Option Num)) :
    ∃ X, IndexImpl._insert_fields g idx fields = .ok { g with _fields := X }
      ∧ X = fields.foldl (fun acc kv => PMap.insert acc kv.1 idx kv.2) g._fields
      ∧ ((keysAL g._fields).Nodup → (keysAL X).Nodup) := by
  refine ⟨_, ?_, rfl, nodup_foldl_insert idx fields g._fields⟩
  rw [insert_fields_eq, insert_fields_loop]

theorem insert_time_ok (g : GSelf) (t : DateTime) :
    IndexImpl._insert_time g t = .ok { g with
      _storage_pos_sorted_by_ts := g._storage_pos_sorted_by_ts ++ [g._timestamps.length],
      _timestamps := g._timestamps ++ [t.us] } := by
  rfl

end TinyFlux.Mirror
