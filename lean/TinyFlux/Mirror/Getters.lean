import TinyFlux.Mirror.Defs
import TinyFlux.Lemmas.PMapLemmas
/-!
# Mirror theorems, part F: the getters of the translated `Index`

`get_measurements`, `get_field_keys`, `get_field_values`, `get_tag_keys`, `get_tag_values`, `get_timestamps` as
translated from index.py return, on a dict-shaped state, exactly what the Model's getters return on the
`abs`-read state. The measurement argument is an `Optional[str]` that the code tests for truthiness: `""` is
read as "no filter" (the recorded finding `empty-measurement-name`), so the theorems carry `m ≠ some ""`.
-/
namespace TinyFlux.Mirror
open TinyFlux.Model TinyFlux.Spec TinyFlux.Py.Typed
open TinyFlux.Generated

/-! ## helper lemmas -/
namespace Getters

section Sets
variable {α : Type} [BEq α] [LawfulBEq α]

theorem mem_dedup (a : α) (l : List α) : a ∈ dedup l ↔ a ∈ l := by
  induction l with
  | nil => simp [dedup]
  | cons h t ih =>
    simp only [dedup]
    split
    · rename_i hc
      have hm : h ∈ t := by simpa using hc
      simp only [ih, List.mem_cons]
      constructor
      · exact Or.inr
      · rintro (e | e)
        · subst e; exact hm
        · exact e
    · simp [ih]

theorem dedup_of_nodup (l : List α) (h : l.Nodup) : dedup l = l := by
  induction l with
  | nil => rfl
  | cons a t ih =>
    rw [List.nodup_cons] at h
    simp [dedup, ih h.2, h.1]

theorem contains_dedup (a : α) (l : List α) : (dedup l).contains a = l.contains a := by
  rw [Bool.eq_iff_iff]; simp [mem_dedup]

/-- the truthiness of `measurement_items.intersection(set(b))` -/
theorem truthy_inter (v b : List Nat) :
    truthy (setInter (mkSet v) (mkSet b)) = Index.meets v b := by
  rw [Bool.eq_iff_iff]
  simp only [truthy, setInter, mkSet, Index.meets, Bool.not_eq_true', List.isEmpty_eq_false_iff,
    ne_eq, List.filter_eq_nil_iff, List.any_eq_true, List.contains_iff_mem, mem_dedup]
  constructor
  · intro h
    apply Classical.byContradiction
    intro hn
    apply h
    intro a ha hb
    exact hn ⟨a, hb, ha⟩
  · rintro ⟨a, hb, ha⟩ h
    exact h a ha hb

end Sets

/-! ### reading `_measurements` -/

theorem map_fst_unitP (l : List Nat) : (unitP l).map (·.1) = l := by
  induction l with
  | nil => rfl
  | cons a t ih => simp only [unitP, List.map_cons, List.map_map] at ih ⊢; rw [ih]

theorem keys_absMeas (d : AL String (List Nat)) : keysAL (absMeas d) = keysAL d := by
  simp [keysAL, absMeas]

theorem lookup_absMeas (m : String) (d : AL String (List Nat)) :
    lookupAL m (absMeas d) = (lookupAL m d).map unitP := by
  induction d with
  | nil => rfl
  | cons h t ih =>
    obtain ⟨k, v⟩ := h
    simp only [absMeas, List.map_cons, lookupAL] at ih ⊢
    split
    · rfl
    · exact ih

theorem hasMeas_abs (g : GSelf) (m : String) :
    (abs g).hasMeas m = (lookupAL m g._measurements).isSome := by
  simp [Index.hasMeas, abs, lookup_absMeas]

theorem measItems_abs (g : GSelf) (m : String) :
    (abs g).measItems m = (lookupAL m g._measurements).getD [] := by
  simp only [Index.measItems, PMap.posting, abs, lookup_absMeas]
  cases lookupAL m g._measurements with
  | none => rfl
  | some v => simp [map_fst_unitP]

theorem truthy_some (s : String) (h : (some s : Option String) ≠ some "") :
    truthy (some s : Option String) = true := by
  have : s ≠ "" := fun e => h (by rw [e])
  simp [truthy, this]

theorem truthy_none : truthy (none : Option String) = false := rfl

theorem filterMapM_ok {α β : Type} (f : α → M (Option β)) (g : α → Option β) (l : List α)
    (h : ∀ a ∈ l, f a = .ok (g a)) : l.filterMapM f = .ok (l.filterMap g) := by
  induction l with
  | nil => rfl
  | cons a t ih =>
    rw [List.filterMapM_cons, h a List.mem_cons_self, ih (fun a ha => h a (List.mem_cons_of_mem _ ha))]
    simp only [List.filterMap_cons]
    cases g a <;> rfl

theorem filterMap_ite {α : Type} (p : α → Prop) [DecidablePred p] (l : List α) :
    l.filterMap (fun a => if p a then some a else none) = l.filter (fun a => decide (p a)) := by
  induction l with
  | nil => rfl
  | cons a t ih =>
    simp only [List.filterMap_cons, List.filter_cons]
    by_cases h : p a <;> simp [h, ih]

theorem ite_pure {β : Type} (c : Prop) [Decidable c] (a b : β) :
    (if c then (pure a : M β) else pure b) = pure (if c then a else b) := by
  split <;> rfl

/-- a loop that `add`s the key of every entry that passes a test, over a dict -/
theorem foldl_setAdd_filter {V : Type} (P : String × V → Bool) (t : AL String V) (acc : List String)
    (h : (acc ++ keysAL t).Nodup) :
    t.foldl (fun acc kd => if P kd = true then setAdd acc kd.1 else acc) acc
      = acc ++ (t.filter P).map (·.1) := by
  induction t generalizing acc with
  | nil => simp
  | cons kd t ih =>
    simp only [List.foldl_cons, List.filter_cons]
    have hn : kd.1 ∉ acc := by
      intro hmem
      rw [List.nodup_append] at h
      exact h.2.2 _ hmem _ (by simp [keysAL]) rfl
    by_cases hp : P kd = true
    · simp only [hp, ↓reduceIte, List.map_cons]
      have hs : setAdd acc kd.1 = acc ++ [kd.1] := by simp [setAdd, hn]
      rw [hs, ih]
      · simp
      · simpa [keysAL] using h
    · simp only [hp]
      apply ih
      rw [List.nodup_append] at h ⊢
      refine ⟨h.1, ?_, ?_⟩
      · have := h.2.1; simp only [keysAL, List.map_cons, List.nodup_cons] at this; exact this.2
      · intro a ha b hb; exact h.2.2 a ha b (by simp only [keysAL, List.map_cons]; exact List.mem_cons_of_mem _ hb)

theorem filter_nil_of_not_meets {P : Type} (v : List Nat) (l : List (Nat × P))
    (h : ¬ Index.meets v (l.map (·.1)) = true) : l.filter (fun ip => v.contains ip.1) = [] := by
  rw [List.filter_eq_nil_iff]
  intro a ha hc
  apply h
  simp only [Index.meets, List.any_eq_true]
  exact ⟨a.1, List.mem_map.mpr ⟨a, ha, rfl⟩, hc⟩

/-- the loop of `get_field_values` over a dict: only the entry under `k` contributes -/
theorem foldl_field_values {P : Type} (k : String) (v : List Nat) (t : AL String (List (Nat × P)))
    (hn : (keysAL t).Nodup) (acc : List P) :
    t.foldl (fun x1 x2 =>
        if (x2.fst != k) = true then x1
        else if Index.meets v (List.map (fun i => i.fst) x2.snd) = true then
          extend x1 (List.map (fun i => i.snd) (List.filter (fun i => v.contains i.fst) x2.snd))
        else x1) acc
      = acc ++ ((PMap.posting t k).filter (fun ip => v.contains ip.1)).map (·.2) := by
  induction t generalizing acc with
  | nil => simp [PMap.posting, lookupAL]
  | cons kd t ih =>
    obtain ⟨k', its⟩ := kd
    simp only [keysAL, List.map_cons, List.nodup_cons] at hn
    simp only [List.foldl_cons]
    by_cases hk : k' = k
    · subst hk
      have hnone : lookupAL k' t = none := lookup_none_of_not_mem k' t hn.1
      simp only [bne_self_eq_false, Bool.false_eq_true, ↓reduceIte]
      rw [ih hn.2]
      simp only [PMap.posting, lookupAL, beq_self_eq_true, ↓reduceIte, hnone, Option.getD_some,
        Option.getD_none, List.filter_nil, List.map_nil, List.append_nil]
      split
      · rfl
      · rename_i hm
        rw [filter_nil_of_not_meets v its hm]; simp
    · have h1 : (k' != k) = true := by simpa using hk
      have h2 : (k' == k) = false := by simpa using hk
      simp only [h1, ↓reduceIte]
      rw [ih hn.2]
      simp [PMap.posting, lookupAL, h2]

/-! ### the two-level `_tags` dict and its flattening -/

theorem setAdd_idem (s : List String) (k : String) : setAdd (setAdd s k) k = setAdd s k := by
  by_cases h : k ∈ s <;> simp [setAdd, h]

/-- the inner loop of `get_tag_keys`: the key is added once if some posting list passes the test -/
theorem foldl_inner_setAdd {β : Type} (Q : β → Bool) (k : String) (l : List β) (acc : List String) :
    l.foldl (fun acc b => if Q b = true then setAdd acc k else acc) acc
      = if l.any Q = true then setAdd acc k else acc := by
  induction l generalizing acc with
  | nil => simp
  | cons b l ih =>
    simp only [List.foldl_cons, List.any_cons, Bool.or_eq_true]
    rw [ih]
    by_cases hb : Q b = true
    · simp [hb, setAdd_idem]
    · simp [hb]

theorem dedup_const_append (a : String) {β : Type} (l : List β) (B : List String) (h : a ∉ B) :
    dedup (l.map (fun _ => a) ++ B) = if l.isEmpty then dedup B else a :: dedup B := by
  induction l with
  | nil => simp
  | cons x l ih =>
    simp only [List.map_cons, List.cons_append, dedup, List.isEmpty_cons, Bool.false_eq_true, ↓reduceIte]
    cases l with
    | nil => simp [h]
    | cons y l => simpa using ih

theorem mem_flat_keys (t : AL String (AL (Option String) (List Nat)))
    (kv : (String × Option String) × List (Nat × Unit)) (h : kv ∈ flatTags t) : kv.1.1 ∈ keysAL t := by
  simp only [flatTags, List.mem_flatMap, List.mem_map] at h
  obtain ⟨kd, hkd, vl, _, e⟩ := h
  subst e
  exact List.mem_map.mpr ⟨kd, hkd, rfl⟩

theorem flatTags_cons (kd : String × AL (Option String) (List Nat)) (t : AL String (AL (Option String) (List Nat))) :
    flatTags (kd :: t) = kd.2.map (fun vl => ((kd.1, vl.1), unitP vl.2)) ++ flatTags t := by
  simp [flatTags]

/-- the distinct first components of the flattened entries that pass a test on their posting list, in the
    Model's order, are the keys of the two-level dict that have such an entry -/
theorem flat_keys (Q : List Nat → Bool) (t : AL String (AL (Option String) (List Nat)))
    (hn : (keysAL t).Nodup) :
    dedup (((flatTags t).filter (fun kv => Q (kv.2.map (·.1)))).map (·.1.1))
      = (t.filter (fun kd => (values kd.2).any Q)).map (·.1) := by
  induction t with
  | nil => rfl
  | cons kd t ih =>
    simp only [keysAL, List.map_cons, List.nodup_cons] at hn
    rw [flatTags_cons, List.filter_append, List.map_append]
    have h1 : ((kd.2.map (fun vl => ((kd.1, vl.1), unitP vl.2))).filter
        (fun kv => Q (kv.2.map (·.1)))).map (·.1.1)
        = (kd.2.filter (fun vl => Q vl.2)).map (fun _ => kd.1) := by
      rw [List.filter_map, List.map_map]
      simp only [Function.comp_def, map_fst_unitP]
    have h2 : kd.1 ∉ ((flatTags t).filter (fun kv => Q (kv.2.map (·.1)))).map (·.1.1) := by
      intro hmem
      obtain ⟨kv, hkv, e⟩ := List.mem_map.mp hmem
      have := mem_flat_keys t kv (List.mem_filter.mp hkv).1
      rw [e] at this
      exact hn.1 this
    rw [h1, dedup_const_append _ _ _ h2, ih hn.2, List.filter_cons]
    have h3 : (kd.2.filter (fun vl => Q vl.2)).isEmpty = !(values kd.2).any Q := by
      rw [Bool.eq_iff_iff]
      simp [values, List.filter_eq_nil_iff]
    rw [h3]
    cases (values kd.2).any Q <;> simp

/-! ### `get_tag_values`: the dict of value sets -/

section Dict
variable {K V : Type} [BEq K]

theorem updItem_present (k : K) (dflt : V) (f : V → V) (d : AL K V) (h : (lookupAL k d).isSome = true) :
    updItem d k (fun x => pure (f x)) = .ok (alterAL k dflt f d) := by
  induction d with
  | nil => simp [lookupAL] at h
  | cons hd t ih =>
    obtain ⟨k', v⟩ := hd
    by_cases hk : (k' == k) = true
    · simp only [updItem, alterAL, hk, ↓reduceIte]; rfl
    · simp only [lookupAL, hk, Bool.false_eq_true, ↓reduceIte] at h
      simp only [updItem, alterAL, hk, Bool.false_eq_true, ↓reduceIte, ih h]; rfl

theorem alterAL_absent (k : K) (dflt : V) (f : V → V) (d : AL K V) (h : lookupAL k d = none) :
    alterAL k dflt f d = d ++ [(k, f dflt)] := by
  induction d with
  | nil => rfl
  | cons hd t ih =>
    obtain ⟨k', v⟩ := hd
    by_cases hk : (k' == k) = true
    · simp [lookupAL, hk] at h
    · simp only [lookupAL, hk, Bool.false_eq_true, ↓reduceIte] at h
      simp only [alterAL, hk, Bool.false_eq_true, ↓reduceIte, ih h, List.cons_append]

theorem alterAL_append_self [LawfulBEq K] (k : K) (dflt x : V) (f : V → V) (d : AL K V)
    (h : lookupAL k d = none) : alterAL k dflt f (d ++ [(k, x)]) = d ++ [(k, f x)] := by
  induction d with
  | nil => simp [alterAL]
  | cons hd t ih =>
    obtain ⟨k', v⟩ := hd
    by_cases hk : (k' == k) = true
    · simp [lookupAL, hk] at h
    · simp only [lookupAL, hk, Bool.false_eq_true, ↓reduceIte] at h
      simp only [List.cons_append, alterAL, hk, Bool.false_eq_true, ↓reduceIte, ih h]

theorem foldlM_congr {α β : Type} (f f' : β → α → M β) (l : List α)
    (h : ∀ b, ∀ a ∈ l, f b a = f' b a) (b : β) : l.foldlM f b = l.foldlM f' b := by
  induction l generalizing b with
  | nil => rfl
  | cons a t ih =>
    rw [List.foldlM_cons, List.foldlM_cons, h b a List.mem_cons_self]
    congr 1
    funext b'
    exact ih (fun b a ha => h b a (List.mem_cons_of_mem _ ha)) b'

theorem foldl_inv_congr {α β : Type} (I : β → Prop) (f f' : β → α → β) (l : List α)
    (hpres : ∀ b a, I b → I (f b a)) (heq : ∀ b a, I b → f b a = f' b a) (b : β) (hb : I b) :
    l.foldl f b = l.foldl f' b := by
  induction l generalizing b with
  | nil => rfl
  | cons a t ih =>
    rw [List.foldl_cons, List.foldl_cons, ← heq b a hb]
    exact ih _ (hpres b a hb)

end Dict

abbrev TV := AL String (List (Option String))

/-- the Model's `add` -/
def addV (acc : TV) (k : String) (v : Option String) : TV :=
  alterAL k [] (fun vs => if vs.contains v then vs else vs ++ [v]) acc

/-- `if k in rst and c: rst[k].add(v)` -/
def addG (rst : TV) (k : String) (v : Option String) (c : Bool) : TV :=
  if (lookupAL k rst).isSome && c then addV rst k v else rst

theorem upd_setAdd (rst : TV) (k : String) (v : Option String) (h : (lookupAL k rst).isSome = true) :
    updItem rst k (fun d0 => pure (setAdd d0 v)) = .ok (addV rst k v) :=
  updItem_present k [] (fun d0 => setAdd d0 v) rst h

theorem isSome_addV (rst : TV) (k k' : String) (v : Option String) (h : (lookupAL k rst).isSome = true) :
    (lookupAL k' (addV rst k v)).isSome = (lookupAL k' rst).isSome := by
  by_cases hk : k' = k
  · subst hk; simp [addV, lookup_alter_self, h]
  · simp [addV, lookup_alter_other _ _ hk]

theorem isSome_addG (rst : TV) (k k' : String) (v : Option String) (c : Bool) :
    (lookupAL k' (addG rst k v c)).isSome = (lookupAL k' rst).isSome := by
  unfold addG
  split
  · rename_i h
    simp only [Bool.and_eq_true] at h
    exact isSome_addV rst k k' v h.1
  · rfl

/-- the innermost loop of the cases without a measurement: `rst[k].add(v)` for every `v` -/
theorem updLoop_ok (k : String) (l : List (Option String)) (rst : TV) (h : (lookupAL k rst).isSome = true) :
    l.foldlM (fun rst tv => updItem rst k (fun d0 => pure (setAdd d0 tv))) rst
      = .ok (l.foldl (fun rst tv => addG rst k tv true) rst) := by
  induction l generalizing rst with
  | nil => rfl
  | cons a t ih =>
    have e : addG rst k a true = addV rst k a := by simp [addG, h]
    rw [List.foldlM_cons, upd_setAdd rst k a h, List.foldl_cons, e]
    exact ih (addV rst k a) (by rw [isSome_addV rst k k a h]; exact h)

theorem foldl_addG_absent {β : Type} (k : String) (fv : β → Option String) (fc : β → Bool) (l : List β)
    (rst : TV) (h : (lookupAL k rst).isSome = false) :
    l.foldl (fun rst b => addG rst k (fv b) (fc b)) rst = rst := by
  induction l with
  | nil => rfl
  | cons a t ih => rw [List.foldl_cons]; simp only [addG, h, Bool.false_and, Bool.false_eq_true, ↓reduceIte]; exact ih

theorem foldl_addG_present {β : Type} (k : String) (fv : β → Option String) (l : List β)
    (rst : TV) (h : (lookupAL k rst).isSome = true) :
    l.foldl (fun rst b => addG rst k (fv b) true) rst = l.foldl (fun rst b => addV rst k (fv b)) rst := by
  induction l generalizing rst with
  | nil => rfl
  | cons a t ih =>
    have e : addG rst k (fv a) true = addV rst k (fv a) := by simp [addG, h]
    rw [List.foldl_cons, List.foldl_cons, e]
    exact ih _ (by rw [isSome_addV rst k k _ h]; exact h)

/-- a fold over the flattened dict is the nested fold over the two levels -/
theorem foldl_flatTags {β : Type} (f : β → String → Option String → List Nat → β)
    (t : AL String (AL (Option String) (List Nat))) (b : β) :
    (flatTags t).foldl (fun acc kv => f acc kv.1.1 kv.1.2 (kv.2.map (·.1))) b
      = t.foldl (fun acc kd => kd.2.foldl (fun acc vl => f acc kd.1 vl.1 vl.2) acc) b := by
  simp only [flatTags, List.foldl_flatMap, List.foldl_map, map_fst_unitP]

theorem getItem_optkey {V : Type} (d : AL String V) (s : String) (v : V) (h : lookupAL s d = some v) :
    getItem d (some s) = (pure v : M V) := by
  simp [getItem, h]

theorem getItem_key {V : Type} (d : AL String V) (hn : (keysAL d).Nodup) (kv : String × V) (h : kv ∈ d) :
    getItem d kv.1 = (pure kv.2 : M V) := by
  have := lookup_of_mem d hn kv.1 kv.2 h
  simp [getItem, this]

theorem step2 (rst : TV) (k : String) (v : Option String) :
    (if (!(lookupAL k rst).isSome) = true then pure (setItem rst k (mkSet [v]))
      else updItem rst k fun d0 => pure (setAdd d0 v)) = (pure (addV rst k v) : M TV) := by
  cases h : lookupAL k rst with
  | none =>
    simp only [Option.isSome_none, Bool.not_false, ↓reduceIte, setItem, addV, alterAL_absent _ _ _ _ h]
    simp [mkSet, dedup]
  | some x =>
    have h' : (lookupAL k rst).isSome = true := by rw [h]; rfl
    simp only [Option.isSome_some, Bool.not_true, Bool.false_eq_true, ↓reduceIte]
    rw [upd_setAdd rst k v h']; rfl

/-- `self._tags[tag_key]` inside a loop over `self._tags.items()` is the value of the pair -/
theorem foldlM_tags_getItem {β V : Type} (t : AL String V) (hn : (keysAL t).Nodup)
    (F : β → String → V → β) (b : β) :
    t.foldlM (fun rst x => do let d ← getItem t x.fst; pure (F rst x.fst d)) b
      = .ok (t.foldl (fun rst x => F rst x.1 x.2) b) := by
  rw [foldlM_congr _ (fun rst x => pure (F rst x.1 x.2)), List.foldlM_pure]
  · rfl
  · intro b a ha
    rw [getItem_key t hn a ha]; rfl

theorem step4 (rst : TV) (k : String) (v : Option String) (c : Bool) :
    (if ((lookupAL k rst).isSome && c) = true then updItem rst k fun d0 => pure (setAdd d0 v)
      else pure rst) = (pure (addG rst k v c) : M TV) := by
  unfold addG
  split
  · rename_i h
    simp only [Bool.and_eq_true] at h
    rw [upd_setAdd rst k v h.1]; rfl
  · rfl

/-- `{k: set() for k in tag_keys}` on distinct keys -/
theorem foldl_setItem_nodup {V : Type} (x : V) (l : List String) (acc : AL String V) (hl : l.Nodup)
    (hd : ∀ i ∈ l, i ∉ keysAL acc) :
    (l.map (fun i => (i, x))).foldl (fun d kv => setItem d kv.1 kv.2) acc = acc ++ l.map (fun i => (i, x)) := by
  induction l generalizing acc with
  | nil => simp
  | cons i l ih =>
    rw [List.nodup_cons] at hl
    have h0 : lookupAL i acc = none := lookup_none_of_not_mem i acc (hd i List.mem_cons_self)
    simp only [List.map_cons, List.foldl_cons, setItem, alterAL_absent _ _ _ _ h0]
    have := ih (acc ++ [(i, x)]) hl.2 (by
      intro j hj hmem
      simp only [keysAL, List.map_append, List.map_cons, List.map_nil, List.mem_append, List.mem_singleton] at hmem
      rcases hmem with hmem | hmem
      · exact hd j (List.mem_cons_of_mem _ hj) hmem
      · subst hmem; exact hl.1 hj)
    simp only [setItem] at this
    rw [this]; simp

theorem dictOf_nodup {V : Type} (x : V) (l : List String) (hl : l.Nodup) :
    dictOf (l.map (fun i => (i, x))) = l.map (fun i => (i, x)) := by
  unfold dictOf
  rw [foldl_setItem_nodup x l [] hl (by simp [keysAL])]; rfl

theorem isSome_lookup_map {V : Type} (x : V) (l : List String) (k : String) :
    (lookupAL k (l.map (fun i => (i, x)))).isSome = l.contains k := by
  induction l with
  | nil => rfl
  | cons i l ih =>
    simp only [List.map_cons, lookupAL, List.contains_cons]
    by_cases h : i = k
    · subst h; simp
    · have h1 : (i == k) = false := by simpa using h
      have h2 : (k == i) = false := by simpa using (fun e : k = i => h e.symm)
      simp only [h1, h2, Bool.false_eq_true, ↓reduceIte, Bool.false_or]
      exact ih

/-- on a dict whose keys are `keys`, the code's `tag_key in rst` is the Model's `keys.contains tag_key` -/
theorem foldl_addG_keys {α : Type} (keys : List String) (fk : α → String) (fv : α → Option String)
    (fc : α → Bool) (l : List α) (init : TV) (hinit : ∀ k, (lookupAL k init).isSome = keys.contains k) :
    l.foldl (fun rst a => addG rst (fk a) (fv a) (fc a)) init
      = l.foldl (fun rst a => if (keys.contains (fk a) && fc a) = true then addV rst (fk a) (fv a) else rst) init := by
  apply foldl_inv_congr (fun rst => ∀ k, (lookupAL k rst).isSome = keys.contains k)
  · intro b a hb k
    rw [isSome_addG]; exact hb k
  · intro b a hb
    simp only [addG, hb]
  · exact hinit

theorem step3 (rst : TV) (k : String) (l : List (Option String)) :
    (if (lookupAL k rst).isSome = true then
        List.foldlM (fun rst tv => updItem rst k fun d0 => pure (setAdd d0 tv)) rst l
      else pure rst) = (pure (l.foldl (fun rst tv => addG rst k tv true) rst) : M TV) := by
  split
  · rename_i h
    rw [updLoop_ok k l rst h]; rfl
  · rename_i h
    rw [foldl_addG_absent k (fun tv => tv) (fun _ => true) l rst (by simpa using h)]

theorem step1 (rst : TV) (k : String) (l : List (Option String)) :
    List.foldlM (fun rst tv => updItem rst k fun d0 => pure (setAdd d0 tv)) (setItem rst k []) l
      = (pure (l.foldl (fun rst tv => addV rst k tv) (setItem rst k [])) : M TV) := by
  have h : (lookupAL k (setItem rst k [])).isSome = true := by
    simp [setItem, lookup_alter_self]
  rw [updLoop_ok k l _ h, foldl_addG_present k (fun tv => tv) l _ h]; rfl

theorem lookup_foldl_addV_other {β : Type} (k k' : String) (hne : k' ≠ k) (fv : β → Option String)
    (l : List β) (acc : TV) :
    lookupAL k' (l.foldl (fun acc b => addV acc k (fv b)) acc) = lookupAL k' acc := by
  induction l generalizing acc with
  | nil => rfl
  | cons a t ih =>
    rw [List.foldl_cons, ih]
    exact lookup_alter_other k k' hne _ _ acc

/-- first case of `get_tag_values`: resetting `rst[tag_key]` first changes nothing on a dict-shaped `_tags`
    without empty inner dicts -/
theorem case1_loop (rest : AL String (AL (Option String) (List Nat))) (acc : TV)
    (hn : (keysAL rest).Nodup) (hne : ∀ kd ∈ rest, kd.2 ≠ [])
    (hacc : ∀ kd ∈ rest, lookupAL kd.1 acc = none) :
    rest.foldl (fun rst x => x.2.foldl (fun rst vl => addV rst x.1 vl.1) (setItem rst x.1 [])) acc
      = rest.foldl (fun acc kd => kd.2.foldl (fun acc vl => addV acc kd.1 vl.1) acc) acc := by
  induction rest generalizing acc with
  | nil => rfl
  | cons kd rest ih =>
    obtain ⟨k, d⟩ := kd
    simp only [keysAL, List.map_cons, List.nodup_cons] at hn
    have h0 : lookupAL k acc = none := hacc (k, d) List.mem_cons_self
    have hd : d ≠ [] := hne (k, d) List.mem_cons_self
    have e : d.foldl (fun rst vl => addV rst k vl.1) (setItem acc k [])
        = d.foldl (fun rst vl => addV rst k vl.1) acc := by
      cases d with
      | nil => exact absurd rfl hd
      | cons vl l =>
        simp only [List.foldl_cons]
        congr 1
        simp only [addV, setItem, alterAL_absent _ _ _ _ h0, alterAL_append_self _ _ _ _ _ h0]
    simp only [List.foldl_cons]
    rw [e]
    apply ih _ hn.2 (fun kd h => hne kd (List.mem_cons_of_mem _ h))
    intro kd' hkd'
    have hne' : kd'.1 ≠ k := by
      intro e'; apply hn.1; rw [← e']; exact List.mem_map.mpr ⟨kd', hkd', rfl⟩
    rw [lookup_foldl_addV_other k kd'.1 hne']
    exact hacc kd' (List.mem_cons_of_mem _ hkd')

end Getters
open Getters

theorem get_measurements_ok (g : GSelf) (hg : GWF g) :
    IndexImpl.get_measurements g = .ok (abs g).getMeasurements := by
  simp only [IndexImpl.get_measurements, mkSet, keys, Index.getMeasurements, abs, keys_absMeas,
    dedup_of_nodup _ hg.meas]
  rfl

theorem get_timestamps_ok (g : GSelf) (hg : GWF g) (m : Option String) (hm : m ≠ some "") :
    IndexImpl.get_timestamps g m = .ok ((abs g).getTimestamps m) := by
  cases m with
  | none =>
    have _ := hg
    simp [IndexImpl.get_timestamps, Index.getTimestamps, truthy, sortedBy, item0, item1, abs]
    rfl
  | some s =>
    have ht := truthy_some s hm
    simp only [IndexImpl.get_timestamps, ht, Index.getTimestamps, hasMeas_abs, measItems_abs, isin]
    cases hl : lookupAL s g._measurements with
    | none => simp; rfl
    | some v =>
      simp only [getItem, hl]
      rw [filterMapM_ok _ (fun tp => if v.contains tp.2 then some tp else none)]
      · simp [sortedBy, item0, item1, abs, bind, Except.bind, pure, Except.pure]
        rw [filterMap_ite]
        congr
      · intro a _
        simp only [mkSet, contains_dedup, bind, Except.bind, pure, Except.pure]
        split <;> rfl

theorem get_field_keys_ok (g : GSelf) (hg : GWF g) (m : Option String) (hm : m ≠ some "") :
    IndexImpl.get_field_keys g m = .ok ((abs g).getFieldKeys m) := by
  cases m with
  | none =>
    simp only [IndexImpl.get_field_keys, truthy, Index.getFieldKeys, mkSet, keys, abs,
      dedup_of_nodup _ hg.fields]
    rfl
  | some s =>
    have ht := truthy_some s hm
    simp only [IndexImpl.get_field_keys, ht, Index.getFieldKeys, hasMeas_abs, measItems_abs, isin]
    cases hl : lookupAL s g._measurements with
    | none => simp; rfl
    | some v =>
      simp only [getItem, hl, Bool.not_true, Bool.false_eq_true, ↓reduceIte, Option.isSome_some,
        Option.getD_some, pure_bind, truthy_inter, items, item0, ite_pure, List.foldlM_pure, abs]
      rw [foldl_setAdd_filter _ _ _ (by simpa using hg.fields)]
      rfl

theorem get_field_values_ok (g : GSelf) (hg : GWF g) (k : String) (m : Option String) (hm : m ≠ some "") :
    IndexImpl.get_field_values g k m = .ok ((abs g).getFieldValues k m) := by
  cases m with
  | none =>
    simp only [IndexImpl.get_field_values, truthy, Index.getFieldValues, abs, isin, getItem, PMap.posting]
    cases hl : lookupAL k g._fields with
    | none => simp; rfl
    | some v => simp [item1]; rfl
  | some s =>
    have ht := truthy_some s hm
    simp only [IndexImpl.get_field_values, ht, Index.getFieldValues, hasMeas_abs, measItems_abs, isin]
    cases hl : lookupAL s g._measurements with
    | none => simp; rfl
    | some v =>
      simp only [getItem, hl, Bool.not_true, Bool.false_eq_true, ↓reduceIte, Option.isSome_some,
        Option.getD_some, pure_bind, truthy_inter, items, item0, item1, ite_pure, List.foldlM_pure, abs]
      simp only [mkSet, contains_dedup]
      rw [foldl_field_values k v _ hg.fields]
      rfl

/-! ### the two getters over `_tags`

CORRECTED STATEMENTS. `get_tag_keys_ok` and `get_tag_values_ok` carry one hypothesis more than first stated:
`hne : ∀ kd ∈ g._tags, kd.2 ≠ []` (no tag key with an empty inner dict). `GWF`/`TagsWF` only exclude empty
posting lists; an empty inner dict disappears in `flatTags`, while the code still reports its key. Counterexample
to the statements without `hne` (`GWF` holds): `_tags := [("a", [])]`, everything else empty:
`IndexImpl.get_tag_keys g none = .ok ["a"]` but `(abs g).getTagKeys none = []`, and
`IndexImpl.get_tag_values g [] none = .ok [("a", [])]` but `(abs g).getTagValues [] none = []`.
The code itself never leaves an empty inner dict (`_insert_tags` fills the dict it creates in the same iteration,
`_remove_tags` creates an inner dict only together with a non-empty posting list). -/

theorem get_tag_keys_ok (g : GSelf) (hg : GWF g) (hne : ∀ kd ∈ g._tags, kd.2 ≠ [])
    (m : Option String) (hm : m ≠ some "") :
    IndexImpl.get_tag_keys g m = .ok ((abs g).getTagKeys m) := by
  cases m with
  | none =>
    simp only [IndexImpl.get_tag_keys, truthy_none, Bool.not_false, ↓reduceIte]
    simp only [Index.getTagKeys, mkSet, keys, abs, dedup_of_nodup _ hg.tags.1]
    have h := flat_keys (fun _ => true) g._tags hg.tags.1
    have h2 : g._tags.filter (fun kd => (values kd.snd).any fun _ => true) = g._tags := by
      rw [List.filter_eq_self]
      intro kd hkd
      have := hne kd hkd
      cases hv : kd.2 with
      | nil => exact absurd hv this
      | cons a l => simp [values]
    have h3 : (flatTags g._tags).filter (fun _ => true) = flatTags g._tags := by
      rw [List.filter_eq_self]; intros; rfl
    rw [h2, h3] at h
    rw [h]
    rfl
  | some s =>
    have ht := truthy_some s hm
    simp only [IndexImpl.get_tag_keys, ht, Index.getTagKeys, hasMeas_abs, measItems_abs, isin]
    cases hl : lookupAL s g._measurements with
    | none => simp; rfl
    | some v =>
      simp only [getItem, hl, Bool.not_true, Bool.false_eq_true, ↓reduceIte, Option.isSome_some,
        Option.getD_some, pure_bind, truthy_inter, items, ite_pure, List.foldlM_pure, abs]
      simp only [foldl_inner_setAdd]
      rw [foldl_setAdd_filter (fun kd => (values kd.2).any (Index.meets v)) _ _ (by simpa using hg.tags.1),
        flat_keys (Index.meets v) _ hg.tags.1]
      rfl

theorem get_tag_values_ok (g : GSelf) (hg : GWF g) (hne : ∀ kd ∈ g._tags, kd.2 ≠ [])
    (keys : List String) (hk : keys.Nodup)
    (m : Option String) (hm : m ≠ some "") :
    IndexImpl.get_tag_values g keys m = .ok ((abs g).getTagValues keys m) := by
  cases m with
  | none =>
    cases keys with
    | nil =>
      have hk0 : truthy ([] : List String) = false := rfl
      simp only [IndexImpl.get_tag_values, truthy_none, hk0, Bool.not_false, Bool.and_self, ↓reduceIte]
      simp only [Index.getTagValues, List.isEmpty_nil, abs]
      simp only [items, TinyFlux.Py.Typed.keys, step1, List.foldlM_pure, keysAL, List.foldl_map]
      congr 1
      refine Eq.trans ?_ (foldl_flatTags (fun acc k tv _ => addV acc k tv) _ _).symm
      exact case1_loop g._tags [] hg.tags.1 hne (fun _ _ => rfl)
    | cons k0 ks =>
      have hk0 : truthy (k0 :: ks) = true := rfl
      simp only [IndexImpl.get_tag_values, truthy_none, hk0, Bool.not_false, Bool.not_true, Bool.and_false,
        Bool.false_eq_true, Bool.and_self, ↓reduceIte]
      simp only [Index.getTagValues, List.isEmpty_cons, abs]
      generalize k0 :: ks = kl at hk
      simp only [isin, items, TinyFlux.Py.Typed.keys, step3, List.foldlM_pure, dictOf_nodup _ _ hk,
        dedup_of_nodup _ hk, keysAL, List.foldl_map]
      congr 1
      refine Eq.trans (foldl_flatTags (fun acc k tv _ => addG acc k tv true) _ _).symm ?_
      refine Eq.trans (foldl_addG_keys kl (fun kv : (String × Option String) × List (Nat × Unit) => kv.1.1)
          (fun kv => kv.1.2) (fun _ => true) _ _ (isSome_lookup_map _ kl)) ?_
      simp only [Bool.and_true]
      rfl
  | some s =>
    have ht := truthy_some s hm
    cases keys with
    | nil =>
      have hk0 : truthy ([] : List String) = false := rfl
      simp only [IndexImpl.get_tag_values, ht, hk0, Bool.not_false, Bool.not_true,
        Bool.false_eq_true, Bool.and_true, Bool.and_self, ↓reduceIte]
      simp only [Index.getTagValues, List.isEmpty_nil, hasMeas_abs, measItems_abs, isin]
      cases hl : lookupAL s g._measurements with
      | none => simp; rfl
      | some v =>
        simp only [getItem_optkey _ _ _ hl, Option.isSome_some, ↓reduceIte, pure_bind, Bool.not_true,
          Bool.false_eq_true, Option.getD_some, truthy_inter, items, abs, step2, ite_pure, List.foldlM_pure]
        rw [foldlM_tags_getItem _ hg.tags.1 (fun rst k d => List.foldl (fun x1 x2 =>
          if Index.meets v x2.snd = true then addV x1 k x2.fst else x1) rst d)]
        congr 1
        exact (foldl_flatTags (fun acc k tv its => if Index.meets v its = true then addV acc k tv else acc) _ _).symm
    | cons k0 ks =>
      have hk0 : truthy (k0 :: ks) = true := rfl
      simp only [IndexImpl.get_tag_values, ht, hk0, Bool.not_true, Bool.and_false,
        Bool.false_eq_true, Bool.and_true, Bool.and_self, ↓reduceIte]
      simp only [Index.getTagValues, List.isEmpty_cons, hasMeas_abs, measItems_abs, isin]
      cases hl : lookupAL s g._measurements with
      | none =>
        simp only [Option.isSome_none, Bool.false_eq_true, ↓reduceIte, Bool.not_false,
          dictOf_nodup _ _ hk, dedup_of_nodup _ hk]
        rfl
      | some v =>
        generalize k0 :: ks = keys at hk
        simp only [getItem_optkey _ _ _ hl, Option.isSome_some, ↓reduceIte, pure_bind, Bool.not_true,
          Bool.false_eq_true, Option.getD_some, truthy_inter, items, abs, step4, List.foldlM_pure,
          dictOf_nodup _ _ hk, dedup_of_nodup _ hk]
        rw [foldlM_tags_getItem _ hg.tags.1 (fun rst k d => List.foldl (fun x1 x2 =>
          addG x1 k x2.fst (Index.meets v x2.snd)) rst d)]
        congr 1
        refine Eq.trans (foldl_flatTags (fun acc k tv its => addG acc k tv (Index.meets v its)) _ _).symm ?_
        exact foldl_addG_keys keys (fun kv : (String × Option String) × List (Nat × Unit) => kv.1.1)
          (fun kv => kv.1.2) (fun kv => Index.meets v (kv.2.map (·.1))) _ _ (isSome_lookup_map _ keys)

end TinyFlux.Mirror
