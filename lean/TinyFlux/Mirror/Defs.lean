import TinyFlux.Generated.IndexImpl
import TinyFlux.Lemmas.Defs
/-!
# The translated `Index` and the hand-written Model: how they are related

`Generated/IndexImpl.lean` is `tinyflux/index.py` translated method by method (tools/py2lean, class mode) and
regenerated on every run. `abs` reads a generated state as a state of the Model: the attributes one to one,
`_measurements` with the unit payload of a posting map, and the two-level `_tags` dict flattened to its
(key, value) pairs. The flattening is not injective on key order (the Model numbers (key, value) pairs by first
occurrence, the code groups them by key); `Represents` only speaks about posting lists and well-formedness,
which is what `IdxEq` keeps.
-/
namespace TinyFlux.Mirror
open TinyFlux.Model TinyFlux.Spec TinyFlux.Py.Typed
open TinyFlux.Generated

abbrev GSelf := IndexImpl.Self

def unitP (l : List Nat) : List (Nat × Unit) := l.map (fun i => (i, ()))
def absMeas (m : AL String (List Nat)) : PMap String Unit := m.map (fun kl => (kl.1, unitP kl.2))
def flatTags (t : AL String (AL (Option String) (List Nat))) : PMap (String × Option String) Unit :=
  t.flatMap (fun kd => kd.2.map (fun vl => ((kd.1, vl.1), unitP vl.2)))

/-- a generated index state read as a Model index state -/
def abs (g : GSelf) : Index :=
  { numItems := g._num_items, ts := g._timestamps, pos := g._storage_pos_sorted_by_ts,
    meas := absMeas g._measurements, tags := flatTags g._tags, fields := g._fields, valid := g._valid }

/-- `_tags` is dict-shaped at both levels and holds no empty posting list -/
def TagsWF (t : AL String (AL (Option String) (List Nat))) : Prop :=
  (keysAL t).Nodup ∧ ∀ kd ∈ t, (keysAL kd.2).Nodup ∧ ∀ vl ∈ kd.2, vl.2 ≠ []

/-- the generated state is dict-shaped (Python dicts have unique keys; an association list has to be told) -/
structure GWF (g : GSelf) : Prop where
  meas : (keysAL g._measurements).Nodup
  fields : (keysAL g._fields).Nodup
  tags : TagsWF g._tags

/-- equal up to the order of the flattened tag keys -/
structure IdxEq (a b : Index) : Prop where
  num : a.numItems = b.numItems
  ts : a.ts = b.ts
  pos : a.pos = b.pos
  meas : a.meas = b.meas
  fields : a.fields = b.fields
  valid : a.valid = b.valid
  tags : ∀ kv, a.tags.posting kv = b.tags.posting kv

/-- `u_items[i] if i in u_items else i` -/
def renum (u : AL Nat Nat) (n : Nat) : Nat := (u.lookup n).getD n

end TinyFlux.Mirror
