import TinyFlux.Mirror.SearchTime
import TinyFlux.Mirror.Ops
/-!
# Mirror theorems, part L: `Index._search_helper` / `Index.search` and the set algebra of `IndexResult`, as translated

The recursion over a compound query (`&`, `|`, `~`, with the special case `~FieldQuery` = "every item": candidates, pinned by
the unedited test-suite), the dispatch of a simple query on its point attribute, and the three operators of `IndexResult`
(`Generated/IndexImpl.lean`, regenerated from index.py on every run). `queryObj` states the query object of a Model query
(class, `operator`, `query1`, `query2`, `point_attr`, `noop` ⇔ empty hash — queries.py, tied by the correspondence runs).
With this file every method of index.py that a search runs through is translated: `search → _search_helper →
_search_timestamps / _search_measurement / _search_tags / _search_fields → find_*`.
-/
namespace TinyFlux.Mirror
open TinyFlux.Model TinyFlux.Spec TinyFlux.Py.Typed
open TinyFlux.Generated

def noopQuery : SimpleQuery :=
  { _path_resolver := fun _ => .error (), _test := fun _ => pure true, hash_is_empty := true, _point_attr := "_time" }

def queryObj : Query → QueryObj
  | .time l => .simple { timeQuery l with _point_attr := "_time" }
  | .meas l => .simple { measQuery l with _point_attr := "_measurement" }
  | .tag k l => .simple { tagQuery k l with _point_attr := "_tags" }
  | .field k l => .simple { fieldQuery k l with _point_attr := "_fields" }
  | .noop => .simple noopQuery
  | .not q => .compound .not_ (queryObj q) .none
  | .and q r => .compound .and_ (queryObj q) (queryObj r)
  | .or q r => .compound .or_ (queryObj q) (queryObj r)

/-! ## set algebra -/

theorem sameSet_inter {a a' b b' : List Nat} (ha : SameSet a a') (hb : SameSet b b') :
    SameSet (setInter a b) (Index.inter a' b') := by
  obtain ⟨na, na', ma⟩ := ha
  obtain ⟨_, _, mb⟩ := hb
  refine ⟨na.filter _, na'.filter _, ?_⟩
  intro x
  simp only [setInter, Index.inter, List.mem_filter, List.contains_iff_mem, ma, mb]

theorem sameSet_union {a a' b b' : List Nat} (ha : SameSet a a') (hb : SameSet b b') :
    SameSet (setUnion a b) (Index.union a' b') := by
  obtain ⟨_, _, ma⟩ := ha
  obtain ⟨_, _, mb⟩ := hb
  refine ⟨nodup_dedup _, nodup_dedup _, ?_⟩
  intro x
  simp only [setUnion, Index.union, mem_dedup, List.mem_append, ma, mb]

theorem sameSet_range (n : Nat) : SameSet (mkSet (range n)) (List.range n) := by
  refine ⟨nodup_dedup _, List.nodup_range, ?_⟩
  intro x
  simp only [mem_mkSet, range]

theorem sameSet_compl (n : Nat) {a a' : List Nat} (ha : SameSet a a') :
    SameSet (setDiff (mkSet (range n)) a) (Index.compl n a') := by
  obtain ⟨_, _, ma⟩ := ha
  refine ⟨(nodup_dedup _).filter _, List.nodup_range.filter _, ?_⟩
  intro x
  simp [setDiff, Index.compl, mem_mkSet, range, ma]

/-! ## the relation kept by the recursion -/

def Rel (n : Nat) (gen : M IndexResult) (mod : Except Exc (List Nat)) : Prop :=
  match mod with
  | .ok r' => ∃ r, gen = .ok r ∧ SameSet r._items r' ∧ r._index_count = n
  | .error _ => ∃ e, gen = .error e

theorem rel_and {n : Nat} {ga gb : M IndexResult} {ma mb : Except Exc (List Nat)}
    (ha : Rel n ga ma) (hb : Rel n gb mb) :
    Rel n (do let r1 ← ga; let r2 ← gb; IndexImpl.IndexResultImpl.__and__ r1 r2)
      (do let a ← ma; let b ← mb; pure (Index.inter a b)) := by
  cases ma with
  | error e => obtain ⟨e', he⟩ := ha; exact ⟨e', by simp [he, bind, Except.bind]⟩
  | ok a =>
    obtain ⟨r1, h1, s1, c1⟩ := ha
    cases mb with
    | error e => obtain ⟨e', he⟩ := hb; exact ⟨e', by simp [h1, he, bind, Except.bind]⟩
    | ok b =>
      obtain ⟨r2, h2, s2, c2⟩ := hb
      exact ⟨{ _items := setInter r1._items r2._items, _index_count := r1._index_count },
        by simp only [h1, h2, bind, Except.bind, IndexImpl.IndexResultImpl.__and__, pure, Except.pure],
        sameSet_inter s1 s2, c1⟩

theorem rel_or {n : Nat} {ga gb : M IndexResult} {ma mb : Except Exc (List Nat)}
    (ha : Rel n ga ma) (hb : Rel n gb mb) :
    Rel n (do let r1 ← ga; let r2 ← gb; IndexImpl.IndexResultImpl.__or__ r1 r2)
      (do let a ← ma; let b ← mb; pure (Index.union a b)) := by
  cases ma with
  | error e => obtain ⟨e', he⟩ := ha; exact ⟨e', by simp [he, bind, Except.bind]⟩
  | ok a =>
    obtain ⟨r1, h1, s1, c1⟩ := ha
    cases mb with
    | error e => obtain ⟨e', he⟩ := hb; exact ⟨e', by simp [h1, he, bind, Except.bind]⟩
    | ok b =>
      obtain ⟨r2, h2, s2, c2⟩ := hb
      exact ⟨{ _items := setUnion r1._items r2._items, _index_count := r1._index_count },
        by simp only [h1, h2, bind, Except.bind, IndexImpl.IndexResultImpl.__or__, pure, Except.pure],
        sameSet_union s1 s2, c1⟩

theorem rel_not {n : Nat} {ga : M IndexResult} {ma : Except Exc (List Nat)} (ha : Rel n ga ma) :
    Rel n (do let r ← ga; IndexImpl.IndexResultImpl.__invert__ r)
      (do let a ← ma; pure (Index.compl n a)) := by
  cases ma with
  | error e => obtain ⟨e', he⟩ := ha; exact ⟨e', by simp [he, bind, Except.bind]⟩
  | ok a =>
    obtain ⟨r1, h1, s1, c1⟩ := ha
    refine ⟨{ _items := setDiff (mkSet (range r1._index_count)) r1._items, _index_count := r1._index_count },
      by simp only [h1, bind, Except.bind, IndexImpl.IndexResultImpl.__invert__, pure, Except.pure], ?_, c1⟩
    subst c1
    exact sameSet_compl _ s1

theorem rel_notField {n : Nat} {ga : M IndexResult} {ma : Except Exc (List Nat)} (ha : Rel n ga ma) :
    Rel n (do let r ← ga; pure ({ r with _items := mkSet (range n) } : IndexResult))
      (do let _ ← ma; pure (List.range n)) := by
  cases ma with
  | error e => obtain ⟨e', he⟩ := ha; exact ⟨e', by simp [he, bind, Except.bind]⟩
  | ok a =>
    obtain ⟨r1, h1, s1, c1⟩ := ha
    exact ⟨{ r1 with _items := mkSet (range n) }, by simp only [h1, bind, Except.bind, pure, Except.pure],
      sameSet_range n, c1⟩

theorem rel_leaf {n : Nat} {gen : M (List Nat)} {mod : Except Exc (List Nat)}
    (h : match mod with
      | .ok r' => ∃ r, gen = .ok r ∧ SameSet r r'
      | .error _ => ∃ e, gen = .error e) :
    Rel n (do let x ← gen; pure ({ _items := x, _index_count := n } : IndexResult)) mod := by
  cases mod with
  | error e => obtain ⟨e', he⟩ := h; exact ⟨e', by simp [he, bind, Except.bind]⟩
  | ok a =>
    obtain ⟨r, hr, s⟩ := h
    exact ⟨{ _items := r, _index_count := n }, by simp only [hr, bind, Except.bind, pure, Except.pure], s, rfl⟩

theorem rel_leaf' {n : Nat} {gen : M (List Nat)} {mod : Except Exc (List Nat)}
    (h : ∃ r r', gen = .ok r ∧ mod = .ok r' ∧ SameSet r r') :
    Rel n (do let x ← gen; pure ({ _items := x, _index_count := n } : IndexResult)) mod := by
  obtain ⟨r, r', hr, hm, s⟩ := h
  subst hm
  exact rel_leaf ⟨r, hr, s⟩

/-! ## `_search_helper` on each shape of query object -/

theorem helper_and (g : GSelf) (a b : QueryObj) :
    IndexImpl._search_helper g (.compound .and_ a b) =
      (do let r1 ← IndexImpl._search_helper g a
          let r2 ← IndexImpl._search_helper g b
          IndexImpl.IndexResultImpl.__and__ r1 r2) := by
  rw [IndexImpl._search_helper]
  simp

theorem helper_or (g : GSelf) (a b : QueryObj) :
    IndexImpl._search_helper g (.compound .or_ a b) =
      (do let r1 ← IndexImpl._search_helper g a
          let r2 ← IndexImpl._search_helper g b
          IndexImpl.IndexResultImpl.__or__ r1 r2) := by
  rw [IndexImpl._search_helper]
  simp

theorem helper_not (g : GSelf) (a b : QueryObj) (h : a.isSimpleWithAttr "_fields" = false) :
    IndexImpl._search_helper g (.compound .not_ a b) =
      (do let r ← IndexImpl._search_helper g a
          IndexImpl.IndexResultImpl.__invert__ r) := by
  rw [IndexImpl._search_helper]
  simp [h]

theorem helper_notField (g : GSelf) (a b : QueryObj) (h : a.isSimpleWithAttr "_fields" = true) :
    IndexImpl._search_helper g (.compound .not_ a b) =
      (do let r ← IndexImpl._search_helper g a
          pure ({ r with _items := mkSet (range g._num_items) } : IndexResult)) := by
  rw [IndexImpl._search_helper]
  simp [h]

theorem helper_noop (g : GSelf) :
    IndexImpl._search_helper g (.simple noopQuery) =
      .ok { _items := mkSet (range g._num_items), _index_count := g._num_items } := by
  rw [IndexImpl._search_helper]
  simp [noopQuery, pure, Except.pure]

theorem helper_time (g : GSelf) (l : Leaf) :
    IndexImpl._search_helper g (.simple { timeQuery l with _point_attr := "_time" }) =
      (do let x ← IndexImpl._search_timestamps g (timeQuery l)
          pure ({ _items := x, _index_count := g._num_items } : IndexResult)) := by
  rw [IndexImpl._search_helper]
  have h1 : ({ timeQuery l with _point_attr := "_time" } : SimpleQuery).hash_is_empty = false := rfl
  have h2 : ({ timeQuery l with _point_attr := "_time" } : SimpleQuery)._point_attr = "_time" := rfl
  rw [h1, h2]
  simp only [Bool.false_eq_true, if_false, beq_self_eq_true, if_true]
  rfl

theorem helper_meas (g : GSelf) (l : Leaf) :
    IndexImpl._search_helper g (.simple { measQuery l with _point_attr := "_measurement" }) =
      (do let x ← IndexImpl._search_measurement g (measQuery l)
          pure ({ _items := x, _index_count := g._num_items } : IndexResult)) := by
  rw [IndexImpl._search_helper]
  have h1 : ({ measQuery l with _point_attr := "_measurement" } : SimpleQuery).hash_is_empty = false := rfl
  have h2 : ({ measQuery l with _point_attr := "_measurement" } : SimpleQuery)._point_attr = "_measurement" := rfl
  have d1 : ("_measurement" == "_time") = false := by decide
  rw [h1, h2]
  simp only [Bool.false_eq_true, if_false, beq_self_eq_true, if_true, d1]
  rfl

theorem helper_tags (g : GSelf) (k : String) (l : Leaf) :
    IndexImpl._search_helper g (.simple { tagQuery k l with _point_attr := "_tags" }) =
      (do let x ← IndexImpl._search_tags g (tagQuery k l)
          pure ({ _items := x, _index_count := g._num_items } : IndexResult)) := by
  rw [IndexImpl._search_helper]
  have h1 : ({ tagQuery k l with _point_attr := "_tags" } : SimpleQuery).hash_is_empty = false := rfl
  have h2 : ({ tagQuery k l with _point_attr := "_tags" } : SimpleQuery)._point_attr = "_tags" := rfl
  have d1 : ("_tags" == "_time") = false := by decide
  have d2 : ("_tags" == "_measurement") = false := by decide
  rw [h1, h2]
  simp only [Bool.false_eq_true, if_false, beq_self_eq_true, if_true, d1, d2]
  rfl

theorem helper_fields (g : GSelf) (k : String) (l : Leaf) :
    IndexImpl._search_helper g (.simple { fieldQuery k l with _point_attr := "_fields" }) =
      (do let x ← IndexImpl._search_fields g (fieldQuery k l)
          pure ({ _items := x, _index_count := g._num_items } : IndexResult)) := by
  rw [IndexImpl._search_helper]
  have h1 : ({ fieldQuery k l with _point_attr := "_fields" } : SimpleQuery).hash_is_empty = false := rfl
  have h2 : ({ fieldQuery k l with _point_attr := "_fields" } : SimpleQuery)._point_attr = "_fields" := rfl
  have d1 : ("_fields" == "_time") = false := by decide
  have d2 : ("_fields" == "_measurement") = false := by decide
  have d3 : ("_fields" == "_tags") = false := by decide
  rw [h1, h2]
  simp only [Bool.false_eq_true, if_false, beq_self_eq_true, if_true, d1, d2, d3]
  rfl

/-! ## the recursion -/

theorem search_helper_rel (g : GSelf) (hg : GWF g) (hlen : g._timestamps.length = g._storage_pos_sorted_by_ts.length)
    (q : Query) : Rel g._num_items (IndexImpl._search_helper g (queryObj q)) ((abs g).search q) := by
  induction q with
  | time l =>
    simp only [queryObj, Index.search]
    rw [helper_time]
    exact rel_leaf (search_timestamps_ok g hlen l)
  | meas l =>
    simp only [queryObj, Index.search]
    rw [helper_meas]
    exact rel_leaf' (search_measurement_ok g hg l)
  | tag k l =>
    simp only [queryObj, Index.search]
    rw [helper_tags]
    exact rel_leaf' (search_tags_ok g hg k l)
  | field k l =>
    simp only [queryObj, Index.search]
    rw [helper_fields]
    exact rel_leaf' (search_fields_ok g hg k l)
  | noop =>
    simp only [queryObj, Index.search]
    rw [helper_noop]
    exact ⟨_, rfl, sameSet_range _, rfl⟩
  | and q r ihq ihr =>
    simp only [queryObj, Index.search]
    rw [helper_and]
    exact rel_and ihq ihr
  | or q r ihq ihr =>
    simp only [queryObj, Index.search]
    rw [helper_or]
    exact rel_or ihq ihr
  | not q ih =>
    cases q with
    | field k l =>
      simp only [queryObj, Index.search]
      rw [helper_notField _ _ _ (by simp [QueryObj.isSimpleWithAttr])]
      simp only [queryObj, Index.search] at ih
      exact rel_notField ih
    | time l =>
      simp only [queryObj, Index.search]
      rw [helper_not _ _ _ (by simp [QueryObj.isSimpleWithAttr])]
      simp only [queryObj, Index.search] at ih
      exact rel_not ih
    | meas l =>
      simp only [queryObj, Index.search]
      rw [helper_not _ _ _ (by simp [QueryObj.isSimpleWithAttr])]
      simp only [queryObj, Index.search] at ih
      exact rel_not ih
    | tag k l =>
      simp only [queryObj, Index.search]
      rw [helper_not _ _ _ (by simp [QueryObj.isSimpleWithAttr])]
      simp only [queryObj, Index.search] at ih
      exact rel_not ih
    | noop =>
      simp only [queryObj, Index.search]
      rw [helper_not _ _ _ (by simp [QueryObj.isSimpleWithAttr, noopQuery])]
      simp only [queryObj, Index.search] at ih
      exact rel_not ih
    | not q' =>
      simp only [queryObj, Index.search]
      rw [helper_not _ _ _ rfl]
      simp only [queryObj] at ih
      exact rel_not ih
    | and q' r' =>
      simp only [queryObj, Index.search]
      rw [helper_not _ _ _ rfl]
      simp only [queryObj, Index.search] at ih
      exact rel_not ih
    | or q' r' =>
      simp only [queryObj, Index.search]
      rw [helper_not _ _ _ rfl]
      simp only [queryObj, Index.search] at ih
      exact rel_not ih

theorem search_helper_ok (g : GSelf) (hg : GWF g) (hlen : g._timestamps.length = g._storage_pos_sorted_by_ts.length)
    (q : Query) :
    match (abs g).search q with
    | .ok r' => ∃ r, IndexImpl._search_helper g (queryObj q) = .ok r ∧ SameSet r._items r' ∧ r._index_count = g._num_items
    | .error _ => ∃ e, IndexImpl._search_helper g (queryObj q) = .error e :=
  search_helper_rel g hg hlen q

theorem search_eq (g : GSelf) (qo : QueryObj) : IndexImpl.search g qo = IndexImpl._search_helper g qo := by
  unfold IndexImpl.search
  cases IndexImpl._search_helper g qo <;> rfl

/-- `Index.search(query)` -/
theorem search_ok (g : GSelf) (hg : GWF g) (hlen : g._timestamps.length = g._storage_pos_sorted_by_ts.length)
    (q : Query) :
    match (abs g).search q with
    | .ok r' => ∃ r, IndexImpl.search g (queryObj q) = .ok r ∧ SameSet r._items r' ∧ r._index_count = g._num_items
    | .error _ => ∃ e, IndexImpl.search g (queryObj q) = .error e := by
  rw [search_eq]
  exact search_helper_ok g hg hlen q

end TinyFlux.Mirror
