import TinyFlux.Mirror.DbSearch
/-!
# Mirror theorems, part T: `TinyFlux.get` of database.py, as translated

The body of `get` (without the `read_op` decorator) translated statement by statement from the working tree
(`Generated/DatabaseImpl.lean`): like `search`, but it leaves its loop at the first point found and answers `None` when there
is none (`got_point` is an `Optional[Point]`, narrowed by `if got_point:` for the time check). It returns the first element of
what the Model's `found` computes, whenever the Model's evaluation of the query does not raise on a later row (the code does not
look at later rows; a query never raises on a point: C09).
-/
namespace TinyFlux.Mirror
open TinyFlux.Model TinyFlux.Spec TinyFlux.Py.Typed
open TinyFlux.Generated
open TinyFlux.Generated.DatabaseImpl
set_option linter.unusedVariables false

/-- what `State.step` computes for `.get q m` once `readOp` has run -/
def modelGet (s : State) (q : Query) (m : Option String) : Except Exc (Option Point) :=
  (s.found q m true).map (·.head?)

theorem model_get_is_step (s : State) (q : Query) (m : Option String) :
    (s.step (.get q m)).2 = State.outOf (modelGet s.readOp q m) (fun p => .point p) := by
  simp only [State.step, modelGet, State.outOf]
  cases State.found s.readOp q m true <;> rfl

def gFin (got_point : Option Point) : M (Option Point) :=
  match got_point with
  | none => do
    pure got_point
  | some got_point_some => do
    if (!(truthy (timeOf got_point_some))) then do
      throw PyErr.valueError
    else do
      pure got_point

def gScanBody {Q : Type} (ext : Ext Q) (self : DSelf) (query : Q) (measurement : Option String) :
    Option Point × Bool → Point → M (Option Point × Bool) :=
  fun (got_point, brk) item => do
    if brk then pure (got_point, brk) else do
      if ((truthy measurement) && (!pyEq (Storage._deserialize_measurement self._storage item) measurement)) then do
        pure (got_point, brk)
      else do
        let _point := (Storage._deserialize_storage_item self._storage item)
        if (truthy (← ext.call query _point)) then do
          let got_point := some _point
          pure (got_point, true)
        else do
          pure (got_point, brk)

def gIdxBody (self : DSelf) (items : List Nat) : Option Point × Bool → Nat × Point → M (Option Point × Bool) :=
  fun (got_point, brk) (i, item) => do
    if brk then pure (got_point, brk) else do
      if (!isin i items) then do
        pure (got_point, brk)
      else do
        let got_point := some (Storage._deserialize_storage_item self._storage item)
        pure (got_point, true)

def gCont {Q : Type} (ext : Ext Q) (self : DSelf) (query : Q) (measurement : Option String)
    (use_index : Bool) (index_rst : IndexResult) : M (Option Point) := do
  if (!(truthy index_rst._items)) then do
    pure none
  else do
    let use_index ← (if ((len index_rst._items) == (← IndexImpl.__len__ self._index)) then do
      let use_index := false
      pure use_index
    else do
      pure use_index
    )
    let got_point : (Option Point) := none
    let got_point ← (if (truthy use_index) then do
      let (got_point, brk) ← List.foldlM (gIdxBody self index_rst._items) (got_point, false) (enumerate (Storage.iter self._storage))
      pure got_point
    else do
      let (got_point, brk) ← List.foldlM (gScanBody ext self query measurement) (got_point, false) (Storage.iter self._storage)
      pure got_point
    )
    gFin got_point

theorem db_get_eq {Q : Type} (ext : Ext Q) (self : DSelf) (query : Q) (measurement : Option String) :
    get ext self query measurement = (do
      let use_index := ((truthy (← IndexImpl.valid self._index)) && (truthy (ext.index_is_exact query)))
      if (truthy use_index) then do
        if (truthy measurement) then do
          let index_rst ← ext.index_search self._index (ext.qand (ext.meas_eq measurement) query)
          gCont ext self query measurement use_index index_rst
        else do
          let index_rst ← ext.index_search self._index query
          gCont ext self query measurement use_index index_rst
      else do
        let r ← List.foldlM (gScanBody ext self query measurement) (none, false) (Storage.iter self._storage)
        gFin r.1) := by
  rfl

theorem gFin_eq (o : Option Point) : gFin o = .ok o := by
  cases o <;> rfl

theorem gScanBody_brk (g : DSelf) (q : Query) (m : Option String) (got : Option Point) (a : Point) :
    gScanBody modelExt g q m (got, true) a = .ok (got, true) := rfl

theorem gScanBody_eq (g : DSelf) (q : Query) (m : Option String) (got : Option Point) (a : Point) (b : Bool)
    (hs : State.scanSel q m a = .ok b) :
    gScanBody modelExt g q m (got, false) a = .ok (if b = true then (some a, true) else (got, false)) := by
  unfold gScanBody
  rcases scan_cases q m a with ⟨h1, h2⟩ | ⟨h1, h2⟩
  · simp only [Storage._deserialize_measurement, Storage._deserialize_storage_item, h1, if_true,
      Bool.false_eq_true, if_false]
    rw [h2] at hs
    cases hs
    rfl
  · simp only [Storage._deserialize_measurement, Storage._deserialize_storage_item, h1,
      Bool.false_eq_true, if_false, modelExt]
    rw [h2] at hs
    rw [hs]
    cases b <;> rfl

theorem get_scan_loop (sel : Point → Except Exc Bool) (f : Option Point × Bool → Point → M (Option Point × Bool))
    (hf1 : ∀ c a, f (c, true) a = .ok (c, true))
    (hf2 : ∀ c a b, sel a = .ok b → f (c, false) a = .ok (if b = true then (some a, true) else (c, false))) :
    ∀ (l accR : List Point) (got : Option Point) (brk : Bool) (r : List Point),
      List.filterAuxM sel l accR = .ok r →
      ((brk = false ∧ got = none ∧ accR = []) ∨ (brk = true ∧ got.isSome = true ∧ got = accR.reverse.head?)) →
      ∃ brk', List.foldlM f (got, brk) l = .ok (r.reverse.head?, brk') := by
  intro l
  induction l with
  | nil =>
    intro accR got brk r hr hinv
    simp only [List.filterAuxM, pure, Except.pure, Except.ok.injEq] at hr
    subst hr
    refine ⟨brk, ?_⟩
    rcases hinv with ⟨_, h2, h3⟩ | ⟨_, _, h3⟩
    · subst h2 h3; rfl
    · rw [← h3]; rfl
  | cons a t ih =>
    intro accR got brk r hr hinv
    rw [filterAuxM_cons'] at hr
    cases hs : sel a with
    | error e => rw [hs] at hr; simp [bind, Except.bind] at hr
    | ok b =>
      rw [hs] at hr
      simp only [bind, Except.bind] at hr
      rw [List.foldlM_cons]
      rcases hinv with ⟨h1, h2, h3⟩ | ⟨h1, h2, h3⟩
      · subst h1 h2 h3
        rw [hf2 none a b hs]
        simp only [bind, Except.bind]
        cases b
        · exact ih _ none false r hr (Or.inl ⟨rfl, rfl, rfl⟩)
        · exact ih _ (some a) true r hr (Or.inr ⟨rfl, rfl, rfl⟩)
      · subst h1
        rw [hf1]
        simp only [bind, Except.bind]
        refine ih _ got true r hr (Or.inr ⟨rfl, h2, ?_⟩)
        cases b
        · exact h3
        · simp only [cond_true, List.reverse_cons, List.head?_append]
          rw [← h3]
          cases got with
          | none => simp at h2
          | some x => rfl

theorem get_scan_ok (norm : Point → Point) (g : DSelf) (q : Query) (m : Option String) (l : List Point)
    (h : (absDB norm g).storage.filterM (State.scanSel q m) = .ok l) :
    (List.foldlM (gScanBody modelExt g q m) (none, false) (Storage.iter g._storage) >>= fun r => gFin r.1)
      = .ok l.head? := by
  have hst : (absDB norm g).storage = g._storage._items := rfl
  rw [hst] at h
  unfold List.filterM at h
  cases hr : List.filterAuxM (State.scanSel q m) g._storage._items [] with
  | error e => rw [hr] at h; simp [bind, Except.bind] at h
  | ok r =>
    rw [hr] at h
    simp only [bind, Except.bind, pure, Except.pure, Except.ok.injEq] at h
    subst h
    obtain ⟨brk', hfold⟩ := get_scan_loop (State.scanSel q m) _ (gScanBody_brk g q m) (gScanBody_eq g q m)
      g._storage._items [] none false r hr (Or.inl ⟨rfl, rfl, rfl⟩)
    unfold Storage.iter
    rw [hfold]
    simp only [bind, Except.bind, gFin_eq]

theorem gIdxBody_eq (g : DSelf) (items : List Nat) (got : Option Point) (brk : Bool) (i : Nat) (p : Point) :
    gIdxBody g items (got, brk) (i, p) =
      .ok (if brk = true then (got, brk)
           else if items.contains i = true then (some p, true)
           else (got, brk)) := by
  unfold gIdxBody
  simp only [isin, Storage._deserialize_storage_item, pure, Except.pure]
  cases brk
  · by_cases hc : items.contains i = true
    · simp only [hc, Bool.not_true, Bool.false_eq_true, ↓reduceIte]
    · have hc' : items.contains i = false := by simpa using hc
      simp only [hc', Bool.not_false, Bool.false_eq_true, ↓reduceIte]
  · simp only [↓reduceIte]

theorem get_idx_brk (g : DSelf) (items : List Nat) (got : Option Point) :
    ∀ (l : List (Nat × Point)), List.foldlM (gIdxBody g items) (got, true) l = .ok (got, true) := by
  intro l
  induction l with
  | nil => rfl
  | cons a t ih =>
    obtain ⟨i, p⟩ := a
    rw [List.foldlM_cons, gIdxBody_eq]
    simp only [↓reduceIte, bind, Except.bind]
    exact ih

theorem get_idx_loop (g : DSelf) (items : List Nat) (rows : List Point) :
    ∀ (i : Nat), ∃ brk', List.foldlM (gIdxBody g items) (none, false) ((rows.zipIdx i).map (fun xi => (xi.2, xi.1)))
      = .ok ((selRows items rows i).head?, brk') := by
  induction rows with
  | nil =>
    intro i
    exact ⟨false, by simp [selRows, pure, Except.pure]⟩
  | cons p t ih =>
    intro i
    simp only [List.zipIdx_cons, List.map_cons, List.foldlM_cons, gIdxBody_eq, bind, Except.bind]
    rw [selRows_cons]
    by_cases hc : items.contains i = true
    · simp only [Bool.false_eq_true, hc, ↓reduceIte]
      exact ⟨true, by rw [get_idx_brk]; rfl⟩
    · simp only [Bool.false_eq_true, hc, ↓reduceIte]
      exact ih (i + 1)

theorem get_idx_ok (norm : Point → Point) (g : DSelf) (items : List Nat) (hne : items ≠ []) :
    (List.foldlM (gIdxBody g items) (none, false) (enumerate (Storage.iter g._storage)) >>= fun r => gFin r.1)
      = .ok ((absDB norm g).rowsAt items).head? := by
  have hl : items.length ≠ 0 := by cases items <;> simp at hne ⊢
  obtain ⟨brk', h⟩ := get_idx_loop g items g._storage._items 0
  unfold enumerate Storage.iter
  rw [h]
  simp only [bind, Except.bind, gFin_eq]
  have : (absDB norm g).rowsAt items = (selRows items g._storage._items 0).take items.length := rfl
  rw [this, List.head?_take, if_neg hl]

theorem gCont_ok (norm : Point → Point) (g : DSelf) (q : Query) (m : Option String)
    (items : List Nat) (c : Nat) (l : List Point)
    (h : mCont (absDB norm g) q m false items = .ok l) :
    gCont modelExt g q m true { _items := items, _index_count := c } = .ok l.head? := by
  unfold gCont
  unfold mCont at h
  have hl : IndexImpl.__len__ g._index = .ok g._index._num_items := rfl
  have hn : (absDB norm g).index.numItems = g._index._num_items := rfl
  have ht : ∀ b : Bool, truthy b = b := fun _ => rfl
  have hti : truthy items = !items.isEmpty := rfl
  rw [hl]
  rw [hn] at h
  simp only [bind, Except.bind, pure, Except.pure, ht, hti, Py.Typed.len, Bool.not_not]
  by_cases he : items.isEmpty = true
  · simp only [he, ↓reduceIte, Except.map, Bool.false_eq_true, Except.ok.injEq] at h ⊢
    subst h
    rfl
  · simp only [he, Bool.false_eq_true, ↓reduceIte] at h ⊢
    by_cases hall : (items.length == g._index._num_items) = true
    · simp only [hall, ↓reduceIte, Bool.false_eq_true] at h ⊢
      have h' : (absDB norm g).storage.filterM (State.scanSel q m) = .ok l := by
        revert h
        cases List.filterM (State.scanSel q m) (absDB norm g).storage with
        | error e => intro h; simp [Except.map] at h
        | ok r => intro h; simpa [Except.map] using h
      have := get_scan_ok norm g q m l h'
      simp only [bind, Except.bind] at this
      revert this
      cases List.foldlM (gScanBody modelExt g q m) (none, false) (Storage.iter g._storage) with
      | error e => intro h; cases h
      | ok r => intro h; exact h
    · simp only [hall, Bool.false_eq_true, ↓reduceIte, Except.map, Except.ok.injEq] at h ⊢
      subst h
      have hne : items ≠ [] := by
        intro h; subst h; simp at he
      have := get_idx_ok norm g items hne
      simp only [bind, Except.bind] at this
      revert this
      cases List.foldlM (gIdxBody g items) (none, false) (enumerate (Storage.iter g._storage)) with
      | error e => intro h; cases h
      | ok r => intro h; exact h


theorem map_ok_inv {α β : Type} (f : α → β) (x : Except Exc α) (r : β) (h : x.map f = .ok r) :
    ∃ l, x = .ok l ∧ r = f l := by
  cases x with
  | error e => simp [Except.map] at h
  | ok l => exact ⟨l, rfl, by simpa [Except.map] using h.symm⟩

/-- the Model's `found` on the index path, in terms of `mCont` -/
theorem found_idx (s : State) (q : Query) (m : Option String) (hc : (s.index.valid && exact q) = true) :
    s.found q m true = (s.indexSearch q m >>= fun items => mCont s q m false items) := by
  rw [found_eq, if_pos hc]
  unfold mCont
  cases s.indexSearch q m with
  | error e => rfl
  | ok items =>
    simp only [bind, Except.bind, Bool.false_eq_true, ↓reduceIte]
    split
    · rfl
    · split
      · cases List.filterM (State.scanSel q m) s.storage <;> rfl
      · rfl

theorem get_idx_eq {Q : Type} (ext : DatabaseImpl.Ext Q) (g : DSelf) (q : Q) (m : Option String)
    (hc : (g._index._valid && ext.index_is_exact q) = true) :
    DatabaseImpl.get ext g q m
      = (ext.index_search g._index (if truthy m = true then ext.qand (ext.meas_eq m) q else q)
          >>= gCont ext g q m true) := by
  rw [db_get_eq]
  have hv : IndexImpl.valid g._index = .ok g._index._valid := rfl
  have ht : ∀ b : Bool, truthy b = b := fun _ => rfl
  rw [hv]
  simp only [bind, Except.bind, ht, hc, ↓reduceIte]
  split <;> rfl

theorem get_noidx_eq {Q : Type} (ext : DatabaseImpl.Ext Q) (g : DSelf) (q : Q) (m : Option String)
    (hc : ¬ (g._index._valid && ext.index_is_exact q) = true) :
    DatabaseImpl.get ext g q m
      = (List.foldlM (gScanBody ext g q m) (none, false) (Storage.iter g._storage) >>= fun r => gFin r.1) := by
  rw [db_get_eq]
  have hv : IndexImpl.valid g._index = .ok g._index._valid := rfl
  have ht : ∀ b : Bool, truthy b = b := fun _ => rfl
  rw [hv]
  simp only [bind, Except.bind, ht, hc, Bool.false_eq_true, ↓reduceIte]

theorem db_get_ok (norm : Point → Point) (g : DSelf) (q : Query) (m : Option String) (r : Option Point)
    (h : modelGet (absDB norm g) q m = .ok r) :
    DatabaseImpl.get modelExt g q m = .ok r := by
  obtain ⟨l, hl, rfl⟩ := map_ok_inv _ _ _ h
  have hv' : (absDB norm g).index.valid = g._index._valid := rfl
  by_cases hc : (g._index._valid && exact q) = true
  · rw [get_idx_eq modelExt g q m hc]
    rw [found_idx _ _ _ (by rw [hv']; exact hc), indexSearch_eq] at hl
    have hq : (if truthy m = true then modelExt.qand (modelExt.meas_eq m) q else q) = idxQuery q m := rfl
    rw [hq]
    have hs : modelExt.index_search g._index (idxQuery q m)
        = liftE (((abs g._index).search (idxQuery q m)).map
            (fun items => ({ _items := items, _index_count := g._index._num_items } : IndexResult))) := by
      simp only [modelExt]
      cases (abs g._index).search (idxQuery q m) <;> rfl
    rw [hs]
    revert hl
    cases (abs g._index).search (idxQuery q m) with
    | error e => intro hl; simp [bind, Except.bind] at hl
    | ok items =>
      intro hl
      exact gCont_ok norm g q m items _ l hl
  · rw [get_noidx_eq modelExt g q m hc]
    rw [found_eq, hv', if_neg hc] at hl
    exact get_scan_ok norm g q m l hl

theorem gIdxBody_congr (g : DSelf) {a b : List Nat} (h : SameSet a b) : gIdxBody g a = gIdxBody g b := by
  funext acc ip
  obtain ⟨got, brk⟩ := acc
  obtain ⟨i, p⟩ := ip
  rw [gIdxBody_eq, gIdxBody_eq, sameSet_contains h]

theorem gCont_congr (g : DSelf) (q : Query) (m : Option String) (r r' : IndexResult)
    (h : SameSet r._items r'._items) :
    gCont translatedExt g q m true r = gCont modelExt g q m true r' := by
  unfold gCont
  simp only [truthy, Py.Typed.len, gIdxBody_congr g h, sameSet_length h, sameSet_isEmpty h]
  rfl

theorem db_get_cases (g : DSelf) (q : Query) (m : Option String)
    (hg : GWF g._index) (hts : g._index._timestamps.length = g._index._storage_pos_sorted_by_ts.length) :
    DatabaseImpl.get translatedExt g q m = DatabaseImpl.get modelExt g q m
    ∨ ((g._index._valid && exact q) = true ∧ (∃ e, (abs g._index).search (idxQuery q m) = .error e)
        ∧ ∃ e', DatabaseImpl.get translatedExt g q m = .error e') := by
  by_cases hc : (g._index._valid && exact q) = true
  · rw [get_idx_eq translatedExt g q m hc, get_idx_eq modelExt g q m hc]
    have hq : (if truthy m = true then translatedExt.qand (translatedExt.meas_eq m) q else q) = idxQuery q m := rfl
    have hq' : (if truthy m = true then modelExt.qand (modelExt.meas_eq m) q else q) = idxQuery q m := rfl
    rw [hq, hq']
    rcases search_cases g._index hg hts (idxQuery q m) with ⟨r, items, _, h2, h3, h4⟩ | ⟨e, e', h1, h2⟩
    · left
      rw [h2, h3]
      exact gCont_congr g q m _ _ h4
    · right
      refine ⟨hc, ⟨e, h1⟩, e', ?_⟩
      rw [h2]; rfl
  · left
    rw [get_noidx_eq translatedExt g q m hc, get_noidx_eq modelExt g q m hc]
    rfl

theorem db_get_closed (norm : Point → Point) (g : DSelf) (q : Query) (m : Option String) (r : Option Point)
    (hg : GWF g._index) (hts : g._index._timestamps.length = g._index._storage_pos_sorted_by_ts.length)
    (h : modelGet (absDB norm g) q m = .ok r) :
    DatabaseImpl.get translatedExt g q m = .ok r := by
  rcases db_get_cases g q m hg hts with h1 | ⟨hc, ⟨e, he⟩, _⟩
  · rw [h1]
    exact db_get_ok norm g q m r h
  · exfalso
    obtain ⟨l, hl, _⟩ := map_ok_inv _ _ _ h
    have hv : (absDB norm g).index.valid = g._index._valid := rfl
    rw [found_idx _ _ _ (by rw [hv]; exact hc), indexSearch_eq, he] at hl
    simp [bind, Except.bind] at hl

end TinyFlux.Mirror
