import TinyFlux.Mirror.Defs
import TinyFlux.Lemmas.PMapLemmas
/-!
# Mirror theorems, part C: `_update_fields`, `_update_timestamps`, `_update_measurements`
-/
namespace TinyFlux.Mirror
open TinyFlux.Model TinyFlux.Spec TinyFlux.Py.Typed
open TinyFlux.Generated

/-! ## `u_items[i] if i in u_items else i` -/

theorem lookupAL_eq_lookup (u : AL Nat Nat) (i : Nat) : lookupAL i u = u.lookup i := by
  induction u with
  | nil => rfl
  | cons kv t ih =>
    obtain ⟨k, v⟩ := kv
    by_cases h : k = i
    · subst h; simp [lookupAL, List.lookup]
    · have h' : (i == k) = false := by simpa using fun e : i = k => h e.symm
      simp [lookupAL, List.lookup_cons, h, h', ih]

/-- one element of the comprehension -/
theorem renum_step (u : AL Nat Nat) (i : Nat) :
    (if isin i u then getItem u i else (pure i : M Nat)) = .ok (renum u i) := by
  simp only [isin, getItem, renum, lookupAL_eq_lookup]
  cases h : u.lookup i <;> simp [pure, Except.pure]

theorem renum_step_pair {P : Type} (u : AL Nat Nat) (i : Nat × P) :
    (if isin (item0 i) u then (do pure ((← getItem u (item0 i)), (item1 i))) else (pure i : M (Nat × P)))
      = .ok (renum u i.1, i.2) := by
  simp only [isin, getItem, renum, lookupAL_eq_lookup, item0, item1]
  cases h : u.lookup i.1 <;> simp [pure, Except.pure, bind, Except.bind]

theorem mapM_ok {α β : Type} (f : α → M β) (h : α → β) (hf : ∀ a, f a = .ok (h a)) (l : List α) :
    List.mapM f l = .ok (l.map h) := by
  induction l with
  | nil => simp [pure, Except.pure]
  | cons a t ih => simp [List.mapM_cons, hf, ih, bind, Except.bind, pure, Except.pure]

theorem mapM_renum (u : AL Nat Nat) (l : List Nat) :
    List.mapM (fun i => if isin i u then getItem u i else (pure i : M Nat)) l = .ok (l.map (renum u)) :=
  mapM_ok _ _ (renum_step u) l

theorem mapM_renum_pair {P : Type} (u : AL Nat Nat) (l : List (Nat × P)) :
    List.mapM (fun i => if isin (item0 i) u then (do pure ((← getItem u (item0 i)), (item1 i)))
                        else (pure i : M (Nat × P))) l
      = .ok (l.map (fun ip => (renum u ip.1, ip.2))) :=
  mapM_ok _ _ (renum_step_pair u) l

/-! ## replacing the value of each key in turn -/

/-- `d[k] = v` at a key that is not in the part of the dict before it -/
theorem setItem_append_cons {K V : Type} [BEq K] [LawfulBEq K] (pre : AL K V) (k : K) (v v' : V)
    (t : AL K V) (hk : k ∉ keysAL pre) :
    setItem (pre ++ (k, v) :: t) k v' = pre ++ (k, v') :: t := by
  induction pre with
  | nil => simp [setItem, alterAL]
  | cons kv p ih =>
    obtain ⟨k0, v0⟩ := kv
    have hne : ¬ k0 = k := by
      intro e; apply hk; simp [keysAL, e]
    have hk' : k ∉ keysAL p := by
      intro hm; apply hk; simp only [keysAL, List.map_cons, List.mem_cons]; exact Or.inr hm
    have := ih hk'
    simp only [setItem] at this
    simp [setItem, alterAL, hne, this]

theorem keysAL_append {K V : Type} (a b : AL K V) : keysAL (a ++ b) = keysAL a ++ keysAL b := by
  simp [keysAL]

/-- the pure loop: the snapshot `rest` is the tail of the current dict -/
theorem foldl_setItem {K V : Type} [BEq K] [LawfulBEq K] (h : V → V) (rest pre : AL K V)
    (hnd : (keysAL (pre ++ rest)).Nodup) :
    rest.foldl (fun d kv => setItem d kv.1 (h kv.2)) (pre ++ rest)
      = pre ++ rest.map (fun kv => (kv.1, h kv.2)) := by
  induction rest generalizing pre with
  | nil => simp
  | cons kv t ih =>
    obtain ⟨k, v⟩ := kv
    have hk : k ∉ keysAL pre := by
      rw [keysAL_append] at hnd
      have := (List.nodup_append.mp hnd).2.2
      intro hm
      exact this k hm k (by simp [keysAL]) rfl
    have hnd' : (keysAL ((pre ++ [(k, h v)]) ++ t)).Nodup := by
      simpa [keysAL] using hnd
    have := ih (pre ++ [(k, h v)]) hnd'
    simp only [List.foldl_cons, List.map_cons]
    rw [setItem_append_cons pre k v (h v) t hk]
    simpa using this

theorem keys_map_snd {K V W : Type} (h : V → W) (m : AL K V) :
    keysAL (m.map (fun kv => (kv.1, h kv.2))) = keysAL m := by
  simp [keysAL, Function.comp_def]

/-! ## `_update_fields` -/

theorem update_fields_loop (u : AL Nat Nat) (rest : AL String (List (Nat × Option Num))) (g : GSelf)
    (d : AL String (List (Nat × Option Num))) :
    List.foldlM (fun (self : GSelf) (x : String × List (Nat × Option Num)) =>
        ((do
          let rhs := (← List.mapM (fun i => ((if (isin (item0 i) u) then (do pure ((← getItem u (item0 i)), (item1 i))) else (pure i)))) x.2)
          let self := { self with _fields := (setItem self._fields x.1 rhs) }
          pure self) : M GSelf)) { g with _fields := d } rest
      = .ok { g with _fields :=
          (List.foldl (fun d kv => setItem d kv.1 (kv.2.map (fun ip => (renum u ip.1, ip.2)))) d rest) } := by
  induction rest generalizing d with
  | nil => simp [pure, Except.pure]
  | cons kv t ih =>
    have h := ih (setItem d kv.1 (kv.2.map (fun ip => (renum u ip.1, ip.2))))
    simp only [List.foldlM_cons, List.foldl_cons, mapM_renum_pair] at h ⊢
    simp only [bind, Except.bind, pure, Except.pure] at h ⊢
    exact h

theorem update_fields_ok (g : GSelf) (u : AL Nat Nat) (hnd : (keysAL g._fields).Nodup) :
    ∃ X, IndexImpl._update_fields g u = .ok { g with _fields := X }
      ∧ X = PMap.renumber g._fields (renum u)
      ∧ (keysAL X).Nodup := by
  refine ⟨PMap.renumber g._fields (renum u), ?_, rfl, ?_⟩
  · have hl := update_fields_loop u g._fields g g._fields
    have hf := foldl_setItem (fun l : List (Nat × Option Num) => l.map (fun ip => (renum u ip.1, ip.2)))
      g._fields [] (by simpa using hnd)
    simp only [List.nil_append] at hf
    unfold IndexImpl._update_fields
    simp only [items]
    have hg : ({ g with _fields := g._fields } : GSelf) = g := rfl
    rw [hg] at hl
    simp only [bind, Except.bind, pure, Except.pure] at hl ⊢
    rw [hl, hf]
    rfl
  · rw [keys_renumber]; exact hnd

theorem update_timestamps_ok (g : GSelf) (u : AL Nat Nat) :
    IndexImpl._update_timestamps g u = .ok { g with
      _storage_pos_sorted_by_ts := g._storage_pos_sorted_by_ts.map (renum u) } := by
  unfold IndexImpl._update_timestamps
  simp only [mapM_renum]
  simp only [bind, Except.bind, pure, Except.pure]

/-! ## `_update_measurements` -/

theorem update_measurements_loop (u : AL Nat Nat) (rest : AL String (List Nat)) (g : GSelf)
    (d : AL String (List Nat)) :
    List.foldlM (fun (self : GSelf) (x : String × List Nat) =>
        ((do
          let rhs := (← List.mapM (fun i => ((if (isin i u) then (getItem u i) else (pure i)))) x.2)
          let self := { self with _measurements := (setItem self._measurements x.1 rhs) }
          pure self) : M GSelf)) { g with _measurements := d } rest
      = .ok { g with _measurements :=
          (List.foldl (fun d kv => setItem d kv.1 (kv.2.map (renum u))) d rest) } := by
  induction rest generalizing d with
  | nil => simp [pure, Except.pure]
  | cons kv t ih =>
    have h := ih (setItem d kv.1 (kv.2.map (renum u)))
    simp only [List.foldlM_cons, List.foldl_cons, mapM_renum] at h ⊢
    simp only [bind, Except.bind, pure, Except.pure] at h ⊢
    exact h

theorem absMeas_map_renum (u : AL Nat Nat) (m : AL String (List Nat)) :
    absMeas (m.map (fun kv => (kv.1, kv.2.map (renum u))))
      = PMap.renumber (absMeas m) (renum u) := by
  simp [absMeas, PMap.renumber, unitP, Function.comp_def]

theorem update_measurements_ok (g : GSelf) (u : AL Nat Nat) (hnd : (keysAL g._measurements).Nodup) :
    ∃ X, IndexImpl._update_measurements g u = .ok { g with _measurements := X }
      ∧ absMeas X = PMap.renumber (absMeas g._measurements) (renum u)
      ∧ (keysAL X).Nodup := by
  refine ⟨g._measurements.map (fun kv => (kv.1, kv.2.map (renum u))), ?_, absMeas_map_renum u _, ?_⟩
  · have hl := update_measurements_loop u g._measurements g g._measurements
    have hf := foldl_setItem (fun l : List Nat => l.map (renum u))
      g._measurements [] (by simpa using hnd)
    simp only [List.nil_append] at hf
    unfold IndexImpl._update_measurements
    simp only [items]
    have hg : ({ g with _measurements := g._measurements } : GSelf) = g := rfl
    rw [hg] at hl
    simp only [bind, Except.bind, pure, Except.pure] at hl ⊢
    rw [hl, hf]
  · rw [keys_map_snd]; exact hnd

end TinyFlux.Mirror
