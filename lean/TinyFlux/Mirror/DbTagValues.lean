import TinyFlux.Mirror.DbGetters
/-!
# Mirror theorems, part W: `TinyFlux.get_tag_values` of database.py, as translated

With a valid index: the translated index getter, every value list sorted (`None` last). Otherwise a scan: the requested keys
(sorted, each once) start with no values, every stored point of the measurement contributes the values of its requested tags
(of all its tags when no key was requested), and every value list is sorted at the end. It answers what the Model's `step`
answers for `.getTagValues keys m` on the `absDB`-read state.
-/
namespace TinyFlux.Mirror
open TinyFlux.Model TinyFlux.Spec TinyFlux.Py.Typed
open TinyFlux.Generated

/-- what `State.step` answers for `.getTagValues keys m` once `readOp` has run -/
def modelTagValues (s : State) (keys : List String) (m : Option String) : AL String (List (Option String)) :=
  let sortV (l : List (Option String)) := l.mergeSort optStrLe
  if s.index.valid then
    (s.index.getTagValues keys (effMeas m)).map (fun kv => (kv.1, sortV kv.2))
  else
    let init : AL String (List (Option String)) := (sortStr (dedup keys)).map (fun k => (k, []))
    let add (acc : AL String (List (Option String))) (k : String) (v : Option String) :=
      alterAL k [] (fun vs => if vs.contains v then vs else vs ++ [v]) acc
    let r := (State.restrictM s.storage m).foldl (fun acc p =>
      p.tags.foldl (fun acc kv =>
        if !keys.isEmpty && !keys.contains kv.1 then acc else add acc kv.1 kv.2) acc) init
    r.map (fun kv => (kv.1, sortV kv.2))

theorem model_tag_values_is_step (s : State) (keys : List String) (m : Option String) :
    (s.step (.getTagValues keys m)).2 = .tagVals (modelTagValues s.readOp keys m) := by
  simp only [State.step, modelTagValues]
  split <;> rfl

namespace DbTV

theorem optStrLe_total (a b : Option String) : (optStrLe a b || optStrLe b a) = true := by
  cases a <;> cases b <;> simp [optStrLe]
  exact String.le_total _ _

theorem optStrLe_trans (a b c : Option String) : optStrLe a b = true → optStrLe b c = true → optStrLe a c = true := by
  cases a <;> cases b <;> cases c <;> simp [optStrLe]
  exact fun h1 h2 => String.le_trans h1 h2

theorem optStrLe_antisymm (a b : Option String) : optStrLe a b = true → optStrLe b a = true → a = b := by
  cases a <;> cases b <;> simp [optStrLe]
  exact fun h1 h2 => String.le_antisymm h1 h2

theorem sortOpt_eq_of_sameMembers (a b : List (Option String)) (ha : a.Nodup) (hb : b.Nodup)
    (h : ∀ x, x ∈ a ↔ x ∈ b) : a.mergeSort optStrLe = b.mergeSort optStrLe := by
  have hp : a.Perm b := (List.perm_ext_iff_of_nodup ha hb).2 h
  have hpa := List.mergeSort_perm a optStrLe
  have hpb := List.mergeSort_perm b optStrLe
  have sa := List.pairwise_mergeSort optStrLe_trans optStrLe_total a
  have sb := List.pairwise_mergeSort optStrLe_trans optStrLe_total b
  refine List.Perm.eq_of_pairwise ?_ sa sb (hpa.trans (hp.trans hpb.symm))
  intro x y _ _ h1 h2
  exact optStrLe_antisymm x y h1 h2

section
variable {α : Type} [BEq α] [LawfulBEq α]
theorem nodup_dedup (l : List α) : (dedup l).Nodup := by
  induction l with
  | nil => simp [dedup]
  | cons a t ih =>
    simp only [dedup]
    split
    · exact ih
    · rename_i hc
      have : a ∉ t := by simpa using hc
      rw [List.nodup_cons]
      exact ⟨by rw [Getters.mem_dedup]; exact this, ih⟩
end

section
variable {K V : Type} [BEq K] [LawfulBEq K]

theorem setItem_fresh (d : AL K V) (k : K) (v : V) (h : k ∉ keysAL d) : setItem d k v = d ++ [(k, v)] := by
  induction d with
  | nil => rfl
  | cons a t ih =>
    obtain ⟨k', v'⟩ := a
    simp only [keysAL, List.map_cons, List.mem_cons, not_or] at h
    have h1 : (k' == k) = false := by simpa using (fun e : k' = k => h.1 e.symm)
    have := ih (by simpa [keysAL] using h.2)
    simp only [setItem] at this ⊢
    simp only [alterAL, h1, Bool.false_eq_true, ↓reduceIte, this, List.cons_append]

theorem dictOf_aux (l : AL K V) : ∀ acc : AL K V, (keysAL (acc ++ l)).Nodup →
    l.foldl (fun d kv => setItem d kv.1 kv.2) acc = acc ++ l := by
  induction l with
  | nil => intro acc _; simp
  | cons a t ih =>
    intro acc h
    have h' : (keysAL ((acc ++ [a]) ++ t)).Nodup := by simpa using h
    have hf : a.1 ∉ keysAL acc := by
      simp only [keysAL, List.map_append, List.map_cons] at h
      have := (List.nodup_append.1 h).2.2
      intro hc
      exact this _ hc _ (List.mem_cons_self ..) rfl
    rw [List.foldl_cons, setItem_fresh acc a.1 a.2 hf, ih _ h']
    simp

theorem dictOf_eq_self (l : AL K V) (h : (keysAL l).Nodup) : dictOf l = l := by
  unfold dictOf
  rw [dictOf_aux l [] (by simpa using h)]
  simp
end

theorem foldl_nodup {β K V : Type} [BEq K] (l : List β) (f : AL K V → β → AL K V)
    (hf : ∀ acc b, (keysAL acc).Nodup → (keysAL (f acc b)).Nodup) :
    ∀ acc, (keysAL acc).Nodup → (keysAL (l.foldl f acc)).Nodup := by
  induction l with
  | nil => intro acc h; exact h
  | cons a t ih => intro acc h; exact ih _ (hf _ _ h)

theorem keys_init (l : List String) : keysAL (l.map (fun k => (k, ([] : List (Option String))))) = l := by
  simp [keysAL, Function.comp_def]

theorem getTagValues_nodup (i : Index) (keys : List String) (m : Option String) :
    (keysAL (i.getTagValues keys m)).Nodup := by
  have hinit : (keysAL ((dedup keys).map (fun k => (k, ([] : List (Option String)))))).Nodup := by
    rw [keys_init]; exact nodup_dedup _
  unfold Index.getTagValues
  split
  · apply foldl_nodup
    · intro acc b h; exact nodup_keys_alterAL _ _ _ _ h
    · simp [keysAL]
  · simp only []
    split
    · simp [keysAL]
    · apply foldl_nodup
      · intro acc b h
        split
        · exact nodup_keys_alterAL _ _ _ _ h
        · exact h
      · simp [keysAL]
  · apply foldl_nodup
    · intro acc b h
      split
      · exact nodup_keys_alterAL _ _ _ _ h
      · exact h
    · exact hinit
  · simp only []
    split
    · exact hinit
    · apply foldl_nodup
      · intro acc b h
        split
        · exact nodup_keys_alterAL _ _ _ _ h
        · exact h
      · exact hinit

abbrev TV := AL String (List (Option String))

def VV (x y : List (Option String)) : Prop := x.Nodup ∧ y.Nodup ∧ ∀ v, v ∈ x ↔ v ∈ y
inductive R : TV → TV → Prop
  | nil : R [] []
  | cons {x y : String × List (Option String)} {ta tb : TV} : (x.1 = y.1 ∧ VV x.2 y.2) → R ta tb → R (x :: ta) (y :: tb)

def gadd (acc : TV) (k : String) (v : Option String) : TV :=
  setItem acc k (match lookupAL k acc with | some vs => setUnion vs [v] | none => [v])
def madd (acc : TV) (k : String) (v : Option String) : TV :=
  alterAL k [] (fun vs => if vs.contains v then vs else vs ++ [v]) acc

theorem gadd_eq (acc : TV) (k : String) (v : Option String) :
    gadd acc k v = alterAL k [] (fun vs => dedup (vs ++ [v])) acc := by
  induction acc with
  | nil => simp [gadd, lookupAL, setItem, alterAL, dedup]
  | cons a t ih =>
    obtain ⟨k', v'⟩ := a
    by_cases hk : (k' == k) = true
    · simp [gadd, lookupAL, setItem, alterAL, hk, setUnion]
    · simp only [gadd, setItem] at ih
      simp only [gadd, lookupAL, setItem, alterAL, hk, Bool.false_eq_true, ↓reduceIte, ih]

theorem VV_step (x y : List (Option String)) (v : Option String) (h : VV x y) :
    VV (dedup (x ++ [v])) (if y.contains v then y else y ++ [v]) := by
  obtain ⟨hx, hy, hm⟩ := h
  refine ⟨nodup_dedup _, ?_, ?_⟩
  · split
    · exact hy
    · rename_i hc
      have : v ∉ y := by simpa using hc
      rw [List.nodup_append]
      refine ⟨hy, by simp, ?_⟩
      intro a ha b hb
      simp only [List.mem_singleton] at hb
      subst hb
      intro e; subst e; exact this ha
  · intro w
    rw [Getters.mem_dedup, List.mem_append, hm, List.mem_singleton]
    split
    · rename_i hc
      have : v ∈ y := by simpa using hc
      constructor
      · rintro (h | h)
        · exact h
        · subst h; exact this
      · exact Or.inl
    · simp

theorem R_alter (k : String) (g f : List (Option String) → List (Option String))
    (h0 : VV (g []) (f [])) (hs : ∀ x y, VV x y → VV (g x) (f y)) (a b : TV) (h : R a b) :
    R (alterAL k [] g a) (alterAL k [] f b) := by
  induction h with
  | nil => exact R.cons ⟨rfl, h0⟩ R.nil
  | @cons x y ta tb hxy hr ih =>
    obtain ⟨kx, vx⟩ := x
    obtain ⟨ky, vy⟩ := y
    obtain ⟨h1, h2⟩ := hxy
    simp only at h1 h2
    subst h1
    simp only [alterAL]
    split
    · exact R.cons ⟨rfl, hs _ _ h2⟩ hr
    · exact R.cons ⟨rfl, h2⟩ ih

theorem VV_nil : VV [] [] := ⟨List.nodup_nil, List.nodup_nil, fun _ => Iff.rfl⟩

theorem R_step (a b : TV) (k : String) (v : Option String) (h : R a b) : R (gadd a k v) (madd b k v) := by
  rw [gadd_eq]
  exact R_alter k (fun vs => dedup (vs ++ [v])) (fun vs => if vs.contains v then vs else vs ++ [v]) (VV_step _ _ v VV_nil) (fun x y hxy => VV_step x y v hxy) a b h

theorem foldl_rel {β : Type} (l : List β) (f g : TV → β → TV) (h : ∀ a b x, R a b → R (f a x) (g b x)) :
    ∀ a b, R a b → R (l.foldl f a) (l.foldl g b) := by
  induction l with
  | nil => intro a b hab; exact hab
  | cons x t ih => intro a b hab; exact ih _ _ (h _ _ _ hab)

theorem R_keys (a b : TV) (h : R a b) : keysAL a = keysAL b := by
  induction h with
  | nil => rfl
  | cons hxy _ ih => simp only [keysAL, List.map_cons] at ih ⊢; rw [hxy.1, ih]

theorem R_sort (a b : TV) (h : R a b) :
    a.map (fun kv => (kv.1, sortedOptStr kv.2)) = b.map (fun kv => (kv.1, kv.2.mergeSort optStrLe)) := by
  induction h with
  | nil => rfl
  | cons hxy _ ih =>
    simp only [List.map_cons, sortedOptStr] at ih ⊢
    rw [ih, hxy.1, sortOpt_eq_of_sameMembers _ _ hxy.2.1 hxy.2.2.1 hxy.2.2.2]

theorem R_init (l : List String) : R (l.map (fun k => (k, []))) (l.map (fun k => (k, []))) := by
  induction l with
  | nil => exact R.nil
  | cons a t ih => exact R.cons ⟨rfl, VV_nil⟩ ih

theorem nodup_sortStr (l : List String) (h : l.Nodup) : (sortStr l).Nodup := by
  unfold sortStr
  exact (List.mergeSort_perm l _).nodup_iff.2 h

theorem map_pair_eq {α β γ : Type} (f : β → γ) (l : List (α × β)) :
    List.map (fun (x : α × β) => match x with | (i, j) => (i, f j)) l = l.map (fun kv => (kv.1, f kv.2)) := rfl

theorem keys_map_snd {V W : Type} (f : V → W) (l : AL String V) :
    keysAL (l.map (fun kv => (kv.1, f kv.2))) = keysAL l := by
  simp [keysAL, Function.comp_def]

end DbTV
open DbTV DbG

theorem db_get_tag_values_ok (norm : Point → Point) (g : DSelf) (hg : GWF g._index) (hne : TagsNE g._index._tags)
    (keys : List String) (hk : keys.Nodup) (m : Option String) (hm : m ≠ some "") :
    DatabaseImpl.get_tag_values g keys m = .ok (modelTagValues (absDB norm g) keys m) := by
  unfold DatabaseImpl.get_tag_values modelTagValues
  have hv : IndexImpl.valid g._index = .ok g._index._valid := rfl
  have hv' : (absDB norm g).index.valid = g._index._valid := rfl
  rw [hv, hv', effMeas_eq m hm]
  by_cases h : g._index._valid = true
  · simp only [h, truthy_bool, get_tag_values_ok g._index hg hne keys hk m hm, bind, Except.bind, pure, Except.pure,
      ↓reduceIte, items]
    rw [dictOf_eq_self]
    · rfl
    · rw [keys_map_snd]; exact getTagValues_nodup _ _ _
  · simp only [h, truthy_bool, Bool.false_eq_true, ↓reduceIte, mkSet, Getters.dedup_of_nodup keys hk, items]
    have hinit : dictOf (List.map (fun i => (i, ([] : List (Option String)))) (sortedStr keys))
        = (sortStr keys).map (fun k => (k, [])) := by
      rw [dictOf_eq_self]
      · rfl
      · rw [keys_init]; exact DbTV.nodup_sortStr _ hk
    rw [hinit]
    simp only [bind, Except.bind, Bool.false_eq_true, ↓reduceIte]
    rw [scan_fold g._storage m _ (fun acc p => p.tags.foldl (fun acc kv =>
      if (!keys.isEmpty && !keys.contains kv.1) = true then acc else gadd acc kv.1 kv.2) acc)]
    · simp only [pure, Except.pure, Except.ok.injEq, Storage.iter]
      have hR := foldl_rel (State.restrictM g._storage._items m)
        (fun acc p => p.tags.foldl (fun acc kv =>
          if (!keys.isEmpty && !keys.contains kv.1) = true then acc else gadd acc kv.1 kv.2) acc)
        (fun acc p => p.tags.foldl (fun acc kv =>
          if (!keys.isEmpty && !keys.contains kv.1) = true then acc else madd acc kv.1 kv.2) acc)
        (by
          intro a b p hab
          apply foldl_rel _ _ _ _ a b hab
          intro a b kv hab
          split
          · exact hab
          · exact R_step a b kv.1 kv.2 hab)
        _ _ (R_init (sortStr keys))
      rw [dictOf_eq_self]
      · exact R_sort _ _ hR
      · rw [keys_map_snd, R_keys _ _ hR]
        apply foldl_nodup
        · intro acc p hacc
          apply foldl_nodup _ _ _ _ hacc
          intro acc kv hacc
          split
          · exact hacc
          · exact nodup_keys_alterAL _ _ _ _ hacc
        · rw [keys_init]; exact DbTV.nodup_sortStr _ hk
    · intro acc p
      simp only [Storage._deserialize_storage_item]
      rw [foldlM_pure _ (fun acc (kv : String × Option String) =>
        if (!keys.isEmpty && !keys.contains kv.1) = true then acc else gadd acc kv.1 kv.2)]
      · simp only [pure, Except.pure]
        rw [ite_ok]
      · intro acc kv
        have hc : (truthy keys && !isin kv.1 keys) = (!keys.isEmpty && !keys.contains kv.1) := rfl
        rw [hc]
        split
        · rfl
        · cases hl : lookupAL kv.1 acc <;>
            simp [isin, getItem, gadd, hl, dedup, pure, Except.pure]

end TinyFlux.Mirror
