import TinyFlux.Mirror.Database
/-!
# Mirror theorems, part U: `TinyFlux.reindex` and `TinyFlux.remove_all` of database.py, as translated

`reindex` (the gate `assert self._storage.can_read`, nothing to do for a valid index, otherwise `Index.build` over the
deserialised rows — the *translated* `build`) is what `read_op` calls to rebuild an invalid index: the Model's `.reindex` step
and `readOp`. `remove_all` is `_reset_database`.
-/
set_option linter.unusedSimpArgs false
namespace TinyFlux.Mirror
open TinyFlux.Model TinyFlux.Spec TinyFlux.Py.Typed
open TinyFlux.Generated

/-- the translated `reindex` never raises; a valid index is left alone, an invalid one becomes valid and `IdxEq` to the
    Model's `Index.build` of the stored rows — hence (`gen_build_represents`) it represents storage -/
theorem reindex_ok (norm : Point → Point) (g : DSelf) :
    ∃ g', DatabaseImpl.reindex g = .ok g' ∧ g'._storage = g._storage ∧ g'._auto_index = g._auto_index
      ∧ (g._index._valid = true → g' = g)
      ∧ (g._index._valid = false → GWF g'._index ∧ g'._index._valid = true
            ∧ IdxEq (abs g'._index) (Index.build g._storage._items)) := by
  by_cases hv : g._index._valid = true
  · refine ⟨g, ?_, rfl, rfl, ?_, ?_⟩
    · simp [DatabaseImpl.reindex, Storage.can_read, truthy, IndexImpl.valid, hv, bind, Except.bind, pure, Except.pure]
    · intro _; rfl
    · intro h; rw [hv] at h; cases h
  · have hv' : g._index._valid = false := by simpa using hv
    obtain ⟨i', h1, h2, h3⟩ := build_ok g._index g._storage._items
    refine ⟨{ g with _index := i' }, ?_, rfl, rfl, ?_, ?_⟩
    · simp [DatabaseImpl.reindex, Storage.can_read, truthy, IndexImpl.valid, hv', bind, Except.bind, pure, Except.pure,
        Storage.iter, Storage._deserialize_storage_item, h1]
    · intro h; rw [hv'] at h; cases h
    · intro _
      refine ⟨h2, ?_, h3⟩
      have := h3.valid
      simpa [abs, Index.build] using this

/-- the Model's `.reindex` step and `readOp` on the `absDB`-read state, up to `IdxEq` -/
theorem reindex_is_the_models (norm : Point → Point) (g : DSelf) :
    ∃ g', DatabaseImpl.reindex g = .ok g'
      ∧ StateEq (absDB norm g') ((absDB norm g).step .reindex).1 := by
  obtain ⟨g', h1, hs, ha, hvalid, hinv⟩ := reindex_ok norm g
  refine ⟨g', h1, ?_⟩
  by_cases hv : g._index._valid = true
  · have := hvalid hv; subst this
    refine ⟨?_, ?_, ?_⟩ <;> simp [State.step, absDB, abs, hv, idxEq_refl]
  · have hv' : g._index._valid = false := by simpa using hv
    obtain ⟨_, _, h3⟩ := hinv hv'
    refine ⟨?_, ?_, ?_⟩
    · simp [State.step, absDB, abs, hv', hs]
    · simp [State.step, absDB, abs, hv', ha]
    · simpa [State.step, absDB, abs, hv'] using h3

theorem remove_all_ok (norm : Point → Point) (g : DSelf) :
    ∃ g', DatabaseImpl.remove_all g = .ok g' ∧ absDB norm g' = ((absDB norm g).step .removeAll).1 := by
  obtain ⟨g', h1, h2, _, _⟩ := reset_database_ok norm g
  refine ⟨g', ?_, ?_⟩
  · simp [DatabaseImpl.remove_all, h1, bind, pure, Except.pure]
  · simpa [State.step] using h2

/-- `TinyFlux.all(sorted)` as translated: every stored row, in a stable time order when asked for — what the Model's `step`
    answers for `.all sorted` (the `read_op` decorator is `readOp`, which does not touch storage) -/
theorem all_ok (norm : Point → Point) (g : DSelf) (sorted : Bool) :
    DatabaseImpl.all g sorted = .ok (if sorted then State.sortByTime g._storage._items else g._storage._items)
    ∧ ((absDB norm g).step (.all sorted)).2
        = .points (if sorted then State.sortByTime g._storage._items else g._storage._items) := by
  have hst : ((absDB norm g).readOp).storage = g._storage._items := by
    simp only [State.readOp, absDB]
    by_cases h : (g._auto_index && !(abs g._index).valid) = true <;> simp [h]
  constructor
  · cases sorted
    · simp [DatabaseImpl.all, Storage.read, truthy, bind, pure, Except.pure, Except.bind]
    · simp [DatabaseImpl.all, Storage.read, truthy, sortedBy, State.sortByTime, timeOf, bind, pure, Except.pure, Except.bind]
      rfl
  · simp only [State.step, hst]

end TinyFlux.Mirror
