import TinyFlux.Mirror.Defs
import TinyFlux.Lemmas.PMapLemmas
/-!
# Mirror theorems, part B: `_remove_fields`, `_remove_measurements`, `_remove_timestamps`
-/
namespace TinyFlux.Mirror
open TinyFlux.Model TinyFlux.Spec TinyFlux.Py.Typed
open TinyFlux.Generated

/-! ## helpers -/
section Helpers
variable {K V : Type} [BEq K] [LawfulBEq K]

/-- altering a key that is not present appends the new entry at the end -/
theorem alterAL_new (k : K) (d : V) (f : V → V) (l : AL K V) (h : k ∉ keysAL l) :
    alterAL k d f l = l ++ [(k, f d)] := by
  induction l with
  | nil => rfl
  | cons hd t ih =>
    obtain ⟨k', v⟩ := hd
    simp only [keysAL, List.map_cons, List.mem_cons, not_or] at h
    have hne : (k' == k) = false := by simpa using (fun e => h.1 e.symm)
    simp only [alterAL, hne, Bool.false_eq_true, ↓reduceIte, List.cons_append]
    rw [ih h.2]

theorem setItem_new (k : K) (v : V) (l : AL K V) (h : k ∉ keysAL l) :
    setItem l k v = l ++ [(k, v)] := by
  unfold setItem; exact alterAL_new k v _ l h

/-- keep the elements satisfying `q` in every value; a key whose value becomes empty disappears -/
def remq {α : Type} (q : α → Bool) (m : AL K (List α)) : AL K (List α) :=
  m.filterMap fun kv => if (kv.2.filter q).isEmpty then none else some (kv.1, kv.2.filter q)

omit [BEq K] [LawfulBEq K] in
theorem remq_cons {α : Type} (q : α → Bool) (k : K) (v : List α) (t : AL K (List α)) :
    remq q ((k, v) :: t) =
      if (v.filter q).isEmpty then remq q t else (k, v.filter q) :: remq q t := by
  by_cases he : (v.filter q).isEmpty = true
  · simp only [remq, List.filterMap_cons, he, ↓reduceIte]
  · simp only [remq, List.filterMap_cons, he, ↓reduceIte, Bool.false_eq_true]

omit [BEq K] [LawfulBEq K] in
theorem keys_remq_sublist {α : Type} (q : α → Bool) (m : AL K (List α)) :
    (keysAL (remq q m)).Sublist (keysAL m) := by
  induction m with
  | nil => simp [remq, keysAL]
  | cons hd t ih =>
    obtain ⟨k, v⟩ := hd
    rw [remq_cons]
    split
    · exact List.Sublist.cons _ ih
    · exact List.Sublist.cons_cons _ ih

omit [BEq K] [LawfulBEq K] in
theorem remove_eq_remq {P : Type} (m : PMap K P) (r : Nat → Bool) :
    PMap.remove m r = remq (fun ip => !r ip.1) m := rfl

/-- the generated removal loops: with distinct keys, the fold that re-inserts the non-empty filtered
    values is a `filterMap` appended to the accumulator -/
theorem loop_remq {α : Type} (q : α → Bool)
    (f : AL K (List α) → K × List α → M (AL K (List α)))
    (rest : AL K (List α))
    (hf : ∀ acc, ∀ kv ∈ rest, f acc kv =
      .ok (if (kv.2.filter q).isEmpty then acc else setItem acc kv.1 (kv.2.filter q)))
    (hnd : (keysAL rest).Nodup) (acc : AL K (List α))
    (hdisj : ∀ k ∈ keysAL rest, k ∉ keysAL acc) :
    List.foldlM f acc rest = .ok (acc ++ remq q rest) := by
  induction rest generalizing acc with
  | nil => simp [remq, pure, Except.pure]
  | cons hd t ih =>
    obtain ⟨k, v⟩ := hd
    have hnd' : k ∉ keysAL t ∧ (keysAL t).Nodup := by simpa [keysAL] using hnd
    have hft : ∀ acc, ∀ kv ∈ t, f acc kv =
        .ok (if (kv.2.filter q).isEmpty then acc else setItem acc kv.1 (kv.2.filter q)) :=
      fun acc kv h => hf acc kv (List.mem_cons_of_mem _ h)
    rw [List.foldlM_cons, hf acc (k, v) List.mem_cons_self, remq_cons]
    simp only [bind, Except.bind]
    have hk : k ∉ keysAL acc := hdisj k (by simp [keysAL])
    have hd2 : ∀ k' ∈ keysAL t, k' ∉ keysAL acc :=
      fun k' h => hdisj k' (by simp only [keysAL, List.map_cons, List.mem_cons]; exact Or.inr h)
    by_cases he : (v.filter q).isEmpty = true
    · simp only [he, ↓reduceIte]
      exact ih hft hnd'.2 acc hd2
    · simp only [he, Bool.false_eq_true, ↓reduceIte]
      rw [setItem_new k _ acc hk, ih hft hnd'.2]
      · simp
      · intro k' hk' hmem
        simp only [keysAL, List.map_append, List.map_cons, List.map_nil, List.mem_append,
          List.mem_singleton] at hmem
        cases hmem with
        | inl h => exact hd2 k' hk' (by simpa [keysAL] using h)
        | inr h => subst h; exact hnd'.1 hk'

end Helpers

/-! ## `_remove_fields` -/

theorem remove_fields_ok (g : GSelf) (r : List Nat) (hnd : (keysAL g._fields).Nodup) :
    ∃ X, IndexImpl._remove_fields g r = .ok { g with _fields := X }
      ∧ X = PMap.remove g._fields r.contains
      ∧ (keysAL X).Nodup := by
  refine ⟨PMap.remove g._fields r.contains, ?_, rfl, (keys_remove_sublist _ _).nodup hnd⟩
  dsimp only [IndexImpl._remove_fields, items]
  rw [loop_remq (fun ip : Nat × Option Num => !r.contains ip.1) _ g._fields ?_ hnd [] (by simp [keysAL])]
  · simp [remove_eq_remq, bind, Except.bind, pure, Except.pure]
  · intro acc kv _
    obtain ⟨k, v⟩ := kv
    simp only [truthy, isin, item0, pure, Except.pure]
    by_cases he : (List.filter (fun i : Nat × Option Num => !r.contains i.fst) v).isEmpty = true
    · simp only [he, Bool.not_true, Bool.false_eq_true, ↓reduceIte]
    · simp only [he, Bool.not_false, ↓reduceIte, Bool.false_eq_true]

/-! ## `_remove_measurements` -/

theorem unitP_filter (r : Nat → Bool) (v : List Nat) :
    (unitP v).filter (fun ip => !r ip.1) = unitP (v.filter (fun i => !r i)) := by
  simp only [unitP, List.filter_map]
  rfl

theorem absMeas_remq (r : Nat → Bool) (m : AL String (List Nat)) :
    absMeas (remq (fun i => !r i) m) = PMap.remove (absMeas m) r := by
  induction m with
  | nil => rfl
  | cons hd t ih =>
    obtain ⟨k, v⟩ := hd
    have hc : absMeas ((k, v) :: t) = (k, unitP v) :: absMeas t := rfl
    rw [hc, remove_eq_remq, remq_cons, remq_cons, unitP_filter, ← remove_eq_remq, ← ih]
    have he : (unitP (v.filter (fun i => !r i))).isEmpty = (v.filter (fun i => !r i)).isEmpty := by
      simp [unitP]
    rw [he]
    split
    · rfl
    · rfl

theorem remove_measurements_ok (g : GSelf) (r : List Nat) (hnd : (keysAL g._measurements).Nodup) :
    ∃ X, IndexImpl._remove_measurements g r = .ok { g with _measurements := X }
      ∧ absMeas X = PMap.remove (absMeas g._measurements) r.contains
      ∧ (keysAL X).Nodup := by
  refine ⟨remq (fun i => !r.contains i) g._measurements, ?_, absMeas_remq _ _,
    (keys_remq_sublist _ _).nodup hnd⟩
  dsimp only [IndexImpl._remove_measurements, keys, keysAL]
  rw [List.foldlM_map,
    loop_remq (fun i : Nat => !r.contains i) _ g._measurements ?_ hnd [] (by simp [keysAL])]
  · simp [bind, Except.bind, pure, Except.pure]
  · intro acc kv hkv
    obtain ⟨k, v⟩ := kv
    have hl : lookupAL k g._measurements = some v := lookup_of_mem _ hnd k v hkv
    simp only [getItem, hl, truthy, isin, pure, Except.pure, bind, Except.bind]
    by_cases he : (List.filter (fun i : Nat => !r.contains i) v).isEmpty = true
    · simp only [he, Bool.not_true, Bool.false_eq_true, ↓reduceIte]
    · simp only [he, Bool.not_false, ↓reduceIte, Bool.false_eq_true]

/-! ## `_remove_timestamps` -/

theorem loop_ts (r : List Nat)
    (f : List Int × List Nat → Int × Nat → M (List Int × List Nat))
    (hf : ∀ a b ts pos, f (a, b) (ts, pos) =
      .ok (if (!r.contains pos) = true then (a ++ [ts], b ++ [pos]) else (a, b)))
    (l : List (Int × Nat)) (a : List Int) (b : List Nat) :
    List.foldlM f (a, b) l =
      .ok (a ++ (l.filter (fun tp => !r.contains tp.2)).map (·.1),
           b ++ (l.filter (fun tp => !r.contains tp.2)).map (·.2)) := by
  induction l generalizing a b with
  | nil => simp [pure, Except.pure]
  | cons hd t ih =>
    obtain ⟨ts, pos⟩ := hd
    rw [List.foldlM_cons, hf]
    simp only [bind, Except.bind]
    by_cases hc : r.contains pos = true
    · simp only [hc, Bool.not_true, Bool.false_eq_true, ↓reduceIte, List.filter_cons]
      exact ih a b
    · simp only [hc, Bool.not_false, ↓reduceIte, List.filter_cons]
      rw [ih]
      simp

theorem remove_timestamps_ok (g : GSelf) (r : List Nat) :
    IndexImpl._remove_timestamps g r = .ok { g with
      _timestamps := ((g._timestamps.zip g._storage_pos_sorted_by_ts).filter (fun tp => !r.contains tp.2)).map (·.1),
      _storage_pos_sorted_by_ts :=
        ((g._timestamps.zip g._storage_pos_sorted_by_ts).filter (fun tp => !r.contains tp.2)).map (·.2) } := by
  dsimp only [IndexImpl._remove_timestamps]
  rw [loop_ts r _ ?_ (g._timestamps.zip g._storage_pos_sorted_by_ts) [] []]
  · simp [bind, Except.bind, pure, Except.pure]
  · intro a b ts pos
    simp only [isin, append, pure, Except.pure, bind, Except.bind]
    by_cases hc : r.contains pos = true
    · simp only [hc, Bool.not_true, Bool.false_eq_true, ↓reduceIte]
    · simp only [hc, Bool.not_false, ↓reduceIte]

end TinyFlux.Mirror
