import TinyFlux.Generated.DatabaseImpl
import TinyFlux.Mirror.Ops
/-!
# Mirror theorems, part I: `TinyFlux._remove_helper` and `_reset_database` of database.py, as translated

`Generated/DatabaseImpl.lean` is the two methods translated statement by statement from the working tree (class mode;
`if use_index:` is followed path-sensitively, so the generated function has the shape index path / scan path). Storage is
the list level (`Py/Typed.lean`: the rows as decoded points, plus the rows appended to temporary storage); the index is the
*translated* index (`IndexImpl`); what is not translated enters through `Ext`: query objects are the Model's `Query`, with
`index_is_exact = exact`, `query(point) = eval`, and `Index.search` (recursion over the query object, not translated)
is the Model's `Index.search` on the `abs`-read index.

`remove_helper_ok`: from any state whose temporary storage is empty (the `temp_storage_op` decorator initialises it) and
whose index, when maintained, counts the stored rows, the translated `_remove_helper` returns the same count as the
Model's `removeHelper` and a state that reads (`absDB`) as the Model's result, up to the order of flattened tag keys.
-/
namespace TinyFlux.Mirror
open TinyFlux.Model TinyFlux.Spec TinyFlux.Py.Typed
open TinyFlux.Generated

abbrev DSelf := DatabaseImpl.Self

def errOf : Exc → PyErr
  | .type => .typeError | .key => .keyError | .user => .valueError

/-- what the translated database methods use of untranslated objects, as the Model has it -/
def modelExt : DatabaseImpl.Ext Query :=
  { index_is_exact := exact
    meas_eq := fun m => .meas (.cmp .eq (.str (m.getD "")))
    qand := .and
    call := fun q p => match eval q p with | .ok b => .ok b | .error e => .error (errOf e)
    index_search := fun idx q => match (abs idx).search q with
      | .ok l => .ok { _items := l, _index_count := idx._num_items }
      | .error e => .error (errOf e) }

/-- a translated database state read as a Model state (`norm` is the storage's codec, which the list level does not see) -/
def absDB (norm : Point → Point) (g : DSelf) : State :=
  { cfg := { autoIndex := g._auto_index, norm := norm }, storage := g._storage._items, index := abs g._index }

/-- equal up to the order of the index's flattened tag keys -/
structure StateEq (a b : State) : Prop where
  storage : a.storage = b.storage
  auto : a.cfg.autoIndex = b.cfg.autoIndex
  index : IdxEq a.index b.index

open TinyFlux.Generated.DatabaseImpl
set_option linter.unusedVariables false

def resetG (g : DSelf) : DSelf :=
  { _auto_index := g._auto_index, _storage := { _items := [], _temp := g._storage._temp },
    _index := IndexImpl.__init__ g._auto_index, _measurements := [], _open := g._open }

theorem reset_database_eq (g : DSelf) : DatabaseImpl._reset_database g = .ok (resetG g) := by
  unfold DatabaseImpl._reset_database resetG
  cases h : g._auto_index <;>
  simp only [Storage.reset, truthy, reset_ok, invalidate_ok, bind, Except.bind, pure, Except.pure, id] <;> rfl

/-- the common tail of the three copies (the translated text, verbatim) -/
def rmTail (self : DSelf) (updated_items : AL Nat Nat) (keep_count : Nat) (removed_items : List Nat) : M (DSelf × Nat) := do
          if (!(truthy (len removed_items))) then do
            pure (self, 0)
          else do
            if (!(truthy keep_count)) then do
              let self ← _reset_database self 
              pure (self, (len removed_items))
            else do
              match Storage._swap_temp_with_primary self._storage with
              | .error e => do
                let self := { self with _index := (← IndexImpl.invalidate self._index) }
                throw e
              | .ok st => do
                let self := { self with _storage := st }
                let self ← (if (truthy self._auto_index) then do
                  let self := { self with _index := (← IndexImpl.remove self._index removed_items) }
                  let self := { self with _index := (← IndexImpl.update self._index updated_items) }
                  pure self
                else do
                  let self := { self with _index := (← IndexImpl.invalidate self._index) }
                  pure self
                )
                pure (self, (len removed_items))

/-- the state after the swap, with a new index -/
def swapG (g : DSelf) (idx : IndexImpl.Self) : DSelf :=
  { _auto_index := g._auto_index, _storage := { _items := g._storage._temp, _temp := [] },
    _index := idx, _measurements := g._measurements, _open := g._open }

theorem rmTail_eq (self : DSelf) (u : AL Nat Nat) (kc : Nat) (r : List Nat) :
    rmTail self u kc r =
      if r.length = 0 then .ok (self, 0)
      else if kc = 0 then .ok (resetG self, r.length)
      else if self._auto_index = true then
        (match IndexImpl.remove self._index r with
         | .error e => .error e
         | .ok i1 => match IndexImpl.update i1 u with
           | .error e => .error e
           | .ok i2 => .ok (swapG self i2, r.length))
      else .ok (swapG self (IndexImpl.__init__ false), r.length) := by
  unfold rmTail
  simp only [truthy, Py.Typed.len, reset_database_eq, Storage._swap_temp_with_primary, invalidate_ok, bind, Except.bind, pure, Except.pure, id, swapG]
  by_cases h1 : r = []
  · simp [h1]
  · have h1' : r.length ≠ 0 := by simpa using h1
    by_cases h2 : kc = 0
    · simp [h1, h2]
    · cases h3 : self._auto_index
      · simp [h1, h2]
      · cases h4 : IndexImpl.remove self._index r with
        | error e => simp [h1, h2]
        | ok i1 =>
          cases h5 : IndexImpl.update i1 u with
          | error e => simp [h1, h2, h5]
          | ok i2 => simp [h1, h2, h5]
def mTail (s : State) (t : List Point × List Nat × List (Nat × Nat)) : State × Nat :=
  if t.2.1.isEmpty then (s, 0)
  else if t.1.isEmpty then (s.resetDatabase, t.2.1.length)
  else ({ s with storage := t.1,
                 index := if s.cfg.autoIndex then (s.index.remove t.2.1).update t.2.2 else s.index.invalidate },
        t.2.1.length)


def addTemp (g : DSelf) (k : List Point) : DSelf :=
  { _auto_index := g._auto_index, _storage := { _items := g._storage._items, _temp := g._storage._temp ++ k },
    _index := g._index, _measurements := g._measurements, _open := g._open }

theorem stateEq_refl (s : State) : StateEq s s := ⟨rfl, rfl, idxEq_refl _⟩

theorem tail_ok (norm : Point → Point) (g : DSelf) (t : List Point × List Nat × List (Nat × Nat))
    (hg : GWF g._index) (htemp : g._storage._temp = [])
    (hle : g._auto_index = true → t.2.1.length ≤ g._index._num_items) :
    ∃ g', rmTail (addTemp g t.1) t.2.2 t.1.length t.2.1 = .ok (g', (mTail (absDB norm g) t).2)
      ∧ StateEq (absDB norm g') (mTail (absDB norm g) t).1 ∧ GWF g'._index := by
  obtain ⟨k, r, u⟩ := t
  rw [rmTail_eq]
  unfold mTail
  simp only []
  by_cases h1 : r = []
  · subst h1
    exact ⟨addTemp g k, by simp, by simp only [List.isEmpty_nil, ↓reduceIte]; exact ⟨rfl, rfl, idxEq_refl _⟩, hg⟩
  · have h1' : r.length ≠ 0 := by simpa using h1
    have h1'' : r.isEmpty = false := by simpa using h1
    by_cases h2 : k = []
    · subst h2
      refine ⟨resetG (addTemp g []), by simp [h1', h1], ?_, gwf_init _⟩
      simp only [h1'', List.isEmpty_nil, Bool.false_eq_true, ↓reduceIte]
      refine ⟨rfl, rfl, ?_⟩
      cases h : g._auto_index <;>
        simp [resetG, addTemp, absDB, State.resetDatabase, h, abs_init, Index.invalidate, Index.reset, idxEq_refl]
    · have h2' : k.length ≠ 0 := by simpa using h2
      have h2'' : k.isEmpty = false := by simpa using h2
      simp only [h1', h2', h1'', h2'', Bool.false_eq_true, ↓reduceIte]
      cases h : g._auto_index
      · refine ⟨swapG (addTemp g k) (IndexImpl.__init__ false), by simp [addTemp, h], ?_, gwf_init _⟩
        refine ⟨by simp [swapG, addTemp, absDB, htemp], by simp [swapG, addTemp, absDB], ?_⟩
        simp [swapG, absDB, h, abs_init, Index.invalidate, Index.reset, idxEq_refl]
      · obtain ⟨g1, e1, hg1, q1⟩ := remove_ok g._index r hg (hle h)
        obtain ⟨g2, e2, hg2, q2⟩ := update_ok g1 u hg1
        refine ⟨swapG (addTemp g k) g2, by simp [addTemp, h, e1, e2], ?_, hg2⟩
        refine ⟨by simp [swapG, addTemp, absDB, htemp], by simp [swapG, addTemp, absDB], ?_⟩
        simp only [swapG, absDB, h, ↓reduceIte]
        exact idxEq_trans q2 (idxEq_update q1 u)
/-- the body of the index-path loop (the translated text, verbatim) -/
def idxBody (items : List Nat) : DSelf × AL Nat Nat × Nat × Nat × List Nat × Nat → Nat × Point →
    M (DSelf × AL Nat Nat × Nat × Nat × List Nat × Nat) :=
  fun (self, updated_items, new_position, keep_count, removed_items, j) (i, item) => do
              if ((j == (len items)) || (!isin i items)) then do
                let self := { self with _storage := (← Storage.append self._storage [item] true) }
                let updated_items ← (if (i != new_position) then do
                  let updated_items := (setItem updated_items i new_position)
                  pure updated_items
                else do
                  pure updated_items
                )
                let new_position := new_position + 1
                let keep_count := keep_count + 1
                pure (self, updated_items, new_position, keep_count, removed_items, j)
              else do
                let removed_items := (setAdd removed_items i)
                let j := j + 1
                pure (self, updated_items, new_position, keep_count, removed_items, j)

/-- what follows `index_rst = self._index.search(…)` on the index path -/
def idxCont (self : DSelf) (index_rst : IndexResult) : M (DSelf × Nat) := do
      if (!(truthy index_rst._items)) then do
        pure (self, 0)
      else do
        if ((len index_rst._items) == (← IndexImpl.__len__ self._index)) then do
          let self ← _reset_database self 
          pure (self, (len index_rst._items))
        else do
          let (self, updated_items, new_position, keep_count, removed_items, j) ← List.foldlM (idxBody index_rst._items)
            (self, [], 0, 0, [], 0) (enumerate (Storage.iter self._storage))
          rmTail self updated_items keep_count removed_items

/-- the body of the scan-path loop (the translated text, verbatim) -/
def scanBody {Q : Type} (ext : Ext Q) (query : Q) (measurement : Option String) :
    DSelf × AL Nat Nat × Nat × Nat × List Nat → Nat × Point → M (DSelf × AL Nat Nat × Nat × Nat × List Nat) :=
  fun (self, updated_items, new_position, keep_count, removed_items) (i, item) => do
        if (truthy measurement) then do
          let _measurement := (Storage._deserialize_measurement self._storage item)
          if (!pyEq _measurement measurement) then do
            let self := { self with _storage := (← Storage.append self._storage [item] true) }
            let updated_items ← (if (i != new_position) then do
              let updated_items := (setItem updated_items i new_position)
              pure updated_items
            else do
              pure updated_items
            )
            let new_position := new_position + 1
            let keep_count := keep_count + 1
            pure (self, updated_items, new_position, keep_count, removed_items)
          else do
            let (removed_items, self, updated_items, new_position, keep_count) ← (if (truthy (← ext.call query (Storage._deserialize_storage_item self._storage item))) then do
              let removed_items := (setAdd removed_items i)
              pure (removed_items, self, updated_items, new_position, keep_count)
            else do
              let self := { self with _storage := (← Storage.append self._storage [item] true) }
              let updated_items ← (if (i != new_position) then do
                let updated_items := (setItem updated_items i new_position)
                pure updated_items
              else do
                pure updated_items
              )
              let new_position := new_position + 1
              let keep_count := keep_count + 1
              pure (removed_items, self, updated_items, new_position, keep_count)
            )
            pure (self, updated_items, new_position, keep_count, removed_items)
        else do
          let (removed_items, self, updated_items, new_position, keep_count) ← (if (truthy (← ext.call query (Storage._deserialize_storage_item self._storage item))) then do
            let removed_items := (setAdd removed_items i)
            pure (removed_items, self, updated_items, new_position, keep_count)
          else do
            let self := { self with _storage := (← Storage.append self._storage [item] true) }
            let updated_items ← (if (i != new_position) then do
              let updated_items := (setItem updated_items i new_position)
              pure updated_items
            else do
              pure updated_items
            )
            let new_position := new_position + 1
            let keep_count := keep_count + 1
            pure (removed_items, self, updated_items, new_position, keep_count)
          )
          pure (self, updated_items, new_position, keep_count, removed_items)


theorem addTemp_nil (g : DSelf) : addTemp g [] = g := by
  simp [addTemp]

theorem addTemp_addTemp (g : DSelf) (a b : List Point) : addTemp (addTemp g a) b = addTemp g (a ++ b) := by
  simp [addTemp]

theorem idxBody_eq (items : List Nat) (self : DSelf) (u : AL Nat Nat) (np kc : Nat) (r : List Nat) (j i : Nat) (p : Point) :
    idxBody items (self, u, np, kc, r, j) (i, p) =
      .ok (if (j == items.length || !items.contains i) = true
           then (addTemp self [p], (if (i != np) = true then setItem u i np else u), np + 1, kc + 1, r, j)
           else (self, u, np, kc, setAdd r i, j + 1)) := by
  unfold idxBody
  simp only [Py.Typed.len, isin, Storage.append, bind, Except.bind, pure, Except.pure]
  by_cases hc : (j == items.length || !items.contains i) = true
  · by_cases hn : (i != np) = true
    · simp only [hc, hn, ↓reduceIte, addTemp]
    · simp only [hc, hn, Bool.false_eq_true, ↓reduceIte, addTemp]
  · simp only [hc, Bool.false_eq_true, ↓reduceIte]

theorem setItem_fresh (u : AL Nat Nat) (i v : Nat) (h : ∀ x ∈ keysAL u, x < i) : setItem u i v = u ++ [(i, v)] := by
  unfold setItem
  apply alterAL_of_lookup_none
  apply lookup_none_of_not_mem
  intro hm
  exact Nat.lt_irrefl _ (h i hm)

theorem setAdd_fresh (r : List Nat) (i : Nat) (h : ∀ x ∈ r, x < i) : setAdd r i = r ++ [i] := by
  unfold setAdd
  have : r.contains i = false := by
    rw [List.contains_eq_mem, decide_eq_false_iff_not]
    intro hm
    exact Nat.lt_irrefl _ (h i hm)
  rw [this]; rfl

theorem removeLoop_keep (items : List Nat) (p : Point) (t : List Point) (i j np : Nat)
    (h : (j == items.length || !items.contains i) = true) :
    State.removeLoop items (p :: t) i j np =
      (p :: (State.removeLoop items t (i + 1) j (np + 1)).1, (State.removeLoop items t (i + 1) j (np + 1)).2.1,
       if (i != np) = true then (i, np) :: (State.removeLoop items t (i + 1) j (np + 1)).2.2
       else (State.removeLoop items t (i + 1) j (np + 1)).2.2) := by
  rw [State.removeLoop]
  simp only [h, ↓reduceIte]

theorem removeLoop_drop (items : List Nat) (p : Point) (t : List Point) (i j np : Nat)
    (h : ¬ (j == items.length || !items.contains i) = true) :
    State.removeLoop items (p :: t) i j np =
      ((State.removeLoop items t (i + 1) (j + 1) np).1, i :: (State.removeLoop items t (i + 1) (j + 1) np).2.1,
       (State.removeLoop items t (i + 1) (j + 1) np).2.2) := by
  rw [State.removeLoop]
  simp only [h, Bool.false_eq_true, ↓reduceIte]

theorem idx_loop (items : List Nat) (rows : List Point) : ∀ (i : Nat) (self : DSelf) (u : AL Nat Nat) (np kc : Nat)
    (r : List Nat) (j : Nat), (∀ x ∈ r, x < i) → (∀ x ∈ keysAL u, x < i) →
    List.foldlM (idxBody items) (self, u, np, kc, r, j) ((rows.zipIdx i).map (fun xi => (xi.2, xi.1)))
      = .ok (addTemp self (State.removeLoop items rows i j np).1, u ++ (State.removeLoop items rows i j np).2.2,
             np + (State.removeLoop items rows i j np).1.length, kc + (State.removeLoop items rows i j np).1.length,
             r ++ (State.removeLoop items rows i j np).2.1, j + (State.removeLoop items rows i j np).2.1.length) := by
  induction rows with
  | nil =>
    intro i self u np kc r j _ _
    simp [State.removeLoop, addTemp_nil, pure, Except.pure]
  | cons p t ih =>
    intro i self u np kc r j hr hu
    simp only [List.zipIdx_cons, List.map_cons, List.foldlM_cons, idxBody_eq, bind, Except.bind]
    by_cases hc : (j == items.length || !items.contains i) = true
    · rw [removeLoop_keep items p t i j np hc]
      simp only [hc, ↓reduceIte]
      by_cases hn : (i != np) = true
      · simp only [hn, ↓reduceIte]
        rw [setItem_fresh u i np hu]
        rw [ih (i + 1) _ _ _ _ _ _ (fun x hx => Nat.lt_succ_of_lt (hr x hx))]
        · simp [addTemp_addTemp]; omega
        · intro x hx
          simp only [keysAL, List.map_append, List.map_cons, List.map_nil, List.mem_append, List.mem_singleton] at hx
          rcases hx with hx | hx
          · exact Nat.lt_succ_of_lt (hu x hx)
          · omega
      · simp only [hn, Bool.false_eq_true, ↓reduceIte]
        rw [ih (i + 1) _ _ _ _ _ _ (fun x hx => Nat.lt_succ_of_lt (hr x hx)) (fun x hx => Nat.lt_succ_of_lt (hu x hx))]
        simp [addTemp_addTemp]; omega
    · rw [removeLoop_drop items p t i j np hc]
      simp only [hc, Bool.false_eq_true, ↓reduceIte]
      rw [setAdd_fresh r i hr]
      rw [ih (i + 1) _ _ _ _ _ _ _ (fun x hx => Nat.lt_succ_of_lt (hu x hx))]
      · simp; omega
      · intro x hx
        simp only [List.mem_append, List.mem_singleton] at hx
        rcases hx with hx | hx
        · exact Nat.lt_succ_of_lt (hr x hx)
        · omega

theorem removeHelper_eq (s : State) (q : Query) (m : Option String) :
    s.removeHelper q m =
      if (s.index.valid && exact q) = true then
        match s.indexSearch q m with
        | .error e => .error e
        | .ok items =>
          if items.isEmpty = true then .ok (s, 0)
          else if (items.length == s.index.numItems) = true then .ok (s.resetDatabase, items.length)
          else .ok (mTail s (State.removeLoop items s.storage 0 0 0))
      else
        match s.storage.mapM (State.scanSel q m) with
        | .error e => .error e
        | .ok flags => .ok (mTail s (State.scanRemoveLoop (s.storage.zip flags) 0 0)) := by
  unfold State.removeHelper mTail
  split
  · simp only [bind, Except.bind, pure, Except.pure]
    cases s.indexSearch q m with
    | error e => rfl
    | ok items =>
      simp only []
      split
      · rfl
      · split
        · rfl
        · split <;> first | rfl | (split <;> rfl)
  · simp only [bind, Except.bind, pure, Except.pure]
    cases s.storage.mapM (State.scanSel q m) with
    | error e => rfl
    | ok flags =>
      simp only []
      split
      · rfl
      · split <;> first | rfl | (split <;> rfl)

theorem remove_helper_eq {Q : Type} (ext : Ext Q) (self : DSelf) (query : Q) (measurement : Option String) :
    _remove_helper ext self query measurement = (do
      if (self._index._valid && ext.index_is_exact query) then do
        if (truthy measurement) then do
          let index_rst ← ext.index_search self._index (ext.qand (ext.meas_eq measurement) query)
          idxCont self index_rst
        else do
          let index_rst ← ext.index_search self._index query
          idxCont self index_rst
      else do
        let (self, updated_items, new_position, keep_count, removed_items) ← List.foldlM (scanBody ext query measurement)
          (self, [], 0, 0, []) (enumerate (Storage.iter self._storage))
        rmTail self updated_items keep_count removed_items) := by
  rfl


/-- one step of the scan loop, given the row's flag -/
def scanStep (b : Bool) (acc : DSelf × AL Nat Nat × Nat × Nat × List Nat) (i : Nat) (p : Point) :
    DSelf × AL Nat Nat × Nat × Nat × List Nat :=
  if b = true then (acc.1, acc.2.1, acc.2.2.1, acc.2.2.2.1, setAdd acc.2.2.2.2 i)
  else (addTemp acc.1 [p], (if (i != acc.2.2.1) = true then setItem acc.2.1 i acc.2.2.1 else acc.2.1),
        acc.2.2.1 + 1, acc.2.2.2.1 + 1, acc.2.2.2.2)

theorem scanBody_eq (q : Query) (m : Option String) (self : DSelf) (u : AL Nat Nat) (np kc : Nat) (r : List Nat)
    (i : Nat) (p : Point) :
    scanBody modelExt q m (self, u, np, kc, r) (i, p) =
      match State.scanSel q m p with
      | .ok b => .ok (scanStep b (self, u, np, kc, r) i p)
      | .error e => .error (errOf e) := by
  unfold scanBody State.scanSel effMeas scanStep
  simp only [Storage._deserialize_measurement, Storage._deserialize_storage_item, Storage.append, modelExt,
    bind, Except.bind, pure, Except.pure]
  cases m with
  | none =>
    simp only [truthy, Option.bind]
    cases eval q p with
    | error e => simp
    | ok b => cases b <;> by_cases hn : (i != np) = true <;> simp [hn, addTemp]
  | some s =>
    by_cases hs : s = ""
    · subst hs
      simp only [truthy, Option.bind]
      cases eval q p with
      | error e => simp
      | ok b => cases b <;> by_cases hn : (i != np) = true <;> simp [hn, addTemp]
    · have : (s != "") = true := by simpa using hs
      have h2 : (s == "") = false := by simpa using hs
      simp only [truthy, Option.bind, this, h2, pyEq]
      by_cases hm : p.meas = s
      · simp only [hm]
        cases eval q p with
        | error e => simp
        | ok b => cases b <;> by_cases hn : (i != np) = true <;> simp [hn, addTemp]
      · have h3 : (p.meas == s) = false := by simpa using hm
        have h4 : (p.meas != s) = true := by simpa using hm
        by_cases hn : (i != np) = true <;> simp [h3, h4, hn, addTemp]

theorem scanRemoveLoop_keep (p : Point) (t : List (Point × Bool)) (i np : Nat) :
    State.scanRemoveLoop ((p, false) :: t) i np =
      (p :: (State.scanRemoveLoop t (i + 1) (np + 1)).1, (State.scanRemoveLoop t (i + 1) (np + 1)).2.1,
       if (i != np) = true then (i, np) :: (State.scanRemoveLoop t (i + 1) (np + 1)).2.2
       else (State.scanRemoveLoop t (i + 1) (np + 1)).2.2) := by
  rw [State.scanRemoveLoop]

theorem scanRemoveLoop_drop (p : Point) (t : List (Point × Bool)) (i np : Nat) :
    State.scanRemoveLoop ((p, true) :: t) i np =
      ((State.scanRemoveLoop t (i + 1) np).1, i :: (State.scanRemoveLoop t (i + 1) np).2.1,
       (State.scanRemoveLoop t (i + 1) np).2.2) := by
  rw [State.scanRemoveLoop]

theorem scan_loop (q : Query) (m : Option String) (rows : List Point) : ∀ (flags : List Bool) (i : Nat) (self : DSelf)
    (u : AL Nat Nat) (np kc : Nat) (r : List Nat), rows.mapM (State.scanSel q m) = .ok flags →
    (∀ x ∈ r, x < i) → (∀ x ∈ keysAL u, x < i) →
    List.foldlM (scanBody modelExt q m) (self, u, np, kc, r) ((rows.zipIdx i).map (fun xi => (xi.2, xi.1)))
      = .ok (addTemp self (State.scanRemoveLoop (rows.zip flags) i np).1,
             u ++ (State.scanRemoveLoop (rows.zip flags) i np).2.2,
             np + (State.scanRemoveLoop (rows.zip flags) i np).1.length,
             kc + (State.scanRemoveLoop (rows.zip flags) i np).1.length,
             r ++ (State.scanRemoveLoop (rows.zip flags) i np).2.1) := by
  induction rows with
  | nil =>
    intro flags i self u np kc r _ _ _
    simp [State.scanRemoveLoop, addTemp_nil, pure, Except.pure]
  | cons p t ih =>
    intro flags i self u np kc r hm hr hu
    rw [List.mapM_cons] at hm
    simp only [bind, Except.bind, pure, Except.pure] at hm
    cases hb : State.scanSel q m p with
    | error e => rw [hb] at hm; cases hm
    | ok b =>
      rw [hb] at hm
      simp only [] at hm
      cases ht : List.mapM (State.scanSel q m) t with
      | error e => rw [ht] at hm; cases hm
      | ok fl =>
        rw [ht] at hm
        simp only [Except.ok.injEq] at hm
        subst hm
        simp only [List.zipIdx_cons, List.map_cons, List.foldlM_cons, scanBody_eq, hb, bind, Except.bind, List.zip_cons_cons]
        cases b with
        | false =>
          rw [scanRemoveLoop_keep]
          simp only [scanStep, Bool.false_eq_true, ↓reduceIte]
          by_cases hn : (i != np) = true
          · simp only [hn, ↓reduceIte]
            rw [setItem_fresh u i np hu]
            rw [ih fl (i + 1) _ _ _ _ _ ht (fun x hx => Nat.lt_succ_of_lt (hr x hx))]
            · simp [addTemp_addTemp]; omega
            · intro x hx
              simp only [keysAL, List.map_append, List.map_cons, List.map_nil, List.mem_append, List.mem_singleton] at hx
              rcases hx with hx | hx
              · exact Nat.lt_succ_of_lt (hu x hx)
              · omega
          · simp only [hn, Bool.false_eq_true, ↓reduceIte]
            rw [ih fl (i + 1) _ _ _ _ _ ht (fun x hx => Nat.lt_succ_of_lt (hr x hx)) (fun x hx => Nat.lt_succ_of_lt (hu x hx))]
            simp [addTemp_addTemp]; omega
        | true =>
          rw [scanRemoveLoop_drop]
          simp only [scanStep, ↓reduceIte]
          rw [setAdd_fresh r i hr]
          rw [ih fl (i + 1) _ _ _ _ _ ht _ (fun x hx => Nat.lt_succ_of_lt (hu x hx))]
          · simp
          · intro x hx
            simp only [List.mem_append, List.mem_singleton] at hx
            rcases hx with hx | hx
            · exact Nat.lt_succ_of_lt (hr x hx)
            · omega

theorem scan_loop_err (q : Query) (m : Option String) (rows : List Point) : ∀ (e : Exc) (i : Nat)
    (acc : DSelf × AL Nat Nat × Nat × Nat × List Nat), rows.mapM (State.scanSel q m) = .error e →
    ∃ e', List.foldlM (scanBody modelExt q m) acc ((rows.zipIdx i).map (fun xi => (xi.2, xi.1))) = .error e' := by
  induction rows with
  | nil => intro e i acc hm; simp [pure, Except.pure] at hm
  | cons p t ih =>
    intro e i acc hm
    obtain ⟨self, u, np, kc, r⟩ := acc
    rw [List.mapM_cons] at hm
    simp only [bind, Except.bind, pure, Except.pure] at hm
    simp only [List.zipIdx_cons, List.map_cons, List.foldlM_cons, scanBody_eq, bind, Except.bind]
    cases hb : State.scanSel q m p with
    | error e2 => exact ⟨_, rfl⟩
    | ok b =>
      rw [hb] at hm
      simp only [] at hm
      cases ht : List.mapM (State.scanSel q m) t with
      | error e2 => exact ih e2 (i + 1) _ ht
      | ok fl => rw [ht] at hm; cases hm

theorem removeLoop_length (items : List Nat) (rows : List Point) : ∀ (i j np : Nat),
    (State.removeLoop items rows i j np).2.1.length + (State.removeLoop items rows i j np).1.length = rows.length := by
  induction rows with
  | nil => intro i j np; simp [State.removeLoop]
  | cons p t ih =>
    intro i j np
    by_cases hc : (j == items.length || !items.contains i) = true
    · rw [removeLoop_keep items p t i j np hc]
      have := ih (i + 1) j (np + 1)
      simp only [List.length_cons]; omega
    · rw [removeLoop_drop items p t i j np hc]
      have := ih (i + 1) (j + 1) np
      simp only [List.length_cons]; omega

theorem scanRemoveLoop_length (l : List (Point × Bool)) : ∀ (i np : Nat),
    (State.scanRemoveLoop l i np).2.1.length + (State.scanRemoveLoop l i np).1.length = l.length := by
  induction l with
  | nil => intro i np; simp [State.scanRemoveLoop]
  | cons pb t ih =>
    intro i np
    obtain ⟨p, b⟩ := pb
    cases b with
    | false =>
      rw [scanRemoveLoop_keep]
      have := ih (i + 1) (np + 1)
      simp only [List.length_cons]; omega
    | true =>
      rw [scanRemoveLoop_drop]
      have := ih (i + 1) np
      simp only [List.length_cons]; omega

/-- the Model's continuation after the index search -/
def mIdx (s : State) (items : List Nat) : State × Nat :=
  if items.isEmpty = true then (s, 0)
  else if (items.length == s.index.numItems) = true then (s.resetDatabase, items.length)
  else mTail s (State.removeLoop items s.storage 0 0 0)

theorem idxCont_ok (norm : Point → Point) (g : DSelf) (items : List Nat) (c : Nat)
    (hg : GWF g._index) (htemp : g._storage._temp = [])
    (hlen : g._auto_index = true → g._index._num_items = g._storage._items.length) :
    ∃ g', idxCont g { _items := items, _index_count := c } = .ok (g', (mIdx (absDB norm g) items).2)
      ∧ StateEq (absDB norm g') (mIdx (absDB norm g) items).1 ∧ GWF g'._index := by
  unfold idxCont mIdx
  have hL : IndexImpl.__len__ g._index = .ok g._index._num_items := rfl
  simp only [truthy, Py.Typed.len, hL, reset_database_eq, bind, Except.bind, pure, Except.pure, enumerate, Storage.iter]
  by_cases h1 : items = []
  · subst h1
    exact ⟨g, by simp, by simp only [List.isEmpty_nil, ↓reduceIte]; exact stateEq_refl _, hg⟩
  · have h1' : items.isEmpty = false := by simpa using h1
    simp only [h1', Bool.not_false, Bool.not_true, Bool.false_eq_true, ↓reduceIte]
    by_cases h2 : (items.length == g._index._num_items) = true
    · have h2' : (items.length == (absDB norm g).index.numItems) = true := h2
      simp only [h2, h2', ↓reduceIte]
      refine ⟨resetG g, rfl, ?_, gwf_init _⟩
      refine ⟨rfl, rfl, ?_⟩
      cases h : g._auto_index <;>
        simp [resetG, absDB, State.resetDatabase, h, abs_init, Index.invalidate, Index.reset, idxEq_refl]
    · have h2' : ¬ (items.length == (absDB norm g).index.numItems) = true := h2
      simp only [h2, h2', Bool.false_eq_true, ↓reduceIte]
      have hloop := idx_loop items g._storage._items 0 g [] 0 0 [] 0 (by simp) (by simp [keysAL])
      rw [hloop]
      simp only [List.nil_append, Nat.zero_add]
      have hs : (absDB norm g).storage = g._storage._items := rfl
      rw [hs]
      apply tail_ok norm g _ hg htemp
      intro ha
      have := removeLoop_length items g._storage._items 0 0 0
      rw [hlen ha]; omega

/-- the query handed to `Index.search` on the index path -/
def idxQuery (q : Query) (m : Option String) : Query :=
  if truthy m = true then modelExt.qand (modelExt.meas_eq m) q else q

theorem indexSearch_eq (norm : Point → Point) (g : DSelf) (q : Query) (m : Option String) :
    (absDB norm g).indexSearch q m = (abs g._index).search (idxQuery q m) := by
  unfold State.indexSearch effMeas idxQuery
  cases m with
  | none => simp [truthy, absDB]
  | some s =>
    by_cases hs : s = ""
    · subst hs; simp [truthy, absDB]
    · have h1 : (s != "") = true := by simpa using hs
      have h2 : (s == "") = false := by simpa using hs
      simp [truthy, absDB, h1, hs, modelExt]

theorem idx_path_ok (norm : Point → Point) (g : DSelf) (q' : Query)
    (hg : GWF g._index) (htemp : g._storage._temp = [])
    (hlen : g._auto_index = true → g._index._num_items = g._storage._items.length) :
    match (abs g._index).search q' with
    | .ok items => ∃ g', (modelExt.index_search g._index q' >>= idxCont g) = .ok (g', (mIdx (absDB norm g) items).2)
        ∧ StateEq (absDB norm g') (mIdx (absDB norm g) items).1 ∧ GWF g'._index
    | .error _ => ∃ e', (modelExt.index_search g._index q' >>= idxCont g) = .error e' := by
  cases hsr : (abs g._index).search q' with
  | error e =>
    refine ⟨errOf e, ?_⟩
    simp only [modelExt, hsr, bind, Except.bind]
  | ok items =>
    simp only [modelExt, hsr, bind, Except.bind]
    exact idxCont_ok norm g items _ hg htemp hlen

theorem reset_database_ok (norm : Point → Point) (g : DSelf) :
    ∃ g', DatabaseImpl._reset_database g = .ok g' ∧ absDB norm g' = (absDB norm g).resetDatabase
      ∧ g'._storage._temp = g._storage._temp ∧ GWF g'._index := by
  refine ⟨_, reset_database_eq g, ?_, rfl, gwf_init _⟩
  cases h : g._auto_index <;>
    simp [resetG, absDB, State.resetDatabase, h, abs_init, Index.invalidate, Index.reset]

theorem remove_helper_ok (norm : Point → Point) (g : DSelf) (q : Query) (m : Option String)
    (hg : GWF g._index) (htemp : g._storage._temp = [])
    (hlen : g._auto_index = true → g._index._num_items = g._storage._items.length) :
    match (absDB norm g).removeHelper q m with
    | .ok (s', n) => ∃ g', DatabaseImpl._remove_helper modelExt g q m = .ok (g', n) ∧ StateEq (absDB norm g') s'
        ∧ GWF g'._index
    | .error _ => ∃ e', DatabaseImpl._remove_helper modelExt g q m = .error e' := by
  rw [removeHelper_eq, remove_helper_eq]
  have hv : (absDB norm g).index.valid = g._index._valid := rfl
  have hx : modelExt.index_is_exact q = exact q := rfl
  rw [hv, hx]
  by_cases hc : (g._index._valid && exact q) = true
  · simp only [hc, ↓reduceIte]
    rw [indexSearch_eq]
    have key := idx_path_ok norm g (idxQuery q m) hg htemp hlen
    have hgen : (if truthy m = true then (modelExt.index_search g._index (modelExt.qand (modelExt.meas_eq m) q) >>= idxCont g)
        else (modelExt.index_search g._index q >>= idxCont g))
        = (modelExt.index_search g._index (idxQuery q m) >>= idxCont g) := by
      unfold idxQuery; split <;> rfl
    have hgen' : (if truthy m = true then (do
          let index_rst ← modelExt.index_search g._index (modelExt.qand (modelExt.meas_eq m) q)
          idxCont g index_rst)
        else (do
          let index_rst ← modelExt.index_search g._index q
          idxCont g index_rst)) = (modelExt.index_search g._index (idxQuery q m) >>= idxCont g) := hgen
    rw [hgen']
    cases hsr : (abs g._index).search (idxQuery q m) with
    | error e => rw [hsr] at key; exact key
    | ok items =>
      rw [hsr] at key
      simp only [] at key ⊢
      have hm : (if items.isEmpty = true then (Except.ok (absDB norm g, 0) : Except Exc (State × Nat))
          else if (items.length == (absDB norm g).index.numItems) = true then
            Except.ok ((absDB norm g).resetDatabase, items.length)
          else Except.ok (mTail (absDB norm g) (State.removeLoop items (absDB norm g).storage 0 0 0)))
          = .ok (mIdx (absDB norm g) items) := by
        unfold mIdx; split
        · rfl
        · split <;> rfl
      rw [hm]
      exact key
  · simp only [hc, Bool.false_eq_true, ↓reduceIte]
    have hs : (absDB norm g).storage = g._storage._items := rfl
    rw [hs]
    simp only [enumerate, Storage.iter]
    cases hmm : List.mapM (State.scanSel q m) g._storage._items with
    | error e =>
      obtain ⟨e', he⟩ := scan_loop_err q m g._storage._items e 0 (g, [], 0, 0, []) hmm
      refine ⟨e', ?_⟩
      simp only [he, bind, Except.bind]
    | ok flags =>
      have hloop := scan_loop q m g._storage._items flags 0 g [] 0 0 [] hmm (by simp) (by simp [keysAL])
      simp only [hloop, bind, Except.bind, List.nil_append, Nat.zero_add]
      apply tail_ok norm g _ hg htemp
      intro ha
      have h1 := scanRemoveLoop_length (g._storage._items.zip flags) 0 0
      have h2 : (g._storage._items.zip flags).length ≤ g._storage._items.length := by
        rw [List.length_zip]; exact Nat.min_le_left _ _
      rw [hlen ha]; omega

end TinyFlux.Mirror
