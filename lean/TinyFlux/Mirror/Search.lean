import TinyFlux.Mirror.Defs
import TinyFlux.Lemmas.PMapLemmas
import TinyFlux.Lemmas.SearchAux
/-!
# Mirror theorems, part G: the leaf searches of the translated `Index`

`_search_measurement`, `_search_tags`, `_search_fields` as translated from index.py, run on the query object of a
Model leaf query, return the set of positions the Model's `searchMeas / searchTags / searchFields` return on the
`abs`-read state (as duplicate-free lists with the same members: a Python `set` has no order).

`measQuery / tagQuery / fieldQuery` say what the index sees of a query object (queries.py, tied by the C09
correspondence): `_path_resolver` looks the key up in the one-entry dict it is handed (`KeyError` for another key),
applies the `map` functions of the path (any exception is caught by the caller), `_test` is the test of the leaf that
remains.
-/
namespace TinyFlux.Mirror
open TinyFlux.Model TinyFlux.Spec TinyFlux.Py.Typed
open TinyFlux.Generated

/-- the leaf that remains after the `map` functions of the path -/
def stripMaps : Leaf → Leaf
  | .map _ t => stripMaps t
  | l => l

def resolver (l : Leaf) (v : PyV) : Except Unit PyV :=
  match resolveMaps l v with
  | .ok (_, v') => .ok v'
  | .error _ => .error ()

def testOf (l : Leaf) (v : PyV) : M Bool :=
  match testLeaf (stripMaps l) v with
  | .ok b => .ok b
  | .error _ => .error .typeError

def measQuery (l : Leaf) : SimpleQuery :=
  { _path_resolver := fun a => match a with | .meas s => resolver l (.str s) | _ => .error ()
    _test := testOf l }
def tagQuery (k : String) (l : Leaf) : SimpleQuery :=
  { _path_resolver := fun a => match a with
      | .tag k' v => if k' == k then resolver l (ofOptStr v) else .error ()
      | _ => .error ()
    _test := testOf l }
def fieldQuery (k : String) (l : Leaf) : SimpleQuery :=
  { _path_resolver := fun a => match a with
      | .field k' v => if k' == k then resolver l (ofOptNum v) else .error ()
      | _ => .error ()
    _test := testOf l }

/-- same members, no duplicates: equal as Python sets -/
def SameSet (a b : List Nat) : Prop := a.Nodup ∧ b.Nodup ∧ ∀ x, x ∈ a ↔ x ∈ b

/-! ## helpers -/

theorem resolveMaps_strip (l : Leaf) (v : PyV) (l' : Leaf) (v' : PyV)
    (h : resolveMaps l v = .ok (l', v')) : l' = stripMaps l ∧ ∀ g t, l' ≠ .map g t := by
  induction l generalizing v with
  | map g t ih =>
    simp only [resolveMaps] at h
    split at h
    · simpa [stripMaps] using ih _ h
    · cases h
  | _ =>
    simp only [resolveMaps, pure, Except.pure, Except.ok.injEq, Prod.mk.injEq] at h
    obtain ⟨rfl, rfl⟩ := h
    simp [stripMaps]

theorem testLeaf_ok (l : Leaf) (hl : ∀ g t, l ≠ .map g t) (v : PyV) : ∃ b, testLeaf l v = .ok b := by
  cases l with
  | map g t => exact absurd rfl (hl g t)
  | cmp c rhs => simp only [testLeaf]; split <;> simp [pure, Except.pure]
  | regex r => cases v <;> simp [testLeaf, pure, Except.pure]
  | _ => simp [testLeaf, pure, Except.pure]

def hit (l : Leaf) (v : PyV) : Bool := match callOn l v with | .ok b => b | .error _ => false

theorem callOn_eq (l : Leaf) (v : PyV) :
    callOn l v = .ok (hit l v) ∧
    ((resolver l v = .error () ∧ hit l v = false) ∨
      ∃ v', resolver l v = .ok v' ∧ testOf l v' = .ok (hit l v)) := by
  unfold hit callOn resolver testOf
  cases h : resolveMaps l v with
  | error e => simp [pure, Except.pure]
  | ok p =>
    obtain ⟨l', v'⟩ := p
    obtain ⟨h1, h2⟩ := resolveMaps_strip l v l' v' h
    obtain ⟨b, hb⟩ := testLeaf_ok l' h2 v'
    subst h1
    simp [hb]

/-- one step of the generated loops -/
theorem step_eq (q : SimpleQuery) (a : PathArg) (l : Leaf) (v : PyV) (f : List Nat → List Nat) (acc : List Nat)
    (hr : q._path_resolver a = resolver l v) (ht : q._test = testOf l) :
    (match q._path_resolver a with
      | .error _ => (pure acc : M (List Nat))
      | .ok test_value => do
        let t ← q._test test_value
        if truthy t = true then pure (f acc) else pure acc) = .ok (if hit l v then f acc else acc) := by
  rw [hr, ht]
  obtain ⟨_, h | ⟨v', h1, h2⟩⟩ := callOn_eq l v
  · simp [h.1, h.2, pure, Except.pure]
  · simp only [h1, h2, bind, Except.bind, pure, Except.pure, truthy, id]
    split <;> rfl

theorem foldlM_ok {α β : Type} (f : β → α → M β) (g : β → α → β) (h : ∀ b a, f b a = .ok (g b a))
    (l : List α) (b : β) : l.foldlM f b = .ok (l.foldl g b) := by
  induction l generalizing b with
  | nil => rfl
  | cons x t ih => simp [List.foldlM_cons, h, bind, Except.bind, ih]

theorem mem_setUnion (a b : List Nat) (x : Nat) : x ∈ setUnion a b ↔ x ∈ a ∨ x ∈ b := by
  simp [setUnion, mem_dedup]

theorem nodup_setUnion (a b : List Nat) : (setUnion a b).Nodup := nodup_dedup _

theorem mem_mkSet (a : List Nat) (x : Nat) : x ∈ mkSet a ↔ x ∈ a := by simp [mkSet, mem_dedup]

theorem fold_mem {α : Type} (g : List Nat → α → List Nat) (P : α → Nat → Prop)
    (hm : ∀ acc e x, x ∈ g acc e ↔ x ∈ acc ∨ P e x)
    (l : List α) (acc : List Nat) (x : Nat) :
    x ∈ l.foldl g acc ↔ x ∈ acc ∨ ∃ e ∈ l, P e x := by
  induction l generalizing acc with
  | nil => simp
  | cons e t ih =>
    simp only [List.foldl_cons]
    rw [ih, hm]
    simp only [List.mem_cons, exists_eq_or_imp, or_assoc]

theorem fold_nodup {α : Type} (g : List Nat → α → List Nat)
    (hn : ∀ acc e, acc.Nodup → (g acc e).Nodup)
    (l : List α) (acc : List Nat) (hacc : acc.Nodup) : (l.foldl g acc).Nodup := by
  induction l generalizing acc with
  | nil => exact hacc
  | cons e t ih => exact ih _ (hn acc e hacc)

theorem step_eq_c (q : SimpleQuery) (a : PathArg) (c : Bool) (l : Leaf) (v : PyV) (f : List Nat → List Nat)
    (acc : List Nat)
    (hr : q._path_resolver a = if c then resolver l v else .error ()) (ht : q._test = testOf l) :
    (match q._path_resolver a with
      | .error _ => (pure acc : M (List Nat))
      | .ok test_value => do
        let t ← q._test test_value
        if truthy t = true then pure (f acc) else pure acc) = .ok (if c && hit l v then f acc else acc) := by
  cases c with
  | true => simpa using step_eq q a l v f acc (by simpa using hr) ht
  | false =>
    simp only [Bool.false_eq_true, if_false] at hr
    rw [hr]; rfl

theorem mem_setAdd (s : List Nat) (i x : Nat) : x ∈ setAdd s i ↔ x ∈ s ∨ x = i := by
  unfold setAdd
  split
  · rename_i h
    have : i ∈ s := by simpa using h
    constructor
    · exact Or.inl
    · rintro (h | rfl)
      · exact h
      · exact this
  · simp

theorem nodup_setAdd (s : List Nat) (i : Nat) (hs : s.Nodup) : (setAdd s i).Nodup := by
  unfold setAdd
  split
  · exact hs
  · rename_i h
    have : i ∉ s := by simpa using h
    rw [List.nodup_append]
    refine ⟨hs, by simp, ?_⟩
    intro a ha b hb
    simp at hb; subst hb; intro e; subst e; exact this ha

/-! ## the three searches -/

set_option linter.unusedVariables false in
theorem search_measurement_ok (g : GSelf) (hg : GWF g) (l : Leaf) :
    ∃ r r', IndexImpl._search_measurement g (measQuery l) = .ok r ∧ (abs g).searchMeas l = .ok r' ∧ SameSet r r' := by
  have hgen : IndexImpl._search_measurement g (measQuery l) = .ok
      (g._measurements.foldl (fun acc e => if hit l (.str e.1) then setUnion acc (mkSet e.2) else acc) []) := by
    unfold IndexImpl._search_measurement
    simp only [items]
    rw [foldlM_ok (g := fun acc e => if hit l (.str e.1) then setUnion acc (mkSet e.2) else acc)]
    · intro b a
      exact step_eq (measQuery l) (toArg a.1) l (.str a.1) (fun acc => setUnion acc (mkSet a.2)) b rfl rfl
  have hmod : (abs g).searchMeas l = .ok (dedup ((absMeas g._measurements).map
      (fun kv => if hit l (.str kv.1) then kv.2.map (·.1) else [])).flatten) := by
    unfold Index.searchMeas
    rw [mapM_ok_s (g := fun kv => if hit l (.str kv.1) then kv.2.map (·.1) else [])]
    · rfl
    · intro kv _
      simp only [(callOn_eq l (.str kv.1)).1, bind, Except.bind, pure, Except.pure]
      split <;> rfl
  refine ⟨_, _, hgen, hmod, ?_⟩
  have h1 := fold_nodup (fun acc (e : String × List Nat) => if hit l (.str e.1) then setUnion acc (mkSet e.2) else acc)
    (by
      intro acc e hacc; split
      · exact nodup_setUnion _ _
      · exact hacc) g._measurements [] List.nodup_nil
  have h2 := fold_mem (fun acc (e : String × List Nat) => if hit l (.str e.1) then setUnion acc (mkSet e.2) else acc)
    (fun e x => hit l (.str e.1) = true ∧ x ∈ e.2) (by
      intro acc e x; split
      · rename_i h; simp [mem_setUnion, mem_mkSet, h]
      · rename_i h; simp [h]) g._measurements []
  refine ⟨h1, nodup_dedup _, fun x => ?_⟩
  rw [h2, mem_dedup]
  simp only [List.not_mem_nil, false_or, List.mem_flatten, List.mem_map, absMeas, unitP]
  constructor
  · rintro ⟨e, he, hh, hx⟩
    refine ⟨_, ⟨_, ⟨e, he, rfl⟩, rfl⟩, ?_⟩
    simp [hh, hx]
  · rintro ⟨_, ⟨_, ⟨e, he, rfl⟩, rfl⟩, hx⟩
    refine ⟨e, he, ?_⟩
    dsimp only at hx
    split at hx
    · rename_i hh; exact ⟨hh, by simpa using hx⟩
    · simp at hx

set_option linter.unusedVariables false in
theorem search_tags_ok (g : GSelf) (hg : GWF g) (k : String) (l : Leaf) :
    ∃ r r', IndexImpl._search_tags g (tagQuery k l) = .ok r ∧ (abs g).searchTags k l = .ok r' ∧ SameSet r r' := by
  have hgen : IndexImpl._search_tags g (tagQuery k l) = .ok
      (g._tags.foldl (fun acc e => e.2.foldl (fun acc (vl : Option String × List Nat) =>
        if (e.1 == k && hit l (ofOptStr vl.1)) then setUnion acc (mkSet vl.2) else acc) acc) []) := by
    unfold IndexImpl._search_tags
    simp only [items]
    rw [foldlM_ok (g := fun acc e => e.2.foldl (fun acc (vl : Option String × List Nat) =>
        if (e.1 == k && hit l (ofOptStr vl.1)) then setUnion acc (mkSet vl.2) else acc) acc)]
    intro b a
    exact foldlM_ok _ _ (fun b' (vl : Option String × List Nat) =>
      step_eq_c (tagQuery k l) (entryArg a.1 vl.1) (a.1 == k) l
      (ofOptStr vl.1) (fun acc => setUnion acc (mkSet vl.2)) b' rfl rfl) _ _
  have hmod : (abs g).searchTags k l = .ok (dedup ((flatTags g._tags).map
      (fun (kv : (String × Option String) × List (Nat × Unit)) =>
        if kv.1.1 == k then (if hit l (ofOptStr kv.1.2) then kv.2.map (·.1) else []) else [])).flatten) := by
    unfold Index.searchTags
    rw [mapM_ok_s (g := fun (kv : (String × Option String) × List (Nat × Unit)) =>
        if kv.1.1 == k then (if hit l (ofOptStr kv.1.2) then kv.2.map (·.1) else []) else [])]
    · rfl
    · intro kv _
      simp only [(callOn_eq l (ofOptStr kv.1.2)).1, bind, Except.bind, pure, Except.pure]
      split
      · split <;> rfl
      · rfl
  refine ⟨_, _, hgen, hmod, ?_⟩
  have h1 := fold_nodup (fun acc (e : String × AL (Option String) (List Nat)) =>
      e.2.foldl (fun acc (vl : Option String × List Nat) =>
        if (e.1 == k && hit l (ofOptStr vl.1)) then setUnion acc (mkSet vl.2) else acc) acc)
    (fun acc e hacc => fold_nodup _ (by
        intro acc vl hacc; split
        · exact nodup_setUnion _ _
        · exact hacc) e.2 acc hacc) g._tags [] List.nodup_nil
  have h2 := fold_mem (fun acc (e : String × AL (Option String) (List Nat)) =>
      e.2.foldl (fun acc (vl : Option String × List Nat) =>
        if (e.1 == k && hit l (ofOptStr vl.1)) then setUnion acc (mkSet vl.2) else acc) acc)
    (fun e x => ∃ vl ∈ e.2, (e.1 == k && hit l (ofOptStr vl.1)) = true ∧ x ∈ vl.2)
    (fun acc e x => fold_mem _ (fun vl x => (e.1 == k && hit l (ofOptStr vl.1)) = true ∧ x ∈ vl.2) (by
        intro acc vl x; split
        · rename_i h; simp [mem_setUnion, mem_mkSet, h]
        · rename_i h; simp [h]) e.2 acc x) g._tags []
  refine ⟨h1, nodup_dedup _, fun x => ?_⟩
  rw [h2, mem_dedup]
  simp only [List.not_mem_nil, false_or, List.mem_flatten, List.mem_map, flatTags, List.mem_flatMap,
    Bool.and_eq_true, beq_iff_eq, unitP]
  constructor
  · rintro ⟨e, he, vl, hvl, ⟨hk, hh⟩, hx⟩
    refine ⟨_, ⟨_, ⟨e, he, vl, hvl, rfl⟩, rfl⟩, ?_⟩
    simp [hk, hh, hx]
  · rintro ⟨_, ⟨_, ⟨e, he, vl, hvl, rfl⟩, rfl⟩, hx⟩
    refine ⟨e, he, vl, hvl, ?_⟩
    dsimp only at hx
    split at hx
    · rename_i hk
      split at hx
      · rename_i hh; exact ⟨⟨hk, hh⟩, by simpa using hx⟩
      · simp at hx
    · simp at hx

theorem search_fields_ok (g : GSelf) (hg : GWF g) (k : String) (l : Leaf) :
    ∃ r r', IndexImpl._search_fields g (fieldQuery k l) = .ok r ∧ (abs g).searchFields k l = .ok r' ∧ SameSet r r' := by
  have hgen : IndexImpl._search_fields g (fieldQuery k l) = .ok
      (g._fields.foldl (fun acc e => e.2.foldl (fun acc (ip : Nat × Option Num) =>
        if (e.1 == k && hit l (ofOptNum ip.2)) then setAdd acc ip.1 else acc) acc) []) := by
    unfold IndexImpl._search_fields
    simp only [items]
    rw [foldlM_ok (g := fun acc e => e.2.foldl (fun acc (ip : Nat × Option Num) =>
        if (e.1 == k && hit l (ofOptNum ip.2)) then setAdd acc ip.1 else acc) acc)]
    intro b a
    exact foldlM_ok _ _ (fun b' (ip : Nat × Option Num) => step_eq_c (fieldQuery k l) (entryArg a.1 ip.2) (a.1 == k) l
      (ofOptNum ip.2) (fun acc => setAdd acc ip.1) b' rfl rfl) _ _
  have hmod : (abs g).searchFields k l = .ok (dedup ((PMap.posting g._fields k).filterMap
      (fun (ip : Nat × Option Num) => if hit l (ofOptNum ip.2) then some ip.1 else none))) := by
    unfold Index.searchFields
    rw [filterMapM_ok_s (g := fun (ip : Nat × Option Num) => if hit l (ofOptNum ip.2) then some ip.1 else none)]
    · rfl
    · intro ip _
      simp only [(callOn_eq l (ofOptNum ip.2)).1, bind, Except.bind, pure, Except.pure]
      split <;> rfl
  refine ⟨_, _, hgen, hmod, ?_⟩
  have h1 := fold_nodup (fun acc (e : String × List (Nat × Option Num)) =>
      e.2.foldl (fun acc (ip : Nat × Option Num) =>
        if (e.1 == k && hit l (ofOptNum ip.2)) then setAdd acc ip.1 else acc) acc)
    (fun acc e hacc => fold_nodup _ (by
        intro acc ip hacc; split
        · exact nodup_setAdd _ _ hacc
        · exact hacc) e.2 acc hacc) g._fields [] List.nodup_nil
  have h2 := fold_mem (fun acc (e : String × List (Nat × Option Num)) =>
      e.2.foldl (fun acc (ip : Nat × Option Num) =>
        if (e.1 == k && hit l (ofOptNum ip.2)) then setAdd acc ip.1 else acc) acc)
    (fun e x => ∃ ip ∈ e.2, (e.1 == k && hit l (ofOptNum ip.2)) = true ∧ x = ip.1)
    (fun acc e x => fold_mem _ (fun ip x => (e.1 == k && hit l (ofOptNum ip.2)) = true ∧ x = ip.1) (by
        intro acc ip x; split
        · rename_i h; simp [mem_setAdd, h]
        · rename_i h; simp [h]) e.2 acc x) g._fields []
  refine ⟨h1, nodup_dedup _, fun x => ?_⟩
  rw [h2, mem_dedup]
  simp only [List.not_mem_nil, false_or, List.mem_filterMap, PMap.posting, Bool.and_eq_true, beq_iff_eq]
  constructor
  · rintro ⟨e, he, ip, hip, ⟨hk, hh⟩, rfl⟩
    obtain ⟨k', v⟩ := e
    dsimp only at hk hip hh
    subst hk
    rw [lookup_of_mem _ hg.fields _ _ he]
    exact ⟨ip, hip, by simp [hh]⟩
  · rintro ⟨ip, hip, hx⟩
    cases hl : lookupAL k g._fields with
    | none => simp [hl] at hip
    | some v =>
      rw [hl] at hip
      refine ⟨(k, v), mem_of_lookup _ _ _ hl, ip, hip, ?_⟩
      split at hx
      · rename_i hh; simp at hx; exact ⟨⟨rfl, hh⟩, hx.symm⟩
      · simp at hx

end TinyFlux.Mirror
