import TinyFlux.Mirror.Defs
import TinyFlux.Lemmas.PMapLemmas
/-!
# Mirror theorems, part D: the two-level `_tags` dict — `_insert_tags`, `_remove_tags`, `_update_tags`

The Model keeps `_tags` flattened to (key, value) pairs. Posting lists of the flattened generated dict are
those of the Model's operation on the flattened dict; the order of the flattened keys may differ.
-/
namespace TinyFlux.Mirror
open TinyFlux.Model TinyFlux.Spec TinyFlux.Py.Typed
open TinyFlux.Generated

section ALX
variable {K V : Type} [BEq K] [LawfulBEq K]

omit [LawfulBEq K] in
theorem lookupAL_append (k : K) (a b : AL K V) :
    lookupAL k (a ++ b) = (lookupAL k a).orElse (fun _ => lookupAL k b) := by
  induction a with
  | nil => simp [lookupAL]
  | cons hd t ih =>
    obtain ⟨k', v⟩ := hd
    by_cases hk : (k' == k) = true
    · simp [lookupAL, hk]
    · simp [lookupAL, hk, ih]

theorem lookupAL_eq_none_iff (k : K) (l : AL K V) : lookupAL k l = none ↔ k ∉ keysAL l := by
  induction l with
  | nil => simp [lookupAL, keysAL]
  | cons hd t ih =>
    obtain ⟨k', v⟩ := hd
    by_cases hk : k' = k
    · subst hk; simp [lookupAL, keysAL]
    · have h1 : (k' == k) = false := by simpa using hk
      have h2 : ¬ k = k' := fun e => hk e.symm
      simp only [lookupAL, h1, keysAL, List.map_cons, List.mem_cons, h2, false_or] at ih ⊢
      simpa using ih
end ALX

theorem lookup_flat_inner (k' : String) (d : AL (Option String) (List Nat)) (k : String) (v : Option String) :
    lookupAL (k, v) (d.map (fun vl => ((k', vl.1), unitP vl.2)))
      = if k' = k then (lookupAL v d).map unitP else none := by
  induction d with
  | nil => simp [lookupAL]
  | cons hd t ih =>
    obtain ⟨v', l⟩ := hd
    by_cases hk : k' = k
    · subst hk
      by_cases hv : v' = v
      · subst hv; simp [lookupAL]
      · simp [lookupAL, hv] at ih ⊢; exact ih
    · simp [lookupAL, hk] at ih ⊢; exact ih

theorem lookup_flat (t : AL String (AL (Option String) (List Nat))) (ht : (keysAL t).Nodup)
    (k : String) (v : Option String) :
    lookupAL (k, v) (flatTags t) = (lookupAL k t).bind (fun d => (lookupAL v d).map unitP) := by
  induction t with
  | nil => simp [flatTags, lookupAL]
  | cons hd t ih =>
    obtain ⟨k', d⟩ := hd
    have hnd : k' ∉ keysAL t ∧ (keysAL t).Nodup := by simpa [keysAL] using ht
    have ih' := ih hnd.2
    have hcons : flatTags ((k', d) :: t) = d.map (fun vl => ((k', vl.1), unitP vl.2)) ++ flatTags t := by
      simp [flatTags]
    rw [hcons, lookupAL_append, lookup_flat_inner, ih']
    by_cases hk : k' = k
    · subst hk
      have hn : lookupAL k' t = none := lookup_none_of_not_mem _ _ hnd.1
      simp [lookupAL, hn]
    · simp [lookupAL, hk]

theorem flatTags_cons (k' : String) (d : AL (Option String) (List Nat)) (t) :
    flatTags ((k', d) :: t) = d.map (fun vl => ((k', vl.1), unitP vl.2)) ++ flatTags t := by
  simp [flatTags]

theorem mem_keys_flat (t : AL String (AL (Option String) (List Nat))) (k : String) (v : Option String)
    (h : (k, v) ∈ keysAL (flatTags t)) : k ∈ keysAL t := by
  simp only [keysAL, flatTags, List.mem_map, List.mem_flatMap] at h ⊢
  obtain ⟨⟨kv, ps⟩, ⟨kd, hkd, hm⟩, he⟩ := h
  obtain ⟨vl, _, hvl⟩ := hm
  refine ⟨kd, hkd, ?_⟩
  cases hvl; cases he; rfl

theorem wfmap_flat (t : AL String (AL (Option String) (List Nat))) (ht : TagsWF t) : WFMap (flatTags t) := by
  constructor
  · obtain ⟨h1, h2⟩ := ht
    induction t with
    | nil => simp [flatTags, keysAL]
    | cons hd t ih =>
      obtain ⟨k', d⟩ := hd
      have hnd : k' ∉ keysAL t ∧ (keysAL t).Nodup := by simpa [keysAL] using h1
      have ih' := ih hnd.2 (fun kd h => h2 kd (List.mem_cons_of_mem _ h))
      have hd := (h2 (k', d) List.mem_cons_self).1
      rw [flatTags_cons]
      have hk : keysAL (d.map (fun vl => ((k', vl.1), unitP vl.2)) ++ flatTags t)
          = (keysAL d).map (fun v => (k', v)) ++ keysAL (flatTags t) := by
        simp [keysAL, List.map_map, Function.comp_def]
      rw [hk, List.nodup_append]
      refine ⟨?_, ih', ?_⟩
      · exact List.Pairwise.map _ (by intro a b h e; cases e; exact h rfl) hd
      · intro a ha b hb e
        subst e
        obtain ⟨v, _, rfl⟩ := List.mem_map.mp ha
        exact hnd.1 (mem_keys_flat t k' v hb)
  · intro kv hkv
    simp only [flatTags, List.mem_flatMap, List.mem_map] at hkv
    obtain ⟨kd, hkd, vl, hvl, rfl⟩ := hkv
    have := (ht.2 kd hkd).2 vl hvl
    simpa [unitP] using this

/-- the posting list stored under `(k, v)` of a two-level dict -/
def lookup2 (t : AL String (AL (Option String) (List Nat))) (k : String) (v : Option String) : List Nat :=
  (lookupAL v ((lookupAL k t).getD [])).getD []


theorem posting_flat (t : AL String (AL (Option String) (List Nat))) (ht : (keysAL t).Nodup)
    (k : String) (v : Option String) :
    PMap.posting (flatTags t) (k, v) = unitP (lookup2 t k v) := by
  unfold PMap.posting lookup2
  rw [lookup_flat t ht]
  cases h1 : lookupAL k t with
  | none => simp [lookupAL, unitP]
  | some d =>
    cases h2 : lookupAL v d with
    | none => simp [h2, unitP]
    | some l => simp [h2]

section ALY
variable {K V : Type} [BEq K] [LawfulBEq K]

omit [LawfulBEq K] in
theorem alterAL_absent (k : K) (d : V) (f : V → V) (l : AL K V) (h : lookupAL k l = none) :
    alterAL k d f l = l ++ [(k, f d)] := by
  induction l with
  | nil => simp [alterAL]
  | cons hd t ih =>
    obtain ⟨k', v⟩ := hd
    by_cases hk : (k' == k) = true
    · simp [lookupAL, hk] at h
    · simp only [lookupAL, hk] at h
      simp [alterAL, hk, ih h]

omit [LawfulBEq K] in
/-- an in-place change of a present key is an `alterAL` -/
theorem updItem_alter (l : AL K V) (k : K) (f : V → M V) (g : V → V) (dflt v : V)
    (h : lookupAL k l = some v) (hf : f v = .ok (g v)) :
    updItem l k f = .ok (alterAL k dflt g l) := by
  induction l with
  | nil => simp [lookupAL] at h
  | cons hd t ih =>
    obtain ⟨k', v'⟩ := hd
    by_cases hk : (k' == k) = true
    · simp only [lookupAL, hk, ↓reduceIte, Option.some.injEq] at h
      subst h
      simp [updItem, alterAL, hk, hf, bind, Except.bind, pure, Except.pure]
    · simp only [lookupAL, hk] at h
      simp [updItem, alterAL, hk, ih h, bind, Except.bind, pure, Except.pure]

omit [LawfulBEq K] in
theorem alterAL_all' (Q : V → Prop) (k : K) (d : V) (f : V → V) (hd : Q (f d)) (hf : ∀ v, Q v → Q (f v))
    (l : AL K V) (hl : ∀ kv ∈ l, Q kv.2) : ∀ kv ∈ alterAL k d f l, Q kv.2 := by
  induction l with
  | nil => intro kv hkv; simp [alterAL] at hkv; subst hkv; exact hd
  | cons hd' t ih =>
    obtain ⟨k', v⟩ := hd'
    intro kv hkv
    simp only [alterAL] at hkv
    split at hkv
    · cases List.mem_cons.mp hkv with
      | inl e => subst e; exact hf v (hl _ List.mem_cons_self)
      | inr e => exact hl kv (List.mem_cons_of_mem _ e)
    · cases List.mem_cons.mp hkv with
      | inl e => subst e; exact hl _ List.mem_cons_self
      | inr e => exact ih (fun kv h => hl kv (List.mem_cons_of_mem _ h)) kv e
end ALY

/-- `t[k][v] = f(t.get(k, {}).get(v, dflt))` -/
def alter2 (k : String) (v : Option String) (dflt : List Nat) (f : List Nat → List Nat)
    (t : AL String (AL (Option String) (List Nat))) : AL String (AL (Option String) (List Nat)) :=
  alterAL k [] (alterAL v dflt f) t

theorem lookup2_alter2 (k : String) (v : Option String) (dflt : List Nat) (f : List Nat → List Nat)
    (t : AL String (AL (Option String) (List Nat))) (k' : String) (v' : Option String) :
    lookup2 (alter2 k v dflt f t) k' v'
      = if k' = k ∧ v' = v then f ((lookupAL v ((lookupAL k t).getD [])).getD dflt) else lookup2 t k' v' := by
  unfold lookup2 alter2
  by_cases hk : k' = k
  · subst hk
    rw [lookup_alter_self]
    by_cases hv : v' = v
    · subst hv; rw [Option.getD_some, lookup_alter_self]; simp
    · rw [Option.getD_some, lookup_alter_other _ _ hv]; simp [hv]
  · rw [lookup_alter_other _ _ hk]; simp [hk]

theorem tagsWF_alter2 (k : String) (v : Option String) (dflt : List Nat) (f : List Nat → List Nat)
    (hf : ∀ l, f l ≠ []) (t : AL String (AL (Option String) (List Nat))) (ht : TagsWF t) :
    TagsWF (alter2 k v dflt f t) := by
  refine ⟨nodup_keys_alterAL _ _ _ _ ht.1, ?_⟩
  have hstep : ∀ d : AL (Option String) (List Nat), ((keysAL d).Nodup ∧ ∀ vl ∈ d, vl.2 ≠ []) →
      ((keysAL (alterAL v dflt f d)).Nodup ∧ ∀ vl ∈ alterAL v dflt f d, vl.2 ≠ []) := by
    intro d hd
    exact ⟨nodup_keys_alterAL _ _ _ _ hd.1, alterAL_all (fun l => l ≠ []) v dflt f hf d hd.2⟩
  exact alterAL_all' (fun d => (keysAL d).Nodup ∧ ∀ vl ∈ d, vl.2 ≠ []) k [] _
    (hstep [] ⟨by simp [keysAL], by simp⟩) hstep t ht.2

section ALZ
variable {K V : Type} [BEq K]
theorem alterAL_append_absent (k : K) (d : V) (f : V → V) (a b : AL K V) (h : lookupAL k a = none) :
    alterAL k d f (a ++ b) = a ++ alterAL k d f b := by
  induction a with
  | nil => rfl
  | cons hd t ih =>
    obtain ⟨k', v⟩ := hd
    by_cases hk : (k' == k) = true
    · simp [lookupAL, hk] at h
    · simp only [lookupAL, hk] at h
      simp [alterAL, hk, ih h]
end ALZ

/-! ## `_insert_tags` -/

/-- the body of the loop of `_insert_tags` -/
def insStep (idx : Nat) (self : GSelf) (x : String × Option String) : M GSelf :=
  match x with
  | (tag_key, tag_value) => do
      let self ← (if (!isin tag_key self._tags) then do
        let self := { self with _tags := (setItem self._tags tag_key []) }
        pure self
      else do
        pure self
      )
      let self ← (if (!isin tag_value (← getItem self._tags tag_key)) then do
        let self := { self with _tags := (← updItem self._tags tag_key (fun d0 => pure (setItem d0 tag_value [idx]))) }
        pure self
      else do
        let self := { self with _tags := (← updItem self._tags tag_key (fun d0 => updItem d0 tag_value (fun d1 => pure (append d1 idx)))) }
        pure self
      )
      pure self

theorem insert_tags_eq (g : GSelf) (idx : Nat) (tags : AL String (Option String)) :
    IndexImpl._insert_tags g idx tags = List.foldlM (insStep idx) g tags := by
  unfold IndexImpl._insert_tags items
  rfl

theorem insStep_ok (idx : Nat) (g : GSelf) (k : String) (v : Option String) :
    insStep idx g (k, v) = .ok { g with _tags := alter2 k v [] (fun l => l ++ [idx]) g._tags } := by
  unfold insStep alter2
  simp only [isin, getItem, append]
  cases h1 : lookupAL k g._tags with
  | none =>
    have hs : setItem g._tags k ([] : AL (Option String) (List Nat)) = g._tags ++ [(k, [])] := by
      unfold setItem; rw [alterAL_absent _ _ _ _ h1]
    have hl : lookupAL k (g._tags ++ [(k, ([] : AL (Option String) (List Nat)))]) = some [] := by
      rw [lookupAL_append, h1]; simp [lookupAL]
    have hu : updItem (g._tags ++ [(k, ([] : AL (Option String) (List Nat)))]) k
        (fun d0 => Except.ok (setItem d0 v [idx]))
        = .ok (alterAL k [] (alterAL v [] (fun l => l ++ [idx])) g._tags) := by
      rw [updItem_alter _ k _ (alterAL v [] (fun l => l ++ [idx])) [] [] hl
        (by simp [setItem, alterAL])]
      rw [alterAL_append_absent _ _ _ _ _ h1, alterAL_absent _ _ _ _ h1]
      simp [alterAL]
    simp [hs, hl, hu, lookupAL, bind, Except.bind, pure, Except.pure]
  | some d =>
    cases h2 : lookupAL v d with
    | none =>
      have hu : updItem g._tags k (fun d0 => Except.ok (setItem d0 v [idx]))
          = .ok (alterAL k [] (alterAL v [] (fun l => l ++ [idx])) g._tags) := by
        rw [updItem_alter _ k _ (alterAL v [] (fun l => l ++ [idx])) [] d h1
          (by unfold setItem; rw [alterAL_absent _ _ _ _ h2, alterAL_absent _ _ _ _ h2]; simp)]
      simp [h1, h2, hu, bind, Except.bind, pure, Except.pure]
    | some l =>
      have hu : updItem g._tags k (fun d0 => updItem d0 v (fun d1 => Except.ok (d1 ++ [idx])))
          = .ok (alterAL k [] (alterAL v [] (fun l => l ++ [idx])) g._tags) := by
        rw [updItem_alter _ k _ (alterAL v [] (fun l => l ++ [idx])) [] d h1
          (updItem_alter d v _ (fun l => l ++ [idx]) [] l h2 rfl)]
      simp [h1, h2, hu, bind, Except.bind, pure, Except.pure]

theorem insert_loop (idx : Nat) (tags : AL String (Option String)) (g : GSelf) :
    List.foldlM (insStep idx) g tags
    = .ok { g with _tags := tags.foldl (fun t kv => alter2 kv.1 kv.2 [] (fun l => l ++ [idx]) t) g._tags } := by
  induction tags generalizing g with
  | nil => simp [pure, Except.pure]
  | cons hd tl ih =>
    obtain ⟨k, v⟩ := hd
    simp only [List.foldlM_cons, List.foldl_cons, insStep_ok, bind, Except.bind]
    rw [ih]

theorem insert_fold_spec (idx : Nat) (tags : AL String (Option String))
    (t : AL String (AL (Option String) (List Nat))) (m : PMap (String × Option String) Unit)
    (ht : TagsWF t) (hm : ∀ kv, PMap.posting (flatTags t) kv = PMap.posting m kv) :
    TagsWF (tags.foldl (fun t kv => alter2 kv.1 kv.2 [] (fun l => l ++ [idx]) t) t)
    ∧ ∀ kv, PMap.posting (flatTags (tags.foldl (fun t kv => alter2 kv.1 kv.2 [] (fun l => l ++ [idx]) t) t)) kv
        = PMap.posting (tags.foldl (fun acc kv => PMap.insert acc (kv.1, kv.2) idx ()) m) kv := by
  induction tags generalizing t m with
  | nil => exact ⟨ht, hm⟩
  | cons hd tl ih =>
    obtain ⟨k, v⟩ := hd
    simp only [List.foldl_cons]
    have hwf := tagsWF_alter2 k v [] (fun l => l ++ [idx]) (by intro l; simp) t ht
    apply ih _ _ hwf
    intro kv
    obtain ⟨k', v'⟩ := kv
    rw [posting_flat _ hwf.1, lookup2_alter2, posting_insert, ← hm, posting_flat _ ht.1]
    by_cases h : k' = k ∧ v' = v
    · obtain ⟨rfl, rfl⟩ := h
      simp [lookup2, unitP]
    · have : ((k, v) == (k', v')) = false := by
        simp only [beq_eq_false_iff_ne, ne_eq, Prod.mk.injEq, not_and]
        intro e1 e2; exact h ⟨e1.symm, e2.symm⟩
      simp [h, this]

theorem insert_tags_ok (g : GSelf) (idx : Nat) (tags : AL String (Option String)) (hwf : TagsWF g._tags) :
    ∃ X, IndexImpl._insert_tags g idx tags = .ok { g with _tags := X }
      ∧ TagsWF X
      ∧ ∀ kv, PMap.posting (flatTags X) kv
            = PMap.posting (tags.foldl (fun acc kv => PMap.insert acc (kv.1, kv.2) idx ()) (flatTags g._tags)) kv := by
  refine ⟨_, by rw [insert_tags_eq, insert_loop], ?_⟩
  exact insert_fold_spec idx tags g._tags (flatTags g._tags) hwf (fun _ => rfl)

/-! ## `_remove_tags` -/

/-- the body of the inner loop of `_remove_tags` -/
def remInner (r_items : List Nat) (tag_key : String) (new_tags : AL String (AL (Option String) (List Nat)))
    (x : Option String × List Nat) : M (AL String (AL (Option String) (List Nat))) :=
  match x with
  | (value, old_items) => do
          let new_items := (List.filter (fun i => (!isin i r_items)) old_items)
          if (!(truthy new_items)) then do
            pure new_tags
          else do
            let new_tags ← (if (!isin tag_key new_tags) then do
              let new_tags := (setItem new_tags tag_key [(value, new_items)])
              pure new_tags
            else do
              let new_tags ← updItem new_tags tag_key (fun d0 => pure (setItem d0 value new_items))
              pure new_tags
            )
            pure new_tags

/-- the body of the outer loop of `_remove_tags` -/
def remOuter (r_items : List Nat) (new_tags : AL String (AL (Option String) (List Nat)))
    (x : String × AL (Option String) (List Nat)) : M (AL String (AL (Option String) (List Nat))) :=
  match x with
  | (tag_key, tag_values) => do
      let new_tags ← List.foldlM (remInner r_items tag_key) new_tags (items tag_values)
      pure new_tags

theorem remove_tags_eq (g : GSelf) (r : List Nat) :
    IndexImpl._remove_tags g r
      = (do let nt ← List.foldlM (remOuter r) [] g._tags; pure { g with _tags := nt }) := by
  unfold IndexImpl._remove_tags items
  rfl

/-- posting lists after removal -/
def keepL (r : List Nat) (l : List Nat) : List Nat := l.filter (fun i => !r.contains i)

theorem remInner_ok (r : List Nat) (k : String) (nt : AL String (AL (Option String) (List Nat)))
    (v : Option String) (l : List Nat) :
    remInner r k nt (v, l)
      = .ok (if keepL r l = [] then nt else alter2 k v (keepL r l) (fun _ => keepL r l) nt) := by
  unfold remInner alter2
  simp only [isin, truthy]
  change (if (!(!(keepL r l).isEmpty)) = true then _ else _) = _
  by_cases he : keepL r l = []
  · simp [he, pure, Except.pure]
  · have he' : (keepL r l).isEmpty = false := by simpa using he
    simp only [he, he', ↓reduceIte, Bool.not_false, Bool.not_true, Bool.false_eq_true]
    cases h1 : lookupAL k nt with
    | none =>
      have hs : setItem nt k [(v, keepL r l)]
          = alterAL k [] (alterAL v (keepL r l) (fun _ => keepL r l)) nt := by
        unfold setItem; rw [alterAL_absent _ _ _ _ h1, alterAL_absent _ _ _ _ h1]; simp [alterAL]
      simp [pure, Except.pure]
      simpa [keepL] using hs
    | some d =>
      have hu : updItem nt k (fun d0 => Except.ok (setItem d0 v (keepL r l)))
          = .ok (alterAL k [] (alterAL v (keepL r l) (fun _ => keepL r l)) nt) := by
        rw [updItem_alter _ k _ (alterAL v (keepL r l) (fun _ => keepL r l)) [] d h1 (by simp [setItem])]
      simp [pure, Except.pure]
      simpa [keepL] using hu

theorem lookup2_cons (k : String) (d : AL (Option String) (List Nat)) (t : AL String (AL (Option String) (List Nat)))
    (k' : String) (v' : Option String) :
    lookup2 ((k, d) :: t) k' v' = if k' = k then (lookupAL v' d).getD [] else lookup2 t k' v' := by
  unfold lookup2
  by_cases hk : k' = k
  · subst hk; simp [lookupAL]
  · have : (k == k') = false := by simpa using fun e => hk e.symm
    simp [lookupAL, this, hk]

theorem lookup2_absent (t : AL String (AL (Option String) (List Nat))) (k : String) (v : Option String)
    (h : k ∉ keysAL t) : lookup2 t k v = [] := by
  unfold lookup2; rw [lookup_none_of_not_mem _ _ h]; simp [lookupAL]

theorem remInner_loop (r : List Nat) (k : String) (d : AL (Option String) (List Nat)) (hd : (keysAL d).Nodup)
    (nt : AL String (AL (Option String) (List Nat))) (hnt : TagsWF nt) :
    ∃ X, List.foldlM (remInner r k) nt d = .ok X ∧ TagsWF X ∧
      ∀ k' v', lookup2 X k' v' =
        if k' = k then
          (if keepL r ((lookupAL v' d).getD []) = [] then lookup2 nt k v' else keepL r ((lookupAL v' d).getD []))
        else lookup2 nt k' v' := by
  induction d generalizing nt with
  | nil =>
    refine ⟨nt, by simp [pure, Except.pure], hnt, ?_⟩
    intro k' v'
    by_cases hk : k' = k
    · subst hk; simp [lookupAL, keepL]
    · simp [hk]
  | cons hd' tl ih =>
    obtain ⟨v, l⟩ := hd'
    have hnd : v ∉ keysAL tl ∧ (keysAL tl).Nodup := by simpa [keysAL] using hd
    simp only [List.foldlM_cons, remInner_ok, bind, Except.bind]
    have hwf1 : TagsWF (if keepL r l = [] then nt else alter2 k v (keepL r l) (fun _ => keepL r l) nt) := by
      split
      · exact hnt
      · rename_i hne; exact tagsWF_alter2 _ _ _ _ (fun _ => hne) nt hnt
    obtain ⟨X, hX, hXwf, hXl⟩ := ih hnd.2 _ hwf1
    refine ⟨X, hX, hXwf, ?_⟩
    intro k' v'
    rw [hXl]
    by_cases hk : k' = k
    · subst hk
      simp only [↓reduceIte]
      by_cases hv : v' = v
      · subst hv
        have hn : lookupAL v' tl = none := lookup_none_of_not_mem _ _ hnd.1
        simp only [hn, lookupAL, beq_self_eq_true, ↓reduceIte, Option.getD_none, Option.getD_some]
        have : keepL r [] = [] := rfl
        simp only [this, ↓reduceIte]
        split
        · rfl
        · rw [lookup2_alter2]; simp
      · have h1 : (v == v') = false := by simpa using fun e => hv e.symm
        simp only [lookupAL, h1, Bool.false_eq_true, ↓reduceIte]
        have : lookup2 (if keepL r l = [] then nt else alter2 k' v (keepL r l) (fun _ => keepL r l) nt) k' v'
            = lookup2 nt k' v' := by
          split
          · rfl
          · rw [lookup2_alter2]; simp [hv]
        rw [this]
    · simp only [hk, ↓reduceIte]
      split
      · rfl
      · rw [lookup2_alter2]; simp [hk]

theorem remOuter_loop (r : List Nat) (t : AL String (AL (Option String) (List Nat)))
    (ht : (keysAL t).Nodup) (ht2 : ∀ kd ∈ t, (keysAL kd.2).Nodup)
    (nt : AL String (AL (Option String) (List Nat))) (hnt : TagsWF nt) :
    ∃ X, List.foldlM (remOuter r) nt t = .ok X ∧ TagsWF X ∧
      ∀ k' v', lookup2 X k' v' =
        if keepL r (lookup2 t k' v') = [] then lookup2 nt k' v' else keepL r (lookup2 t k' v') := by
  induction t generalizing nt with
  | nil =>
    refine ⟨nt, by simp [pure, Except.pure], hnt, ?_⟩
    intro k' v'; simp [lookup2, lookupAL, keepL]
  | cons hd tl ih =>
    obtain ⟨k, d⟩ := hd
    have hnd : k ∉ keysAL tl ∧ (keysAL tl).Nodup := by simpa [keysAL] using ht
    obtain ⟨Y, hY, hYwf, hYl⟩ := remInner_loop r k d (ht2 _ List.mem_cons_self) nt hnt
    obtain ⟨X, hX, hXwf, hXl⟩ := ih hnd.2 (fun kd h => ht2 kd (List.mem_cons_of_mem _ h)) Y hYwf
    refine ⟨X, ?_, hXwf, ?_⟩
    · simp only [List.foldlM_cons, remOuter, items]
      rw [hY]; exact hX
    · intro k' v'
      rw [hXl, hYl, lookup2_cons]
      by_cases hk : k' = k
      · subst hk
        have : lookup2 tl k' v' = [] := lookup2_absent _ _ _ hnd.1
        have h0 : keepL r [] = [] := rfl
        simp [this, h0]
      · simp [hk]

theorem unitP_keepL (r : List Nat) (l : List Nat) :
    unitP (keepL r l) = (unitP l).filter (fun ip => !r.contains ip.1) := by
  simp [unitP, keepL, List.filter_map, Function.comp_def]

theorem remove_tags_ok (g : GSelf) (r : List Nat) (hwf : TagsWF g._tags) :
    ∃ X, IndexImpl._remove_tags g r = .ok { g with _tags := X }
      ∧ TagsWF X
      ∧ ∀ kv, PMap.posting (flatTags X) kv = PMap.posting (PMap.remove (flatTags g._tags) r.contains) kv := by
  obtain ⟨X, hX, hXwf, hXl⟩ := remOuter_loop r g._tags hwf.1 (fun kd h => (hwf.2 kd h).1) []
    ⟨by simp [keysAL], by simp⟩
  refine ⟨X, ?_, hXwf, ?_⟩
  · rw [remove_tags_eq, hX]; rfl
  · intro kv
    obtain ⟨k, v⟩ := kv
    rw [posting_flat _ hXwf.1, posting_remove _ (wfmap_flat _ hwf).1, posting_flat _ hwf.1, hXl,
      ← unitP_keepL]
    split
    · rename_i h; rw [h]; simp [lookup2, lookupAL]
    · rfl

/-! ## `_update_tags` -/

/-- the body of the inner loop of `_update_tags` -/
def updInner (u_items : AL Nat Nat) (tag_key : String) (self : GSelf) (x : Option String × List Nat) : M GSelf :=
  match x with
  | (value, old_items) => do
          let rhs := (← List.mapM (fun i => ((if (isin i u_items) then (getItem u_items i) else (pure i)))) old_items)
          let self := { self with _tags := (← updItem self._tags tag_key (fun d0 => pure (setItem d0 value rhs))) }
          pure self

/-- the body of the outer loop of `_update_tags` -/
def updOuter (u_items : AL Nat Nat) (self : GSelf) (x : String × AL (Option String) (List Nat)) : M GSelf :=
  match x with
  | (tag_key, tag_values) => do
      let self ← List.foldlM (updInner u_items tag_key) self (items tag_values)
      pure self

theorem update_tags_eq (g : GSelf) (u : AL Nat Nat) :
    IndexImpl._update_tags g u = List.foldlM (updOuter u) g g._tags := by
  unfold IndexImpl._update_tags items
  rfl

theorem lookupAL_eq_lookup (u : AL Nat Nat) (i : Nat) : lookupAL i u = u.lookup i := by
  induction u with
  | nil => rfl
  | cons hd t ih =>
    obtain ⟨a, b⟩ := hd
    by_cases h : a = i
    · subst h; simp [lookupAL, List.lookup]
    · have h1 : (a == i) = false := by simpa using h
      have h2 : (i == a) = false := by simpa using fun e => h e.symm
      simp [lookupAL, List.lookup, h1, h2, ih]

theorem mapM_renum (u : AL Nat Nat) (l : List Nat) :
    List.mapM (fun i => ((if (isin i u) then (getItem u i) else (pure i)) : M Nat)) l = .ok (l.map (renum u)) := by
  induction l with
  | nil => simp [pure, Except.pure]
  | cons i t ih =>
    rw [List.mapM_cons, ih]
    have hr : renum u i = (lookupAL i u).getD i := by rw [renum, lookupAL_eq_lookup]
    simp only [isin, getItem]
    cases h : lookupAL i u with
    | none => simp [h, hr, bind, Except.bind, pure, Except.pure]
    | some j => simp [h, hr, bind, Except.bind, pure, Except.pure]

section ALW
variable {K V : Type} [BEq K] [LawfulBEq K]
theorem updItem_append (P : AL K V) (k : K) (x x' : V) (rest : AL K V) (f : V → M V)
    (h : lookupAL k P = none) (hf : f x = .ok x') :
    updItem (P ++ (k, x) :: rest) k f = .ok (P ++ (k, x') :: rest) := by
  induction P with
  | nil => simp [updItem, hf, bind, Except.bind, pure, Except.pure]
  | cons hd t ih =>
    obtain ⟨k', v⟩ := hd
    by_cases hk : (k' == k) = true
    · simp [lookupAL, hk] at h
    · simp only [lookupAL, hk] at h
      simp [updItem, hk, ih h, bind, Except.bind, pure, Except.pure]

theorem setItem_append (P : AL K V) (k : K) (x x' : V) (rest : AL K V) (h : lookupAL k P = none) :
    setItem (P ++ (k, x) :: rest) k x' = P ++ (k, x') :: rest := by
  unfold setItem
  rw [alterAL_append_absent _ _ _ _ _ h]
  simp [alterAL]
end ALW

/-- renumbering of one inner dict / of the whole dict -/
def renInner (u : AL Nat Nat) (d : AL (Option String) (List Nat)) : AL (Option String) (List Nat) :=
  d.map (fun vl => (vl.1, vl.2.map (renum u)))
def renTags (u : AL Nat Nat) (t : AL String (AL (Option String) (List Nat))) :
    AL String (AL (Option String) (List Nat)) :=
  t.map (fun kd => (kd.1, renInner u kd.2))

theorem updInner_loop (u : AL Nat Nat) (k : String) (g : GSelf)
    (P rest : AL String (AL (Option String) (List Nat))) (hP : lookupAL k P = none)
    (d dp : AL (Option String) (List Nat)) (hd : (keysAL (dp ++ d)).Nodup) :
    List.foldlM (updInner u k) { g with _tags := P ++ (k, dp ++ d) :: rest } d
      = .ok { g with _tags := P ++ (k, dp ++ renInner u d) :: rest } := by
  induction d generalizing dp with
  | nil => simp [renInner, pure, Except.pure]
  | cons hd' tl ih =>
    obtain ⟨v, l⟩ := hd'
    have hv : lookupAL v dp = none := by
      apply lookup_none_of_not_mem
      intro hm
      simp only [keysAL, List.map_append, List.map_cons, List.nodup_append] at hd
      exact hd.2.2 _ hm _ List.mem_cons_self rfl
    have hstep : updInner u k { g with _tags := P ++ (k, dp ++ (v, l) :: tl) :: rest } (v, l)
        = .ok { g with _tags := P ++ (k, (dp ++ [(v, l.map (renum u))]) ++ tl) :: rest } := by
      unfold updInner
      simp only [mapM_renum]
      have := updItem_append P k (dp ++ (v, l) :: tl) (dp ++ (v, l.map (renum u)) :: tl) rest
        (fun d0 => Except.ok (setItem d0 v (l.map (renum u)))) hP (by rw [setItem_append _ _ _ _ _ hv])
      simp [bind, Except.bind, pure, Except.pure, this]
    simp only [List.foldlM_cons, hstep, bind, Except.bind]
    have hd2 : (keysAL ((dp ++ [(v, l.map (renum u))]) ++ tl)).Nodup := by
      simpa [keysAL] using hd
    rw [ih _ hd2]
    simp [renInner]

theorem updOuter_loop (u : AL Nat Nat) (g : GSelf)
    (t P : AL String (AL (Option String) (List Nat))) (ht : (keysAL (P ++ t)).Nodup)
    (ht2 : ∀ kd ∈ t, (keysAL kd.2).Nodup) :
    List.foldlM (updOuter u) { g with _tags := P ++ t } t
      = .ok { g with _tags := P ++ renTags u t } := by
  induction t generalizing P with
  | nil => simp [renTags, pure, Except.pure]
  | cons hd tl ih =>
    obtain ⟨k, d⟩ := hd
    have hk : lookupAL k P = none := by
      apply lookup_none_of_not_mem
      intro hm
      simp only [keysAL, List.map_append, List.map_cons, List.nodup_append] at ht
      exact ht.2.2 _ hm _ List.mem_cons_self rfl
    have hstep : updOuter u { g with _tags := P ++ (k, d) :: tl } (k, d)
        = .ok { g with _tags := (P ++ [(k, renInner u d)]) ++ tl } := by
      unfold updOuter items
      have := updInner_loop u k g P tl hk d [] (by simpa using ht2 _ List.mem_cons_self)
      simp only [List.nil_append] at this
      simp [this]
    simp only [List.foldlM_cons, hstep, bind, Except.bind]
    have ht' : (keysAL ((P ++ [(k, renInner u d)]) ++ tl)).Nodup := by
      simpa [keysAL] using ht
    rw [ih _ ht' (fun kd h => ht2 kd (List.mem_cons_of_mem _ h))]
    simp [renTags]

theorem tagsWF_renTags (u : AL Nat Nat) (t : AL String (AL (Option String) (List Nat))) (ht : TagsWF t) :
    TagsWF (renTags u t) := by
  constructor
  · have : keysAL (renTags u t) = keysAL t := by simp [renTags, keysAL, List.map_map, Function.comp_def]
    rw [this]; exact ht.1
  · intro kd hkd
    simp only [renTags, List.mem_map] at hkd
    obtain ⟨kd0, h0, rfl⟩ := hkd
    have h := ht.2 kd0 h0
    constructor
    · have : keysAL (renInner u kd0.2) = keysAL kd0.2 := by
        simp [renInner, keysAL, List.map_map, Function.comp_def]
      rw [this]; exact h.1
    · intro vl hvl
      simp only [renInner, List.mem_map] at hvl
      obtain ⟨vl0, hv0, rfl⟩ := hvl
      simpa using h.2 vl0 hv0

theorem flatTags_renTags (u : AL Nat Nat) (t : AL String (AL (Option String) (List Nat))) :
    flatTags (renTags u t) = PMap.renumber (flatTags t) (renum u) := by
  simp only [flatTags, renTags, PMap.renumber, List.flatMap_map, List.map_flatMap, renInner, List.map_map,
    Function.comp_def, unitP]

theorem update_tags_ok (g : GSelf) (u : AL Nat Nat) (hwf : TagsWF g._tags) :
    ∃ X, IndexImpl._update_tags g u = .ok { g with _tags := X }
      ∧ TagsWF X
      ∧ flatTags X = PMap.renumber (flatTags g._tags) (renum u) := by
  refine ⟨renTags u g._tags, ?_, tagsWF_renTags u _ hwf, flatTags_renTags u _⟩
  rw [update_tags_eq]
  have := updOuter_loop u g g._tags [] (by simpa using hwf.1) (fun kd h => (hwf.2 kd h).1)
  simpa using this
end TinyFlux.Mirror
