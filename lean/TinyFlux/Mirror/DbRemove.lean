import TinyFlux.Mirror.Closed
/-!
# Mirror theorems, part V: `TinyFlux.remove` and `TinyFlux.drop_measurement` of database.py, as translated

The two public entry points of a removal (their decorators — `read_op` = `State.readOp`, the access gates, the temporary
storage around the call — are table-extracted: `Generated/Decorators.lean`, C15): `remove` hands its arguments to
`_remove_helper`; `drop_measurement` forgets the cached handle of that name and calls `_remove_helper(MeasurementQuery() == name,
name)`. As translated they answer what the Model's `step` computes for `.remove` / `.drop` (once `readOp` has run): the Model's
`removeHelper`, here over the translated `Index.search`.
-/
set_option linter.unusedSimpArgs false
namespace TinyFlux.Mirror
open TinyFlux.Model TinyFlux.Spec TinyFlux.Py.Typed
open TinyFlux.Generated

theorem db_remove_closed (norm : Point → Point) (g : DSelf) (q : Query) (m : Option String)
    (hg : GWF g._index) (hts : g._index._timestamps.length = g._index._storage_pos_sorted_by_ts.length)
    (htemp : g._storage._temp = [])
    (hlen : g._auto_index = true → g._index._num_items = g._storage._items.length) :
    match (absDB norm g).removeHelper q m with
    | .ok (s', n) => ∃ g', DatabaseImpl.remove translatedExt g q m = .ok (g', n) ∧ StateEq (absDB norm g') s'
        ∧ GWF g'._index
    | .error _ => ∃ e', DatabaseImpl.remove translatedExt g q m = .error e' := by
  have h := remove_helper_closed norm g q m hg hts htemp hlen
  cases hm : (absDB norm g).removeHelper q m with
  | error e => simp only [hm] at h ⊢; simpa [DatabaseImpl.remove] using h
  | ok r => obtain ⟨s', n⟩ := r; simp only [hm] at h ⊢; simpa [DatabaseImpl.remove] using h

/-- forgetting a cached handle does not change what the state reads as -/
theorem absDB_measurements (norm : Point → Point) (g : DSelf) (ms : AL String Unit) :
    absDB norm { g with _measurements := ms } = absDB norm g := rfl

theorem db_drop_closed (norm : Point → Point) (g : DSelf) (name : String)
    (hg : GWF g._index) (hts : g._index._timestamps.length = g._index._storage_pos_sorted_by_ts.length)
    (htemp : g._storage._temp = [])
    (hlen : g._auto_index = true → g._index._num_items = g._storage._items.length) :
    match (absDB norm g).removeHelper (.meas (.cmp .eq (.str name))) (some name) with
    | .ok (s', n) => ∃ g', DatabaseImpl.drop_measurement translatedExt g name = .ok (g', n) ∧ StateEq (absDB norm g') s'
        ∧ GWF g'._index
    | .error _ => ∃ e', DatabaseImpl.drop_measurement translatedExt g name = .error e' := by
  have hq : translatedExt.meas_eq (some name) = Query.meas (.cmp .eq (.str name)) := rfl
  -- the helper is called on `g` or on `g` without the cached handle: the same index, storage and flag
  have run : ∀ g0 : DSelf, g0._index = g._index → g0._storage = g._storage → g0._auto_index = g._auto_index →
      DatabaseImpl.drop_measurement translatedExt g name
        = DatabaseImpl._remove_helper translatedExt g0 (.meas (.cmp .eq (.str name))) (some name) →
      (match (absDB norm g).removeHelper (.meas (.cmp .eq (.str name))) (some name) with
       | .ok (s', n) => ∃ g', DatabaseImpl.drop_measurement translatedExt g name = .ok (g', n) ∧ StateEq (absDB norm g') s'
            ∧ GWF g'._index
       | .error _ => ∃ e', DatabaseImpl.drop_measurement translatedExt g name = .error e') := by
    intro g0 h1 h2 h3 hrun
    have h := remove_helper_closed norm g0 (.meas (.cmp .eq (.str name))) (some name) (h1 ▸ hg) (h1 ▸ hts) (h2 ▸ htemp)
      (by intro ha; rw [h1, h2]; exact hlen (h3 ▸ ha))
    have e : absDB norm g0 = absDB norm g := by simp [absDB, h1, h2, h3]
    rw [e] at h
    cases hm : (absDB norm g).removeHelper (.meas (.cmp .eq (.str name))) (some name) with
    | error e => simp only [hm] at h ⊢; rw [hrun]; exact h
    | ok r => obtain ⟨s', n⟩ := r; simp only [hm] at h ⊢; rw [hrun]; exact h
  by_cases hin : isin name g._measurements = true
  · exact run { g with _measurements := delItem g._measurements name } rfl rfl rfl
      (by simp [DatabaseImpl.drop_measurement, hin, hq, bind, Except.bind, pure, Except.pure])
  · exact run g rfl rfl rfl
      (by simp [DatabaseImpl.drop_measurement, hin, hq, bind, Except.bind, pure, Except.pure])

end TinyFlux.Mirror
