import TinyFlux.Mirror.SearchHelper
import TinyFlux.Mirror.Reads
/-!
# Mirror theorems, part N: the translated database methods over the *translated* index search

`Mirror/Database.lean` and `Mirror/Reads.lean` take `Index.search` from the Model (`modelExt`). Here it is the translated
`IndexImpl.search` on the query object (`translatedExt`): the translated `_remove_helper`, `count` and `contains` then run
entirely on translated code below them — `Index.search`, `_search_helper`, the four leaf searches, `find_*`,
`Index.remove / update / invalidate / _reset`, `IndexResult` — and still return what the Model returns. What stays outside the
translation is the evaluation of a query on a point (`query(point)`, queries.py), `index_is_exact`, and the storage object
(list level here, I/O level in `Model/IO.lean`).

The step from `modelExt` to `translatedExt`: the translated search returns the Model's positions as a *set* (`SameSet`: a
Python set has no order), and the three methods use the search result only through its emptiness, its size and membership.
-/
namespace TinyFlux.Mirror
open TinyFlux.Model TinyFlux.Spec TinyFlux.Py.Typed
open TinyFlux.Generated

/-- like `modelExt`, with the translated `Index.search` -/
def translatedExt : DatabaseImpl.Ext Query :=
  { modelExt with index_search := fun idx q => IndexImpl.search idx (queryObj q) }

theorem sameSet_length {a b : List Nat} (h : SameSet a b) : a.length = b.length :=
  ((List.perm_ext_iff_of_nodup h.1 h.2.1).2 h.2.2).length_eq

theorem sameSet_contains {a b : List Nat} (h : SameSet a b) (x : Nat) : a.contains x = b.contains x := by
  rw [List.contains_eq_mem, List.contains_eq_mem]
  exact decide_eq_decide.2 (h.2.2 x)

theorem sameSet_isEmpty {a b : List Nat} (h : SameSet a b) : a.isEmpty = b.isEmpty := by
  have := sameSet_length h
  cases a <;> cases b <;> simp at this ⊢

theorem idxBody_congr {a b : List Nat} (h : SameSet a b) : idxBody a = idxBody b := by
  funext acc ip
  obtain ⟨self, u, np, kc, r, j⟩ := acc
  obtain ⟨i, p⟩ := ip
  rw [idxBody_eq, idxBody_eq, sameSet_length h, sameSet_contains h]

theorem idxCont_congr (g : DSelf) (r r' : IndexResult) (h : SameSet r._items r'._items) :
    idxCont g r = idxCont g r' := by
  unfold idxCont
  simp only [truthy, Py.Typed.len, idxBody_congr h, sameSet_length h, sameSet_isEmpty h]
  rfl

/-- the two searches on a well-formed index: both succeed with the same set of positions, or both fail -/
theorem search_cases (idx : GSelf) (hg : GWF idx) (hts : idx._timestamps.length = idx._storage_pos_sorted_by_ts.length)
    (q' : Query) :
    (∃ r items, (abs idx).search q' = .ok items ∧ translatedExt.index_search idx q' = .ok r
        ∧ modelExt.index_search idx q' = .ok { _items := items, _index_count := idx._num_items }
        ∧ SameSet r._items items)
    ∨ (∃ e e', (abs idx).search q' = .error e ∧ translatedExt.index_search idx q' = .error e') := by
  have key := search_ok idx hg hts q'
  cases hs : (abs idx).search q' with
  | error e =>
    rw [hs] at key
    obtain ⟨e', he⟩ := key
    exact Or.inr ⟨e, e', rfl, he⟩
  | ok items =>
    rw [hs] at key
    obtain ⟨r, hr, hss, _⟩ := key
    refine Or.inl ⟨r, items, rfl, hr, ?_, hss⟩
    simp only [modelExt, hs]

theorem idx_path_eq {Q : Type} (ext : DatabaseImpl.Ext Q) (g : DSelf) (q : Q) (m : Option String)
    (hc : (g._index._valid && ext.index_is_exact q) = true) :
    DatabaseImpl._remove_helper ext g q m
      = (ext.index_search g._index (if truthy m = true then ext.qand (ext.meas_eq m) q else q) >>= idxCont g) := by
  rw [remove_helper_eq]
  simp only [hc, ↓reduceIte]
  split <;> rfl

theorem remove_helper_cases (g : DSelf) (q : Query) (m : Option String)
    (hg : GWF g._index) (hts : g._index._timestamps.length = g._index._storage_pos_sorted_by_ts.length) :
    DatabaseImpl._remove_helper translatedExt g q m = DatabaseImpl._remove_helper modelExt g q m
    ∨ ((g._index._valid && exact q) = true ∧ (∃ e, (abs g._index).search (idxQuery q m) = .error e)
        ∧ ∃ e', DatabaseImpl._remove_helper translatedExt g q m = .error e') := by
  by_cases hc : (g._index._valid && exact q) = true
  · rw [idx_path_eq translatedExt g q m hc, idx_path_eq modelExt g q m hc]
    have hq : (if truthy m = true then translatedExt.qand (translatedExt.meas_eq m) q else q) = idxQuery q m := rfl
    have hq' : (if truthy m = true then modelExt.qand (modelExt.meas_eq m) q else q) = idxQuery q m := rfl
    rw [hq, hq']
    rcases search_cases g._index hg hts (idxQuery q m) with ⟨r, items, _, h2, h3, h4⟩ | ⟨e, e', h1, h2⟩
    · left
      rw [h2, h3]
      exact idxCont_congr g _ _ h4
    · right
      refine ⟨hc, ⟨e, h1⟩, e', ?_⟩
      rw [h2]; rfl
  · left
    rw [remove_helper_eq, remove_helper_eq]
    have hx : translatedExt.index_is_exact q = exact q := rfl
    have hx' : modelExt.index_is_exact q = exact q := rfl
    simp only [hx, hx', hc, Bool.false_eq_true, ↓reduceIte]
    rfl

theorem remove_helper_closed (norm : Point → Point) (g : DSelf) (q : Query) (m : Option String)
    (hg : GWF g._index) (hts : g._index._timestamps.length = g._index._storage_pos_sorted_by_ts.length)
    (htemp : g._storage._temp = [])
    (hlen : g._auto_index = true → g._index._num_items = g._storage._items.length) :
    match (absDB norm g).removeHelper q m with
    | .ok (s', n) => ∃ g', DatabaseImpl._remove_helper translatedExt g q m = .ok (g', n) ∧ StateEq (absDB norm g') s'
        ∧ GWF g'._index
    | .error _ => ∃ e', DatabaseImpl._remove_helper translatedExt g q m = .error e' := by
  rcases remove_helper_cases g q m hg hts with h | ⟨hc, ⟨e, he⟩, e', he'⟩
  · rw [h]
    exact remove_helper_ok norm g q m hg htemp hlen
  · rw [removeHelper_eq]
    have hv : (absDB norm g).index.valid = g._index._valid := rfl
    rw [hv]
    simp only [hc, ↓reduceIte]
    rw [indexSearch_eq, he]
    exact ⟨e', he'⟩

theorem count_idx_eq {Q : Type} (ext : DatabaseImpl.Ext Q) (g : DSelf) (q : Q) (m : Option String)
    (hc : (g._index._valid && ext.index_is_exact q) = true) :
    DatabaseImpl.count ext g q m
      = (ext.index_search g._index (if truthy m = true then ext.qand (ext.meas_eq m) q else q)
          >>= fun r => pure (Py.Typed.len r._items)) := by
  unfold DatabaseImpl.count
  have hv : IndexImpl.valid g._index = .ok g._index._valid := rfl
  have ht : ∀ b : Bool, truthy b = b := fun _ => rfl
  rw [hv]
  simp only [bind, Except.bind, ht, hc, ↓reduceIte]
  split <;> rfl

theorem count_scan_eq {Q : Type} (ext ext' : DatabaseImpl.Ext Q) (g : DSelf) (q : Q) (m : Option String)
    (hx : ext.index_is_exact = ext'.index_is_exact) (hcall : ext.call = ext'.call)
    (hc : ¬ (g._index._valid && ext.index_is_exact q) = true) :
    DatabaseImpl.count ext g q m = DatabaseImpl.count ext' g q m := by
  unfold DatabaseImpl.count
  have hv : IndexImpl.valid g._index = .ok g._index._valid := rfl
  have ht : ∀ b : Bool, truthy b = b := fun _ => rfl
  rw [hv]
  rw [hx] at hc
  simp only [bind, Except.bind, ht, ← hx, hcall] at hc ⊢
  simp only [hx] at hc ⊢
  simp only [hc, Bool.false_eq_true, ↓reduceIte]

theorem count_cases (g : DSelf) (q : Query) (m : Option String)
    (hg : GWF g._index) (hts : g._index._timestamps.length = g._index._storage_pos_sorted_by_ts.length) :
    DatabaseImpl.count translatedExt g q m = DatabaseImpl.count modelExt g q m
    ∨ ((g._index._valid && exact q) = true ∧ (∃ e, (abs g._index).search (idxQuery q m) = .error e)
        ∧ ∃ e', DatabaseImpl.count translatedExt g q m = .error e') := by
  by_cases hc : (g._index._valid && exact q) = true
  · rw [count_idx_eq translatedExt g q m hc, count_idx_eq modelExt g q m hc]
    have hq : (if truthy m = true then translatedExt.qand (translatedExt.meas_eq m) q else q) = idxQuery q m := rfl
    have hq' : (if truthy m = true then modelExt.qand (modelExt.meas_eq m) q else q) = idxQuery q m := rfl
    rw [hq, hq']
    rcases search_cases g._index hg hts (idxQuery q m) with ⟨r, items, _, h2, h3, h4⟩ | ⟨e, e', h1, h2⟩
    · left
      rw [h2, h3]
      simp only [bind, Except.bind, Py.Typed.len, sameSet_length h4]
    · right
      refine ⟨hc, ⟨e, h1⟩, e', ?_⟩
      rw [h2]; rfl
  · left
    exact count_scan_eq translatedExt modelExt g q m rfl rfl hc

theorem count_closed (norm : Point → Point) (g : DSelf) (q : Query) (m : Option String)
    (hg : GWF g._index) (hts : g._index._timestamps.length = g._index._storage_pos_sorted_by_ts.length) :
    match modelCount (absDB norm g) q m with
    | .ok n => DatabaseImpl.count translatedExt g q m = .ok n
    | .error _ => ∃ e', DatabaseImpl.count translatedExt g q m = .error e' := by
  rcases count_cases g q m hg hts with h | ⟨hc, ⟨e, he⟩, e', he'⟩
  · rw [h, count_ok norm]
    cases modelCount (absDB norm g) q m with
    | ok n => rfl
    | error e => exact ⟨_, rfl⟩
  · have hv : (absDB norm g).index.valid = g._index._valid := rfl
    unfold modelCount
    rw [hv]
    simp only [hc, ↓reduceIte]
    rw [indexSearch_eq, he]
    exact ⟨e', he'⟩

theorem contains_idx_eq {Q : Type} (ext : DatabaseImpl.Ext Q) (g : DSelf) (q : Q) (m : Option String)
    (hc : (g._index._valid && ext.index_is_exact q) = true) :
    DatabaseImpl.contains ext g q m
      = (ext.index_search g._index (if truthy m = true then ext.qand (ext.meas_eq m) q else q)
          >>= fun r => pure (decide (Py.Typed.len r._items > 0))) := by
  unfold DatabaseImpl.contains
  have hv : IndexImpl.valid g._index = .ok g._index._valid := rfl
  have ht : ∀ b : Bool, truthy b = b := fun _ => rfl
  rw [hv]
  simp only [bind, Except.bind, ht, hc, ↓reduceIte]
  split <;> rfl

theorem contains_scan_eq {Q : Type} (ext ext' : DatabaseImpl.Ext Q) (g : DSelf) (q : Q) (m : Option String)
    (hx : ext.index_is_exact = ext'.index_is_exact) (hcall : ext.call = ext'.call)
    (hc : ¬ (g._index._valid && ext.index_is_exact q) = true) :
    DatabaseImpl.contains ext g q m = DatabaseImpl.contains ext' g q m := by
  unfold DatabaseImpl.contains
  have hv : IndexImpl.valid g._index = .ok g._index._valid := rfl
  have ht : ∀ b : Bool, truthy b = b := fun _ => rfl
  rw [hv]
  rw [hx] at hc
  simp only [bind, Except.bind, ht, ← hx, hcall] at hc ⊢
  simp only [hx] at hc ⊢
  simp only [hc, Bool.false_eq_true, ↓reduceIte]

theorem contains_cases (g : DSelf) (q : Query) (m : Option String)
    (hg : GWF g._index) (hts : g._index._timestamps.length = g._index._storage_pos_sorted_by_ts.length) :
    DatabaseImpl.contains translatedExt g q m = DatabaseImpl.contains modelExt g q m
    ∨ ((g._index._valid && exact q) = true ∧ (∃ e, (abs g._index).search (idxQuery q m) = .error e)) := by
  by_cases hc : (g._index._valid && exact q) = true
  · rw [contains_idx_eq translatedExt g q m hc, contains_idx_eq modelExt g q m hc]
    have hq : (if truthy m = true then translatedExt.qand (translatedExt.meas_eq m) q else q) = idxQuery q m := rfl
    have hq' : (if truthy m = true then modelExt.qand (modelExt.meas_eq m) q else q) = idxQuery q m := rfl
    rw [hq, hq']
    rcases search_cases g._index hg hts (idxQuery q m) with ⟨r, items, _, h2, h3, h4⟩ | ⟨e, e', h1, h2⟩
    · left
      rw [h2, h3]
      simp only [bind, Except.bind, Py.Typed.len, sameSet_length h4]
      rfl
    · right
      exact ⟨hc, e, h1⟩
  · left
    exact contains_scan_eq translatedExt modelExt g q m rfl rfl hc

theorem contains_closed (norm : Point → Point) (g : DSelf) (q : Query) (m : Option String) (b : Bool)
    (hg : GWF g._index) (hts : g._index._timestamps.length = g._index._storage_pos_sorted_by_ts.length)
    (h : modelContains (absDB norm g) q m = .ok b) :
    DatabaseImpl.contains translatedExt g q m = .ok b := by
  rcases contains_cases g q m hg hts with h' | ⟨hc, e, he⟩
  · rw [h']
    exact contains_ok norm g q m b h
  · have hv : (absDB norm g).index.valid = g._index._valid := rfl
    unfold modelContains at h
    rw [hv] at h
    simp only [hc, ↓reduceIte] at h
    rw [indexSearch_eq, he] at h
    cases h

end TinyFlux.Mirror
