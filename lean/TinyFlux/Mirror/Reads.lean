import TinyFlux.Mirror.Database
/-!
# Mirror theorems, part J: `TinyFlux.count` and `TinyFlux.contains` of database.py, as translated

The bodies of the two read methods (the `read_op` decorator, which rebuilds an invalid index when auto-indexing, is
`State.readOp` in the Model and is not part of the method body) translated statement by statement from the working tree:
the index path (a valid index and a query the index answers exactly: the number of positions `Index.search` returns)
and the scan path (a loop over storage with the measurement filter and the query; `contains` leaves the loop at the
first match). They return what the Model's `step` computes for `.count` / `.contains` on the `absDB`-read state.
-/
namespace TinyFlux.Mirror
open TinyFlux.Model TinyFlux.Spec TinyFlux.Py.Typed
open TinyFlux.Generated

def liftE {α : Type} : Except Exc α → M α
  | .ok a => .ok a
  | .error e => .error (errOf e)

/-- what `State.step` computes for `.count q m` once `readOp` has run -/
def modelCount (s : State) (q : Query) (m : Option String) : Except Exc Nat :=
  if s.index.valid && exact q then (s.indexSearch q m).map (·.length)
  else (s.storage.filterM (State.scanSel q m)).map (·.length)

/-- what `State.step` computes for `.contains q m` once `readOp` has run -/
def modelContains (s : State) (q : Query) (m : Option String) : Except Exc Bool :=
  if s.index.valid && exact q then (s.indexSearch q m).map (fun items => !items.isEmpty)
  else (s.storage.filterM (State.scanSel q m)).map (fun l => !l.isEmpty)

theorem filterAuxM_cons' {α : Type} (p : α → Except Exc Bool) (a : α) (t acc : List α) :
    List.filterAuxM p (a :: t) acc = (p a >>= fun b => List.filterAuxM p t (cond b (a :: acc) acc)) := rfl

theorem count_loop (sel : Point → Except Exc Bool) (f : Nat → Point → M Nat)
    (hf : ∀ c a, f c a = match sel a with
      | .ok b => .ok (cond b (c + 1) c) | .error e => .error (errOf e)) :
    ∀ (l accL : List Point),
      List.foldlM f accL.length l = liftE ((List.filterAuxM sel l accL).map (·.length)) := by
  intro l
  induction l with
  | nil => intro accL; simp [List.filterAuxM, liftE, Except.map, pure, Except.pure]
  | cons a t ih =>
    intro accL
    rw [List.foldlM_cons, hf, filterAuxM_cons']
    cases h : sel a with
    | error e => simp [bind, Except.bind, Except.map, liftE]
    | ok b =>
      cases b
      · simpa [bind, Except.bind] using ih accL
      · simpa [bind, Except.bind] using ih (a :: accL)

theorem scan_cases (q : Query) (m : Option String) (p : Point) :
    ((truthy m && !(pyEq p.meas m)) = true ∧ State.scanSel q m p = .ok false)
    ∨ ((truthy m && !(pyEq p.meas m)) = false ∧ State.scanSel q m p = eval q p) := by
  cases m with
  | none => right; simp [truthy, State.scanSel, effMeas]
  | some s =>
    by_cases hs : s = ""
    · right; subst hs; simp [truthy, State.scanSel, effMeas]
    · by_cases hm : p.meas = s
      · right; simp [truthy, State.scanSel, effMeas, hs, pyEq, hm]
      · left; simp [truthy, State.scanSel, effMeas, hs, pyEq, hm, pure, Except.pure]

theorem truthy_meas (m : Option String) :
    (truthy m = true ∧ ∃ name, m = some name ∧ effMeas m = some name)
    ∨ (truthy m = false ∧ effMeas m = none) := by
  cases m with
  | none => right; simp [truthy, effMeas]
  | some s =>
    by_cases hs : s = ""
    · right; subst hs; simp [truthy, effMeas]
    · left; simp [truthy, effMeas, hs]

theorem filterM_map_length (sel : Point → Except Exc Bool) (l : List Point) :
    Except.map (fun x => x.length) (List.filterM sel l)
      = Except.map (fun x => x.length) (List.filterAuxM sel l []) := by
  unfold List.filterM
  cases List.filterAuxM sel l [] <;> simp [bind, Except.bind, Except.map, pure, Except.pure]

theorem count_ok (norm : Point → Point) (g : DSelf) (q : Query) (m : Option String) :
    DatabaseImpl.count modelExt g q m = liftE (modelCount (absDB norm g) q m) := by
  unfold DatabaseImpl.count modelCount
  have hv : IndexImpl.valid g._index = .ok g._index._valid := rfl
  have hv' : (absDB norm g).index.valid = g._index._valid := rfl
  have hidx : (absDB norm g).index = abs g._index := rfl
  rw [hv, hv']
  simp only [bind, Except.bind]
  have he : modelExt.index_is_exact q = exact q := rfl
  rw [he]
  have ht : ∀ b : Bool, truthy b = b := fun _ => rfl
  simp only [ht]
  split
  · rcases truthy_meas m with ⟨h1, name, rfl, h3⟩ | ⟨h1, h3⟩
    · simp only [h1, if_true, State.indexSearch, h3]
      rw [hidx]; simp only [modelExt, Option.getD_some]
      cases (abs g._index).search _ <;> rfl
    · simp only [h1, State.indexSearch, h3, Bool.false_eq_true, if_false]
      rw [hidx]; simp only [modelExt]
      cases (abs g._index).search _ <;> rfl
  · rw [filterM_map_length]
    refine count_loop (State.scanSel q m) _ ?_ g._storage._items []
    intro c a
    rcases scan_cases q m a with ⟨h1, h2⟩ | ⟨h1, h2⟩
    · simp only [Storage._deserialize_measurement, Storage._deserialize_storage_item, h1, h2, if_true]
      rfl
    · simp only [Storage._deserialize_measurement, Storage._deserialize_storage_item, h1, h2,
        Bool.false_eq_true, if_false, modelExt]
      cases eval q a with
      | error e => rfl
      | ok b => cases b <;> rfl

theorem contains_loop (sel : Point → Except Exc Bool) (f : Bool × Bool → Point → M (Bool × Bool))
    (hf1 : ∀ c a, f (c, true) a = .ok (c, true))
    (hf2 : ∀ c a b, sel a = .ok b → f (c, false) a = .ok (if b then (true, true) else (c, false))) :
    ∀ (l accL : List Point) (c brk : Bool) (r : List Point),
      List.filterAuxM sel l accL = .ok r → (brk = true → c = true) → c = !accL.isEmpty →
      ∃ brk', List.foldlM f (c, brk) l = .ok (!r.isEmpty, brk') := by
  intro l
  induction l with
  | nil =>
    intro accL c brk r hr _ hc
    simp only [List.filterAuxM, pure, Except.pure, Except.ok.injEq] at hr
    subst hr
    exact ⟨brk, by simp [hc, pure, Except.pure]⟩
  | cons a t ih =>
    intro accL c brk r hr hb hc
    rw [filterAuxM_cons'] at hr
    cases hs : sel a with
    | error e => rw [hs] at hr; simp [bind, Except.bind] at hr
    | ok b =>
      rw [hs] at hr
      simp only [bind, Except.bind] at hr
      rw [List.foldlM_cons]
      cases brk with
      | true =>
        rw [hf1]
        simp only [bind, Except.bind]
        have hct := hb rfl
        refine ih _ c true r hr (fun _ => hct) ?_
        rw [hct] at hc ⊢
        cases b
        · exact hc
        · rfl
      | false =>
        rw [hf2 c a b hs]
        simp only [bind, Except.bind]
        cases b
        · exact ih _ c false r hr (by simp) hc
        · exact ih _ true true r hr (fun _ => rfl) rfl

theorem contains_loop' (sel : Point → Except Exc Bool) (f : Bool × Bool → Point → M (Bool × Bool))
    (hf1 : ∀ c a, f (c, true) a = .ok (c, true))
    (hf2 : ∀ c a b, sel a = .ok b → f (c, false) a = .ok (if b then (true, true) else (c, false)))
    (l r : List Point) (hr : List.filterAuxM sel l [] = .ok r) :
    (List.foldlM f (false, false) l >>= fun v => (pure v.fst : M Bool)) = .ok (!r.isEmpty) := by
  obtain ⟨brk', hfold⟩ := contains_loop sel f hf1 hf2 l [] false false r hr (by simp) rfl
  rw [hfold]; rfl

theorem decide_len_pos {α : Type} (l : List α) : decide (Py.Typed.len l > 0) = !l.isEmpty := by
  cases l <;> simp [Py.Typed.len]

/-- `contains` leaves its loop at the first match, the Model looks at every row: they agree whenever the Model's
    evaluation does not raise (and a query never raises on a point: C09 `eval_never_raises`) -/
theorem contains_ok (norm : Point → Point) (g : DSelf) (q : Query) (m : Option String) (b : Bool)
    (h : modelContains (absDB norm g) q m = .ok b) :
    DatabaseImpl.contains modelExt g q m = .ok b := by
  unfold modelContains at h
  unfold DatabaseImpl.contains
  have hv : IndexImpl.valid g._index = .ok g._index._valid := rfl
  have hv' : (absDB norm g).index.valid = g._index._valid := rfl
  have hidx : (absDB norm g).index = abs g._index := rfl
  rw [hv]
  rw [hv'] at h
  simp only [bind, Except.bind]
  have he : modelExt.index_is_exact q = exact q := rfl
  rw [he]
  have ht : ∀ b : Bool, truthy b = b := fun _ => rfl
  simp only [ht, decide_len_pos]
  split
  · rename_i hc
    rw [if_pos hc] at h
    rcases truthy_meas m with ⟨h1, name, rfl, h3⟩ | ⟨h1, h3⟩
    · simp only [h1, if_true]
      simp only [State.indexSearch, h3, hidx] at h
      simp only [modelExt, Option.getD_some]
      cases hs : (abs g._index).search ((Query.meas (Leaf.cmp Cmp.eq (PyV.str name))).and q) with
      | error e => rw [hs] at h; simp [Except.map] at h
      | ok l => rw [hs] at h; simpa [Except.map, pure, Except.pure] using h
    · simp only [h1, Bool.false_eq_true, if_false]
      simp only [State.indexSearch, h3, hidx] at h
      simp only [modelExt]
      cases hs : (abs g._index).search q with
      | error e => rw [hs] at h; simp [Except.map] at h
      | ok l => rw [hs] at h; simpa [Except.map, pure, Except.pure] using h
  · rename_i hc
    rw [if_neg hc] at h
    have hst : (absDB norm g).storage = g._storage._items := rfl
    rw [hst] at h
    unfold List.filterM at h
    cases hr : List.filterAuxM (State.scanSel q m) g._storage._items [] with
    | error e => rw [hr] at h; simp [bind, Except.bind, Except.map] at h
    | ok r =>
      rw [hr] at h
      simp only [bind, Except.bind, pure, Except.pure, Except.map, Except.ok.injEq,
        List.isEmpty_reverse] at h
      subst h
      refine contains_loop' (State.scanSel q m) _ ?_ ?_ g._storage._items r hr
      · intro c a
        rfl
      · intro c a b' hs
        rcases scan_cases q m a with ⟨h1, h2⟩ | ⟨h1, h2⟩
        · simp only [Storage._deserialize_measurement, Storage._deserialize_storage_item, h1, if_true,
            Bool.false_eq_true, if_false]
          rw [h2] at hs
          cases hs
          rfl
        · simp only [Storage._deserialize_measurement, Storage._deserialize_storage_item, h1,
            Bool.false_eq_true, if_false, modelExt]
          rw [h2] at hs
          rw [hs]
          cases b' <;> rfl

end TinyFlux.Mirror
