import TinyFlux.Mirror.Ops
import TinyFlux.Mirror.Getters
/-!
# Mirror theorems, part H: no tag key of the translated index has an empty inner dict

The getter theorems for tags (`Mirror/Getters.lean`) need that no key of `_tags` maps to an empty dict (such a key
vanishes when `_tags` is flattened for the Model). Every state the translated methods produce has the property:
`_insert_tags` fills the inner dict it creates in the same iteration, `_remove_tags` creates an inner dict only
together with a non-empty posting list, `_update_tags` keeps the shape.
-/
namespace TinyFlux.Mirror
open TinyFlux.Model TinyFlux.Spec TinyFlux.Py.Typed
open TinyFlux.Generated

/-- no tag key maps to an empty dict -/
def TagsNE (t : AL String (AL (Option String) (List Nat))) : Prop := ∀ kd ∈ t, kd.2 ≠ []

theorem tagsNE_nil : TagsNE [] := by
  intro kd h; cases h

theorem tagsNE_init (v : Bool) : TagsNE (IndexImpl.__init__ v)._tags := by
  exact tagsNE_nil

/-- `d[k] = …` never leaves the dict empty -/
theorem alterAL_ne_nil {K V : Type} [BEq K] (k : K) (d : V) (f : V → V) (l : AL K V) :
    alterAL k d f l ≠ [] := by
  cases l with
  | nil => simp [alterAL]
  | cons hd t =>
    obtain ⟨k', v⟩ := hd
    simp only [alterAL]
    split <;> simp

/-- `t[k][v] = …` keeps every inner dict non-empty -/
theorem tagsNE_alter2 (k : String) (v : Option String) (dflt : List Nat) (f : List Nat → List Nat)
    (t : AL String (AL (Option String) (List Nat))) (ht : TagsNE t) : TagsNE (alter2 k v dflt f t) := by
  unfold alter2
  exact alterAL_all' (fun d => d ≠ []) k [] (alterAL v dflt f) (alterAL_ne_nil _ _ _ _)
    (fun d _ => alterAL_ne_nil _ _ _ d) t ht

theorem tagsNE_insert_fold (idx : Nat) (tags : AL String (Option String))
    (t : AL String (AL (Option String) (List Nat))) (ht : TagsNE t) :
    TagsNE (tags.foldl (fun t kv => alter2 kv.1 kv.2 [] (fun l => l ++ [idx]) t) t) := by
  induction tags generalizing t with
  | nil => exact ht
  | cons hd tl ih =>
    simp only [List.foldl_cons]
    exact ih _ (tagsNE_alter2 _ _ _ _ t ht)

theorem insert_tags_ne (g : GSelf) (idx : Nat) (tags : AL String (Option String)) (hwf : TagsWF g._tags)
    (hne : TagsNE g._tags) (g' : GSelf) (h : IndexImpl._insert_tags g idx tags = .ok g') : TagsNE g'._tags := by
  have _ := hwf
  rw [insert_tags_eq, insert_loop] at h
  cases h
  exact tagsNE_insert_fold idx tags g._tags hne

theorem remInner_loop_ne (r : List Nat) (k : String) (d : AL (Option String) (List Nat))
    (nt : AL String (AL (Option String) (List Nat))) (hnt : TagsNE nt) :
    ∃ X, List.foldlM (remInner r k) nt d = .ok X ∧ TagsNE X := by
  induction d generalizing nt with
  | nil => exact ⟨nt, by simp [pure, Except.pure], hnt⟩
  | cons hd tl ih =>
    obtain ⟨v, l⟩ := hd
    simp only [List.foldlM_cons, remInner_ok, bind, Except.bind]
    apply ih
    split
    · exact hnt
    · exact tagsNE_alter2 _ _ _ _ nt hnt

theorem remOuter_loop_ne (r : List Nat) (t : AL String (AL (Option String) (List Nat)))
    (nt : AL String (AL (Option String) (List Nat))) (hnt : TagsNE nt) :
    ∃ X, List.foldlM (remOuter r) nt t = .ok X ∧ TagsNE X := by
  induction t generalizing nt with
  | nil => exact ⟨nt, by simp [pure, Except.pure], hnt⟩
  | cons hd tl ih =>
    obtain ⟨k, d⟩ := hd
    obtain ⟨Y, hY, hYne⟩ := remInner_loop_ne r k d nt hnt
    obtain ⟨X, hX, hXne⟩ := ih Y hYne
    refine ⟨X, ?_, hXne⟩
    simp only [List.foldlM_cons, remOuter, items]
    rw [hY]; exact hX

theorem remove_tags_ne (g : GSelf) (r : List Nat) (hwf : TagsWF g._tags)
    (g' : GSelf) (h : IndexImpl._remove_tags g r = .ok g') : TagsNE g'._tags := by
  have _ := hwf
  obtain ⟨X, hX, hXne⟩ := remOuter_loop_ne r g._tags [] tagsNE_nil
  rw [remove_tags_eq, hX] at h
  cases h
  exact hXne

theorem tagsNE_renTags (u : AL Nat Nat) (t : AL String (AL (Option String) (List Nat))) (ht : TagsNE t) :
    TagsNE (renTags u t) := by
  intro kd hkd
  simp only [renTags, List.mem_map] at hkd
  obtain ⟨kd0, h0, rfl⟩ := hkd
  have := ht kd0 h0
  simpa [renInner] using this

theorem update_tags_ne (g : GSelf) (u : AL Nat Nat) (hwf : TagsWF g._tags) (hne : TagsNE g._tags)
    (g' : GSelf) (h : IndexImpl._update_tags g u = .ok g') : TagsNE g'._tags := by
  have hl := updOuter_loop u g g._tags [] (by simpa using hwf.1) (fun kd h => (hwf.2 kd h).1)
  simp only [List.nil_append] at hl
  rw [update_tags_eq, hl] at h
  cases h
  exact tagsNE_renTags u _ hne

/-! ## the composite methods -/

theorem insert_tags_ok_ne (g : GSelf) (idx : Nat) (tags : AL String (Option String)) (hwf : TagsWF g._tags)
    (hne : TagsNE g._tags) :
    ∃ X, IndexImpl._insert_tags g idx tags = .ok { g with _tags := X } ∧ TagsWF X ∧ TagsNE X := by
  obtain ⟨X, e, w, _⟩ := insert_tags_ok g idx tags hwf
  exact ⟨X, e, w, insert_tags_ne g idx tags hwf hne _ e⟩

theorem ins_step_ne (start : Nat) (g : GSelf) (idx : Nat) (p : Point) (hg : GWF g) (hne : TagsNE g._tags) :
    ∃ g', insBody start g (idx, p) = .ok g' ∧ GWF g' ∧ TagsNE g'._tags := by
  unfold insBody
  simp only [truthy, Bool.not_true, Bool.false_eq_true, ↓reduceIte]
  rw [insert_time_ok]
  simp only [bind, Except.bind]
  obtain ⟨X1, e1, w1, n1⟩ := insert_tags_ok_ne ⟨g._num_items + 1, g._tags, g._fields, g._measurements,
    g._timestamps ++ [(timeOf p).us], g._valid, g._storage_pos_sorted_by_ts ++ [g._timestamps.length]⟩ (start + idx) p.tags hg.tags hne
  rw [e1]
  obtain ⟨X2, e2, _, w2⟩ := insert_fields_ok ⟨g._num_items + 1, X1, g._fields, g._measurements,
    g._timestamps ++ [(timeOf p).us], g._valid, g._storage_pos_sorted_by_ts ++ [g._timestamps.length]⟩ (start + idx) p.fields
  simp only []
  rw [e2]
  obtain ⟨X3, e3, _, w3⟩ := insert_measurements_ok ⟨g._num_items + 1, X1, X2, g._measurements,
    g._timestamps ++ [(timeOf p).us], g._valid, g._storage_pos_sorted_by_ts ++ [g._timestamps.length]⟩ (start + idx) p.meas
  simp only []
  rw [e3]
  exact ⟨_, rfl, ⟨w3 hg.meas, w2 hg.fields, w1⟩, n1⟩

theorem ins_loop_ne (start : Nat) (l : List (Nat × Point)) (g : GSelf) (hg : GWF g) (hne : TagsNE g._tags) :
    ∃ g', List.foldlM (insBody start) g l = .ok g' ∧ GWF g' ∧ TagsNE g'._tags := by
  induction l generalizing g with
  | nil => exact ⟨g, rfl, hg, hne⟩
  | cons hd tl ih =>
    obtain ⟨idx, p⟩ := hd
    obtain ⟨g1, e1, hg1, n1⟩ := ins_step_ne start g idx p hg hne
    obtain ⟨g2, e2, hg2, n2⟩ := ih g1 hg1 n1
    refine ⟨g2, ?_, hg2, n2⟩
    simp only [List.foldlM_cons, e1, bind, Except.bind]
    exact e2

theorem insert_ne (g : GSelf) (pts : List Point) (hg : GWF g) (hne : TagsNE g._tags)
    (g' : GSelf) (h : IndexImpl.insert g pts = .ok g') : TagsNE g'._tags := by
  obtain ⟨g1, e1, _, n1⟩ := ins_loop_ne g._timestamps.length (enumerate pts) g hg hne
  rw [insert_eq, e1] at h
  cases h
  exact n1

theorem remove_tags_ok_ne (g : GSelf) (r : List Nat) (hwf : TagsWF g._tags) :
    ∃ X, IndexImpl._remove_tags g r = .ok { g with _tags := X } ∧ TagsWF X ∧ TagsNE X := by
  obtain ⟨X, e, w, _⟩ := remove_tags_ok g r hwf
  exact ⟨X, e, w, remove_tags_ne g r hwf _ e⟩

theorem update_tags_ok_ne (g : GSelf) (u : AL Nat Nat) (hwf : TagsWF g._tags) (hne : TagsNE g._tags) :
    ∃ X, IndexImpl._update_tags g u = .ok { g with _tags := X } ∧ TagsWF X ∧ TagsNE X := by
  obtain ⟨X, e, w, _⟩ := update_tags_ok g u hwf
  exact ⟨X, e, w, update_tags_ne g u hwf hne _ e⟩

theorem remove_pre_ne (g : GSelf) (r : List Nat) (hg : GWF g) :
    ∃ g', (do
        let self ← IndexImpl._remove_timestamps g r
        let self ← IndexImpl._remove_measurements self r
        let self ← IndexImpl._remove_tags self r
        IndexImpl._remove_fields self r) = .ok g' ∧ TagsNE g'._tags := by
  rw [remove_timestamps_ok]
  simp only [bind, Except.bind]
  obtain ⟨X1, e1, _, _⟩ := remove_measurements_ok ⟨g._num_items, g._tags, g._fields, g._measurements,
    ((g._timestamps.zip g._storage_pos_sorted_by_ts).filter (fun tp => !r.contains tp.2)).map (·.1), g._valid,
    ((g._timestamps.zip g._storage_pos_sorted_by_ts).filter (fun tp => !r.contains tp.2)).map (·.2)⟩ r hg.meas
  rw [e1]
  obtain ⟨X2, e2, _, n2⟩ := remove_tags_ok_ne ⟨g._num_items, g._tags, g._fields, X1,
    ((g._timestamps.zip g._storage_pos_sorted_by_ts).filter (fun tp => !r.contains tp.2)).map (·.1), g._valid,
    ((g._timestamps.zip g._storage_pos_sorted_by_ts).filter (fun tp => !r.contains tp.2)).map (·.2)⟩ r hg.tags
  simp only []
  rw [e2]
  obtain ⟨X3, e3, _, _⟩ := remove_fields_ok ⟨g._num_items, X2, g._fields, X1,
    ((g._timestamps.zip g._storage_pos_sorted_by_ts).filter (fun tp => !r.contains tp.2)).map (·.1), g._valid,
    ((g._timestamps.zip g._storage_pos_sorted_by_ts).filter (fun tp => !r.contains tp.2)).map (·.2)⟩ r hg.fields
  simp only []
  rw [e3]
  exact ⟨_, rfl, n2⟩

theorem remove_ne (g : GSelf) (r : List Nat) (hg : GWF g)
    (g' : GSelf) (h : IndexImpl.remove g r = .ok g') : TagsNE g'._tags := by
  obtain ⟨g1, e1, n1⟩ := remove_pre_ne g r hg
  rw [remove_eq, e1] at h
  simp only [bind, Except.bind, natSub] at h
  split at h
  · cases h
  · simp only [pure, Except.pure] at h
    cases h
    exact n1

theorem update_ne (g : GSelf) (u : AL Nat Nat) (hg : GWF g) (hne : TagsNE g._tags)
    (g' : GSelf) (h : IndexImpl.update g u = .ok g') : TagsNE g'._tags := by
  unfold IndexImpl.update at h
  rw [update_timestamps_ok] at h
  simp only [bind, Except.bind] at h
  obtain ⟨X1, e1, _, _⟩ := update_measurements_ok ⟨g._num_items, g._tags, g._fields, g._measurements,
    g._timestamps, g._valid, g._storage_pos_sorted_by_ts.map (renum u)⟩ u hg.meas
  rw [e1] at h
  obtain ⟨X2, e2, _, n2⟩ := update_tags_ok_ne ⟨g._num_items, g._tags, g._fields, X1,
    g._timestamps, g._valid, g._storage_pos_sorted_by_ts.map (renum u)⟩ u hg.tags hne
  simp only [] at h
  rw [e2] at h
  obtain ⟨X3, e3, _, _⟩ := update_fields_ok ⟨g._num_items, X2, g._fields, X1,
    g._timestamps, g._valid, g._storage_pos_sorted_by_ts.map (renum u)⟩ u hg.fields
  simp only [] at h
  rw [e3] at h
  cases h
  exact n2

theorem bld_step_ne (g : GSelf) (buf : List (Int × Nat)) (idx : Nat) (p : Point) (hg : GWF g)
    (hne : TagsNE g._tags) :
    ∃ g' buf', bldBody (g, buf) (idx, p) = .ok (g', buf') ∧ GWF g' ∧ TagsNE g'._tags := by
  unfold bldBody
  simp only [truthy, Bool.not_true, Bool.false_eq_true, ↓reduceIte]
  obtain ⟨X1, e1, _, w1⟩ := insert_measurements_ok ⟨g._num_items + 1, g._tags, g._fields, g._measurements,
    g._timestamps, g._valid, g._storage_pos_sorted_by_ts⟩ idx p.meas
  obtain ⟨X2, e2, w2, n2⟩ := insert_tags_ok_ne ⟨g._num_items + 1, g._tags, g._fields, X1,
    g._timestamps, g._valid, g._storage_pos_sorted_by_ts⟩ idx p.tags hg.tags hne
  obtain ⟨X3, e3, _, w3⟩ := insert_fields_ok ⟨g._num_items + 1, X2, g._fields, X1,
    g._timestamps, g._valid, g._storage_pos_sorted_by_ts⟩ idx p.fields
  simp only [bind, Except.bind]
  rw [e1]
  simp only []
  rw [e2]
  simp only []
  rw [e3]
  exact ⟨_, _, rfl, ⟨w1 hg.meas, w3 hg.fields, w2⟩, n2⟩

theorem bld_loop_ne (l : List (Nat × Point)) (g : GSelf) (buf : List (Int × Nat)) (hg : GWF g)
    (hne : TagsNE g._tags) :
    ∃ g' buf', List.foldlM bldBody (g, buf) l = .ok (g', buf') ∧ GWF g' ∧ TagsNE g'._tags := by
  induction l generalizing g buf with
  | nil => exact ⟨g, buf, rfl, hg, hne⟩
  | cons hd tl ih =>
    obtain ⟨idx, p⟩ := hd
    obtain ⟨g1, b1, e1, hg1, n1⟩ := bld_step_ne g buf idx p hg hne
    obtain ⟨g2, b2, e2, hg2, n2⟩ := ih g1 b1 hg1 n1
    refine ⟨g2, b2, ?_, hg2, n2⟩
    simp only [List.foldlM_cons, e1, bind, Except.bind]
    exact e2

theorem build_ne (g : GSelf) (pts : List Point)
    (g' : GSelf) (h : IndexImpl.build g pts = .ok g') : TagsNE g'._tags := by
  obtain ⟨g1, b1, e1, _, n1⟩ := bld_loop_ne (enumerate pts) (IndexImpl.__init__ false) []
    (gwf_init false) (tagsNE_init false)
  rw [build_eq, reset_ok] at h
  simp only [bind, Except.bind, init_invalid] at h
  rw [e1] at h
  simp only [pure, Except.pure] at h
  cases h
  exact n1

end TinyFlux.Mirror
