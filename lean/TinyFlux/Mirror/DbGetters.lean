import TinyFlux.Mirror.Database
import TinyFlux.Mirror.Getters
import TinyFlux.Mirror.TagsNE
import TinyFlux.Mirror.Reads
/-!
# Mirror theorems, part P: the exploration getters and `__len__` of `TinyFlux` (database.py), as translated

`TinyFlux.__len__`, `get_measurements`, `get_field_keys`, `get_field_values`, `get_tag_keys`, `get_timestamps` translated
statement by statement from the working tree (`Generated/DatabaseImpl.lean`): with a valid index they call the *translated*
getter of the index (and sort), otherwise they scan storage with the measurement filter. On every state whose index is
dict-shaped they return what the Model's `step` answers for the corresponding operation (once `readOp` has run) on the
`absDB`-read state. The measurement argument `""` is excluded as everywhere (recorded finding `empty-measurement-name`).
-/
namespace TinyFlux.Mirror
open TinyFlux.Model TinyFlux.Spec TinyFlux.Py.Typed
open TinyFlux.Generated

/-- what `State.step` answers for `.len` -/
def modelLen (s : State) : Nat := if s.cfg.autoIndex && s.index.valid then s.index.numItems else s.storage.length

def modelMeasurements (s : State) : List String :=
  sortStr (if s.index.valid then s.index.getMeasurements else dedup (s.storage.map (·.meas)))
def modelFieldKeys (s : State) (m : Option String) : List String :=
  sortStr (if s.index.valid then s.index.getFieldKeys (effMeas m)
           else dedup ((State.restrictM s.storage m).flatMap (fun p => p.fields.map (·.1))))
def modelTagKeys (s : State) (m : Option String) : List String :=
  sortStr (if s.index.valid then s.index.getTagKeys (effMeas m)
           else dedup ((State.restrictM s.storage m).flatMap (fun p => p.tags.map (·.1))))
def modelFieldValues (s : State) (k : String) (m : Option String) : List (Option Num) :=
  if s.index.valid then s.index.getFieldValues k (effMeas m)
  else (State.restrictM s.storage m).filterMap (fun p => p.fields.lookup k)
def modelTimestamps (s : State) (m : Option String) : List Int :=
  if s.index.valid then s.index.getTimestamps (effMeas m) else (State.restrictM s.storage m).map (·.time)

namespace DbG

theorem sortStr_eq_of_sameMembers (a b : List String) (ha : a.Nodup) (hb : b.Nodup)
    (h : ∀ x, x ∈ a ↔ x ∈ b) : sortStr a = sortStr b := by
  unfold sortStr
  have hp : a.Perm b := (List.perm_ext_iff_of_nodup ha hb).2 h
  have hpa := List.mergeSort_perm a (fun a b => decide (a ≤ b))
  have hpb := List.mergeSort_perm b (fun a b => decide (a ≤ b))
  have tr : ∀ (a b c : String), decide (a ≤ b) = true → decide (b ≤ c) = true → decide (a ≤ c) = true := by
    intro a b c h1 h2
    simp only [decide_eq_true_eq] at *
    exact String.le_trans h1 h2
  have tot : ∀ (a b : String), (decide (a ≤ b) || decide (b ≤ a)) = true := by
    intro a b
    simp only [Bool.or_eq_true, decide_eq_true_eq]
    exact String.le_total a b
  have sa := List.pairwise_mergeSort tr tot a
  have sb := List.pairwise_mergeSort tr tot b
  refine List.Perm.eq_of_pairwise ?_ sa sb (hpa.trans (hp.trans hpb.symm))
  intro x y _ _ h1 h2
  simp only [decide_eq_true_eq] at h1 h2
  exact String.le_antisymm h1 h2

theorem effMeas_eq (m : Option String) (hm : m ≠ some "") : effMeas m = m := by
  cases m with
  | none => rfl
  | some s =>
    have : s ≠ "" := fun h => hm (by rw [h])
    simp [effMeas, this]

/-- the generated `continue` condition -/
def skip (m : Option String) (p : Point) : Bool := truthy m && !pyEq p.meas m

theorem restrictM_eq (l : List Point) (m : Option String) :
    State.restrictM l m = l.filter (fun p => !skip m p) := by
  unfold State.restrictM skip
  rcases truthy_meas m with ⟨h1, name, h2, h3⟩ | ⟨h1, h2⟩
  · rw [h3]; subst h2
    simp only [h1, pyEq, Bool.true_and, Bool.not_not]
  · rw [h2]
    simp only [h1, Bool.false_and, Bool.not_false]
    exact (List.filter_eq_self.2 (fun _ _ => rfl)).symm

theorem scan_fold {β : Type} (st : Storage) (m : Option String) (body : β → Point → M β) (f : β → Point → β)
    (hb : ∀ acc p, body acc p =
      .ok (if (truthy m && !pyEq (Storage._deserialize_measurement st p) m) = true then acc else f acc p))
    (l : List Point) :
    ∀ acc, List.foldlM body acc l = .ok ((State.restrictM l m).foldl f acc) := by
  rw [restrictM_eq]
  induction l with
  | nil => intro acc; rfl
  | cons p t ih =>
    intro acc
    have hs : (truthy m && !pyEq (Storage._deserialize_measurement st p) m) = skip m p := rfl
    simp only [List.foldlM_cons, hb, bind, Except.bind, ih, List.filter_cons]
    by_cases h : skip m p = true
    · simp only [hs, h, ↓reduceIte, Bool.not_true, Bool.false_eq_true]
    · have h' : skip m p = false := by simpa using h
      simp only [hs, h', ↓reduceIte, Bool.not_false, List.foldl_cons, Bool.false_eq_true]

theorem foldlM_pure {α β : Type} (body : β → α → M β) (f : β → α → β) (hb : ∀ acc a, body acc a = .ok (f acc a))
    (l : List α) : ∀ acc, List.foldlM body acc l = .ok (l.foldl f acc) := by
  induction l with
  | nil => intro acc; rfl
  | cons a t ih => intro acc; simp only [List.foldlM_cons, hb, bind, Except.bind, ih, List.foldl_cons]

/-! ### `setAdd` folds -/
theorem mem_setAdd (s : List String) (x y : String) : y ∈ setAdd s x ↔ y ∈ s ∨ y = x := by
  unfold setAdd
  split
  · rename_i h
    have : x ∈ s := by simpa using h
    constructor
    · exact Or.inl
    · rintro (h | h)
      · exact h
      · subst h; exact this
  · simp

theorem nodup_setAdd (s : List String) (x : String) (h : s.Nodup) : (setAdd s x).Nodup := by
  unfold setAdd
  split
  · exact h
  · rename_i hc
    have : x ∉ s := by simpa using hc
    rw [List.nodup_append]
    refine ⟨h, by simp, ?_⟩
    intro a ha b hb
    simp only [List.mem_singleton] at hb
    subst hb
    intro e; subst e; exact this ha

theorem foldl_setAdd (l : List String) : ∀ (acc : List String), acc.Nodup →
    (l.foldl setAdd acc).Nodup ∧ ∀ y, y ∈ l.foldl setAdd acc ↔ y ∈ acc ∨ y ∈ l := by
  induction l with
  | nil => intro acc h; simp [h]
  | cons a t ih =>
    intro acc h
    obtain ⟨h1, h2⟩ := ih (setAdd acc a) (nodup_setAdd acc a h)
    refine ⟨h1, ?_⟩
    intro y
    simp only [List.foldl_cons, h2, mem_setAdd, List.mem_cons]
    constructor
    · rintro ((h | h) | h)
      · exact Or.inl h
      · exact Or.inr (Or.inl h)
      · exact Or.inr (Or.inr h)
    · rintro (h | h | h)
      · exact Or.inl (Or.inl h)
      · exact Or.inl (Or.inr h)
      · exact Or.inr h

theorem nodup_dedup (l : List String) : (dedup l).Nodup := by
  induction l with
  | nil => simp [dedup]
  | cons a t ih =>
    simp only [dedup]
    split
    · exact ih
    · rename_i hc
      have : a ∉ t := by simpa using hc
      rw [List.nodup_cons]
      exact ⟨by rw [Getters.mem_dedup]; exact this, ih⟩

theorem sort_foldl_setAdd (l : List String) : sortStr (l.foldl setAdd []) = sortStr (dedup l) := by
  obtain ⟨h1, h2⟩ := foldl_setAdd l [] List.nodup_nil
  apply sortStr_eq_of_sameMembers _ _ h1 (nodup_dedup l)
  intro x
  rw [h2, Getters.mem_dedup]
  simp

theorem foldl_foldl_flatMap {α β γ : Type} (f : β → γ → β) (k : α → List γ) (l : List α) :
    ∀ acc, l.foldl (fun acc p => (k p).foldl f acc) acc = (l.flatMap k).foldl f acc := by
  induction l with
  | nil => intro acc; rfl
  | cons a t ih => intro acc; simp only [List.foldl_cons, List.flatMap_cons, List.foldl_append, ih]

end DbG
open DbG

theorem len_ok (norm : Point → Point) (g : DSelf) :
    DatabaseImpl.__len__ g = .ok (modelLen (absDB norm g)) := by
  unfold DatabaseImpl.__len__ modelLen
  simp only [IndexImpl.valid, IndexImpl.__len__, Storage.__len__, truthy, absDB, abs, bind, Except.bind, pure, Except.pure, id]
  by_cases h1 : g._auto_index = true
  · by_cases h2 : g._index._valid = true <;> simp [h1, h2]
  · simp [h1]

/-- the `model…` functions are what `State.step` answers -/
theorem model_getters_are_step (s : State) (k : String) (m : Option String) :
    (s.step .len).2 = .nat (modelLen s)
    ∧ (s.step .getMeasurements).2 = .strs (modelMeasurements s.readOp)
    ∧ (s.step (.getFieldKeys m)).2 = .strs (modelFieldKeys s.readOp m)
    ∧ (s.step (.getTagKeys m)).2 = .strs (modelTagKeys s.readOp m)
    ∧ (s.step (.getFieldValues k m)).2 = .nums (modelFieldValues s.readOp k m)
    ∧ (s.step (.getTimestamps m)).2 = .times (modelTimestamps s.readOp m) := by
  refine ⟨rfl, rfl, rfl, rfl, rfl, rfl⟩

namespace DbG
theorem ite_ok {β : Type} (c : Prop) [Decidable c] (a b : β) :
    (if c then (Except.ok a : M β) else Except.ok b) = Except.ok (if c then a else b) := by
  by_cases h : c <;> simp [h]

theorem truthy_bool (b : Bool) : truthy b = b := rfl

theorem foldl_append_map {α β : Type} (f : α → β) (l : List α) :
    ∀ acc : List β, l.foldl (fun acc p => acc ++ [f p]) acc = acc ++ l.map f := by
  induction l with
  | nil => intro acc; simp
  | cons a t ih => intro acc; simp [ih]

end DbG

theorem db_get_timestamps_ok (norm : Point → Point) (g : DSelf) (hg : GWF g._index) (m : Option String) (hm : m ≠ some "") :
    (DatabaseImpl.get_timestamps g m).map (fun l => l.map (·.us)) = .ok (modelTimestamps (absDB norm g) m) := by
  unfold DatabaseImpl.get_timestamps modelTimestamps
  have hv : IndexImpl.valid g._index = .ok g._index._valid := rfl
  have hv' : (absDB norm g).index.valid = g._index._valid := rfl
  rw [hv, hv', effMeas_eq m hm]
  by_cases h : g._index._valid = true
  · simp only [h, truthy, id, get_timestamps_ok g._index hg m hm, bind, Except.bind, pure, Except.pure, ↓reduceIte,
      Except.map, List.map_map]
    congr 1
    have : ((fun x : DateTime => x.us) ∘ fun i => fromtimestamp i) = id := rfl
    rw [this, List.map_id]
    rfl
  · simp only [h, truthy_bool, bind, Except.bind, pure, Except.pure, Bool.false_eq_true, ↓reduceIte]
    rw [scan_fold g._storage m _ (fun acc p => acc ++ [timeOf p])]
    · simp only [Except.map, foldl_append_map, List.nil_append, List.map_map]
      rfl
    · intro acc p
      simp only [Storage._deserialize_timestamp, DateTime.replaceTzUtc, Py.Typed.append]
      rw [ite_ok]

namespace DbG
theorem filter_key_nil (k : String) (t : List (String × Option Num)) (h : k ∉ t.map (·.1)) :
    t.filter (fun kv => kv.1 == k) = [] := by
  rw [List.filter_eq_nil_iff]
  intro kv hkv hc
  have : kv.1 = k := by simpa using hc
  exact h (List.mem_map.2 ⟨kv, hkv, this⟩)

theorem filter_key_lookup (k : String) (fs : List (String × Option Num)) (h : (fs.map (·.1)).Nodup) :
    (fs.filter (fun kv => kv.1 == k)).map (·.2) = (fs.lookup k).toList := by
  induction fs with
  | nil => rfl
  | cons a t ih =>
    obtain ⟨a, v⟩ := a
    rw [List.map_cons, List.nodup_cons] at h
    by_cases hk : a = k
    · subst hk
      simp [filter_key_nil a t h.1]
    · have h1 : (a == k) = false := by simpa using hk
      have h2 : (k == a) = false := by simpa using (fun e : k = a => hk e.symm)
      simp only [List.filter_cons, h1, List.lookup_cons, h2]
      exact ih h.2

theorem foldl_append_flatMap {α β : Type} (f : α → List β) (l : List α) :
    ∀ acc : List β, l.foldl (fun acc p => acc ++ f p) acc = acc ++ l.flatMap f := by
  induction l with
  | nil => intro acc; simp
  | cons a t ih => intro acc; simp [ih]

theorem flatMap_toList_filterMap {α β : Type} (f : α → List β) (o : α → Option β) (l : List α)
    (h : ∀ p ∈ l, f p = (o p).toList) : l.flatMap f = l.filterMap o := by
  induction l with
  | nil => rfl
  | cons a t ih =>
    rw [List.flatMap_cons, h a (List.mem_cons_self ..), ih (fun p hp => h p (List.mem_cons_of_mem _ hp)),
      List.filterMap_cons]
    cases o a <;> rfl

theorem foldl_filter_key (k : String) (fs : List (String × Option Num)) : ∀ acc : List (Option Num),
    fs.foldl (fun rst kv => if (kv.1 == k) = true then rst ++ [kv.2] else rst) acc
      = acc ++ (fs.filter (fun kv => kv.1 == k)).map (·.2) := by
  induction fs with
  | nil => intro acc; simp
  | cons a t ih =>
    intro acc
    by_cases hk : (a.1 == k) = true
    · simp only [List.foldl_cons, hk, ↓reduceIte, ih, List.filter_cons, List.map_cons, List.append_assoc,
        List.singleton_append]
    · simp only [List.foldl_cons, hk, ↓reduceIte, ih, List.filter_cons, Bool.false_eq_true]

end DbG

/-- stored points are dict-shaped (`WFPoint`: a Python dict has each key once), so a point contributes at most one value -/
theorem db_get_field_values_ok (norm : Point → Point) (g : DSelf) (hg : GWF g._index)
    (hwf : ∀ p ∈ g._storage._items, WFPoint p) (k : String) (m : Option String) (hm : m ≠ some "") :
    DatabaseImpl.get_field_values g k m = .ok (modelFieldValues (absDB norm g) k m) := by
  unfold DatabaseImpl.get_field_values modelFieldValues
  have hv : IndexImpl.valid g._index = .ok g._index._valid := rfl
  have hv' : (absDB norm g).index.valid = g._index._valid := rfl
  rw [hv, hv', effMeas_eq m hm]
  by_cases h : g._index._valid = true
  · simp only [h, truthy_bool, get_field_values_ok g._index hg k m hm, bind, Except.bind, ↓reduceIte]
    rfl
  · simp only [h, truthy_bool, bind, Except.bind, pure, Except.pure, Bool.false_eq_true, ↓reduceIte]
    rw [scan_fold g._storage m _ (fun acc p => acc ++ (p.fields.filter (fun kv => kv.1 == k)).map (·.2))]
    · rw [foldl_append_flatMap, List.nil_append]
      congr 1
      apply flatMap_toList_filterMap
      intro p hp
      apply DbG.filter_key_lookup
      have : p ∈ g._storage._items := by
        rw [DbG.restrictM_eq] at hp
        exact (List.mem_filter.1 hp).1
      exact (hwf p this).2
    · intro acc p
      simp only [Storage._deserialize_storage_item, items]
      rw [foldlM_pure _ (fun (rst : List (Option Num)) (kv : String × Option Num) => if kv.1 == k then rst ++ [kv.2] else rst)]
      · rw [ite_ok, foldl_filter_key]
      · intro acc kv
        simp only [Py.Typed.append]
        by_cases hk : (kv.1 == k) = true <;> simp [hk]

theorem db_get_measurements_ok (norm : Point → Point) (g : DSelf) (hg : GWF g._index) :
    DatabaseImpl.get_measurements g = .ok (modelMeasurements (absDB norm g)) := by
  unfold DatabaseImpl.get_measurements modelMeasurements
  have hv : IndexImpl.valid g._index = .ok g._index._valid := rfl
  have hv' : (absDB norm g).index.valid = g._index._valid := rfl
  rw [hv, hv']
  by_cases h : g._index._valid = true
  · simp only [h, truthy_bool, get_measurements_ok g._index hg, bind, Except.bind, pure, Except.pure, ↓reduceIte,
      sortedStr]
    rfl
  · simp only [h, truthy_bool, bind, Except.bind, pure, Except.pure, Bool.false_eq_true, ↓reduceIte, sortedStr]
    rw [foldlM_pure (f := fun (names : List String) (p : Point) => setAdd names p.meas)]
    · simp only [Storage.iter]
      have : (absDB norm g).storage = g._storage._items := rfl
      rw [this, ← sort_foldl_setAdd, List.foldl_map]
    · intro _ _; rfl

namespace DbG
/-- the scan path of `get_field_keys` / `get_tag_keys` -/
theorem scan_keys (st : Storage) (m : Option String) (kf : Point → List String) (body : List String → Point → M (List String))
    (hb : ∀ acc p, body acc p =
      .ok (if (truthy m && !pyEq (Storage._deserialize_measurement st p) m) = true then acc else (kf p).foldl setAdd acc))
    (l : List Point) :
    (List.foldlM body [] l >>= fun rst => pure (sortedStr rst))
      = .ok (sortStr (dedup ((State.restrictM l m).flatMap kf))) := by
  rw [scan_fold st m body (fun acc p => (kf p).foldl setAdd acc) hb, foldl_foldl_flatMap]
  simp only [bind, Except.bind, pure, Except.pure, sortedStr, sort_foldl_setAdd]

end DbG

theorem db_get_field_keys_ok (norm : Point → Point) (g : DSelf) (hg : GWF g._index) (m : Option String) (hm : m ≠ some "") :
    DatabaseImpl.get_field_keys g m = .ok (modelFieldKeys (absDB norm g) m) := by
  unfold DatabaseImpl.get_field_keys modelFieldKeys
  have hv : IndexImpl.valid g._index = .ok g._index._valid := rfl
  have hv' : (absDB norm g).index.valid = g._index._valid := rfl
  rw [hv, hv', effMeas_eq m hm]
  by_cases h : g._index._valid = true
  · simp only [h, truthy_bool, get_field_keys_ok g._index hg m hm, bind, Except.bind, pure, Except.pure, ↓reduceIte,
      sortedStr]
    rfl
  · simp only [h, truthy_bool, Bool.false_eq_true, ↓reduceIte]
    apply scan_keys g._storage m (fun p => p.fields.map (·.1))
    intro acc p
    simp only [Storage._deserialize_storage_item, keys, keysAL]
    rw [foldlM_pure (f := setAdd)]
    · simp only [pure, Except.pure]
      rw [ite_ok]
    · intro _ _; rfl

theorem db_get_tag_keys_ok (norm : Point → Point) (g : DSelf) (hg : GWF g._index) (hne : TagsNE g._index._tags)
    (m : Option String) (hm : m ≠ some "") :
    DatabaseImpl.get_tag_keys g m = .ok (modelTagKeys (absDB norm g) m) := by
  unfold DatabaseImpl.get_tag_keys modelTagKeys
  have hv : IndexImpl.valid g._index = .ok g._index._valid := rfl
  have hv' : (absDB norm g).index.valid = g._index._valid := rfl
  rw [hv, hv', effMeas_eq m hm]
  by_cases h : g._index._valid = true
  · simp only [h, truthy_bool, get_tag_keys_ok g._index hg hne m hm, bind, Except.bind, pure, Except.pure, ↓reduceIte,
      sortedStr]
    rfl
  · simp only [h, truthy_bool, Bool.false_eq_true, ↓reduceIte]
    apply scan_keys g._storage m (fun p => p.tags.map (·.1))
    intro acc p
    simp only [Storage._deserialize_storage_item, keys, keysAL]
    rw [foldlM_pure (f := setAdd)]
    · simp only [pure, Except.pure]
      rw [ite_ok]
    · intro _ _; rfl

end TinyFlux.Mirror
