import TinyFlux.Mirror.Closed
/-!
# Mirror theorems, part S: `TinyFlux.search` of database.py, as translated

The body of `search` (without the `read_op` decorator, which is `State.readOp` in the Model) translated statement by statement
from the working tree (`Generated/DatabaseImpl.lean`): the type check of the query, the index path (positions from
`Index.search`; nothing found → `[]`; every position → fall back to the scan; otherwise the rows at those positions in storage
order, leaving the loop once all are seen), the scan path (measurement filter, then the query), the check that every found point
has a time, and the stable sort by time when `sorted` is asked for. It returns what the Model's `step` computes for `.search`.
-/
namespace TinyFlux.Mirror
open TinyFlux.Model TinyFlux.Spec TinyFlux.Py.Typed
open TinyFlux.Generated

open TinyFlux.Generated.DatabaseImpl
set_option linter.unusedVariables false

/-- what `State.step` computes for `.search q m sorted` once `readOp` has run -/
def modelSearch (s : State) (q : Query) (m : Option String) (sorted : Bool) : Except Exc (List Point) :=
  (s.found q m true).map (fun l => if sorted then State.sortByTime l else l)

theorem model_search_is_step (s : State) (q : Query) (m : Option String) (sorted : Bool) :
    (s.step (.search q m sorted)).2 = State.outOf (modelSearch s.readOp q m sorted) (fun l => .points l) := by
  simp only [State.step, modelSearch, State.outOf]
  cases State.found s.readOp q m true <;> rfl

/-- the tail of `search`: the time check and the optional sort -/
def sFin (sorted : Bool) (found_points : List Point) : M (List Point) := do
  let _ ← List.foldlM (fun (_ : Unit) fp => do
      if (!(truthy (timeOf fp))) then do
        throw PyErr.valueError
      else do
        pure ()
    ) () found_points
  let found_points ← (if (truthy sorted) then do
    let found_points := sortedBy (fun x => (timeOf x).us) found_points
    pure found_points
  else do
    pure found_points
  )
  pure found_points

def sScanBody {Q : Type} (ext : Ext Q) (self : DSelf) (query : Q) (measurement : Option String) :
    List Point → Point → M (List Point) :=
  fun found_points item => do
    if ((truthy measurement) && (!pyEq (Storage._deserialize_measurement self._storage item) measurement)) then do
      pure found_points
    else do
      let _point := (Storage._deserialize_storage_item self._storage item)
      let found_points ← (if (truthy (← ext.call query _point)) then do
        let found_points := (append found_points _point)
        pure found_points
      else do
        pure found_points
      )
      pure found_points

def sIdxBody (self : DSelf) (items : List Nat) : List Point × Nat × Bool → Nat × Point → M (List Point × Nat × Bool) :=
  fun (found_points, j, brk) (i, item) => do
    if brk then pure (found_points, j, brk) else do
      if (!isin i items) then do
        pure (found_points, j, brk)
      else do
        let found_points := (append found_points (Storage._deserialize_storage_item self._storage item))
        let j := j + 1
        if (j == (len items)) then do
          pure (found_points, j, true)
        else do
          pure (found_points, j, brk)

def sCont {Q : Type} (ext : Ext Q) (self : DSelf) (query : Q) (measurement : Option String) (sorted : Bool)
    (use_index : Bool) (index_rst : IndexResult) : M (List Point) := do
  if (!(truthy index_rst._items)) then do
    pure []
  else do
    let use_index ← (if ((len index_rst._items) == (← IndexImpl.__len__ self._index)) then do
      let use_index := false
      pure use_index
    else do
      pure use_index
    )
    let found_points : (List Point) := []
    let found_points ← (if (truthy use_index) then do
      let j := 0
      let (found_points, j, brk) ← List.foldlM (sIdxBody self index_rst._items) (found_points, j, false) (enumerate (Storage.iter self._storage))
      pure found_points
    else do
      let found_points ← List.foldlM (sScanBody ext self query measurement) found_points (Storage.iter self._storage)
      pure found_points
    )
    sFin sorted found_points

theorem db_search_eq {Q : Type} (ext : Ext Q) (self : DSelf) (query : Q) (measurement : Option String) (sorted : Bool) :
    search ext self query measurement sorted = (do
      if (!(truthy (ext.is_query query))) then do
        throw PyErr.valueError
      else do
        let use_index := ((truthy (← IndexImpl.valid self._index)) && (truthy (ext.index_is_exact query)))
        if (truthy use_index) then do
          if (truthy measurement) then do
            let index_rst ← ext.index_search self._index (ext.qand (ext.meas_eq measurement) query)
            sCont ext self query measurement sorted use_index index_rst
          else do
            let index_rst ← ext.index_search self._index query
            sCont ext self query measurement sorted use_index index_rst
        else do
          let found_points ← List.foldlM (sScanBody ext self query measurement) [] (Storage.iter self._storage)
          sFin sorted found_points) := by
  rfl

theorem time_check_ok (l : List Point) :
    List.foldlM (fun (_ : Unit) (fp : Point) => (do
      if (!(truthy (timeOf fp))) then do
        throw PyErr.valueError
      else do
        pure () : M Unit)) () l = .ok () := by
  induction l with
  | nil => rfl
  | cons a t ih =>
    rw [List.foldlM_cons]
    have : (!(truthy (timeOf a))) = false := rfl
    simp only [this, Bool.false_eq_true, ↓reduceIte]
    exact ih

theorem sortedBy_time (l : List Point) : sortedBy (fun x => (timeOf x).us) l = State.sortByTime l := rfl

theorem sFin_eq (sorted : Bool) (l : List Point) :
    sFin sorted l = .ok (if sorted then State.sortByTime l else l) := by
  unfold sFin
  rw [time_check_ok]
  cases sorted <;> rfl

theorem sScanBody_eq (g : DSelf) (q : Query) (m : Option String) (acc : List Point) (a : Point) :
    sScanBody modelExt g q m acc a = match State.scanSel q m a with
      | .ok b => .ok (cond b (acc ++ [a]) acc) | .error e => .error (errOf e) := by
  unfold sScanBody
  rcases scan_cases q m a with ⟨h1, h2⟩ | ⟨h1, h2⟩
  · simp only [Storage._deserialize_measurement, Storage._deserialize_storage_item, h1, h2, if_true]
    rfl
  · simp only [Storage._deserialize_measurement, Storage._deserialize_storage_item, h1, h2,
      Bool.false_eq_true, if_false, modelExt]
    cases eval q a with
    | error e => rfl
    | ok b => cases b <;> rfl

theorem search_scan_loop (sel : Point → Except Exc Bool) (f : List Point → Point → M (List Point))
    (hf : ∀ c a, f c a = match sel a with
      | .ok b => .ok (cond b (c ++ [a]) c) | .error e => .error (errOf e)) :
    ∀ (l accR : List Point),
      List.foldlM f accR.reverse l = liftE ((List.filterAuxM sel l accR).map List.reverse) := by
  intro l
  induction l with
  | nil => intro accR; simp [List.filterAuxM, liftE, Except.map, pure, Except.pure]
  | cons a t ih =>
    intro accR
    rw [List.foldlM_cons, hf, filterAuxM_cons']
    cases h : sel a with
    | error e => simp [bind, Except.bind, Except.map, liftE]
    | ok b =>
      cases b
      · simpa [bind, Except.bind] using ih accR
      · simpa [bind, Except.bind] using ih (a :: accR)

theorem filterM_eq_aux (sel : Point → Except Exc Bool) (l : List Point) :
    List.filterM sel l = (List.filterAuxM sel l []).map List.reverse := by
  unfold List.filterM
  cases List.filterAuxM sel l [] <;> simp [bind, Except.bind, Except.map, pure, Except.pure]

theorem search_scan_ok (g : DSelf) (q : Query) (m : Option String) :
    List.foldlM (sScanBody modelExt g q m) [] g._storage._items
      = liftE (g._storage._items.filterM (State.scanSel q m)) := by
  rw [filterM_eq_aux]
  exact search_scan_loop (State.scanSel q m) _ (sScanBody_eq g q m) g._storage._items []

theorem sIdxBody_eq (g : DSelf) (items : List Nat) (found : List Point) (j : Nat) (brk : Bool) (i : Nat) (p : Point) :
    sIdxBody g items (found, j, brk) (i, p) =
      .ok (if brk = true then (found, j, brk)
           else if items.contains i = true then (found ++ [p], j + 1, j + 1 == items.length)
           else (found, j, brk)) := by
  unfold sIdxBody
  simp only [Py.Typed.len, isin, Py.Typed.append, Storage._deserialize_storage_item, pure, Except.pure]
  cases brk
  · by_cases hc : items.contains i = true
    · by_cases hj : (j + 1 == items.length) = true
      · simp only [hc, hj, Bool.not_true, Bool.false_eq_true, ↓reduceIte]
      · have hj' : (j + 1 == items.length) = false := by simpa using hj
        simp only [hc, hj', Bool.not_true, Bool.false_eq_true, ↓reduceIte]
    · have hc' : items.contains i = false := by simpa using hc
      simp only [hc', Bool.not_false, Bool.false_eq_true, ↓reduceIte]
  · simp only [↓reduceIte]

/-- the rows of `rows` (numbered from `i`) whose position is in `items` -/
def selRows (items : List Nat) (rows : List Point) (i : Nat) : List Point :=
  ((rows.zipIdx i).filter (fun pi => items.contains pi.2)).map (·.1)

theorem selRows_cons (items : List Nat) (p : Point) (t : List Point) (i : Nat) :
    selRows items (p :: t) i = if items.contains i = true then p :: selRows items t (i + 1) else selRows items t (i + 1) := by
  unfold selRows
  rw [List.zipIdx_cons, List.filter_cons]
  split <;> simp

theorem search_idx_loop (g : DSelf) (items : List Nat) (rows : List Point) :
    ∀ (i : Nat) (found : List Point) (j : Nat) (brk : Bool), j ≤ items.length → (brk = true ↔ j = items.length) →
    ∃ j' brk', List.foldlM (sIdxBody g items) (found, j, brk) ((rows.zipIdx i).map (fun xi => (xi.2, xi.1)))
      = .ok (found ++ (selRows items rows i).take (items.length - j), j', brk') := by
  induction rows with
  | nil =>
    intro i found j brk _ _
    exact ⟨j, brk, by simp [selRows, pure, Except.pure]⟩
  | cons p t ih =>
    intro i found j brk hj hb
    simp only [List.zipIdx_cons, List.map_cons, List.foldlM_cons, sIdxBody_eq, bind, Except.bind]
    rw [selRows_cons]
    cases brk with
    | true =>
      have hjn : j = items.length := hb.1 rfl
      obtain ⟨j', brk', h⟩ := ih (i + 1) found j true hj hb
      refine ⟨j', brk', ?_⟩
      simp only [↓reduceIte]
      rw [h, hjn]
      simp
    | false =>
      have hjn : j ≠ items.length := fun h => by simpa using hb.2 h
      by_cases hc : items.contains i = true
      · simp only [Bool.false_eq_true, hc, ↓reduceIte]
        obtain ⟨j', brk', h⟩ := ih (i + 1) (found ++ [p]) (j + 1) (j + 1 == items.length) (by omega) (by simp)
        refine ⟨j', brk', ?_⟩
        rw [h]
        have : items.length - j = (items.length - (j + 1)) + 1 := by omega
        rw [this, List.take_succ_cons]
        simp
      · simp only [Bool.false_eq_true, hc, ↓reduceIte]
        exact ih (i + 1) found j false hj hb

theorem search_idx_ok (norm : Point → Point) (g : DSelf) (items : List Nat) (hne : items ≠ []) :
    (List.foldlM (sIdxBody g items) ([], 0, false) (enumerate (Storage.iter g._storage)) >>= fun r => (pure r.1 : M (List Point)))
      = .ok ((absDB norm g).rowsAt items) := by
  have hl : items.length ≠ 0 := by cases items <;> simp at hne ⊢
  obtain ⟨j', brk', h⟩ := search_idx_loop g items g._storage._items 0 [] 0 false (by omega) (by simp; omega)
  unfold enumerate Storage.iter
  rw [h]
  rfl

theorem found_eq (s : State) (q : Query) (m : Option String) :
    s.found q m true =
      if (s.index.valid && exact q) = true then
        match s.indexSearch q m with
        | .error e => .error e
        | .ok items =>
          if items.isEmpty = true then .ok []
          else if (items.length == s.index.numItems) = true then s.storage.filterM (State.scanSel q m)
          else .ok (s.rowsAt items)
      else s.storage.filterM (State.scanSel q m) := by
  unfold State.found
  split
  · simp only [bind, Except.bind, pure, Except.pure]
    cases s.indexSearch q m with
    | error e => rfl
    | ok items =>
      simp only [Bool.true_and]
  · rfl

/-- what the Model does with the positions the index returned -/
def mCont (s : State) (q : Query) (m : Option String) (sorted : Bool) (items : List Nat) : Except Exc (List Point) :=
  (if items.isEmpty = true then .ok []
   else if (items.length == s.index.numItems) = true then s.storage.filterM (State.scanSel q m)
   else .ok (s.rowsAt items)).map (fun l => if sorted then State.sortByTime l else l)

theorem sortByTime_nil : State.sortByTime [] = [] := by
  simp [State.sortByTime]

theorem scan_fin_ok (norm : Point → Point) (g : DSelf) (q : Query) (m : Option String) (sorted : Bool) :
    (List.foldlM (sScanBody modelExt g q m) [] (Storage.iter g._storage) >>= sFin sorted)
      = liftE (((absDB norm g).storage.filterM (State.scanSel q m)).map
          (fun l => if sorted then State.sortByTime l else l)) := by
  have hst : (absDB norm g).storage = g._storage._items := rfl
  rw [hst]
  unfold Storage.iter
  rw [search_scan_ok]
  cases List.filterM (State.scanSel q m) g._storage._items with
  | error e => rfl
  | ok l => simp only [liftE, bind, Except.bind, sFin_eq, Except.map]

theorem sCont_ok (norm : Point → Point) (g : DSelf) (q : Query) (m : Option String) (sorted : Bool)
    (items : List Nat) (c : Nat) :
    sCont modelExt g q m sorted true { _items := items, _index_count := c }
      = liftE (mCont (absDB norm g) q m sorted items) := by
  unfold sCont mCont
  have hl : IndexImpl.__len__ g._index = .ok g._index._num_items := rfl
  have hn : (absDB norm g).index.numItems = g._index._num_items := rfl
  have ht : ∀ b : Bool, truthy b = b := fun _ => rfl
  have hti : truthy items = !items.isEmpty := rfl
  rw [hl, hn]
  simp only [bind, Except.bind, pure, Except.pure, ht, hti, Py.Typed.len, Bool.not_not]
  by_cases he : items.isEmpty = true
  · simp only [he, ↓reduceIte, Except.map, liftE]
    cases sorted
    · rfl
    · simp only [↓reduceIte, sortByTime_nil]
  · simp only [he, Bool.false_eq_true, ↓reduceIte]
    by_cases hall : (items.length == g._index._num_items) = true
    · simp only [hall, ↓reduceIte, Bool.false_eq_true]
      exact scan_fin_ok norm g q m sorted
    · simp only [hall, Bool.false_eq_true, ↓reduceIte]
      have hne : items ≠ [] := by
        intro h; subst h; simp at he
      have := search_idx_ok norm g items hne
      simp only [bind, Except.bind, pure, Except.pure] at this
      revert this
      cases List.foldlM (sIdxBody g items) ([], 0, false) (enumerate (Storage.iter g._storage)) with
      | error e => intro h; cases h
      | ok r =>
        intro h
        simp only [Except.ok.injEq] at h
        obtain ⟨f, j, b⟩ := r
        simp only at h
        subst h
        simp only [sFin_eq, Except.map, liftE]

theorem db_search_ok (norm : Point → Point) (g : DSelf) (q : Query) (m : Option String) (sorted : Bool) :
    DatabaseImpl.search modelExt g q m sorted = liftE (modelSearch (absDB norm g) q m sorted) := by
  rw [db_search_eq]
  unfold modelSearch
  rw [found_eq]
  have hv : IndexImpl.valid g._index = .ok g._index._valid := rfl
  have hv' : (absDB norm g).index.valid = g._index._valid := rfl
  have hq : modelExt.is_query q = true := rfl
  have he : modelExt.index_is_exact q = exact q := rfl
  have ht : ∀ b : Bool, truthy b = b := fun _ => rfl
  rw [hv, hv']
  simp only [bind, Except.bind, hq, he, ht, Bool.not_true, Bool.false_eq_true, ↓reduceIte]
  by_cases hc : (g._index._valid && exact q) = true
  · simp only [hc, ↓reduceIte]
    rw [indexSearch_eq]
    unfold idxQuery
    rcases truthy_meas m with ⟨h1, name, rfl, h3⟩ | ⟨h1, h3⟩
    · simp only [h1, ↓reduceIte]
      simp only [modelExt]
      cases (abs g._index).search _ with
      | error e => rfl
      | ok items => exact sCont_ok norm g q (some name) sorted items _
    · simp only [h1, Bool.false_eq_true, ↓reduceIte]
      simp only [modelExt]
      cases (abs g._index).search _ with
      | error e => rfl
      | ok items => exact sCont_ok norm g q m sorted items _
  · simp only [hc, Bool.false_eq_true, ↓reduceIte]
    exact scan_fin_ok norm g q m sorted

theorem sIdxBody_congr (g : DSelf) {a b : List Nat} (h : SameSet a b) : sIdxBody g a = sIdxBody g b := by
  funext acc ip
  obtain ⟨found, j, brk⟩ := acc
  obtain ⟨i, p⟩ := ip
  rw [sIdxBody_eq, sIdxBody_eq, sameSet_length h, sameSet_contains h]

theorem sCont_congr (g : DSelf) (q : Query) (m : Option String) (sorted : Bool) (r r' : IndexResult)
    (h : SameSet r._items r'._items) :
    sCont translatedExt g q m sorted true r = sCont modelExt g q m sorted true r' := by
  unfold sCont
  simp only [truthy, Py.Typed.len, sIdxBody_congr g h, sameSet_length h, sameSet_isEmpty h]
  rfl

theorem search_idx_eq {Q : Type} (ext : DatabaseImpl.Ext Q) (g : DSelf) (q : Q) (m : Option String) (sorted : Bool)
    (hq : ext.is_query q = true) (hc : (g._index._valid && ext.index_is_exact q) = true) :
    DatabaseImpl.search ext g q m sorted
      = (ext.index_search g._index (if truthy m = true then ext.qand (ext.meas_eq m) q else q)
          >>= sCont ext g q m sorted true) := by
  rw [db_search_eq]
  have hv : IndexImpl.valid g._index = .ok g._index._valid := rfl
  have ht : ∀ b : Bool, truthy b = b := fun _ => rfl
  rw [hv]
  simp only [bind, Except.bind, ht, hq, hc, Bool.not_true, Bool.false_eq_true, ↓reduceIte]
  split <;> rfl

theorem search_scan_eq (g : DSelf) (q : Query) (m : Option String) (sorted : Bool)
    (hc : ¬ (g._index._valid && exact q) = true) :
    DatabaseImpl.search translatedExt g q m sorted = DatabaseImpl.search modelExt g q m sorted := by
  rw [db_search_eq, db_search_eq]
  have hv : IndexImpl.valid g._index = .ok g._index._valid := rfl
  have ht : ∀ b : Bool, truthy b = b := fun _ => rfl
  have hx : translatedExt.index_is_exact q = exact q := rfl
  have hx' : modelExt.index_is_exact q = exact q := rfl
  have hq : translatedExt.is_query q = true := rfl
  have hq' : modelExt.is_query q = true := rfl
  rw [hv]
  simp only [bind, Except.bind, ht, hx, hx', hq, hq', hc, Bool.not_true, Bool.false_eq_true, ↓reduceIte]
  rfl

theorem db_search_cases (g : DSelf) (q : Query) (m : Option String) (sorted : Bool)
    (hg : GWF g._index) (hts : g._index._timestamps.length = g._index._storage_pos_sorted_by_ts.length) :
    DatabaseImpl.search translatedExt g q m sorted = DatabaseImpl.search modelExt g q m sorted
    ∨ ((g._index._valid && exact q) = true ∧ (∃ e, (abs g._index).search (idxQuery q m) = .error e)
        ∧ ∃ e', DatabaseImpl.search translatedExt g q m sorted = .error e') := by
  by_cases hc : (g._index._valid && exact q) = true
  · rw [search_idx_eq translatedExt g q m sorted rfl hc, search_idx_eq modelExt g q m sorted rfl hc]
    have hq : (if truthy m = true then translatedExt.qand (translatedExt.meas_eq m) q else q) = idxQuery q m := rfl
    have hq' : (if truthy m = true then modelExt.qand (modelExt.meas_eq m) q else q) = idxQuery q m := rfl
    rw [hq, hq']
    rcases search_cases g._index hg hts (idxQuery q m) with ⟨r, items, _, h2, h3, h4⟩ | ⟨e, e', h1, h2⟩
    · left
      rw [h2, h3]
      exact sCont_congr g q m sorted _ _ h4
    · right
      refine ⟨hc, ⟨e, h1⟩, e', ?_⟩
      rw [h2]; rfl
  · left
    exact search_scan_eq g q m sorted hc

/-- … and over the translated `Index.search` -/
theorem db_search_closed (norm : Point → Point) (g : DSelf) (q : Query) (m : Option String) (sorted : Bool)
    (hg : GWF g._index) (hts : g._index._timestamps.length = g._index._storage_pos_sorted_by_ts.length) :
    match modelSearch (absDB norm g) q m sorted with
    | .ok l => DatabaseImpl.search translatedExt g q m sorted = .ok l
    | .error _ => ∃ e', DatabaseImpl.search translatedExt g q m sorted = .error e' := by
  rcases db_search_cases g q m sorted hg hts with h | ⟨hc, ⟨e, he⟩, e', he'⟩
  · rw [h, db_search_ok norm]
    cases modelSearch (absDB norm g) q m sorted with
    | ok n => rfl
    | error e => exact ⟨_, rfl⟩
  · have hv : (absDB norm g).index.valid = g._index._valid := rfl
    unfold modelSearch
    rw [found_eq, hv]
    simp only [hc, ↓reduceIte]
    rw [indexSearch_eq, he]
    exact ⟨e', he'⟩
end TinyFlux.Mirror
