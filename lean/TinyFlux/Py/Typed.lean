import TinyFlux.Model.AL
import TinyFlux.Spec.Basic
import TinyFlux.Py.Basic
/-!
# The typed fragment of Python that the translated *classes* rely on

`tools/py2lean/classes.py` translates methods of `tinyflux.index.Index` statement by statement into
Lean functions over a record of the object's attributes. The translation is typed from the
annotations in the source (`Dict[..]` is an insertion-ordered association list, `Set[..]` and
`List[..]` are lists, `int` positions are `Nat`, instants are integer microseconds); every Python
operation it meets is one of the combinators below, chosen by Lean's elaborator from the types.
Each combinator restates documented CPython behaviour (part of the trusted base); operations that
can raise (`d[k]` on a missing key, `l[i]` out of range, a subtraction that would leave the natural
numbers) are in `Except PyErr`, so that "does not raise" is proved, not assumed.

A Python `set` is a duplicate-free list: iteration order of a real set is unspecified, and nothing
translated may depend on it (answers that are sets are compared as sets by the correspondence runs).
-/
namespace TinyFlux.Py.Typed
open TinyFlux.Model

inductive PyErr | keyError | indexError | valueError | typeError | range | assertionError
deriving DecidableEq, Repr

abbrev M := Except PyErr

/-! ## truthiness -/
class Truthy (α : Type) where truthy : α → Bool
export Truthy (truthy)
instance : Truthy Bool := ⟨id⟩
instance : Truthy Nat := ⟨(· != 0)⟩
instance : Truthy Int := ⟨(· != 0)⟩
instance : Truthy String := ⟨(· != "")⟩
instance {α} : Truthy (List α) := ⟨fun l => !l.isEmpty⟩
/-- `None` is falsy, `Some x` is as truthy as `x` (`if measurement:` on an `Optional[str]`) -/
instance {α} [Truthy α] : Truthy (Option α) := ⟨fun o => match o with | none => false | some a => truthy a⟩

/-! ## `in` -/
class IsIn (α γ : Type) where isin : α → γ → Bool
export IsIn (isin)
/-- `x in list` / `x in set` -/
instance {α} [BEq α] : IsIn α (List α) := ⟨fun x l => l.contains x⟩
/-- `k in dict` -/
instance {K V} [BEq K] : IsIn K (AL K V) := ⟨fun k d => (lookupAL k d).isSome⟩
/-- `k in dict` for an `Optional` key expression over a dict whose keys are never `None` -/
instance {K V} [BEq K] : IsIn (Option K) (AL K V) :=
  ⟨fun k d => match k with | none => false | some k => (lookupAL k d).isSome⟩

/-! ## subscripts -/
class GetItem (γ κ : Type) (ν : outParam Type) where getItem : γ → κ → M ν
export GetItem (getItem)
/-- `d[k]`: `KeyError` on a missing key -/
instance {K V} [BEq K] : GetItem (AL K V) K V :=
  ⟨fun d k => match lookupAL k d with | some v => pure v | none => throw .keyError⟩
/-- `d[k]` for an `Optional` key expression: `None` is never a key of such a dict -/
instance {K V} [BEq K] : GetItem (AL K V) (Option K) V :=
  ⟨fun d k => match k with
    | none => throw .keyError
    | some k => match lookupAL k d with | some v => pure v | none => throw .keyError⟩
/-- `l[i]` for a non-negative position: `IndexError` beyond the end -/
instance (priority := low) {α} : GetItem (List α) Nat α :=
  ⟨fun l i => match l[i]? with | some v => pure v | none => throw .indexError⟩

/-- `d[k] = v`: replaces the value of an existing key in place, a new key goes to the end -/
def setItem {K V} [BEq K] (d : AL K V) (k : K) (v : V) : AL K V := alterAL k v (fun _ => v) d

/-- `del d[k]` for a key that is present (the code tests `k in d` first) -/
def delItem {K V} [BEq K] (d : AL K V) (k : K) : AL K V := d.filter (fun kv => !(kv.1 == k))

/-- an in-place change of `d[k]` (`d[k].append(x)`, `d[k][j] = v`, …): `KeyError` on a missing key -/
def updItem {K V} [BEq K] (d : AL K V) (k : K) (f : V → M V) : M (AL K V) :=
  match d with
  | [] => throw .keyError
  | (k', v) :: t => if k' == k then do let v' ← f v; pure ((k', v') :: t)
                    else do let t' ← updItem t k f; pure ((k', v) :: t')

/-! ## datetimes

A `datetime` object is always truthy (the code's `if not point.time` asks for `None`); a point that reaches the
index has a time (`Spec.Point.time` is not optional: the database stamps a time-less point before it is stored).
`datetime.timestamp()` is modelled as the instant in integer microseconds — an order embedding of the POSIX-second
floats on the supported range (trusted base, C08). -/
structure DateTime where
  us : Int
deriving DecidableEq, Repr
instance : Truthy DateTime := ⟨fun _ => true⟩
def timeOf (p : TinyFlux.Spec.Point) : DateTime := ⟨p.time⟩
def timestamp (t : DateTime) : Int := t.us
/-- `t.replace(tzinfo=timezone.utc)` on a time read from storage (which holds UTC wall-clock times): the same instant -/
def DateTime.replaceTzUtc (t : DateTime) : DateTime := t
/-- `sorted(values, key=lambda x: (x is None, x))` on optional strings: by value, `None` last -/
def sortedOptStr (l : List (Option String)) : List (Option String) := l.mergeSort TinyFlux.Spec.optStrLe
/-- `sorted(strings)` -/
def sortedStr (l : List String) : List String := TinyFlux.Spec.sortStr l

/-! ## query objects, as far as the index uses them

`Index._search_measurement/_tags/_fields` use two attributes of a `SimpleQuery`: `_path_resolver`, called inside
`try … except Exception: continue` on a measurement name or on a one-entry dict `{key: value}`, and `_test`,
called unprotected on what the resolver returned. -/
inductive PathArg
  | meas (s : String)
  | tag (k : String) (v : Option String)
  | field (k : String) (v : Option TinyFlux.Spec.Num)
  | time (t : DateTime)
class ToArg (α : Type) where toArg : α → PathArg
export ToArg (toArg)
instance : ToArg String := ⟨.meas⟩
instance : ToArg DateTime := ⟨.time⟩
class EntryArg (ν : Type) where entryArg : String → ν → PathArg
export EntryArg (entryArg)
instance : EntryArg (Option String) := ⟨.tag⟩
instance : EntryArg (Option TinyFlux.Spec.Num) := ⟨.field⟩

/-- `query._operator`: one of the six `operator` comparison functions, or any other test function -/
inductive Operator | eq | ne | lt | le | gt | ge | other
deriving DecidableEq, Repr

/-- `query._rhs` as far as `_search_timestamps` looks at it: an aware datetime, a naive one, or anything else -/
inductive Rhs | aware (t : DateTime) | naive | other
def Rhs.isDatetime : Rhs → Bool | .aware _ => true | .naive => true | .other => false
/-- truthiness of `rhs.tzinfo` -/
def Rhs.tzinfo : Rhs → Bool | .aware _ => true | _ => false
/-- `rhs.timestamp()`: the instant of an aware datetime. (A naive one would be read in the process's local zone, anything else
    has no such method: the code asks only after `isinstance(rhs, datetime) and rhs.tzinfo`.) -/
def Rhs.timestamp : Rhs → M Int | .aware t => pure t.us | _ => throw .typeError

/-- `datetime.fromtimestamp(ts, timezone.utc)` -/
def fromtimestamp (ts : Int) : DateTime := ⟨ts⟩

/-- a translated `find_*` helper of utils.py (`Generated/Utils.lean`, over the dynamically typed `Py.V`) applied to a typed
    list: `None` or a position -/
def findIn (f : TinyFlux.Py.V → TinyFlux.Py.V → Except TinyFlux.Py.PyErr TinyFlux.Py.V) (ts : List Int) (x : Int) : M (Option Nat) :=
  match f (.list ts) (.int x) with
  | .ok (.int n) => if 0 ≤ n then pure (some n.toNat) else throw .typeError
  | .ok .none => pure none
  | _ => throw .typeError

structure SimpleQuery where
  _path_resolver : PathArg → Except Unit TinyFlux.Spec.PyV   -- any exception of the resolver is caught by the caller
  _test : TinyFlux.Spec.PyV → M Bool
  _operator : Operator := .other
  hashable : Bool := false                                     -- `query.is_hashable()`
  _rhs : Rhs := .other
  _point_attr : String := ""                                   -- "_time" | "_measurement" | "_tags" | "_fields"
  hash_is_empty : Bool := false                                -- `query._hash == ()`: a `noop()` query

/-- `CompoundQuery.operator`: `operator.and_ / or_ / not_` -/
inductive BoolOperator | and_ | or_ | not_ | other
deriving DecidableEq, Repr

/-- a query object as `Index._search_helper` dispatches on it: `None`, a `SimpleQuery`, or a `CompoundQuery` with its
    `operator`, `query1`, `query2` (`query2` is `None` under `not_`) -/
inductive QueryObj
  | none
  | simple (q : SimpleQuery)
  | compound (operator : BoolOperator) (query1 query2 : QueryObj)

/-- `isinstance(x, SimpleQuery) and x._point_attr == attr` -/
def QueryObj.isSimpleWithAttr : QueryObj → String → Bool
  | .simple q, a => q._point_attr == a
  | _, _ => false

/-! ## `==` between operands of different static types (`_measurement != measurement` with an `Optional[str]`) -/
class PyEq (α β : Type) where pyEq : α → β → Bool
export PyEq (pyEq)
instance {α} [BEq α] : PyEq α (Option α) := ⟨fun a o => match o with | none => false | some b => a == b⟩
instance {α} [BEq α] : PyEq (Option α) α := ⟨fun o a => match o with | none => false | some b => b == a⟩

/-! ## objects of the database layer that are not translated

`IndexResult` (index.py, three set operations — `Generated/IndexTables.lean`) as the record of its two attributes; a
storage object at the *list level*: the rows it holds (the decoded view: a point as it comes back from the storage's
serialiser) and the rows appended to temporary storage. The byte / I/O level of `CSVStorage` is `Model/IO.lean`. -/
structure IndexResult where
  _items : List Nat
  _index_count : Nat

structure Storage where
  _items : List TinyFlux.Spec.Point
  _temp : List TinyFlux.Spec.Point

namespace Storage
/-- `for item in storage` -/
def iter (s : Storage) : List TinyFlux.Spec.Point := s._items
/-- `storage.append(rows, temporary=…)` -/
def append (s : Storage) (rows : List TinyFlux.Spec.Point) (temporary : Bool) : M Storage :=
  pure (if temporary then { s with _temp := s._temp ++ rows } else { s with _items := s._items ++ rows })
/-- `storage._swap_temp_with_primary()`: at the list level it cannot fail (I/O faults: C13, `Model/IO.lean`) -/
def _swap_temp_with_primary (s : Storage) : M Storage := pure { _items := s._temp, _temp := [] }
/-- `storage.reset()` -/
def reset (s : Storage) : M Storage := pure { s with _items := [] }
/-- `storage.can_read / can_write / can_append`: at the list level every storage is open for everything (the access modes of
    `CSVStorage` and the gates built on them are `Generated/Modes.lean`, `Generated/Decorators.lean`: C15) -/
def can_read (_ : Storage) : Bool := true
def can_write (_ : Storage) : Bool := true
def can_append (_ : Storage) : Bool := true
/-- `storage.read()`: every row, deserialised, in storage order -/
def read (s : Storage) : List TinyFlux.Spec.Point := s._items
/-- `len(storage)`: the number of records -/
def __len__ (s : Storage) : Nat := s._items.length
/-- `storage._deserialize_timestamp(row)` -/
def _deserialize_timestamp (_ : Storage) (row : TinyFlux.Spec.Point) : DateTime := timeOf row
def _deserialize_measurement (_ : Storage) (row : TinyFlux.Spec.Point) : String := row.meas
def _deserialize_storage_item (_ : Storage) (row : TinyFlux.Spec.Point) : TinyFlux.Spec.Point := row
end Storage

/-! ## tuples -/
def item0 {α β} (p : α × β) : α := p.1
def item1 {α β} (p : α × β) : β := p.2

/-! ## lists, sets, dicts -/
def len {α} (l : List α) : Nat := l.length
def append {α} (l : List α) (x : α) : List α := l ++ [x]
def extend {α} (l : List α) (xs : List α) : List α := l ++ xs
/-- `set(iterable)` -/
def mkSet {α} [BEq α] (l : List α) : List α := dedup l
/-- `s.add(x)` -/
def setAdd {α} [BEq α] (s : List α) (x : α) : List α := if s.contains x then s else s ++ [x]
def setInter {α} [BEq α] (a b : List α) : List α := a.filter b.contains
def setUnion {α} [BEq α] (a b : List α) : List α := dedup (a ++ b)
def setDiff {α} [BEq α] (a b : List α) : List α := a.filter (fun x => !b.contains x)
/-- `range(n)` -/
def range (n : Nat) : List Nat := List.range n
/-- `enumerate(l)` -/
def enumerate {α} (l : List α) : List (Nat × α) := l.zipIdx.map (fun xi => (xi.2, xi.1))
def keys {K V} (d : AL K V) : List K := keysAL d
def values {K V} (d : AL K V) : List V := d.map (·.2)
def items {K V} (d : AL K V) : List (K × V) := d
/-- `sorted(l, key=f)` / `l.sort(key=f)`: stable -/
def sortedBy {α β} [LE β] [DecidableLE β] (f : α → β) (l : List α) : List α :=
  l.mergeSort (fun a b => decide (f a ≤ f b))
/-- `{k: v for …}` from the generated pairs: a repeated key keeps its first position and its last value -/
def dictOf {K V} [BEq K] (kvs : List (K × V)) : AL K V := kvs.foldl (fun d kv => setItem d kv.1 kv.2) []
def sliceTo {α} (l : List α) (n : Nat) : List α := l.take n
def sliceFrom {α} (l : List α) (n : Nat) : List α := l.drop n

/-- `a - b` on positions: the translation keeps positions in `Nat`; a subtraction that would leave it is
    flagged instead of being truncated -/
def natSub (a b : Nat) : M Nat := if b ≤ a then pure (a - b) else throw .range

end TinyFlux.Py.Typed
