/-!
# The fragment of Python that the translated code relies on

`V` is the dynamically typed value universe of the *translated* functions (`utils.find_*`).
List elements are `Int`: any totally ordered element type (the code uses POSIX-second floats,
never NaN) embeds order-preservingly, and the model of the index keeps instants as integer
microseconds. Each definition restates documented CPython behaviour; it is part of the trusted
base and is exercised by the correspondence runs (`harness/c18.py` runs the real functions and
the generated ones on the same inputs).
-/
namespace TinyFlux.Py

inductive PyErr | typeError | indexError
deriving DecidableEq, Repr

inductive V
  | none
  | bool (b : Bool)
  | int (n : Int)
  | list (l : List Int)
deriving DecidableEq, Repr

/-- Python truthiness: `None`, `False`, `0`, `[]` are falsy. -/
def truthy : V → Bool
  | .none => false
  | .bool b => b
  | .int n => n != 0
  | .list l => !l.isEmpty

/-- `bisect.bisect_left(a, x)` by its documented contract on a sorted list:
    the insertion point before any existing entries equal to `x`. -/
def bisectLeftNat (l : List Int) (x : Int) : Nat := (l.takeWhile (· < x)).length
/-- `bisect.bisect_right(a, x)`: the insertion point after any existing entries equal to `x`. -/
def bisectRightNat (l : List Int) (x : Int) : Nat := (l.takeWhile (· ≤ x)).length

def bisect_left : V → V → Except PyErr V
  | .list l, .int x => pure (.int (bisectLeftNat l x))
  | _, _ => throw .typeError
def bisect_right : V → V → Except PyErr V
  | .list l, .int x => pure (.int (bisectRightNat l x))
  | _, _ => throw .typeError

def len : V → Except PyErr V
  | .list l => pure (.int l.length)
  | _ => throw .typeError

/-- `a[i]` with negative-index wrap-around and `IndexError`. -/
def getItem : V → V → Except PyErr V
  | .list l, .int i =>
    let j := if i < 0 then i + l.length else i
    if 0 ≤ j then
      (match l[j.toNat]? with
       | some v => pure (.int v)
       | none => throw .indexError)
    else throw .indexError
  | _, _ => throw .typeError

def sub : V → V → Except PyErr V
  | .int a, .int b => pure (.int (a - b))
  | _, _ => throw .typeError
def add : V → V → Except PyErr V
  | .int a, .int b => pure (.int (a + b))
  | _, _ => throw .typeError

/-- `==` never raises; `True == 1`. -/
def pyEq : V → V → Bool
  | .none, .none => true
  | .bool a, .bool b => a == b
  | .bool a, .int b => (if a then 1 else 0) == b
  | .int a, .bool b => a == (if b then 1 else 0)
  | .int a, .int b => a == b
  | .list a, .list b => a == b
  | _, _ => false
def eq (a b : V) : Except PyErr V := pure (.bool (pyEq a b))
def ne (a b : V) : Except PyErr V := pure (.bool (!pyEq a b))

def asInt? : V → Option Int
  | .int a => some a
  | .bool b => some (if b then 1 else 0)
  | _ => Option.none
def cmpWith (f : Int → Int → Bool) (a b : V) : Except PyErr V :=
  match asInt? a, asInt? b with
  | some x, some y => pure (.bool (f x y))
  | _, _ => throw .typeError
def lt := cmpWith (fun x y => decide (x < y))
def le := cmpWith (fun x y => decide (x ≤ y))
def gt := cmpWith (fun x y => decide (x > y))
def ge := cmpWith (fun x y => decide (x ≥ y))

end TinyFlux.Py
