import TinyFlux.Spec.Basic
import TinyFlux.Generated.Codec
/-!
# Model of the CSV row codec (`point.py`: `_serialize_to_list`, `_deserialize_from_list`)

Cells are `List Char`. The constants (sentinel, the four prefixes) and the positions / characters the
decoder sniffs come from `Generated/Codec.lean`, regenerated from `point.py` on every run.
Python's `IndexError`s (`row[i][1]` on a short cell, `row[i + 1]` past the end, `f_value[0]` on an
empty cell) are the `none` results. `float` ⇄ text and `datetime` ⇄ ISO text are parameters
(`FieldCodec`, `TimeCodec`) with explicit laws — the stdlib behaviour they stand for is part of the
trusted base and is exercised by the correspondence runs.
-/
namespace TinyFlux.Model.Codec
open TinyFlux.Spec TinyFlux.Generated

abbrev Str := List Char

structure FieldCodec where
  repr : Num → Str              -- `str(float(v))`
  parse : Str → Option Num      -- `float(s)`; `none` = it raised

structure TimeCodec where
  iso : Int → Str               -- `t.replace(tzinfo=None).isoformat()`
  fromIso : Str → Option Int    -- `datetime.fromisoformat(s).replace(tzinfo=utc)`

def noneS : Str := noneStr.toList
def tagPre (compact : Bool) : Str := (if compact then compactTagPrefix else defaultTagPrefix).toList
def fieldPre (compact : Bool) : Str := (if compact then compactFieldPrefix else defaultFieldPrefix).toList

/-- the tag loop's test on a key cell: `none` = IndexError, `some none` = not a tag (leave the loop),
    `some (some n)` = a tag key after dropping `n` characters -/
def sniffTag (cell : Str) : Option (Option Nat) :=
  match cell[tagSniff1.1]? with
  | none => none
  | some c =>
    if c = tagSniff1.2.1 then some (some tagSniff1.2.2.toList.length) else
    match cell[tagSniff2.1]? with
    | none => none
    | some c0 => if c0 = tagSniff2.2.1 then some (some tagSniff2.2.2.toList.length) else some none

/-- the field loop's test: how many characters to drop -/
def sniffField (cell : Str) : Option Nat :=
  match cell[fieldSniff.1]? with
  | none => none
  | some c => if c = fieldSniff.2.1 then some fieldSniff.2.2.toList.length
              else some fieldElsePrefix.toList.length

def isDigits (s : Str) : Bool := !s.isEmpty && s.all Char.isDigit

def natOfDigits (s : Str) : Nat := s.foldl (fun n c => n * 10 + (c.toNat - '0'.toNat)) 0

/-- the text of a field value → the value; outer `none` = IndexError on an empty cell -/
def decodeField (fc : FieldCodec) (v : Str) : Option (Option Num) :=
  match v with
  | [] => none
  | c :: t =>
    if isDigits v then some (some (.fin (natOfDigits v : Nat)))
    else if c = '-' && isDigits t then some (some (.fin (-(natOfDigits t : Nat) : Int)))
    else match fc.parse v with
      | some n => some (some n)
      | none => some none              -- `except Exception: None`

/-- the tag loop: returns the tags read and the remaining cells -/
def parseTags : List Str → Option (List (Str × Option Str) × List Str)
  | [] => some ([], [])
  | [kc] => match sniffTag kc with
    | none => none
    | some none => some ([], [kc])
    | some (some _) => none                      -- `row[i + 1]` past the end
  | kc :: vc :: rest =>
    match sniffTag kc with
    | none => none
    | some none => some ([], kc :: vc :: rest)
    | some (some n) =>
      match parseTags rest with
      | none => none
      | some (ts, rem) => some ((kc.drop n, if vc = noneS then none else some vc) :: ts, rem)

/-- the field loop: every remaining pair of cells is a field -/
def parseFields (fc : FieldCodec) : List Str → Option (List (Str × Option Num))
  | [] => some []
  | [_] => none
  | kc :: vc :: rest =>
    match sniffField kc, decodeField fc vc, parseFields fc rest with
    | some n, some v, some fs => some ((kc.drop n, v) :: fs)
    | _, _, _ => none

/-- `d[k] = v` for each pair in order (a repeated key keeps its first position, last value) -/
def toDict {V : Type} (l : List (Str × V)) : List (String × V) :=
  l.foldl (fun d kv => dictSet d (String.ofList kv.1) kv.2) []

/-- `Point._serialize_to_list` -/
def serialize (fc : FieldCodec) (tc : TimeCodec) (compact : Bool) (p : Point) : List Str :=
  [tc.iso p.time, if measEmptyAsSentinel && p.meas.isEmpty then noneS else p.meas.toList]
  ++ p.tags.flatMap (fun kv => [tagPre compact ++ kv.1.toList, match kv.2 with | none => noneS | some v => v.toList])
  ++ p.fields.flatMap (fun kv => [fieldPre compact ++ kv.1.toList, match kv.2 with | none => noneS | some n => fc.repr n])

/-- `Point._deserialize_from_list`; `none` = it raised -/
def deserialize (fc : FieldCodec) (tc : TimeCodec) : List Str → Option Point
  | t :: m :: cells =>
    match tc.fromIso t, parseTags cells with
    | some time, some (tags, rest) =>
      match parseFields fc rest with
      | some fields =>
        some { time := time, meas := String.ofList m,
               tags := toDict (tags.map (fun kv => (kv.1, kv.2.map String.ofList))),
               fields := toDict fields }
      | none => none
    | _, _ => none
  | _ => none

/-- what the format can carry (each excluded case has a counter-example theorem in `Props/C05.lean`) -/
structure Codable (fc : FieldCodec) (tc : TimeCodec) (p : Point) : Prop where
  timeOk : tc.fromIso (tc.iso p.time) = some p.time
  measOk : measEmptyAsSentinel = true → p.meas ≠ ""
  tagKeys : (p.tags.map (·.1)).Nodup
  fieldKeys : (p.fields.map (·.1)).Nodup
  tagVals : ∀ kv ∈ p.tags, kv.2 ≠ some noneStr
  fieldVals : ∀ kv ∈ p.fields, ∀ n, kv.2 = some n →
    fc.parse (fc.repr n) = some n ∧ fc.repr n ≠ [] ∧ isDigits (fc.repr n) = false ∧
    ¬ (∃ t, fc.repr n = '-' :: t ∧ isDigits t = true)

/-- the sentinel is not a number: `float("_none")` raises -/
def SentinelNotNumber (fc : FieldCodec) : Prop := fc.parse noneS = none

end TinyFlux.Model.Codec
