import TinyFlux.Spec.Basic
import TinyFlux.Generated.Hash
/-!
# Model of query equality (`queries.py`: `_hash`, `__eq__`, `is_hashable`)

Queries as *syntax* (user functions by identity), the hash value each constructor attaches — driven
by the tables `hashShape` / `compoundHash` that the translator regenerates from `queries.py` — and
`==` as the code defines it: both hashes truthy and equal. `frozenset([h1, h2])` is an unordered pair.
-/
namespace TinyFlux.Model.QHash
open TinyFlux.Spec

inductive Attr | time | meas | tags | fields
deriving DecidableEq, Repr

/-- a step of a query path: a key, or a `map` function (by identity) -/
inductive Step | key (k : String) | map (fn : Nat)
deriving DecidableEq, Repr

inductive SLeaf
  | cmp (c : Cmp) (rhs : PyV)
  | exists
  | matches (re : String) (flags : Nat)
  | search (re : String) (flags : Nat)
  | test (fn : Nat) (args : List PyV)
deriving DecidableEq, Repr

inductive SQ
  | simple (attr : Attr) (path : List Step) (leaf : SLeaf)
  | noop (attr : Attr)
  | not (q : SQ) | and (q r : SQ) | or (q r : SQ)
deriving DecidableEq, Repr

/-! ## hash values -/

inductive HAtom
  | attr (a : Attr) | op (s : String) | path (p : List String) | val (v : PyV)
  | str (s : String) | nat (n : Nat) | fn (n : Nat) | vals (l : List PyV)
deriving DecidableEq, Repr

inductive HV
  | tuple (l : List HAtom)               -- the hash tuple of a leaf; `()` for noop
  | pair (name : String) (a b : HV)      -- `(name, frozenset([a, b]))`
  | un (name : String) (a : HV)          -- `(name, a)`
deriving Repr

def cmpName : Cmp → String
  | .eq => "__eq__" | .ne => "__ne__" | .lt => "__lt__" | .le => "__le__" | .gt => "__gt__" | .ge => "__ge__"

/-- which constructor of the DSL builds this leaf -/
def ctorName (a : Attr) : SLeaf → String
  | .cmp c _ => cmpName c
  | .exists => if a = .fields then "FieldQuery.exists" else "TagQuery.exists"
  | .matches .. => "matches"
  | .search .. => "search"
  | .test .. => "test"

def shapeOf (name : String) : List Generated.HComp := (Generated.hashShape.lookup name).getD []

/-- one component of a hash tuple -/
def comp (a : Attr) (path : List String) (l : SLeaf) : Generated.HComp → Option HAtom
  | .attr => some (.attr a)
  | .op n => some (.op n)
  | .path => some (.path path)
  | .rhs => (match l with | .cmp _ r => some (.val r) | _ => none)
  | .regex => (match l with | .matches r _ | .search r _ => some (.str r) | _ => none)
  | .flags => (match l with | .matches _ f | .search _ f => some (.nat f) | _ => none)
  | .func => (match l with | .test f _ => some (.fn f) | _ => none)
  | .args => (match l with | .test _ as => some (.vals as) | _ => none)

def keysOf : List Step → Option (List String)
  | [] => some []
  | .key k :: t => (keysOf t).map (k :: ·)
  | .map _ :: _ => none              -- `map` sets `_hash = None`

inductive Cls | simple | compound deriving DecidableEq, Repr
def cls : SQ → Cls | .simple .. | .noop _ => .simple | _ => .compound
def clsName : Cls → String | .simple => "SimpleQuery" | .compound => "CompoundQuery"

/-- the tag name a compound hash tuple starts with -/
def opTag (c : Cls) (method : String) : String :=
  match Generated.compoundHash.find? (fun r => r.1 == clsName c && r.2.1 == method) with
  | some r => r.2.2.1
  | none => ""

/-- `_hash`; `none` = `None` (not hashable) -/
def hashOf : SQ → Option HV
  | .simple a path l =>
    match keysOf path with
    | none => none
    | some ks => some (.tuple ((shapeOf (ctorName a l)).filterMap (comp a ks l)))
  | .noop _ => some (.tuple [])
  | .not q => (hashOf q).map (.un (opTag (cls q) "__invert__"))
  | .and q r => match hashOf q, hashOf r with
    | some a, some b => some (.pair (opTag (cls q) "__and__") a b)
    | _, _ => none
  | .or q r => match hashOf q, hashOf r with
    | some a, some b => some (.pair (opTag (cls q) "__or__") a b)
    | _, _ => none

/-- Python truthiness of a hash value: the empty tuple is falsy -/
def truthy : HV → Bool
  | .tuple l => !l.isEmpty
  | _ => true

/-- Python `==` on hash values -/
def heq : HV → HV → Bool
  | .tuple a, .tuple b => a == b
  | .pair n a b, .pair n' c d => n == n' && ((heq a c && heq b d) || (heq a d && heq b c))
  | .un n a, .un n' b => n == n' && heq a b
  | _, _ => false

/-- `q1 == q2` -/
def qeq (q1 q2 : SQ) : Bool :=
  match hashOf q1, hashOf q2 with
  | some h1, some h2 => truthy h1 && truthy h2 && heq h1 h2
  | _, _ => false

/-! ## evaluation, with user functions interpreted by an arbitrary environment -/

structure Env where
  testFn : Nat → List PyV → PyV → Bool
  mapFn : Nat → PyV → Option PyV
  reMatch : String → Nat → String → Bool
  reSearch : String → Nat → String → Bool

def leafEval (env : Env) : SLeaf → PyV → Bool
  | .cmp c rhs, v => pyCmp c v rhs
  | .exists, _ => true
  | .matches r f, .str s => env.reMatch r f s
  | .matches .., _ => false
  | .search r f, .str s => env.reSearch r f s
  | .search .., _ => false
  | .test fn args, v => env.testFn fn args v

/-- the rest of a path applied to an (atomic) value: a key step fails, a map step applies -/
def walk (env : Env) : List Step → PyV → Option PyV
  | [], v => some v
  | .key _ :: _, _ => none
  | .map f :: t, v => (env.mapFn f v).bind (walk env t)

/-- `path_resolver(getattr(point, attr))`; `none` = it raised -/
def resolve (env : Env) (a : Attr) (path : List Step) (p : Point) : Option PyV :=
  match a, path with
  | .time, path => walk env path (.time p.time)
  | .meas, path => walk env path (.str p.meas)
  | .tags, .key k :: t => (p.tags.lookup k).bind (fun v => walk env t (ofOptStr v))
  | .fields, .key k :: t => (p.fields.lookup k).bind (fun v => walk env t (ofOptNum v))
  | _, _ => none     -- a map applied to the whole tag / field dict is outside the modelled vocabulary

def evalS (env : Env) : SQ → Point → Bool
  | .simple a path l, p => match resolve env a path p with
    | some v => leafEval env l v
    | none => false
  | .noop _, _ => true
  | .not q, p => !evalS env q p
  | .and q r, p => evalS env q p && evalS env r p
  | .or q r, p => evalS env q p || evalS env r p

def hasMap : SQ → Bool
  | .simple _ path _ => path.any (fun s => match s with | .map _ => true | _ => false)
  | .noop _ => false
  | .not q => hasMap q
  | .and q r | .or q r => hasMap q || hasMap r

end TinyFlux.Model.QHash
