import TinyFlux.Model.Index
import TinyFlux.Spec.Ops
/-!
# Model of `tinyflux/database.py` (list level)

`State` = configuration + storage contents (the decoded view of what storage holds, in order) +
the index. `step` mirrors each public method: the decorator gating (`read_op` rebuilds an invalid
index when auto-indexing), the choice between the *index path* and the *scan path*, the shortcuts
(`all positions ⇒ scan`, `all positions ⇒ reset`, early `break`), `_insert_helper`,
`_remove_helper`, `_update_helper`, `_reset_database`. The file layer is `Model/IO.lean`.

Storage is generic in `norm : Point → Point`, what a point looks like after it went through the
storage's serialiser and back: the identity for `MemoryStorage`, `deserialize ∘ serialize` for
`CSVStorage`. The index is fed the point *handed to* `insert`, the scan path sees `norm` of it, so
the two paths are different computations in the model as they are in the code.
-/
namespace TinyFlux.Model
open TinyFlux.Spec

structure Cfg where
  autoIndex : Bool
  norm : Point → Point

structure State where
  cfg : Cfg
  storage : List Point
  index : Index

/-- `if measurement:` — the code treats the empty name like `None` -/
def effMeas (m : Option String) : Option String := m.bind fun s => if s == "" then none else some s

/-- does the index answer this query exactly? (`index_is_exact`: no `~` directly over a field leaf) -/
def exact : Query → Bool
  | .not (.field _ _) => false
  | .not q => exact q
  | .and q r => exact q && exact r
  | .or q r => exact q && exact r
  | _ => true

def excToErr : Exc → Err
  | .type => .type | .key => .value | .user => .user

namespace State

/-- `read_op`: rebuild an invalid index when auto-indexing -/
def readOp (s : State) : State :=
  if s.cfg.autoIndex && !s.index.valid then { s with index := Index.build s.storage } else s

/-- `mq & query` on the index -/
def indexSearch (s : State) (q : Query) (m : Option String) : Except Exc (List Nat) :=
  match effMeas m with
  | some name => s.index.search (.and (.meas (.cmp .eq (.str name))) q)
  | none => s.index.search q

/-- the scan path's row filter -/
def scanSel (q : Query) (m : Option String) (p : Point) : Except Exc Bool :=
  match effMeas m with
  | some name => if p.meas != name then pure false else eval q p
  | none => eval q p

/-- rows at the given positions, in storage order, stopping once all have been seen -/
def rowsAt (s : State) (items : List Nat) : List Point :=
  ((s.storage.zipIdx.filter (fun pi => items.contains pi.2)).map (·.1)).take items.length

/-- matching points in storage order: the common core of `search/get/select` -/
def found (s : State) (q : Query) (m : Option String) (fallbackOnAll : Bool) :
    Except Exc (List Point) := do
  if s.index.valid && exact q then
    let items ← s.indexSearch q m
    if items.isEmpty then return []
    if fallbackOnAll && items.length == s.index.numItems then
      s.storage.filterM (scanSel q m)
    else
      pure (s.rowsAt items)
  else
    s.storage.filterM (scanSel q m)

def sortByTime (l : List Point) : List Point := l.mergeSort (fun a b => decide (a.time ≤ b.time))

/-- `_reset_database` -/
def resetDatabase (s : State) : State :=
  { s with storage := [],
           index := if s.cfg.autoIndex then s.index.reset else s.index.invalidate }

/-- the loop of `_insert_helper` -/
def insertLoop (s : State) (m : Option String) : List (Option Point) → Nat → State × Nat × Option Err
  | [], c => (s, c, none)
  | none :: _, c => (s, c, some .type)              -- "Data must be a Point instance."
  | some p :: t, c =>
    let p := match effMeas m with | some name => { p with meas := name } | none => p
    let s1 := { s with storage := s.storage ++ [s.cfg.norm p] }
    let s2 :=
      if s1.cfg.autoIndex && s1.index.valid then
        if !s1.index.empty && (match s1.index.latestTime with | some lt => decide (p.time < lt) | none => false)
        then { s1 with index := s1.index.invalidate }
        else { s1 with index := s1.index.insert p }
      else s1
    insertLoop s2 m t (c + 1)

def insertOp (s : State) (pts : List (Option Point)) (m : Option String) : State × Out :=
  let (s', c, e) := insertLoop s m pts 0
  -- `finally:` invalidate when not auto-indexing and something was stored
  let s'' := if c != 0 && !s'.cfg.autoIndex && s'.index.valid
             then { s' with index := s'.index.invalidate } else s'
  (s'', match e with | some e => .err e | none => .nat c)

/-- the index-path loop of `_remove_helper`: kept rows, removed positions, renumbering -/
def removeLoop (items : List Nat) :
    List Point → (i j newPos : Nat) → List Point × List Nat × List (Nat × Nat)
  | [], _, _, _ => ([], [], [])
  | p :: t, i, j, newPos =>
    if j == items.length || !items.contains i then
      let (k, r, u) := removeLoop items t (i + 1) j (newPos + 1)
      (p :: k, r, if i != newPos then (i, newPos) :: u else u)
    else
      let (k, r, u) := removeLoop items t (i + 1) (j + 1) newPos
      (k, i :: r, u)

/-- the scan-path loop of `_remove_helper` over (row, matches) pairs, with the same renumbering -/
def scanRemoveLoop :
    List (Point × Bool) → (i newPos : Nat) → List Point × List Nat × List (Nat × Nat)
  | [], _, _ => ([], [], [])
  | (p, false) :: t, i, newPos =>
    let (k, r, u) := scanRemoveLoop t (i + 1) (newPos + 1)
    (p :: k, r, if i != newPos then (i, newPos) :: u else u)
  | (_, true) :: t, i, newPos =>
    let (k, r, u) := scanRemoveLoop t (i + 1) newPos
    (k, i :: r, u)

/-- `_remove_helper` -/
def removeHelper (s : State) (q : Query) (m : Option String) : Except Exc (State × Nat) := do
  if s.index.valid && exact q then
    let items ← s.indexSearch q m
    if items.isEmpty then return (s, 0)
    if items.length == s.index.numItems then
      return (s.resetDatabase, items.length)
    let (kept, removed, updated) := removeLoop items s.storage 0 0 0
    if removed.isEmpty then return (s, 0)
    if kept.isEmpty then return (s.resetDatabase, removed.length)
    let idx := if s.cfg.autoIndex then (s.index.remove removed).update updated else s.index.invalidate
    pure ({ s with storage := kept, index := idx }, removed.length)
  else
    let flags ← s.storage.mapM (scanSel q m)
    let (kept, removed, updated) := scanRemoveLoop (s.storage.zip flags) 0 0
    if removed.isEmpty then return (s, 0)
    if kept.isEmpty then return (s.resetDatabase, removed.length)
    let idx := if s.cfg.autoIndex then (s.index.remove removed).update updated else s.index.invalidate
    pure ({ s with storage := kept, index := idx }, removed.length)

/-- the rewrite loop of `_update_helper` over (row, selected) pairs: new rows and the number of
    rows whose content changed; the first failing callable aborts (nothing has been swapped in) -/
def updateLoop (norm : Point → Point) (u : Upd) : List (Point × Bool) → Except Err (List Point × Nat)
  | [] => pure ([], 0)
  | (p, true) :: t => do
    let p' ← upd u p
    let (l, c) ← updateLoop norm u t
    if p'.eqv p then pure (p :: l, c) else pure (norm p' :: l, c + 1)
  | (p, false) :: t => do
    let (l, c) ← updateLoop norm u t
    pure (p :: l, c)

/-- which rows `_update_helper` hands to `perform_update`; `none` = the early `return 0` -/
def updateSel (s : State) (all : Bool) (q : Query) (m : Option String) :
    Except Exc (Option (List (Point × Bool))) := do
  let scan : Except Exc (Option (List (Point × Bool))) := do
    let flags ← s.storage.mapM (fun p =>
      if all then (match effMeas m with
                   | some name => pure (p.meas == name)
                   | none => pure true)
      else scanSel q m p)
    pure (some (s.storage.zip flags))
  if !all && s.index.valid && exact q then
    let items ← s.indexSearch q m
    if items.isEmpty then return none
    if items.length == s.index.numItems then scan
    else pure (some (s.storage.zipIdx.map (fun pi => (pi.1, items.contains pi.2))))
  else scan

/-- `_update_helper` -/
def updateHelper (s : State) (all : Bool) (q : Query) (u : Upd) (m : Option String) : State × Out :=
  if updEmpty u then (s, .err .value) else
  match s.updateSel all q m with
  | .error e => (s, .err (excToErr e))
  | .ok none => (s, .nat 0)
  | .ok (some rows) =>
    match updateLoop s.cfg.norm u rows with
    | .error e => (s, .err e)        -- the rewrite went to temporary storage only
    | .ok (l, c) =>
      if c == 0 then (s, .nat 0) else
      let idx := if s.cfg.autoIndex then Index.build l else s.index.invalidate
      ({ s with storage := l, index := idx }, .nat c)

def restrictM (l : List Point) (m : Option String) : List Point :=
  match effMeas m with | some name => l.filter (fun p => p.meas == name) | none => l

def dedupS {α} [BEq α] (l : List α) : List α := dedup l

def outOf {α} (r : Except Exc α) (f : α → Out) : Out :=
  match r with | .ok a => f a | .error e => .err (excToErr e)

/-- one API call -/
def step (s : State) : Op → State × Out
  | .insert pts m => s.insertOp pts m
  | .search q m sorted =>
    let s := s.readOp
    (s, outOf (s.found q m true) fun l => .points (if sorted then sortByTime l else l))
  | .count q m =>
    let s := s.readOp
    (s, if s.index.valid && exact q
        then outOf (s.indexSearch q m) fun items => .nat items.length
        else outOf (s.storage.filterM (scanSel q m)) fun l => .nat l.length)
  | .contains q m =>
    let s := s.readOp
    (s, if s.index.valid && exact q
        then outOf (s.indexSearch q m) fun items => .bool (!items.isEmpty)
        else outOf (s.storage.filterM (scanSel q m)) fun l => .bool (!l.isEmpty))
  | .get q m =>
    let s := s.readOp
    (s, outOf (s.found q m true) fun l => .point l.head?)
  | .select keys q m =>
    let s := s.readOp
    (s, outOf (s.found q m false) fun l => .rows (l.map (project keys)))
  | .getMeasurements =>
    let s := s.readOp
    (s, .strs (sortStr (if s.index.valid then s.index.getMeasurements
                        else dedup (s.storage.map (·.meas)))))
  | .getTagKeys m =>
    let s := s.readOp
    (s, .strs (sortStr (if s.index.valid then s.index.getTagKeys (effMeas m)
                        else dedup ((restrictM s.storage m).flatMap (fun p => p.tags.map (·.1))))))
  | .getTagValues keys m =>
    let s := s.readOp
    let sortV (l : List (Option String)) := l.mergeSort optStrLe
    if s.index.valid then
      (s, .tagVals ((s.index.getTagValues keys (effMeas m)).map (fun kv => (kv.1, sortV kv.2))))
    else
      let init : AL String (List (Option String)) := (sortStr (dedup keys)).map (fun k => (k, []))
      let add (acc : AL String (List (Option String))) (k : String) (v : Option String) :=
        alterAL k [] (fun vs => if vs.contains v then vs else vs ++ [v]) acc
      let r := (restrictM s.storage m).foldl (fun acc p =>
        p.tags.foldl (fun acc kv =>
          if !keys.isEmpty && !keys.contains kv.1 then acc else add acc kv.1 kv.2) acc) init
      (s, .tagVals (r.map (fun kv => (kv.1, sortV kv.2))))
  | .getFieldKeys m =>
    let s := s.readOp
    (s, .strs (sortStr (if s.index.valid then s.index.getFieldKeys (effMeas m)
                        else dedup ((restrictM s.storage m).flatMap (fun p => p.fields.map (·.1))))))
  | .getFieldValues k m =>
    let s := s.readOp
    (s, .nums (if s.index.valid then s.index.getFieldValues k (effMeas m)
               else (restrictM s.storage m).filterMap (fun p => p.fields.lookup k)))
  | .getTimestamps m =>
    let s := s.readOp
    (s, .times (if s.index.valid then s.index.getTimestamps (effMeas m)
                else (restrictM s.storage m).map (·.time)))
  | .len => (s, .nat (if s.cfg.autoIndex && s.index.valid then s.index.numItems else s.storage.length))
  | .iter => (s, .points s.storage)
  | .all sorted =>
    let s := s.readOp
    (s, .points (if sorted then sortByTime s.storage else s.storage))
  | .mlen name =>
    (s, .nat (if s.cfg.autoIndex && s.index.valid then (s.index.measItems name).length
              else (s.storage.filter (fun p => p.meas == name)).length))
  | .miter name => (s, .points (s.storage.filter (fun p => p.meas == name)))
  | .mall name sorted =>
    let l := s.storage.filter (fun p => p.meas == name)
    (s, .points (if sorted then sortByTime l else l))
  | .remove q m =>
    let s := s.readOp
    match s.removeHelper q m with
    | .ok (s', n) => (s', .nat n)
    | .error e => (s, .err (excToErr e))
  | .drop name =>
    let s := s.readOp
    match s.removeHelper (.meas (.cmp .eq (.str name))) (some name) with
    | .ok (s', n) => (s', .nat n)
    | .error e => (s, .err (excToErr e))
  | .removeAll => (s.resetDatabase, .unit)
  | .update all q u m =>
    let s := s.readOp
    s.updateHelper all q u m
  | .reindex =>
    (if s.index.valid then s else { s with index := Index.build s.storage }, .unit)

end State

def init (cfg : Cfg) : State := { cfg := cfg, storage := [], index := {} }

/-- reopening a CSV database: storage as on disk, a fresh index (`valid` iff the file is empty),
    rebuilt at once when auto-indexing -/
def reopen (s : State) : State :=
  let idx : Index := { valid := s.storage.isEmpty }
  let s' := { s with index := idx }
  if s.cfg.autoIndex && !s.storage.isEmpty then { s' with index := Index.build s.storage } else s'

end TinyFlux.Model
