/-!
# Python dicts as insertion-ordered association lists

Two primitives carry every map in the model: `alterAL k default f` is Python's
`d[k] = f(d.get(k, default))` (a new key goes to the end), `lookupAL` is `d.get(k)`.
-/
namespace TinyFlux.Model

abbrev AL (K V : Type) := List (K × V)

def alterAL {K V} [BEq K] (k : K) (dflt : V) (f : V → V) : AL K V → AL K V
  | [] => [(k, f dflt)]
  | (k', v) :: t => if k' == k then (k', f v) :: t else (k', v) :: alterAL k dflt f t

def lookupAL {K V} [BEq K] (k : K) : AL K V → Option V
  | [] => none
  | (k', v) :: t => if k' == k then some v else lookupAL k t

def keysAL {K V} (l : AL K V) : List K := l.map (·.1)

/-- duplicate-free list (a Python `set` of positions, in first-occurrence order) -/
def dedup {α} [BEq α] : List α → List α
  | [] => []
  | a :: t => if t.contains a then dedup t else a :: dedup t

/-- a posting map: key ↦ ascending list of (storage position, payload) -/
abbrev PMap (K P : Type) := AL K (List (Nat × P))

namespace PMap
variable {K P : Type} [BEq K]

def posting (m : PMap K P) (k : K) : List (Nat × P) := (lookupAL k m).getD []
/-- `if k not in d: d[k] = [x] else: d[k].append(x)` -/
def insert (m : PMap K P) (k : K) (pos : Nat) (p : P) : PMap K P :=
  alterAL k [] (fun l => l ++ [(pos, p)]) m
/-- `Index._remove_*`: drop removed positions; a key whose posting list becomes empty disappears -/
def remove (m : PMap K P) (r : Nat → Bool) : PMap K P :=
  m.filterMap fun kv =>
    let l := kv.2.filter (fun ip => !r ip.1)
    if l.isEmpty then none else some (kv.1, l)
/-- `Index._update_*`: renumber positions -/
def renumber (m : PMap K P) (f : Nat → Nat) : PMap K P :=
  m.map fun kv => (kv.1, kv.2.map (fun ip => (f ip.1, ip.2)))
end PMap

end TinyFlux.Model
