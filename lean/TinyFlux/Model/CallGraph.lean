/-! # What the modelled functions use

For every function of tinyflux's modules: the expressions it calls, the exception types it catches and raises,
whether it has a `finally` / `with` / `yield` — recorded (by `tools/snapshot_callgraph.py`) from the source the
Model was written against and validated on by the correspondence runs. `Generated/CallGraph.lean` is the same listing
regenerated from the current source on every run; every property proves the two equal for the classes its theorems
speak about (`Props/CxxState.lean`, `code_uses_the_modelled_primitives`). A method that calls something else —
a new helper, a bulk or batched path, `reindex()` inside insert, `shutil.copyfile`, `os.ftruncate`,
`str.splitlines`, `unicodedata.normalize`, `replace(tzinfo=…)` — or that catches other exceptions is code the
Model does not mirror, however rarely the new path is taken. The listing ignores statement order, conditions,
constants, comments and formatting. -/
namespace TinyFlux.Model.CallGraph

/-- storages.Storage: function ↦ its calls in the order they are written, with control-structure markers -/
def order_storages_Storage : List (String × List String) := [
  ("can_append", ["<return>"]),
  ("can_read", ["<return>"]),
  ("can_write", ["<return>"]),
  ("__iter__", []),
  ("__len__", []),
  ("append", []),
  ("close", []),
  ("read", ["list", "self._deserialize_storage_item", "iter", "<return>"]),
  ("reset", []),
  ("_deserialize_measurement", []),
  ("_deserialize_timestamp", []),
  ("_deserialize_storage_item", []),
  ("_serialize_point", []),
  ("_swap_temp_with_primary", []),
  ("_write", [])]

/-- storages.CSVStorage: function ↦ its calls in the order they are written, with control-structure markers -/
def order_storages_CSVStorage : List (String × List String) := [
  ("__init__", ["super().__init__", "super", "any", "<if>", "create_file", "<end>", "open", "self._check_for_existing_data"]),
  ("can_append", ["<if>", "<raise>", "<end>", "<return>"]),
  ("can_read", ["<if>", "<raise>", "<end>", "<return>"]),
  ("can_write", ["<if>", "<raise>", "<end>", "<return>"]),
  ("__iter__", ["self._handle.seek", "csv.reader", "<return>"]),
  ("__len__", ["self._handle.seek", "sum", "csv.reader", "<return>"]),
  ("append", ["<if>", "<if>", "<raise>", "<else>", "<end>", "<else>", "<end>", "_.seek", "csv.writer", "<for>", "_.writerow", "<end>", "<if>", "_.flush", "os.fsync", "_.fileno", "_.truncate", "<end>", "<return>"]),
  ("close", ["self._handle.close", "<return>"]),
  ("read", ["super().read", "super", "<return>"]),
  ("reset", ["self._write", "<return>"]),
  ("_check_for_existing_data", ["self._handle.seek", "self._handle.tell", "<if>", "<end>", "<return>"]),
  ("_cleanup_temp_storage", ["<if>", "<try>", "self._temp_handle.close", "<finally>", "os.path.exists", "<if>", "os.remove", "<end>", "<end>", "<end>", "<return>"]),
  ("_deserialize_measurement", ["<return>"]),
  ("_deserialize_storage_item", ["Point()._deserialize_from_list", "Point", "<return>"]),
  ("_deserialize_timestamp", ["datetime.fromisoformat", "<return>"]),
  ("_init_temp_storage", ["NamedTemporaryFile", "os.path.dirname", "os.path.abspath", "<return>"]),
  ("_serialize_point", ["_._serialize_to_list", "_.pop", "<return>"]),
  ("_swap_temp_with_primary", ["<if>", "self._temp_handle.flush", "os.fsync", "self._temp_handle.fileno", "self._handle.close", "os.replace", "open", "<end>", "<return>"]),
  ("_write", ["_.seek", "_.truncate", "<if>", "csv.writer", "_.writerows", "_.flush", "os.fsync", "_.fileno", "_.truncate", "<end>", "<return>"])]

/-- storages.MemoryStorage: function ↦ its calls in the order they are written, with control-structure markers -/
def order_storages_MemoryStorage : List (String × List String) := [
  ("__init__", ["super().__init__", "super"]),
  ("__iter__", ["<for>", "<end>"]),
  ("__len__", ["len", "<return>"]),
  ("append", ["<for>", "<if>", "self._temp_memory.append", "<else>", "self._memory.append", "<end>", "<end>", "<return>"]),
  ("read", ["super().read", "super", "<return>"]),
  ("reset", ["self._write", "<return>"]),
  ("_cleanup_temp_storage", ["<return>"]),
  ("_deserialize_measurement", ["<return>"]),
  ("_deserialize_storage_item", ["<return>"]),
  ("_deserialize_timestamp", ["<if>", "<raise>", "<end>", "<return>"]),
  ("_init_temp_storage", []),
  ("_serialize_point", ["<return>"]),
  ("_swap_temp_with_primary", ["<return>"]),
  ("_write", ["<return>"])]

/-- index (module-level functions): function ↦ what it calls, catches, raises -/
def calls_index_toplevel : List (String × List String) := [
]

/-- index.IndexResult: function ↦ what it calls, catches, raises -/
def calls_index_IndexResult : List (String × List String) := [
  ("__init__", []),
  ("items", []),
  ("__invert__", ["IndexResult", "range", "set", "set(range(self._index_count)).difference"]),
  ("__and__", ["IndexResult", "self._items.intersection"]),
  ("__or__", ["IndexResult", "self._items.union"])]

/-- index.Index: function ↦ what it calls, catches, raises -/
def calls_index_Index : List (String × List String) := [
  ("__init__", []),
  ("empty", []),
  ("valid", []),
  ("latest_time", ["datetime.fromtimestamp"]),
  ("__len__", []),
  ("__repr__", ["', '.join", "len", "self._measurements.keys", "self._tags.keys", "type"]),
  ("build", ["<raise ValueError>", "_.append", "_.sort", "_.time.timestamp", "enumerate", "self._insert_fields", "self._insert_measurements", "self._insert_tags", "self._reset"]),
  ("get_field_keys", ["_.add", "_.intersection", "list", "self._fields.items", "self._fields.keys", "set"]),
  ("get_field_values", ["_.extend", "_.intersection", "self._fields.items", "set"]),
  ("get_measurements", ["self._measurements.keys", "set"]),
  ("get_tag_keys", ["_.add", "_.intersection", "_.values", "list", "self._tags.items", "self._tags.keys", "set"]),
  ("get_tag_values", ["_.intersection", "_[tag_key].add", "self._tags.items", "self._tags[tag_key].items", "set"]),
  ("get_timestamps", ["set", "sorted", "zip"]),
  ("insert", ["<raise ValueError>", "enumerate", "len", "self._insert_fields", "self._insert_measurements", "self._insert_tags", "self._insert_time"]),
  ("invalidate", ["self._reset"]),
  ("remove", ["len", "self._remove_fields", "self._remove_measurements", "self._remove_tags", "self._remove_timestamps"]),
  ("search", ["self._search_helper"]),
  ("update", ["self._update_fields", "self._update_measurements", "self._update_tags", "self._update_timestamps"]),
  ("_insert_fields", ["_.items", "self._fields[field_key].append"]),
  ("_insert_measurements", ["self._measurements[measurement].append"]),
  ("_insert_tags", ["_.items", "self._tags[tag_key][tag_value].append"]),
  ("_insert_time", ["_.timestamp", "len", "self._storage_pos_sorted_by_ts.append", "self._timestamps.append"]),
  ("_reset", []),
  ("_search_fields", ["<except Exception>", "_._path_resolver", "_._test", "_.add", "self._fields.items", "set"]),
  ("_search_helper", ["<raise TypeError>", "IndexResult", "TypeError", "isinstance", "range", "self._search_fields", "self._search_helper", "self._search_measurement", "self._search_tags", "self._search_timestamps", "set"]),
  ("_search_measurement", ["<except Exception>", "_._path_resolver", "_._test", "_.union", "self._measurements.items", "set"]),
  ("_search_tags", ["<except Exception>", "_._path_resolver", "_._test", "_.items", "_.union", "self._tags.items", "set"]),
  ("_search_timestamps", ["<except Exception>", "_._path_resolver", "_._test", "_.add", "_.is_hashable", "_.timestamp", "datetime.fromtimestamp", "find_eq", "find_ge", "find_gt", "find_le", "find_lt", "isinstance", "len", "set", "set(self._storage_pos_sorted_by_ts).difference", "zip"]),
  ("_remove_fields", ["self._fields.items"]),
  ("_remove_measurements", ["self._measurements.keys"]),
  ("_remove_tags", ["_.items", "self._tags.items"]),
  ("_remove_timestamps", ["_.append", "zip"]),
  ("_update_fields", ["self._fields.items"]),
  ("_update_timestamps", []),
  ("_update_measurements", ["self._measurements.items"]),
  ("_update_tags", ["_.items", "self._tags.items"])]

/-- storages (module-level functions): function ↦ what it calls, catches, raises -/
def calls_storages_toplevel : List (String × List String) := [
  ("create_file", ["<with>", "open", "os.makedirs", "os.path.dirname", "os.path.exists"])]

/-- storages.Storage: function ↦ what it calls, catches, raises -/
def calls_storages_Storage : List (String × List String) := [
  ("can_append", []),
  ("can_read", []),
  ("can_write", []),
  ("__iter__", []),
  ("__len__", []),
  ("append", []),
  ("close", []),
  ("read", ["iter", "list", "self._deserialize_storage_item"]),
  ("reset", []),
  ("_deserialize_measurement", []),
  ("_deserialize_timestamp", []),
  ("_deserialize_storage_item", []),
  ("_serialize_point", []),
  ("_swap_temp_with_primary", []),
  ("_write", [])]

/-- storages.CSVStorage: function ↦ what it calls, catches, raises -/
def calls_storages_CSVStorage : List (String × List String) := [
  ("__init__", ["any", "create_file", "open", "self._check_for_existing_data", "super", "super().__init__"]),
  ("can_append", ["<raise IOError>", "IOError"]),
  ("can_read", ["<raise IOError>", "IOError"]),
  ("can_write", ["<raise IOError>", "IOError"]),
  ("__iter__", ["csv.reader", "self._handle.seek"]),
  ("__len__", ["csv.reader", "self._handle.seek", "sum"]),
  ("append", ["<raise IOError>", "_.fileno", "_.flush", "_.seek", "_.truncate", "_.writerow", "csv.writer", "os.fsync"]),
  ("close", ["self._handle.close"]),
  ("read", ["super", "super().read"]),
  ("reset", ["self._write"]),
  ("_check_for_existing_data", ["self._handle.seek", "self._handle.tell"]),
  ("_cleanup_temp_storage", ["<finally>", "os.path.exists", "os.remove", "self._temp_handle.close"]),
  ("_deserialize_measurement", []),
  ("_deserialize_storage_item", ["Point", "Point()._deserialize_from_list"]),
  ("_deserialize_timestamp", ["datetime.fromisoformat"]),
  ("_init_temp_storage", ["NamedTemporaryFile", "os.path.abspath", "os.path.dirname"]),
  ("_serialize_point", ["_._serialize_to_list", "_.pop"]),
  ("_swap_temp_with_primary", ["open", "os.fsync", "os.replace", "self._handle.close", "self._temp_handle.fileno", "self._temp_handle.flush"]),
  ("_write", ["_.fileno", "_.flush", "_.seek", "_.truncate", "_.writerows", "csv.writer", "os.fsync"])]

/-- storages.MemoryStorage: function ↦ what it calls, catches, raises -/
def calls_storages_MemoryStorage : List (String × List String) := [
  ("__init__", ["super", "super().__init__"]),
  ("__iter__", ["<yield>"]),
  ("__len__", ["len"]),
  ("append", ["self._memory.append", "self._temp_memory.append"]),
  ("read", ["super", "super().read"]),
  ("reset", ["self._write"]),
  ("_cleanup_temp_storage", []),
  ("_deserialize_measurement", []),
  ("_deserialize_storage_item", []),
  ("_deserialize_timestamp", ["<raise ValueError>"]),
  ("_init_temp_storage", []),
  ("_serialize_point", []),
  ("_swap_temp_with_primary", []),
  ("_write", [])]

/-- database (module-level functions): function ↦ what it calls, catches, raises -/
def calls_database_toplevel : List (String × List String) := [
  ("index_is_exact", ["index_is_exact", "isinstance"]),
  ("append_op", []),
  ("append_op.op", ["_", "wraps"]),
  ("read_op", []),
  ("read_op.op", ["_", "self.reindex", "wraps"]),
  ("temp_storage_op", []),
  ("temp_storage_op.op", ["<finally>", "_", "self._storage._cleanup_temp_storage", "self._storage._init_temp_storage", "wraps"]),
  ("write_op", []),
  ("write_op.op", ["_", "wraps"])]

/-- database.TinyFlux: function ↦ what it calls, catches, raises -/
def calls_database_TinyFlux : List (String × List String) := [
  ("__init__", ["<raise TypeError>", "Index", "TypeError", "_", "_.pop", "isinstance", "self.reindex"]),
  ("storage", []),
  ("index", []),
  ("__enter__", []),
  ("__exit__", ["self.close"]),
  ("__iter__", ["<yield>", "self._storage._deserialize_storage_item"]),
  ("__len__", ["len"]),
  ("__repr__", ["', '.join", "len", "type"]),
  ("all", ["_.sort", "self._storage.read"]),
  ("close", ["self._storage.close"]),
  ("contains", ["MeasurementQuery", "_", "index_is_exact", "len", "self._index.search", "self._storage._deserialize_measurement", "self._storage._deserialize_storage_item"]),
  ("count", ["MeasurementQuery", "_", "index_is_exact", "len", "self._index.search", "self._storage._deserialize_measurement", "self._storage._deserialize_storage_item"]),
  ("drop_measurement", ["MeasurementQuery", "self._remove_helper"]),
  ("get", ["<raise ValueError>", "MeasurementQuery", "_", "_.time.replace", "enumerate", "index_is_exact", "len", "self._index.search", "self._storage._deserialize_measurement", "self._storage._deserialize_storage_item"]),
  ("get_field_keys", ["_.add", "_.fields.keys", "self._index.get_field_keys", "self._storage._deserialize_measurement", "self._storage._deserialize_storage_item", "set", "sorted"]),
  ("get_field_values", ["_.append", "_.fields.items", "self._index.get_field_values", "self._storage._deserialize_measurement", "self._storage._deserialize_storage_item"]),
  ("get_measurements", ["_.add", "self._index.get_measurements", "self._storage._deserialize_measurement", "set", "sorted"]),
  ("get_tag_keys", ["_.add", "_.tags.keys", "self._index.get_tag_keys", "self._storage._deserialize_measurement", "self._storage._deserialize_storage_item", "set", "sorted"]),
  ("get_tag_values", ["_.items", "_.tags.items", "_[tk].union", "self._index.get_tag_values", "self._storage._deserialize_measurement", "self._storage._deserialize_storage_item", "set", "sorted"]),
  ("get_timestamps", ["_.append", "_.replace", "datetime.fromtimestamp", "self._index.get_timestamps", "self._storage._deserialize_measurement", "self._storage._deserialize_timestamp"]),
  ("insert", ["self._insert_helper"]),
  ("insert_multiple", ["self._insert_helper"]),
  ("measurement", ["Measurement"]),
  ("reindex", ["print", "self._index.build", "self._storage._deserialize_storage_item"]),
  ("remove", ["self._remove_helper"]),
  ("remove_all", ["self._reset_database"]),
  ("search", ["<raise ValueError>", "MeasurementQuery", "ValueError", "_", "_.append", "_.sort", "_.time.replace", "enumerate", "index_is_exact", "isinstance", "len", "self._index.search", "self._storage._deserialize_measurement", "self._storage._deserialize_storage_item"]),
  ("select", ["<raise ValueError>", "MeasurementQuery", "ValueError", "_", "_.append", "_.startswith", "enumerate", "hasattr", "index_is_exact", "isinstance", "len", "list", "self._index.search", "self._storage._deserialize_measurement", "self._storage._deserialize_storage_item", "tuple"]),
  ("update", ["self._update_helper"]),
  ("update_all", ["TagQuery", "TagQuery().noop", "self._update_helper"]),
  ("_generate_updater", ["<raise ValueError>", "ValueError", "all", "callable", "isinstance", "list", "validate_fields", "validate_tags"]),
  ("_generate_updater.perform_update", ["<except ValueError>", "<raise ValueError>", "ValueError", "_", "_.fields.pop", "_.fields.update", "_.tags.pop", "_.tags.update", "_.time.astimezone", "callable", "copy.deepcopy", "isinstance", "validate_fields", "validate_tags"]),
  ("_insert_helper", ["<except Exception>", "<finally>", "<raise TypeError>", "<re-raise>", "TypeError", "_.time.astimezone", "_.time.timestamp", "datetime.now", "isinstance", "self._index.insert", "self._index.invalidate", "self._storage._serialize_point", "self._storage.append", "validate_fields", "validate_tags"]),
  ("_remove_helper", ["<except Exception>", "<re-raise>", "MeasurementQuery", "_", "_.add", "enumerate", "index_is_exact", "len", "self._index.invalidate", "self._index.remove", "self._index.search", "self._index.update", "self._reset_database", "self._storage._deserialize_measurement", "self._storage._deserialize_storage_item", "self._storage._swap_temp_with_primary", "self._storage.append", "set"]),
  ("_reset_database", ["self._index._reset", "self._index.invalidate", "self._measurements.clear", "self._storage.reset"]),
  ("_update_helper", ["<except Exception>", "<re-raise>", "MeasurementQuery", "_", "enumerate", "index_is_exact", "len", "reversed", "self._generate_updater", "self._index.build", "self._index.invalidate", "self._index.search", "self._storage._deserialize_measurement", "self._storage._deserialize_storage_item", "self._storage._serialize_point", "self._storage._swap_temp_with_primary", "self._storage.append", "update_and_record"]),
  ("_update_helper.update_and_record", ["_", "_.append", "copy.deepcopy"])]

/-- measurement (module-level functions): function ↦ what it calls, catches, raises -/
def calls_measurement_toplevel : List (String × List String) := [
]

/-- measurement.Measurement: function ↦ what it calls, catches, raises -/
def calls_measurement_Measurement : List (String × List String) := [
  ("__init__", []),
  ("index", []),
  ("name", []),
  ("storage", []),
  ("__iter__", ["<yield>", "self._db._storage._deserialize_measurement", "self._db._storage._deserialize_storage_item"]),
  ("__len__", ["len", "self._db._storage._deserialize_measurement"]),
  ("__repr__", ["', '.join", "len", "type"]),
  ("all", ["_.sort", "iter", "list"]),
  ("contains", ["self._db.contains"]),
  ("count", ["self._db.count"]),
  ("get", ["self._db.get"]),
  ("get_field_keys", ["self._db.get_field_keys"]),
  ("get_field_values", ["self._db.get_field_values"]),
  ("get_tag_keys", ["self._db.get_tag_keys"]),
  ("get_tag_values", ["self._db.get_tag_values"]),
  ("get_timestamps", ["self._db.get_timestamps"]),
  ("insert", ["self._db.insert"]),
  ("insert_multiple", ["self._db.insert_multiple"]),
  ("remove", ["self._db.remove"]),
  ("remove_all", ["self._db.drop_measurement"]),
  ("search", ["self._db.search"]),
  ("select", ["self._db.select"]),
  ("update", ["self._db.update"]),
  ("update_all", ["MeasurementQuery", "MeasurementQuery().noop", "self._db.update"])]

/-- queries (module-level functions): function ↦ what it calls, catches, raises -/
def calls_queries_toplevel : List (String × List String) := [
]

/-- queries.CompoundQuery: function ↦ what it calls, catches, raises -/
def calls_queries_CompoundQuery : List (String × List String) := [
  ("__init__", ["<raise RuntimeError>", "RuntimeError", "isinstance"]),
  ("__call__", ["self.operator", "self.query1", "self.query2"]),
  ("__hash__", ["hash"]),
  ("__repr__", ["repr"]),
  ("__eq__", ["bool", "isinstance"]),
  ("__and__", ["CompoundQuery", "_.is_hashable", "frozenset", "self.is_hashable"]),
  ("__or__", ["CompoundQuery", "_.is_hashable", "frozenset", "self.is_hashable"]),
  ("__invert__", ["CompoundQuery", "self.is_hashable"]),
  ("is_hashable", [])]

/-- queries.SimpleQuery: function ↦ what it calls, catches, raises -/
def calls_queries_SimpleQuery : List (String × List String) := [
  ("__init__", []),
  ("point_attr", []),
  ("__call__", ["<except Exception>", "bool", "getattr", "self._path_resolver", "self._test"]),
  ("__hash__", ["hash"]),
  ("__repr__", []),
  ("__eq__", ["bool", "isinstance"]),
  ("__and__", ["CompoundQuery", "_.is_hashable", "frozenset", "self.is_hashable"]),
  ("__or__", ["CompoundQuery", "_.is_hashable", "frozenset", "self.is_hashable"]),
  ("__invert__", ["CompoundQuery", "self.is_hashable"]),
  ("is_hashable", [])]

/-- queries.BaseQuery: function ↦ what it calls, catches, raises -/
def calls_queries_BaseQuery : List (String × List String) := [
  ("__init__", []),
  ("__repr__", ["type"]),
  ("__hash__", ["hash"]),
  ("__getattr__", ["<raise RuntimeError>", "RuntimeError", "self.is_hashable", "type", "type(self)"]),
  ("__getitem__", ["self.__getattr__"]),
  ("_generate_simple_query", ["<except OverflowError>", "<except TypeError>", "<raise RuntimeError>", "<raise TypeError>", "RuntimeError", "SimpleQuery", "TypeError", "_.astimezone", "hash", "isinstance", "self.is_hashable"]),
  ("_generate_simple_query.test", ["<except Exception>", "_"]),
  ("_generate_simple_query.path_resolver", ["<except Exception>", "<raise e>", "_", "isinstance"]),
  ("__eq__", ["self._generate_simple_query"]),
  ("__ne__", ["self._generate_simple_query"]),
  ("__lt__", ["self._generate_simple_query"]),
  ("__le__", ["self._generate_simple_query"]),
  ("__gt__", ["self._generate_simple_query"]),
  ("__ge__", ["self._generate_simple_query"]),
  ("__and__", ["<raise RuntimeError>", "RuntimeError"]),
  ("__or__", ["<raise RuntimeError>", "RuntimeError"]),
  ("__invert__", ["<raise RuntimeError>", "RuntimeError"]),
  ("test", ["self._generate_simple_query"]),
  ("is_hashable", []),
  ("matches", ["self._generate_simple_query"]),
  ("matches.test", ["isinstance", "re.match"]),
  ("search", ["self._generate_simple_query"]),
  ("search.test", ["isinstance", "re.search"]),
  ("noop", ["SimpleQuery"]),
  ("map", ["type", "type(self)"])]

/-- queries.TagQuery: function ↦ what it calls, catches, raises -/
def calls_queries_TagQuery : List (String × List String) := [
  ("__init__", ["super", "super().__init__"]),
  ("exists", ["self._generate_simple_query"])]

/-- queries.FieldQuery: function ↦ what it calls, catches, raises -/
def calls_queries_FieldQuery : List (String × List String) := [
  ("__init__", ["super", "super().__init__"]),
  ("exists", ["self._generate_simple_query"]),
  ("matches", ["<raise RuntimeError>", "RuntimeError"]),
  ("search", ["<raise RuntimeError>", "RuntimeError"])]

/-- queries.MeasurementQuery: function ↦ what it calls, catches, raises -/
def calls_queries_MeasurementQuery : List (String × List String) := [
  ("__init__", ["super", "super().__init__"])]

/-- queries.TimeQuery: function ↦ what it calls, catches, raises -/
def calls_queries_TimeQuery : List (String × List String) := [
  ("__init__", ["super", "super().__init__"]),
  ("matches", ["<raise RuntimeError>", "RuntimeError"]),
  ("search", ["<raise RuntimeError>", "RuntimeError"])]

/-- point (module-level functions): function ↦ what it calls, catches, raises -/
def calls_point_toplevel : List (String × List String) := [
  ("validate_tags", ["<raise ValueError>", "ValueError", "_.keys", "_.values", "all", "isinstance"]),
  ("validate_fields", ["<raise ValueError>", "ValueError", "_.values", "all", "isinstance"])]

/-- point.Point: function ↦ what it calls, catches, raises -/
def calls_point_Point : List (String × List String) := [
  ("__init__", ["<raise TypeError>", "TypeError", "_.get", "datetime.now", "self._validate_kwargs"]),
  ("time", []),
  ("time.setter", ["<raise ValueError>", "ValueError", "isinstance"]),
  ("measurement", []),
  ("measurement.setter", ["<raise ValueError>", "ValueError", "isinstance"]),
  ("tags", []),
  ("tags.setter", ["validate_tags"]),
  ("fields", []),
  ("fields.setter", ["validate_fields"]),
  ("__eq__", ["isinstance"]),
  ("__repr__", ["'; '.join", "self._fields.items", "self._tags.items", "self._time.isoformat", "str"]),
  ("_deserialize_from_list", ["<except Exception>", "_.isdigit", "_[1:].isdigit", "datetime.fromisoformat", "datetime.fromisoformat(row[0]).replace", "float", "int", "len", "str"]),
  ("_serialize_to_list", ["float", "self._fields.items", "self._tags.items", "self._time.replace", "self._time.replace(tzinfo=None).isoformat", "str"]),
  ("_validate_kwargs", ["', '.join", "<raise TypeError>", "<raise ValueError>", "TypeError", "ValueError", "_.keys", "isinstance", "list", "set", "sorted", "validate_fields", "validate_tags"])]

/-- utils (module-level functions): function ↦ what it calls, catches, raises -/
def calls_utils_toplevel : List (String × List String) := [
  ("freeze", ["FrozenDict", "_.items", "freeze", "frozenset", "isinstance", "tuple"]),
  ("find_eq", ["bisect.bisect_left", "len"]),
  ("find_lt", ["bisect.bisect_left"]),
  ("find_le", ["bisect.bisect_right"]),
  ("find_gt", ["bisect.bisect_right", "len"]),
  ("find_ge", ["bisect.bisect_left", "len"])]

/-- utils.FrozenDict: function ↦ what it calls, catches, raises -/
def calls_utils_FrozenDict : List (String × List String) := [
  ("__hash__", ["hash", "self.items", "sorted", "tuple"]),
  ("_immutable", ["<raise TypeError>", "TypeError"]),
  ("update", ["<raise TypeError>", "TypeError"]),
  ("pop", ["<raise TypeError>", "TypeError"])]

def callGraphTables : List String := ["calls_index_toplevel", "calls_index_IndexResult", "calls_index_Index", "calls_storages_toplevel", "calls_storages_Storage", "calls_storages_CSVStorage", "calls_storages_MemoryStorage", "calls_database_toplevel", "calls_database_TinyFlux", "calls_measurement_toplevel", "calls_measurement_Measurement", "calls_queries_toplevel", "calls_queries_CompoundQuery", "calls_queries_SimpleQuery", "calls_queries_BaseQuery", "calls_queries_TagQuery", "calls_queries_FieldQuery", "calls_queries_MeasurementQuery", "calls_queries_TimeQuery", "calls_point_toplevel", "calls_point_Point", "calls_utils_toplevel", "calls_utils_FrozenDict"]

end TinyFlux.Model.CallGraph
