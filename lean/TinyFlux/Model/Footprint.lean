/-! # The state the Model has, in the code's names

`Generated/Footprint.lean` lists, per class of tinyflux, every attribute of `self` (or of the class) that is
assigned anywhere in it, and per module the module-level variables, the decorators in use and the closure /
default-argument state. Below is the same listing as the Model understands it: every entry names the component of
the Model's state (or the constant) that stands for it. The property files prove `Generated = Model` for the
classes their theorems speak about: state the code keeps and the Model does not have — a cache, a memo table, a
"cursor is at the end" flag — is behaviour no theorem here covers, and breaks that obligation. -/
namespace TinyFlux.Model.Footprint

/-- `Index` ↦ `Model.Index`: `numItems`, `tags`, `fields`, `meas`, `ts` (`_timestamps` zipped with
    `_storage_pos_sorted_by_ts`), `valid` -/
def index : List String :=
  ["_fields", "_measurements", "_num_items", "_storage_pos_sorted_by_ts", "_tags", "_timestamps", "_valid"]

/-- `IndexResult` ↦ the pair (positions, universe size) of `Model.Index` searches -/
def indexResult : List String := ["_index_count", "_items"]

/-- `CSVStorage` ↦ `Model.IO.FS` (`_handle` ↦ primary file + buffer + cursor, `_temp_handle` ↦ `temp`), the
    configuration (`_path _mode _encoding _newline kwargs _flush_on_insert`: parameters of a run, fixed by the
    constructor), `_initially_empty` (only read by the constructor of the database), `_latest_time` (written once,
    never read), the two column positions -/
def csvStorage : List String :=
  ["_encoding", "_flush_on_insert", "_handle", "_initially_empty", "_latest_time", "_mode", "_newline", "_path",
   "_temp_handle", "class:_measurement_idx", "class:_timestamp_idx", "kwargs"]

/-- `MemoryStorage` ↦ `State.storage` and the temporary list of a rewrite -/
def memoryStorage : List String := ["_initially_empty", "_memory", "_temp_memory"]

/-- `TinyFlux` ↦ `Model.State`: `cfg.autoIndex`, `index`, `storage`; `_open` (gate, C15), `_measurements` (the handle
    table: a handle is the pair (database, name), so a cached handle and a fresh one are the same value) -/
def tinyFlux : List String :=
  ["_auto_index", "_index", "_measurements", "_open", "_storage", "class:default_measurement_name",
   "class:default_storage_class"]

/-- `Measurement` ↦ the operation with `m := some name` -/
def measurement : List String := ["_db", "_name"]

/-- the query classes ↦ `Spec.Query` / `Model.QHash`: a leaf is (attribute, path, operator, rhs, test) and its hash
    tuple; a compound is (operator, q1, q2) and its hash -/
def queries : List (String × List String) :=
  [("queries.CompoundQuery", ["_hash", "operator", "query1", "query2"]),
   ("queries.SimpleQuery", ["_hash", "_operator", "_path_resolver", "_point_attr", "_rhs", "_test"]),
   ("queries.BaseQuery", ["_hash", "_path", "_path_required", "_point_attr"]),
   ("queries.TagQuery", ["_hash", "_path_required", "_point_attr"]),
   ("queries.FieldQuery", ["_hash", "_path_required", "_point_attr"]),
   ("queries.MeasurementQuery", ["_hash", "_path_required", "_point_attr"]),
   ("queries.TimeQuery", ["_hash", "_path_required", "_point_attr"])]

/-- `Point` ↦ `Spec.Point` (time, measurement, tags, fields) and the codec constants of `Generated.Codec` -/
def point : List String :=
  ["_fields", "_measurement", "_tags", "_time", "class:__slots__", "class:_compact_field_key_prefix",
   "class:_compact_tag_key_prefix", "class:_default_field_key_prefix", "class:_default_tag_key_prefix",
   "class:_none_str", "class:_valid_kwargs", "class:default_measurement_name"]

/-- every class of the seven modules (a new class is new state until the Model says what it stands for) -/
def classNames : List String :=
  ["index.IndexResult", "index.Index", "storages.Storage", "storages.CSVStorage", "storages.MemoryStorage",
   "database.TinyFlux", "measurement.Measurement", "queries.CompoundQuery", "queries.SimpleQuery",
   "queries.BaseQuery", "queries.TagQuery", "queries.FieldQuery", "queries.MeasurementQuery", "queries.TimeQuery",
   "point.Point", "utils.FrozenDict"]

/-- the empty default lists `tag_keys=[]` / `points=[]` are never mutated (read-only defaults) -/
def readOnlyDefaults : List String :=
  ["mutable default in get_tag_values: []", "mutable default in insert: []"]

/-- per module: (module-level variables — type aliases only —, decorators in use, closure / default-argument state) -/
def modules : List (String × List String × List String × List String) :=
  [("index", [], ["property"], ["mutable default in get_tag_values: []", "mutable default in insert: []"]),
   ("storages", ["CSVStorageItem", "MemStorageItem"], ["abstractmethod", "property"], []),
   ("database", [], ["append_op", "property", "read_op", "temp_storage_op", "wraps(method)", "write_op"],
     ["mutable default in get_tag_values: []"]),
   ("measurement", [], ["property"], ["mutable default in get_tag_values: []"]),
   ("queries", ["Query"], ["property"], []),
   ("point", ["FieldSet", "FieldValue", "TagSet"],
     ["fields.setter", "measurement.setter", "property", "tags.setter", "time.setter"], []),
   ("utils", [], [], [])]

/-- the listing of the named classes in the generated table -/
def pick (table : List (String × List String)) (names : List String) : List (String × List String) :=
  names.map fun n => (n, (table.lookup n).getD ["<class missing>"])

end TinyFlux.Model.Footprint
