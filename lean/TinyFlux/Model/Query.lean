import TinyFlux.Spec.Basic
/-!
# Model of `tinyflux/queries.py`: how a query object is evaluated on a point

Mirrors the code: `SimpleQuery.__call__` takes the point attribute, walks the path (a key, then any
`map` functions) inside a `try/except` that turns *any* failure into `False`, then calls `test`;
`test` swallows exceptions only for comparisons against a right-hand side; `CompoundQuery.__call__`
applies `operator.and_/or_/not_` to the (always both evaluated) operand results.
Exceptions are modelled explicitly, so "never raises" is a theorem (C09), not a convention.
-/
namespace TinyFlux.Model
open TinyFlux.Spec

inductive Exc | type | key | user
deriving DecidableEq, Repr

/-- Python's `operator.<c>(a, b)`: `==`/`!=` never raise, order comparisons raise `TypeError`
    for `None` and across types. -/
def pyOp : Cmp → PyV → PyV → Except Exc Bool
  | .eq, a, b => pure (a == b)
  | .ne, a, b => pure (a != b)
  | c, .str a, .str b => pure (ordCmp c (a < b) (a == b))
  | c, .num a, .num b => pure (ordCmp c (a.lt b) (a == b))
  | c, .time a, .time b => pure (ordCmp c (a < b) (a == b))
  | _, _, _ => throw .type

/-- the rest of the path after the key: `map` functions, applied in order; a raising function
    raises out of `path_resolver` -/
def resolveMaps : Leaf → PyV → Except Exc (Leaf × PyV)
  | .map g t, v => match g v with
    | some v' => resolveMaps t v'
    | none => throw .user
  | l, v => pure (l, v)

/-- `SimpleQuery._test` on the resolved value -/
def testLeaf : Leaf → PyV → Except Exc Bool
  | .cmp c rhs, v =>            -- test_against_rhs: `try: return operator(x, rhs) except: return False`
    match pyOp c v rhs with
    | .ok b => pure b
    | .error _ => pure false
  | .exists, _ => pure true      -- `lambda _: True`
  | .regex r, .str s => pure (r s)     -- `isinstance(value, str) and re.match(...) is not None`
  | .regex _, _ => pure false
  | .test f, v => pure (f v)     -- user predicate, called unprotected
  | .map _ _, _ => throw .type   -- unreachable: `resolveMaps` consumes every `map`

/-- `SimpleQuery.__call__` once the attribute (and key) lookup gave `v` -/
def callOn (l : Leaf) (v : PyV) : Except Exc Bool :=
  match resolveMaps l v with
  | .error _ => pure false       -- `except Exception: return False`
  | .ok (l', v') => testLeaf l' v'

/-- `query(point)` -/
def eval : Query → Point → Except Exc Bool
  | .time l, p => callOn l (.time p.time)
  | .meas l, p => callOn l (.str p.meas)
  | .tag k l, p => match p.tags.lookup k with
    | none => pure false         -- `KeyError` inside `path_resolver`
    | some v => callOn l (ofOptStr v)
  | .field k l, p => match p.fields.lookup k with
    | none => pure false
    | some v => callOn l (ofOptNum v)
  | .noop, _ => pure true
  | .not q, p => do let a ← eval q p; pure (!a)
  | .and q r, p => do let a ← eval q p; let b ← eval r p; pure (a && b)
  | .or q r, p => do let a ← eval q p; let b ← eval r p; pure (a || b)

/-- the scan path's use of a query: an exception propagates to the caller -/
def evalB (q : Query) (p : Point) : Bool := match eval q p with | .ok b => b | .error _ => false

end TinyFlux.Model
