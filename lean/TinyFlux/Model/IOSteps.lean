import TinyFlux.Model.DB
import TinyFlux.Model.IO
/-!
# Which I/O calls each API operation makes on a CSV database

`opSteps s flush op` predicts the sequence of I/O calls (as `IO.Step`s whose rows are the stored points) that the
operation `op` makes in state `s`, by following the same control flow as `Model/DB.lean` and composing
the step lists of `Model/IO.lean` (`appendSteps`, `scanSteps`, `rewriteSteps`, `noopRewriteSteps`,
`resetInTempSteps`, `resetSteps`) — the lists the crash / fault / side-effect theorems are about.
The harness compares the prediction with the calls recorded on the real code for every operation of
every generated history; that comparison is the tie between those theorems and `storages.py` /
`database.py`.
-/
namespace TinyFlux.Model
open TinyFlux.Spec TinyFlux.Model.IO

/-- the rows of the I/O model are the (decoded) stored points themselves -/
abbrev RowId := Point

/-- the read that `read_op` triggers when the index must be rebuilt -/
def reindexSteps (s : State) : List (Step RowId) :=
  if s.cfg.autoIndex && !s.index.valid then scanSteps else []

/-- does `found` iterate storage? (`none`-free summary of its control flow) -/
def foundScans (s : State) (q : Query) (m : Option String) : Bool :=
  if s.index.valid && exact q then
    match s.indexSearch q m with
    | .ok items => !items.isEmpty
    | .error _ => false
  else true

def removeSteps (s0 : State) (flush : Bool) (q : Query) (m : Option String) : List (Step RowId) :=
  let pre := reindexSteps s0
  let s := s0.readOp
  pre ++
  (if s.index.valid && exact q then
    match s.indexSearch q m with
    | .error _ => noopRewriteSteps flush [] false
    | .ok items =>
      if items.isEmpty then noopRewriteSteps flush [] false
      else if items.length == s.index.numItems then resetInTempSteps flush [] false
      else
        let rows := s.storage.zipIdx.map (fun pi => if items.contains pi.2 then none else some pi.1)
        if rows.all Option.isSome then noopRewriteSteps flush rows true
        else if rows.all Option.isNone then resetInTempSteps flush rows true
        else rewriteSteps flush rows false
  else
    match s.storage.mapM (State.scanSel q m) with
    | .error _ => noopRewriteSteps flush [] false
    | .ok flags =>
      let rows := (s.storage.zip flags).map (fun pf => if pf.2 then none else some pf.1)
      if rows.all Option.isSome then noopRewriteSteps flush rows true
      else if rows.all Option.isNone then resetInTempSteps flush rows true
      else rewriteSteps flush rows false)

/-- the streaming loop of an update: every row is read; a kept row is staged as it is, a selected row as
    its updated version (or as it is when the update changes nothing); the first selected row whose
    callable raises ends the stream (second component `false`) with nothing staged for it -/
def updateStream (norm : Point → Point) (flush : Bool) (u : Upd) : List (Point × Bool) → List (Step RowId) × Bool
  | [] => ([.pRead], true)
  | (p, true) :: t =>
    match upd u p with
    | .error _ => ([.pRead], false)
    | .ok p' =>
      let (r, ok) := updateStream norm flush u t
      (.pRead :: stageRow flush (if p'.eqv p then p else norm p') ++ r, ok)
  | (p, false) :: t =>
    let (r, ok) := updateStream norm flush u t
    (.pRead :: stageRow flush p ++ r, ok)

def updateSteps (s0 : State) (flush : Bool) (all : Bool) (q : Query) (u : Upd) (m : Option String) :
    List (Step RowId) :=
  let pre := reindexSteps s0
  let s := s0.readOp
  pre ++
  (if Spec.updEmpty u then [.tCreate, .tClose, .tUnlink] else
   match s.updateSel all q m with
   | .error _ => [.tCreate, .tClose, .tUnlink]
   | .ok none => [.tCreate, .tClose, .tUnlink]
   | .ok (some rows) =>
     let (stream, ok) := updateStream s.cfg.norm flush u rows
     if !ok then [.tCreate, .pSeek0] ++ stream ++ [.tClose, .tUnlink]
     else
       match State.updateLoop s.cfg.norm u rows with
       | .error _ => [.tCreate, .pSeek0] ++ stream ++ [.tClose, .tUnlink]
       | .ok (_, c) =>
         if c == 0 then [.tCreate, .pSeek0] ++ stream ++ [.tClose, .tUnlink]
         else [.tCreate, .pSeek0] ++ stream ++ swapSteps ++ (if s.cfg.autoIndex then scanSteps else []) ++ [.tClose])

/-- the rows an insert appends before it stops at a non-Point: what `insertLoop` stores -/
def insertedRows (cfg : Cfg) (m : Option String) : List (Option Point) → List Point
  | [] => []
  | none :: _ => []
  | some p :: t =>
    cfg.norm (match effMeas m with | some name => { p with meas := name } | none => p) :: insertedRows cfg m t

def opSteps (s : State) (flush : Bool) : Op → List (Step RowId)
  | .insert pts m => appendSteps flush (insertedRows s.cfg m pts)
  | .search q m _ => reindexSteps s ++ (if foundScans s.readOp q m then scanSteps else [])
  | .get q m => reindexSteps s ++ (if foundScans s.readOp q m then scanSteps else [])
  | .select _ q m => reindexSteps s ++ (if foundScans s.readOp q m then scanSteps else [])
  | .count q _ | .contains q _ =>
    reindexSteps s ++ (if s.readOp.index.valid && exact q then [] else scanSteps)
  | .getMeasurements | .getTagKeys _ | .getTagValues _ _ | .getFieldKeys _ | .getFieldValues _ _
  | .getTimestamps _ => reindexSteps s ++ (if s.readOp.index.valid then [] else scanSteps)
  | .len | .mlen _ => if s.cfg.autoIndex && s.index.valid then [] else scanSteps
  | .iter | .miter _ | .mall _ _ => scanSteps
  | .all _ => reindexSteps s ++ scanSteps
  | .remove q m => removeSteps s flush q m
  | .drop name => removeSteps s flush (.meas (.cmp .eq (.str name))) (some name)
  | .removeAll => resetSteps
  | .update all q u m => updateSteps s flush all q u m
  | .reindex => if s.index.valid then [] else scanSteps

/-- canonical names (as `harness/ioproxy.py` prints them), consecutive reads collapsed -/
def stepName : Step RowId → String
  | .pOpen => "P.open(r+)" | .pClose => "P.close" | .pSeek0 => "P.seek0" | .pSeekEnd => "P.seekEnd"
  | .pRead => "P.read" | .pWrite _ => "P.write" | .pFlush => "P.flush" | .pFsync => "P.fsync"
  | .pTruncate => "P.truncate" | .tCreate => "T.create" | .tSeekEnd => "T.seekEnd" | .tWrite _ => "T.write"
  | .tFlush => "T.flush" | .tFsync => "T.fsync" | .tTruncate => "T.truncate" | .tClose => "T.close"
  | .tUnlink => "T.unlink" | .replace => "replace"

def collapseReads : List String → List String
  | a :: b :: t => if a == "P.read" && b == "P.read" then collapseReads (b :: t) else a :: collapseReads (b :: t)
  | l => l

def opStepNames (s : State) (flush : Bool) (op : Op) : List String :=
  collapseReads ((opSteps s flush op).map stepName)

end TinyFlux.Model
